import ScVerif.Base.Line
/-!
C07 — rim model of round 8 (second): a NESTED update mask and the in-place filter of a write's source.

`FieldUpdater.Merge` filters its source in place (`updateMask.Filter(src)`); with a path BELOW a message field
(`preset.name`) the filter descends into the source's sub-message and clears fields THERE: a write edits the
sub-messages its source refers to. lightpb `Model.UpdateBrightness` first puts the selected preset into the caller's
message (`setLevelFromPreset`) and then hands that message to `brightness.Set`: whatever `light.Preset` refers to at
that moment is written by the filter. The code as it is plants a CLONE of the configured preset (`setLevel`); the
shape of seeded change C07-19 (and of the code before ddd33a0) plants the configured preset itself
(`setLevelLegacy`).

Brightness cells refer to preset cells; masks are {level_percent} x {nothing, `preset`, a non-empty subset of
`preset.name` / `preset.title`} (a path list containing `preset` and paths below it means `preset`:
`withoutNestedPaths`). The brightness resource has no writable-fields restriction here (the default model).
-/
namespace ScVerif.C07.Rim7

/-- a `traits.LightPreset` -/
structure P where
  name : String
  title : String
  deriving DecidableEq

/-- a `traits.Brightness`: the level and a reference to its `preset` message -/
structure B where
  level : Int
  preset : Option Nat
  deriving DecidableEq

structure H where
  bs : Nat → B
  bn : Nat
  ps : Nat → P
  pn : Nat

def H.allocB (h : H) (b : B) : H × Nat :=
  ({ h with bs := fun x => if x = h.bn then b else h.bs x, bn := h.bn + 1 }, h.bn)

def H.allocP (h : H) (p : P) : H × Nat :=
  ({ h with ps := fun x => if x = h.pn then p else h.ps x, pn := h.pn + 1 }, h.pn)

def H.setB (h : H) (r : Nat) (b : B) : H := { h with bs := fun x => if x = r then b else h.bs x }

def H.setP (h : H) (r : Nat) (p : P) : H := { h with ps := fun x => if x = r then p else h.ps x }

/-- what a holder of the brightness `b` sees -/
def deep (h : H) (b : Nat) : Int × Option P := ((h.bs b).level, (h.bs b).preset.map h.ps)

/-- the part of a mask below `preset` -/
inductive PM where
  | no
  | whole
  | sub (name title : Bool)
  deriving DecidableEq

structure Mask where
  level : Bool
  preset : PM
  deriving DecidableEq

def Mask.isEmpty (m : Mask) : Bool := !m.level && (m.preset = .no)

def filterP (n t : Bool) (p : P) : P := ⟨if n then p.name else "", if t then p.title else ""⟩

/-- `updateMask.Filter(src)`: top-level fields outside the mask are cleared; under a nested mask the SUB-MESSAGE the
source refers to is filtered where it is -/
def filterSrc (m : Mask) (h : H) (src : Nat) : H :=
  let s := h.bs src
  let h1 := h.setB src { level := if m.level then s.level else 0,
                         preset := if m.preset = .no then none else s.preset }
  match m.preset, s.preset with
  | .sub n t, some p => h1.setP p (filterP n t (h.ps p))
  | _, _ => h1

def mergeP (d s : P) : P := ⟨if s.name = "" then d.name else s.name, if s.title = "" then d.title else s.title⟩

/-- `proto.Merge(dst, src)` -/
def protoMerge (h : H) (dst src : Nat) : H :=
  let s := h.bs src
  let d := h.bs dst
  let d1 : B := { d with level := if s.level = 0 then d.level else s.level }
  match s.preset with
  | none => h.setB dst d1
  | some sp =>
    match d.preset with
    | none => ((h.allocP (h.ps sp)).1).setB dst { d1 with preset := some h.pn }
    | some dp => (h.setP dp (mergeP (h.ps dp) (h.ps sp))).setB dst d1

/-- `pruneEmpty(dst, src, mask)`: what the mask mentions and `src` lacks is cleared in `dst` (below `preset`: in
`dst`'s own sub-message) -/
def pruneEmpty (m : Mask) (h : H) (dst src : Nat) : H :=
  let s := h.bs src
  let d := h.bs dst
  let h1 := h.setB dst { d with level := if m.level && s.level = 0 then 0 else d.level }
  match d.preset with
  | none => h1
  | some dp =>
    match m.preset with
    | .no => h1
    | .whole =>
      (match s.preset with
       | none => h1.setB dst { (h1.bs dst) with preset := none }
       | some _ => h1)
    | .sub n t =>
      match s.preset with
      | none => h1.setP dp ⟨if n then "" else (h.ps dp).name, if t then "" else (h.ps dp).title⟩
      | some sp => h1.setP dp ⟨if n && (h.ps sp).name = "" then "" else (h.ps dp).name,
                               if t && (h.ps sp).title = "" then "" else (h.ps dp).title⟩

/-- `FieldUpdater.Merge(dst, src)` without writable-fields restriction -/
def merge (u : Option Mask) (h : H) (dst src : Nat) : H :=
  match u with
  | none => protoMerge (h.setB dst ⟨0, none⟩) dst src
  | some m => if m.isEmpty then h else pruneEmpty m (protoMerge (filterSrc m h src) dst src) dst src

/-- `proto.Clone` -/
def clone (h : H) (b : Nat) : H × Nat :=
  match (h.bs b).preset with
  | none => h.allocB (h.bs b)
  | some p => ((h.allocP (h.ps p)).1).allocB { (h.bs b) with preset := some h.pn }

/-- `Value.Set(src, WithUpdateMask(u))` -/
def valueSet (u : Option Mask) (h : H) (old src : Nat) : H × Nat :=
  let hd := clone h old
  (merge u hd.1 hd.2 src, hd.2)

/-- the preset table of the model: configured preset message and level -/
abbrev Table := List (Nat × Int)

def findPreset (h : H) (table : Table) (name : String) : Option (Nat × Int) :=
  table.find? (fun pl => (h.ps pl.1).name = name)

/-- `setLevelFromPreset(b)` as it is: the level and a CLONE of the configured preset go into the caller's message -/
def setLevel (h : H) (table : Table) (b : Nat) : H × Bool :=
  match (h.bs b).preset with
  | none => (h, false)
  | some bp =>
    match findPreset h table (h.ps bp).name with
    | none => (h, false)
    | some pl => (((h.allocP (h.ps pl.1)).1).setB b ⟨pl.2, some h.pn⟩, true)

/-- the shape of seeded change C07-19 / the code before ddd33a0: the configured preset itself -/
def setLevelLegacy (h : H) (table : Table) (b : Nat) : H × Bool :=
  match (h.bs b).preset with
  | none => (h, false)
  | some bp =>
    match findPreset h table (h.ps bp).name with
    | none => (h, false)
    | some pl => (h.setB b ⟨pl.2, some pl.1⟩, true)

/-- `WithMoreUpdatePaths("level_percent")`: added to a mask that is there -/
def moreLevel (sel : Bool) (u : Option Mask) : Option Mask :=
  if sel then u.map (fun m => { m with level := true }) else u

/-- `Model.UpdateBrightness(light, WithUpdateMask(u))` -/
def update (table : Table) (u : Option Mask) (h : H) (stored b : Nat) : H × Nat :=
  let r := setLevel h table b
  valueSet (moreLevel r.2 u) r.1 stored b

def updateLegacy (table : Table) (u : Option Mask) (h : H) (stored b : Nat) : H × Nat :=
  let r := setLevelLegacy h table b
  valueSet (moreLevel r.2 u) r.1 stored b

/-! ### driver -/

/-- `-` no mask; else `<l><p>` with l ∈ {0,1} and p ∈ {n (nothing), w (preset), a (preset.name), t (preset.title),
b (both)}; `0n` is the empty mask -/
def parseMask? (s : String) : Option (Option Mask) :=
  if s = "-" then some none
  else match s.toList with
    | [l, p] =>
      let pm : Option PM := match p with
        | 'n' => some .no
        | 'w' => some .whole
        | 'a' => some (.sub true false)
        | 't' => some (.sub false true)
        | 'b' => some (.sub true true)
        | _ => none
      if l = '0' || l = '1' then pm.map fun pm => some ⟨l = '1', pm⟩ else none
    | _ => none

def showP (p : P) : String := s!"{p.name}~{p.title}"

def showDeep (d : Int × Option P) : String :=
  s!"{d.1}/{match d.2 with | some p => showP p | none => "-"}"

/-- `name~title` -/
def parseP? (s : String) : Option P :=
  match s.splitOn "~" with
  | [a, b] => some ⟨a, b⟩
  | _ => none

/-- `level/name~title`, a dash for no preset -/
def parseB? (s : String) : Option (Int × Option P) :=
  match s.splitOn "/" with
  | [l, p] => match l.toInt? with
    | some l => if p = "-" then some (l, none) else (parseP? p).map fun p => (l, some p)
    | none => none
  | _ => none

/-- brightness cells and the preset cells they refer to, numbered from `next` on -/
def mkCells : List (Int × Option P) → Nat → List B × List P
  | [], _ => ([], [])
  | (l, some p) :: rest, next => let r := mkCells rest (next + 1); (⟨l, some next⟩ :: r.1, p :: r.2)
  | (l, none) :: rest, next => let r := mkCells rest next; (⟨l, none⟩ :: r.1, r.2)

/-- the calls of a script: call `k` uses the caller's brightness cell `k + 1` -/
def runCalls (legacy : Bool) (table : Table) : H → Nat → Nat → List (Option Mask) → List String → H × Nat × List String
  | h, stored, _, [], out => (h, stored, out.reverse)
  | h, stored, k, u :: rest, out =>
    let pn0 := h.pn
    let r := if legacy then updateLegacy table u h stored (k + 1) else update table u h stored (k + 1)
    -- the value handed back; `a`: its preset message existed before the call
    let o := s!"{showDeep (deep r.1 r.2)}{match (r.1.bs r.2).preset with | some p => if p < pn0 then "a" else "" | none => ""}"
    runCalls legacy table r.1 r.2 (k + 1) rest (o :: out)

/-- `rim light <presets name~title@level;…|-> <initial level/preset> <call;call>` with call = `<mask>=<level/preset>`:
brightness cell 0 is the stored value, cells 1.. the caller's messages (one per call); preset cells: the configured
presets first, then the stored value's, then the callers'. Answer: the value every call hands back, `|presets=` the
configured presets afterwards, `|own=` the caller's messages afterwards. -/
def handleLightWith (legacy : Bool) (toks : List String) : String :=
  match toks with
  | [prs, ini, calls] =>
    let prsL : Option (List (P × Int)) :=
      if prs = "-" then some [] else (prs.splitOn ";").mapM fun s =>
        match s.splitOn "@" with
        | [p, l] => match parseP? p, l.toInt? with
          | some p, some l => some (p, l)
          | _, _ => none
        | _ => none
    let callsL : Option (List (Option Mask × (Int × Option P))) := (calls.splitOn ";").mapM fun s =>
      match s.splitOn "=" with
      | [m, b] => match parseMask? m, parseB? b with
        | some m, some b => some (m, b)
        | _, _ => none
      | _ => none
    match prsL, parseB? ini, callsL with
    | some prsL, some ini, some callsL =>
      let bsAll : List (Int × Option P) := ini :: callsL.map (·.2)
      let np := prsL.length
      let cells := mkCells bsAll np
      let psAll := prsL.map (·.1) ++ cells.2
      let h : H := { bs := fun x => cells.1.getD x ⟨0, none⟩, bn := cells.1.length, ps := fun x => psAll.getD x ⟨"", ""⟩, pn := psAll.length }
      let table : Table := (List.range np).map fun i => (i, (prsL.getD i (⟨"", ""⟩, 0)).2)
      let (h', _, outs) := runCalls legacy table h 0 0 (callsL.map (·.1)) []
      ",".intercalate outs ++ "|presets=" ++ ";".intercalate ((List.range np).map fun i => showP (h'.ps i)) ++
        "|own=" ++ ";".intercalate ((List.range callsL.length).map fun k => showDeep (deep h' (k + 1)))
    | _, _, _ => "!bad-op"
  | _ => "!bad-op"

def handleLight (toks : List String) : String := handleLightWith false toks

end ScVerif.C07.Rim7
