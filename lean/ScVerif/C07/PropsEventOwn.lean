import ScVerif.C07.EventOwnLemmas
/-!
# C07 — who holds which message: stored messages are shared, filtered clones are private

With a ghost owner on every message cell (`none`: a writer stored it — the stored message itself; `some i`: a clone made
by the read-mask filter of subscriber `i`), for ANY interleaving of stores, sends and seeds that carry stored messages
(`OKfrom`: what writers and `Pull` do) and pipeline steps of any number of subscribers (backpressure / lossy, masked or not, Collection or
Value, include deciding anything, before or behind the merger):

* `C07_unmasked_events_carry_stored_messages` — the values of every event an UNMASKED subscriber's consumer has received
  are stored messages: the very cells `Get`, the write result, `Delete` and every other unmasked subscriber hold.  There is
  no copy between them, so their isolation is `C07_event_values_immutable` (nobody writes) and nothing else;
* `C07_masked_event_values_private` — the values of every event a MASKED subscriber's consumer has received are clones its
  own filter made: no bus event, no merger copy and no event any other subscriber's consumer holds refers to them.

The ghost does not influence the run (`(grun …).v = vrun …`).
-/
namespace ScVerif.C07.Events

/-- **C07_unmasked_events_carry_stored_messages.** -/
theorem C07_unmasked_events_carry_stored_messages {M : Type} [Inhabited M] (pm : M → M) (steps : List (VStep M))
    (hok : OKfrom pm (GS.init : GS M) steps) :
    let g := grun pm (GS.init : GS M) steps
    g.v = vrun pm VS.init steps ∧
    ∀ sb, sb ∈ g.v.es.subs → sb.mask = false → ∀ c, c ∈ sb.out → ∀ r, r ∈ (g.v.es.heap c).vals →
      r < g.v.mnext ∧ g.mown r = none := by
  intro g
  have hi : GInv g := grun_inv pm steps _ GInv.init hok
  refine ⟨grun_v pm steps _, fun sb hsb hm c hc r hr => ?_⟩
  have := hi.out sb hsb c hc r hr
  rw [hm] at this
  exact this

/-- **C07_masked_event_values_private.** -/
theorem C07_masked_event_values_private {M : Type} [Inhabited M] (pm : M → M) (steps : List (VStep M))
    (hok : OKfrom pm (GS.init : GS M) steps) :
    let g := grun pm (GS.init : GS M) steps
    ∀ sb, sb ∈ g.v.es.subs → sb.mask = true → ∀ c, c ∈ sb.out → ∀ r, r ∈ (g.v.es.heap c).vals →
      g.mown r = some sb.idx ∧
      (∀ b, b < g.v.es.next → g.v.es.owner b = none → r ∉ (g.v.es.heap b).vals) ∧
      (∀ sb', sb' ∈ g.v.es.subs → ∀ p, p ∈ sb'.pending → r ∉ p.vals) ∧
      (∀ sb', sb' ∈ g.v.es.subs → ∀ c', c' ∈ sb'.out → r ∈ (g.v.es.heap c').vals → sb'.idx = sb.idx) := by
  intro g sb hsb hm c hc r hr
  have hi : GInv g := grun_inv pm steps _ GInv.init hok
  have ho : g.mown r = some sb.idx := by
    have := (hi.out sb hsb c hc r hr).2
    rw [hm] at this
    exact this
  refine ⟨ho, ?_, ?_, ?_⟩
  · intro b hb hob hrb
    have := (hi.bus b hb hob r hrb).2
    rw [ho] at this
    exact absurd this (by simp)
  · intro sb' hsb' p hp hrp
    have := (hi.pend sb' hsb' p hp r hrp).2
    rw [ho] at this
    exact absurd this (by simp)
  · intro sb' hsb' c' hc' hr'
    have := (hi.out sb' hsb' c' hc' r hr').2
    rw [ho] at this
    cases hm' : sb'.mask
    · rw [hm'] at this; exact absurd this (by simp)
    · rw [hm'] at this; exact (Option.some.inj this).symm

/-! ### Non-vacuity: a run in which every send carries stored messages (`OKfrom`), with an unmasked and a masked
subscriber; the masked one's values are cells 1 and 2 (its clones), the unmasked one's are cell 0 (the stored message) -/

def demo : List (VStep (Nat × Nat)) :=
  [.ev (.sub false false), .ev (.sub false true), .store (4, 7), .ev (.send ⟨.add, 1, none, some 0, false⟩),
   .ev (.forward 0), .ev (.forward 1), .ev (.send ⟨.remove, 1, some 0, none, false⟩), .ev (.forward 0), .ev (.forward 1)]

example : OKfrom (fun m : Nat × Nat => (m.1, 0)) GS.init demo := by decide

example :
    let g := grun (fun m : Nat × Nat => (m.1, 0)) GS.init demo
    g.v.es.subs.map (·.out) = [[0, 2], [1, 3]] ∧ (g.v.es.heap 2).vals = [0] ∧ (g.v.es.heap 3).vals = [2] ∧
      g.mown 0 = none ∧ g.mown 2 = some 1 := by decide

end ScVerif.C07.Events
