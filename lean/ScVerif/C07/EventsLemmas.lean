import ScVerif.C07.Events
/-! Lemmas for the event-object model: frames of the allocation primitives and the two invariants. -/
namespace ScVerif.C07.Events

theorem pushCells_below (cs : List Ev) : ∀ (h : Nat → Ev) (n r : Nat), r < n → pushCells h n cs r = h r := by
  induction cs with
  | nil => intro h n r _; rfl
  | cons c cs ih =>
    intro h n r hr
    simp only [pushCells]
    rw [ih _ (n + 1) r (by omega)]
    simp [Nat.ne_of_lt hr]

theorem setOwner_below (ow : Nat → Option Nat) (n k : Nat) (o : Option Nat) (r : Nat) (hr : r < n) :
    setOwner ow n k o r = ow r := by
  simp only [setOwner]
  rw [if_neg]
  omega

theorem setOwner_at (ow : Nat → Option Nat) (n k : Nat) (o : Option Nat) (r : Nat) (h1 : n ≤ r) (h2 : r < n + k) :
    setOwner ow n k o r = o := by
  simp only [setOwner]
  rw [if_pos ⟨h1, h2⟩]

/-- what every step does to the event heap: it allocates, it never writes below the allocation pointer -/
theorem step_frame (proj : Nat → Nat) (s : ES) (st : Step) :
    s.next ≤ (step proj s st).next ∧ (∀ r, r < s.next → (step proj s st).heap r = s.heap r) ∧
      (∀ r, r < s.next → (step proj s st).owner r = s.owner r) := by
  cases st with
  | sub l m => exact ⟨Nat.le_refl _, fun _ _ => rfl, fun _ _ => rfl⟩
  | vsub l m => exact ⟨Nat.le_refl _, fun _ _ => rfl, fun _ _ => rfl⟩
  | send e =>
    refine ⟨Nat.le_succ _, fun r hr => ?_, fun r hr => ?_⟩
    · exact pushCells_below _ _ _ _ hr
    · exact setOwner_below _ _ _ _ _ hr
  | vsend e =>
    refine ⟨Nat.le_succ _, fun r hr => ?_, fun r hr => ?_⟩
    · exact pushCells_below _ _ _ _ hr
    · exact setOwner_below _ _ _ _ _ hr
  | dropIn i =>
    simp only [step]
    split
    · exact ⟨Nat.le_refl _, fun _ _ => rfl, fun _ _ => rfl⟩
    · split
      · exact ⟨Nat.le_refl _, fun _ _ => rfl, fun _ _ => rfl⟩
      · split
        · exact ⟨Nat.le_refl _, fun _ _ => rfl, fun _ _ => rfl⟩
        · exact ⟨Nat.le_refl _, fun _ _ => rfl, fun _ _ => rfl⟩
  | forward i =>
    simp only [step]
    split
    · exact ⟨Nat.le_refl _, fun _ _ => rfl, fun _ _ => rfl⟩
    · split
      · exact ⟨Nat.le_refl _, fun _ _ => rfl, fun _ _ => rfl⟩
      · split
        · exact ⟨Nat.le_refl _, fun _ _ => rfl, fun _ _ => rfl⟩
        · split
          · exact ⟨Nat.le_succ _, fun r hr => pushCells_below _ _ _ _ hr, fun r hr => setOwner_below _ _ _ _ _ hr⟩
          · exact ⟨Nat.le_refl _, fun _ _ => rfl, fun _ _ => rfl⟩
  | forwardIncl i d =>
    simp only [step]
    split
    · exact ⟨Nat.le_refl _, fun _ _ => rfl, fun _ _ => rfl⟩
    · split
      · exact ⟨Nat.le_refl _, fun _ _ => rfl, fun _ _ => rfl⟩
      · split
        · exact ⟨Nat.le_refl _, fun _ _ => rfl, fun _ _ => rfl⟩
        · split
          · exact ⟨Nat.le_refl _, fun _ _ => rfl, fun _ _ => rfl⟩
          · split
            · exact ⟨Nat.le_add_right _ _, fun r hr => pushCells_below _ _ _ _ hr, fun r hr => setOwner_below _ _ _ _ _ hr⟩
            · exact ⟨Nat.le_succ _, fun r hr => pushCells_below _ _ _ _ hr, fun r hr => setOwner_below _ _ _ _ _ hr⟩
  | mergeIn i =>
    simp only [step]
    split
    · exact ⟨Nat.le_refl _, fun _ _ => rfl, fun _ _ => rfl⟩
    · split
      · exact ⟨Nat.le_refl _, fun _ _ => rfl, fun _ _ => rfl⟩
      · split
        · exact ⟨Nat.le_refl _, fun _ _ => rfl, fun _ _ => rfl⟩
        · exact ⟨Nat.le_refl _, fun _ _ => rfl, fun _ _ => rfl⟩
  | emit i =>
    simp only [step]
    split
    · exact ⟨Nat.le_refl _, fun _ _ => rfl, fun _ _ => rfl⟩
    · split
      · exact ⟨Nat.le_refl _, fun _ _ => rfl, fun _ _ => rfl⟩
      · split
        · exact ⟨Nat.le_refl _, fun _ _ => rfl, fun _ _ => rfl⟩
        · split
          · exact ⟨Nat.le_add_right _ _, fun r hr => pushCells_below _ _ _ _ hr, fun r hr => setOwner_below _ _ _ _ _ hr⟩
          · exact ⟨Nat.le_succ _, fun r hr => pushCells_below _ _ _ _ hr, fun r hr => setOwner_below _ _ _ _ _ hr⟩
  | emitIncl i d =>
    simp only [step]
    split
    · exact ⟨Nat.le_refl _, fun _ _ => rfl, fun _ _ => rfl⟩
    · split
      · exact ⟨Nat.le_refl _, fun _ _ => rfl, fun _ _ => rfl⟩
      · split
        · exact ⟨Nat.le_refl _, fun _ _ => rfl, fun _ _ => rfl⟩
        · split
          · exact ⟨Nat.le_succ _, fun r hr => pushCells_below _ _ _ _ hr, fun r hr => setOwner_below _ _ _ _ _ hr⟩
          · split
            · exact ⟨Nat.le_add_right _ _, fun r hr => pushCells_below _ _ _ _ hr, fun r hr => setOwner_below _ _ _ _ _ hr⟩
            · exact ⟨Nat.le_add_right _ _, fun r hr => pushCells_below _ _ _ _ hr, fun r hr => setOwner_below _ _ _ _ _ hr⟩
  | seed i e =>
    simp only [step]
    split
    · exact ⟨Nat.le_refl _, fun _ _ => rfl, fun _ _ => rfl⟩
    · split
      · exact ⟨Nat.le_add_right _ _, fun r hr => pushCells_below _ _ _ _ hr, fun r hr => setOwner_below _ _ _ _ _ hr⟩
      · exact ⟨Nat.le_succ _, fun r hr => pushCells_below _ _ _ _ hr, fun r hr => setOwner_below _ _ _ _ _ hr⟩

theorem run_frame (proj : Nat → Nat) (steps : List Step) :
    ∀ s : ES, s.next ≤ (run proj s steps).next ∧ (∀ r, r < s.next → (run proj s steps).heap r = s.heap r) ∧
      (∀ r, r < s.next → (run proj s steps).owner r = s.owner r) := by
  induction steps with
  | nil => intro s; exact ⟨Nat.le_refl _, fun _ _ => rfl, fun _ _ => rfl⟩
  | cons st rest ih =>
    intro s
    have a := step_frame proj s st
    have b := ih (step proj s st)
    refine ⟨Nat.le_trans a.1 b.1, fun r hr => ?_, fun r hr => ?_⟩
    · rw [show run proj s (st :: rest) = run proj (step proj s st) rest from rfl, b.2.1 r (by omega), a.2.1 r hr]
    · rw [show run proj s (st :: rest) = run proj (step proj s st) rest from rfl, b.2.2 r (by omega), a.2.2 r hr]

theorem run_append (proj : Nat → Nat) (a b : List Step) : ∀ s : ES, run proj s (a ++ b) = run proj (run proj s a) b := by
  induction a with
  | nil => intro s; rfl
  | cons st rest ih => intro s; exact ih (step proj s st)

/-- The reachability invariant.  Every reference a pipeline holds is allocated; what sits in an inbox
is a bus cell; what a consumer received is either a cell its own pipeline allocated, or — only for an
unmasked subscriber that is backpressured or subscribes to a Value — the bus cell itself. -/
structure Inv (s : ES) : Prop where
  inbox : ∀ sb, sb ∈ s.subs → ∀ r, r ∈ sb.inbox → r < s.next ∧ s.owner r = none
  out : ∀ sb, sb ∈ s.subs → ∀ r, r ∈ sb.out →
    r < s.next ∧ (s.owner r = some sb.idx ∨ (s.owner r = none ∧ sb.mask = false ∧ (sb.lossy = false ∨ sb.value = true)))
  idx : s.subs.map (·.idx) = List.range s.subs.length

theorem Inv.init : Inv ES.init :=
  ⟨fun _ h => by simp [ES.init] at h, fun _ h => by simp [ES.init] at h, rfl⟩

theorem replaceSub_idx (subs : List Sub) (sb : Sub) (f : Sub → Sub) (hf : ∀ x, (f x).idx = x.idx) :
    (replaceSub subs sb f).map (·.idx) = subs.map (·.idx) := by
  simp only [replaceSub, List.map_map]
  apply List.map_congr_left
  intro x _
  simp only [Function.comp]
  split
  · exact hf x
  · rfl

theorem replaceSub_length (subs : List Sub) (sb : Sub) (f : Sub → Sub) : (replaceSub subs sb f).length = subs.length := by
  simp [replaceSub]

theorem mem_replaceSub {subs : List Sub} {sb : Sub} {f : Sub → Sub} {y : Sub} (h : y ∈ replaceSub subs sb f) :
    (y ∈ subs ∧ y ≠ sb) ∨ (y = f sb ∧ sb ∈ subs) := by
  simp only [replaceSub, List.mem_map] at h
  obtain ⟨x, hx, hy⟩ := h
  by_cases hxs : x = sb
  · rw [if_pos hxs] at hy
    subst hxs
    exact Or.inr ⟨hy.symm, hx⟩
  · rw [if_neg hxs] at hy
    subst hy
    exact Or.inl ⟨hx, hxs⟩

/-- a step that only re-arranges a subscriber's references among allocated cells keeps the invariant:
the generic case for steps that may allocate `k` cells owned by `o` -/
theorem Inv.alloc_replace {s : ES} (hi : Inv s) (sb : Sub) (hsb : sb ∈ s.subs) (cells : List Ev) (f : Sub → Sub)
    (hidx : ∀ x, (f x).idx = x.idx) (hlossy : (f sb).lossy = sb.lossy) (hmask : (f sb).mask = sb.mask)
    (hvalue : (f sb).value = sb.value)
    (hin : ∀ r, r ∈ (f sb).inbox → r ∈ sb.inbox)
    (hout : ∀ r, r ∈ (f sb).out → r ∈ sb.out ∨ (s.next ≤ r ∧ r < s.next + cells.length) ∨
      (r ∈ sb.inbox ∧ sb.mask = false ∧ (sb.lossy = false ∨ sb.value = true))) :
    Inv { s with heap := pushCells s.heap s.next cells, owner := setOwner s.owner s.next cells.length (some sb.idx),
                 next := s.next + cells.length, subs := replaceSub s.subs sb f } := by
  refine ⟨?_, ?_, ?_⟩
  · intro y hy r hr
    rcases mem_replaceSub hy with ⟨hys, _⟩ | ⟨hyf, _⟩
    · have := hi.inbox y hys r hr
      exact ⟨by simp only; omega, by simp only; rw [setOwner_below _ _ _ _ _ this.1]; exact this.2⟩
    · subst hyf
      have := hi.inbox sb hsb r (hin r hr)
      exact ⟨by simp only; omega, by simp only; rw [setOwner_below _ _ _ _ _ this.1]; exact this.2⟩
  · intro y hy r hr
    rcases mem_replaceSub hy with ⟨hys, _⟩ | ⟨hyf, _⟩
    · have := hi.out y hys r hr
      refine ⟨by simp only; omega, ?_⟩
      simp only
      rw [setOwner_below _ _ _ _ _ this.1]
      exact this.2
    · subst hyf
      rcases hout r hr with h1 | h2 | h3
      · have := hi.out sb hsb r h1
        refine ⟨by simp only; omega, ?_⟩
        simp only
        rw [setOwner_below _ _ _ _ _ this.1, hidx, hlossy, hmask, hvalue]
        exact this.2
      · refine ⟨by simp only; omega, Or.inl ?_⟩
        simp only
        rw [setOwner_at _ _ _ _ _ h2.1 h2.2, hidx]
      · have := hi.inbox sb hsb r h3.1
        refine ⟨by simp only; omega, Or.inr ?_⟩
        simp only
        rw [setOwner_below _ _ _ _ _ this.1, hlossy, hmask, hvalue]
        exact ⟨this.2, h3.2.1, h3.2.2⟩
  · simp only
    rw [replaceSub_idx _ _ _ hidx, replaceSub_length]
    exact hi.idx

/-- the same without allocation -/
theorem Inv.replace {s : ES} (hi : Inv s) (sb : Sub) (hsb : sb ∈ s.subs) (f : Sub → Sub)
    (hidx : ∀ x, (f x).idx = x.idx) (hlossy : (f sb).lossy = sb.lossy) (hmask : (f sb).mask = sb.mask)
    (hvalue : (f sb).value = sb.value)
    (hin : ∀ r, r ∈ (f sb).inbox → r ∈ sb.inbox)
    (hout : ∀ r, r ∈ (f sb).out → r ∈ sb.out ∨ (r ∈ sb.inbox ∧ sb.mask = false ∧ (sb.lossy = false ∨ sb.value = true))) :
    Inv { s with subs := replaceSub s.subs sb f } := by
  have h := Inv.alloc_replace hi sb hsb [] f hidx hlossy hmask hvalue hin (fun r hr => by
    rcases hout r hr with h1 | h2
    · exact Or.inl h1
    · exact Or.inr (Or.inr h2))
  have e1 : pushCells s.heap s.next [] = s.heap := rfl
  have e2 : setOwner s.owner s.next ([] : List Ev).length (some sb.idx) = s.owner := by
    funext x
    simp only [setOwner, List.length_nil, Nat.add_zero]
    rw [if_neg]
    omega
  rw [e1, e2] at h
  exact h

theorem find_mem {subs : List Sub} {p : Sub → Bool} {sb : Sub} (h : subs.find? p = some sb) : sb ∈ subs :=
  List.mem_of_find?_eq_some h

theorem step_inv (proj : Nat → Nat) (s : ES) (st : Step) (hi : Inv s) : Inv (step proj s st) := by
  cases st with
  | sub l m =>
    refine ⟨?_, ?_, ?_⟩
    · intro y hy r hr
      simp only [step, List.mem_append, List.mem_singleton] at hy
      rcases hy with hy | hy
      · exact hi.inbox y hy r hr
      · subst hy; simp at hr
    · intro y hy r hr
      simp only [step, List.mem_append, List.mem_singleton] at hy
      rcases hy with hy | hy
      · exact hi.out y hy r hr
      · subst hy; simp at hr
    · simp only [step, List.map_append, List.length_append, List.map_cons, List.map_nil, List.length_cons, List.length_nil]
      rw [hi.idx, List.range_succ]
  | vsub l m =>
    refine ⟨?_, ?_, ?_⟩
    · intro y hy r hr
      simp only [step, List.mem_append, List.mem_singleton] at hy
      rcases hy with hy | hy
      · exact hi.inbox y hy r hr
      · subst hy; simp at hr
    · intro y hy r hr
      simp only [step, List.mem_append, List.mem_singleton] at hy
      rcases hy with hy | hy
      · exact hi.out y hy r hr
      · subst hy; simp at hr
    · simp only [step, List.map_append, List.length_append, List.map_cons, List.map_nil, List.length_cons, List.length_nil]
      rw [hi.idx, List.range_succ]
  | send e =>
    refine ⟨?_, ?_, ?_⟩
    · intro y hy r hr
      simp only [step, List.mem_map] at hy
      obtain ⟨x, hx, rfl⟩ := hy
      have key : r ∈ x.inbox ∨ r = s.next := by
        split at hr <;> first | exact Or.inl hr | (simp only [List.mem_append, List.mem_singleton] at hr; exact hr)
      rcases key with hr | hr
      · have := hi.inbox x hx r hr
        exact ⟨by simp only [step]; omega, by simp only [step]; rw [setOwner_below _ _ _ _ _ this.1]; exact this.2⟩
      · subst hr
        exact ⟨by simp only [step]; omega, by simp only [step]; exact setOwner_at _ _ _ _ _ (Nat.le_refl _) (by omega)⟩
    · intro y hy r hr
      simp only [step, List.mem_map] at hy
      obtain ⟨x, hx, rfl⟩ := hy
      have hr' : r ∈ x.out := by split at hr <;> exact hr
      have := hi.out x hx r hr'
      refine ⟨by simp only [step]; omega, ?_⟩
      simp only [step]
      rw [setOwner_below _ _ _ _ _ this.1]
      split <;> exact this.2
    · simp only [step, List.map_map, List.length_map]
      rw [← hi.idx]
      apply List.map_congr_left
      intro x _
      simp only [Function.comp]
      split <;> rfl
  | vsend e =>
    refine ⟨?_, ?_, ?_⟩
    · intro y hy r hr
      simp only [step, List.mem_map] at hy
      obtain ⟨x, hx, rfl⟩ := hy
      have key : r ∈ x.inbox ∨ r = s.next := by
        split at hr <;> first | exact Or.inl hr | (simp only [List.mem_append, List.mem_singleton] at hr; exact hr)
      rcases key with hr | hr
      · have := hi.inbox x hx r hr
        exact ⟨by simp only [step]; omega, by simp only [step]; rw [setOwner_below _ _ _ _ _ this.1]; exact this.2⟩
      · subst hr
        exact ⟨by simp only [step]; omega, by simp only [step]; exact setOwner_at _ _ _ _ _ (Nat.le_refl _) (by omega)⟩
    · intro y hy r hr
      simp only [step, List.mem_map] at hy
      obtain ⟨x, hx, rfl⟩ := hy
      have hr' : r ∈ x.out := by split at hr <;> exact hr
      have := hi.out x hx r hr'
      refine ⟨by simp only [step]; omega, ?_⟩
      simp only [step]
      rw [setOwner_below _ _ _ _ _ this.1]
      split <;> exact this.2
    · simp only [step, List.map_map, List.length_map]
      rw [← hi.idx]
      apply List.map_congr_left
      intro x _
      simp only [Function.comp]
      split <;> rfl
  | forward i =>
    simp only [step]
    split
    · exact hi
    · rename_i sb hf
      have hsb := find_mem hf
      split
      · exact hi
      · rename_i hl
        split
        · exact hi
        · rename_i r rest hib
          split
          · exact Inv.alloc_replace hi sb hsb [projEv proj (s.heap r)] _ (fun _ => rfl) rfl rfl rfl
              (fun x hx => by rw [hib]; exact List.mem_cons_of_mem _ hx)
              (fun x hx => by
                simp only [List.mem_append, List.mem_singleton] at hx
                rcases hx with hx | hx
                · exact Or.inl hx
                · subst hx; exact Or.inr (Or.inl ⟨Nat.le_refl _, by simp⟩))
          · rename_i hm
            exact Inv.replace hi sb hsb _ (fun _ => rfl) rfl rfl rfl
              (fun x hx => by rw [hib]; exact List.mem_cons_of_mem _ hx)
              (fun x hx => by
                simp only [List.mem_append, List.mem_singleton] at hx
                rcases hx with hx | hx
                · exact Or.inl hx
                · subst hx
                  refine Or.inr ⟨by rw [hib]; exact List.mem_cons_self, ?_, ?_⟩
                  · cases h : sb.mask <;> simp_all
                  · cases h1 : sb.lossy <;> cases h2 : sb.value <;> simp_all)
  | forwardIncl i d =>
    simp only [step]
    split
    · exact hi
    · rename_i sb hf
      have hsb := find_mem hf
      split
      · exact hi
      · split
        · exact hi
        · rename_i r rest hib
          split
          · exact Inv.replace hi sb hsb _ (fun _ => rfl) rfl rfl rfl
              (fun x hx => by rw [hib]; exact List.mem_cons_of_mem _ hx) (fun x hx => Or.inl hx)
          · split
            · exact Inv.alloc_replace hi sb hsb [convEv d (s.heap r), projEv proj (convEv d (s.heap r))] _ (fun _ => rfl) rfl rfl rfl
                (fun x hx => by rw [hib]; exact List.mem_cons_of_mem _ hx)
                (fun x hx => by
                  simp only [List.mem_append, List.mem_singleton] at hx
                  rcases hx with hx | hx
                  · exact Or.inl hx
                  · subst hx; exact Or.inr (Or.inl ⟨by omega, by simp⟩))
            · exact Inv.alloc_replace hi sb hsb [convEv d (s.heap r)] _ (fun _ => rfl) rfl rfl rfl
                (fun x hx => by rw [hib]; exact List.mem_cons_of_mem _ hx)
                (fun x hx => by
                  simp only [List.mem_append, List.mem_singleton] at hx
                  rcases hx with hx | hx
                  · exact Or.inl hx
                  · subst hx; exact Or.inr (Or.inl ⟨Nat.le_refl _, by simp⟩))
  | dropIn i =>
    simp only [step]
    split
    · exact hi
    · rename_i sb hf
      have hsb := find_mem hf
      split
      · exact hi
      · split
        · rename_i r1 r2 rest hib
          exact Inv.replace hi sb hsb _ (fun _ => rfl) rfl rfl rfl
            (fun x hx => by rw [hib]; exact List.mem_cons_of_mem _ hx) (fun x hx => Or.inl hx)
        · exact hi
  | mergeIn i =>
    simp only [step]
    split
    · exact hi
    · rename_i sb hf
      have hsb := find_mem hf
      split
      · exact hi
      · split
        · exact hi
        · rename_i r rest hib
          exact Inv.replace hi sb hsb _ (fun _ => rfl) rfl rfl rfl
            (fun x hx => by rw [hib]; exact List.mem_cons_of_mem _ hx) (fun x hx => Or.inl hx)
  | emit i =>
    simp only [step]
    split
    · exact hi
    · rename_i sb hf
      have hsb := find_mem hf
      split
      · exact hi
      · split
        · exact hi
        · rename_i c rest hp
          split
          · exact Inv.alloc_replace hi sb hsb [c, projEv proj c] _ (fun _ => rfl) rfl rfl rfl (fun x hx => hx)
              (fun x hx => by
                simp only [List.mem_append, List.mem_singleton] at hx
                rcases hx with hx | hx
                · exact Or.inl hx
                · subst hx; exact Or.inr (Or.inl ⟨by omega, by simp⟩))
          · exact Inv.alloc_replace hi sb hsb [c] _ (fun _ => rfl) rfl rfl rfl (fun x hx => hx)
              (fun x hx => by
                simp only [List.mem_append, List.mem_singleton] at hx
                rcases hx with hx | hx
                · exact Or.inl hx
                · subst hx; exact Or.inr (Or.inl ⟨Nat.le_refl _, by simp⟩))
  | emitIncl i d =>
    simp only [step]
    split
    · exact hi
    · rename_i sb hf
      have hsb := find_mem hf
      split
      · exact hi
      · split
        · exact hi
        · rename_i c rest hp
          split
          · exact Inv.alloc_replace hi sb hsb [c] _ (fun _ => rfl) rfl rfl rfl (fun x hx => hx) (fun x hx => Or.inl hx)
          · split
            · exact Inv.alloc_replace hi sb hsb [c, convEv d c, projEv proj (convEv d c)] _ (fun _ => rfl) rfl rfl rfl (fun x hx => hx)
                (fun x hx => by
                  simp only [List.mem_append, List.mem_singleton] at hx
                  rcases hx with hx | hx
                  · exact Or.inl hx
                  · subst hx; exact Or.inr (Or.inl ⟨by omega, by simp⟩))
            · exact Inv.alloc_replace hi sb hsb [c, convEv d c] _ (fun _ => rfl) rfl rfl rfl (fun x hx => hx)
                (fun x hx => by
                  simp only [List.mem_append, List.mem_singleton] at hx
                  rcases hx with hx | hx
                  · exact Or.inl hx
                  · subst hx; exact Or.inr (Or.inl ⟨by omega, by simp⟩))
  | seed i e =>
    simp only [step]
    split
    · exact hi
    · rename_i sb hf
      have hsb := find_mem hf
      split
      · exact Inv.alloc_replace hi sb hsb [e, projEv proj e] _ (fun _ => rfl) rfl rfl rfl (fun x hx => hx)
          (fun x hx => by
            simp only [List.mem_append, List.mem_singleton] at hx
            rcases hx with hx | hx
            · exact Or.inl hx
            · subst hx; exact Or.inr (Or.inl ⟨by omega, by simp⟩))
      · exact Inv.alloc_replace hi sb hsb [e] _ (fun _ => rfl) rfl rfl rfl (fun x hx => hx)
          (fun x hx => by
            simp only [List.mem_append, List.mem_singleton] at hx
            rcases hx with hx | hx
            · exact Or.inl hx
            · subst hx; exact Or.inr (Or.inl ⟨Nat.le_refl _, by simp⟩))

theorem run_inv (proj : Nat → Nat) (steps : List Step) : ∀ s : ES, Inv s → Inv (run proj s steps) := by
  induction steps with
  | nil => intro s hi; exact hi
  | cons st rest ih => intro s hi; exact ih _ (step_inv proj s st hi)

end ScVerif.C07.Events
