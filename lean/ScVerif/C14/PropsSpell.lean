import ScVerif.C14.Spell
import ScVerif.C14.PropsKeyed
import ScVerif.C14.KeyedHist
/-!
# C14 — keyed families behind an id interceptor: one register per item, whatever the spelling

For EVERY interceptor `icpt : S → S` (no idempotence assumed), write pipeline, create pipeline, projection and
equivalence: the server that applies the interceptor at the head of Get / Update / Create / Delete / PullID and
publishes changes under the intercepted id (Spell.lean, following pkg/resource/collection.go) is, request by request
and response by response, the keyed server on the interceptor's images. Hence every statement of PropsKeyed holds with
"same id" read as "spellings with the same image": read-your-writes across spellings, an Update under one spelling
appears on the streams opened under any other, Delete under any spelling ends them, no cross-talk between spellings
with different images.
-/
namespace ScVerif.C14

variable {S V Mask U : Type} [DecidableEq S]

/-- **C14_spelled_refines_keyed.** Any session: final state and every response equal those of the keyed server fed
the same requests with each id replaced by its image. -/
theorem C14_spelled_refines_keyed (C : SCfg S V Mask U) (s : KSrv S V Mask) (rs : List (KReq S Mask U)) :
    srun C s rs = krun C.toKCfg s (rs.map (KReq.mapKey C.icpt)) ∧
    sresps C s rs = kresps C.toKCfg s (rs.map (KReq.mapKey C.icpt)) :=
  ⟨srun_refines C rs s, sresps_refines C rs s⟩

/-- **C14_spelled_initial_records.** A collection built with initial records (NewCollection does not panic: the
images of the configured ids are pairwise different): a Get that names a record by ANY spelling with the same image as
the id it was configured under returns the configured value (masked: its projection), a Pull under that spelling starts
with it - also when the configured id itself is outside the interceptor's image (`"Tea"` under a lower-casing one). -/
theorem C14_spelled_initial_records (C : SCfg S V Mask U) (recs : List (S × V)) (h : sinitOk C recs) (id b : S) (v : V)
    (hm : (id, v) ∈ recs) (hb : C.icpt b = C.icpt id) (n : String) (m : Option Mask) :
    (sstep C (sinit C recs) (.get b n m)).2 = .val (view C.toCfg m v) ∧
    ((sstep C (sinit C recs) (.pull b n m false)).1.streams.map (·.s.out)) = [[(view C.toCfg m v, n)]] := by
  have hreg := sinit_reg C recs h id v hm
  rw [← hb] at hreg
  constructor
  · simp [sstep, hreg]
  · have hs : (sinit C recs : KSrv S V Mask).streams = [] := rfl
    simp [sstep, pullStream, hreg, hs, openStream]

/-- **C14_spelled_update_then_get.** A successful Update that names the item `a` with response `v`, then any requests
that write no spelling of the item, then an unmasked Get that names it `b` (`icpt a = icpt b`): the Get returns `v`. -/
theorem C14_spelled_update_then_get (C : SCfg S V Mask U) (s : KSrv S V Mask) (a b : S) (hab : C.icpt a = C.icpt b)
    (name : String) (u : U) (v : V) (h : (sstep C s (.update a name u)).2 = .val v)
    (rs : List (KReq S Mask U)) (hrs : ∀ r, r ∈ rs → (r.mapKey C.icpt).writes (C.icpt a) = false) (name' : String) :
    (sstep C (srun C (sstep C s (.update a name u)).1 rs) (.get b name' none)).2 = .val v := by
  rw [sstep_refines] at h
  rw [sstep_refines, srun_refines, sstep_refines]
  simp only [KReq.mapKey] at h ⊢
  rw [← hab]
  refine C14_keyed_update_then_get C.toKCfg s (C.icpt a) name u v h _ ?_ name'
  intro r hr
  obtain ⟨r0, hr0, rfl⟩ := List.mem_map.mp hr
  exact hrs r0 hr0

/-- **C14_spelled_update_on_streams.** A successful Update that names the item `a`, response `v`: every stream whose
Pull request named the item by ANY spelling with the same image (such a stream holds `icpt b = icpt a`, see
C14_spelled_pull_then_update) is handled exactly as in the single-register theorem (`push`: one new message
`(view mask v, the Pull request's name)` unless suppressed by the equivalence or not live); every other stream is left
exactly as it was. -/
theorem C14_spelled_update_on_streams (C : SCfg S V Mask U) (s : KSrv S V Mask) (a : S) (name : String) (u : U) (v : V)
    (h : (sstep C s (.update a name u)).2 = .val v) (i : Nat) (st : KStream S V Mask) (hi : s.streams[i]? = some st) :
    (sstep C s (.update a name u)).1.streams[i]? =
      some (if st.key = C.icpt a then { st with s := push C.toCfg v st.s } else st) := by
  rw [sstep_refines] at h ⊢
  exact C14_keyed_update_on_streams C.toKCfg s (C.icpt a) name u v h i st hi

/-- **C14_spelled_pull_then_update.** End to end across spellings: the item exists with value `cur`; a Pull names it `b`
(seed `(view m cur, n)` unless updates_only); then an Update names it `a`, `icpt a = icpt b`, and is answered `v`. The
new stream is `push v` of the opened stream: it carries `(view m v, n)` next unless the equivalence relates it to what
the stream showed last. -/
theorem C14_spelled_pull_then_update (C : SCfg S V Mask U) (s : KSrv S V Mask) (a b : S) (hab : C.icpt a = C.icpt b)
    (cur : V) (hex : s.regs (C.icpt b) = some cur) (n : String) (m : Option Mask) (uo : Bool)
    (name : String) (u : U) (v : V)
    (h : (sstep C (sstep C s (.pull b n m uo)).1 (.update a name u)).2 = .val v) :
    ((sstep C (sstep C s (.pull b n m uo)).1 (.update a name u)).1.streams[s.streams.length]?).map (·.s) =
      some (push C.toCfg v (openStream C.toCfg cur n m uo)) := by
  have hopen : (sstep C s (.pull b n m uo)).1.streams[s.streams.length]? =
      some { key := C.icpt b, s := openStream C.toCfg cur n m uo } := by
    simp [sstep, pullStream, hex]
  rw [C14_spelled_update_on_streams C _ a name u v h _ _ hopen]
  simp [hab]

/-- **C14_spelled_rejected_frame.** An Update answered with an error, under any spelling, changes nothing at all. -/
theorem C14_spelled_rejected_frame (C : SCfg S V Mask U) (s : KSrv S V Mask) (a : S) (name : String) (u : U) (c : Nat)
    (h : (sstep C s (.update a name u)).2 = .err c) : (sstep C s (.update a name u)).1 = s := by
  rw [sstep_refines] at h ⊢
  exact C14_keyed_rejected_frame C.toKCfg s (C.icpt a) name u c h

/-- **C14_spelled_no_crosstalk.** A write that names its item `a` leaves the register and the streams of every spelling
`b` with another image exactly as they were. -/
theorem C14_spelled_no_crosstalk (C : SCfg S V Mask U) (s : KSrv S V Mask) (a b : S) (hab : C.icpt b ≠ C.icpt a)
    (r : KReq S Mask U) (n : String) (u : U) (am : Bool)
    (hr : r = .update a n u ∨ r = .create a u ∨ r = .delete a am) :
    (sstep C s r).1.regs (C.icpt b) = s.regs (C.icpt b) ∧
    ∀ (i : Nat) (st : KStream S V Mask), s.streams[i]? = some st → st.key = C.icpt b → (sstep C s r).1.streams[i]? = some st := by
  rw [sstep_refines]
  refine C14_keyed_no_crosstalk C.toKCfg s (C.icpt a) (C.icpt b) hab _ n u am ?_
  rcases hr with rfl | rfl | rfl <;> simp [KReq.mapKey]

/-- **C14_spelled_delete_ends_streams.** A Delete that names an existing item `a`: Get under every spelling `b` with the
same image answers NotFound, an Update under `b` is NotFound and changes nothing, every stream of the item has ended. -/
theorem C14_spelled_delete_ends_streams (C : SCfg S V Mask U) (s : KSrv S V Mask) (a b : S) (hab : C.icpt a = C.icpt b)
    (am : Bool) (cur : V) (hex : s.regs (C.icpt a) = some cur) :
    let s' := (sstep C s (.delete a am)).1
    (∀ n m, (sstep C s' (.get b n m)).2 = .err notFound) ∧
    (∀ n u, (sstep C s' (.update b n u)) = (s', .err notFound)) ∧
    ∀ (i : Nat) (st : KStream S V Mask), s.streams[i]? = some st → st.key = C.icpt b →
      s'.streams[i]? = some { st with s := { st.s with live := false } } := by
  intro s'
  have hk := C14_keyed_delete_ends_streams C.toKCfg s (C.icpt a) am cur hex
  have hs' : s' = (kstep C.toKCfg s (.delete (C.icpt a) am)).1 := by simp only [s', sstep_refines, KReq.mapKey]
  rw [hs']
  refine ⟨fun n m => ?_, fun n u => ?_, fun i st hi hkey => ?_⟩
  · rw [sstep_refines]; simp only [KReq.mapKey, ← hab]; exact hk.2.1 n m
  · rw [sstep_refines]; simp only [KReq.mapKey, ← hab]; exact hk.2.2.1 n u
  · exact hk.2.2.2 i st hi (hkey.trans hab.symm)

/-- **C14_keyed_stream_history.** The WHOLE history of a single-item stream, for any session that does not cancel it:
the stream is the fold, over the stream as it was, of the events of ITS item in session order - each successful Update
or Create of the item is one `push` (one message `(view mask v, the Pull request's name)` unless suppressed by the
equivalence or the stream has ended), a successful Delete ends it - and nothing else ever touches it. -/
theorem C14_keyed_stream_history {K : Type} [DecidableEq K] (C : KCfg V Mask U) (s : KSrv K V Mask)
    (rs : List (KReq K Mask U)) (i : Nat) (st : KStream K V Mask) (hi : s.streams[i]? = some st)
    (hc : ∀ r, r ∈ rs → r.cancels i = false) :
    (krun C s rs).streams[i]? = some { key := st.key, s := (kevents C st.key s rs).foldl (applyEv C) st.s } :=
  krun_stream C rs s i st hi hc

/-- **C14_spelled_stream_history.** The same behind an id interceptor, end to end: the item exists with value `cur`, a
Pull names it `b`, then ANY session (every request spelling its id as it likes) that does not cancel the stream. The
stream is the fold, over the opened stream (seed unless updates_only), of the events of the requests whose id has the
image `icpt b` - whatever their spelling - and of no others. -/
theorem C14_spelled_stream_history (C : SCfg S V Mask U) (s : KSrv S V Mask) (b : S) (cur : V)
    (hex : s.regs (C.icpt b) = some cur) (n : String) (m : Option Mask) (uo : Bool)
    (rs : List (KReq S Mask U)) (hc : ∀ r, r ∈ rs → r.cancels s.streams.length = false) :
    let s1 := (sstep C s (.pull b n m uo)).1
    ((srun C s1 rs).streams[s.streams.length]?).map (·.s) =
      some ((kevents C.toKCfg (C.icpt b) s1 (rs.map (KReq.mapKey C.icpt))).foldl (applyEv C.toKCfg)
        (openStream C.toCfg cur n m uo)) := by
  intro s1
  have hopen : s1.streams[s.streams.length]? = some { key := C.icpt b, s := openStream C.toCfg cur n m uo } := by
    simp [s1, sstep, pullStream, hex]
  rw [srun_refines]
  have hc' : ∀ r, r ∈ rs.map (KReq.mapKey C.icpt) → r.cancels s.streams.length = false := by
    intro r hr
    obtain ⟨r0, hr0, rfl⟩ := List.mem_map.mp hr
    have := hc r0 hr0
    cases r0 <;> simp_all [KReq.mapKey, KReq.cancels]
  rw [krun_stream C.toKCfg _ s1 _ _ hopen hc']
  rfl

/-! ### Non-vacuity -/

/-- ids are numbers, spelled modulo 10 (13 and 3 name one item) -/
def exSCfg : SCfg Nat Nat Nat Nat := { exKCfg with icpt := fun n => n % 10 }

example :
    let s := srun exSCfg (⟨fun _ => none, []⟩ : KSrv Nat Nat Nat)
      [.create 13 10, .create 2 20, .pull 3 "a" none false, .pull 12 "b" none false, .update 23 "x" 5, .delete 32 false, .update 2 "x" 1]
    s.regs 3 = some 15 ∧ s.regs 13 = none ∧ s.regs 2 = none ∧
      s.streams.map (fun st => (st.key, st.s.out, st.s.live)) = [(3, [(10, "a"), (15, "a")], true), (2, [(20, "b")], false)] := by
  decide

/-- the history theorem on the session above: the stream opened under 3 carries the seed and the Update made under 23 -/
example :
    let s0 := srun exSCfg (⟨fun _ => none, []⟩ : KSrv Nat Nat Nat) [.create 13 10, .create 2 20]
    (kevents exSCfg.toKCfg 3 (sstep exSCfg s0 (.pull 3 "a" none false)).1
      ([.pull 12 "b" none false, .update 23 "x" 5, .delete 32 false, .update 2 "x" 1].map (KReq.mapKey exSCfg.icpt))) = [some 15] := by
  decide

example : sinitOk exSCfg [(13, 10), (2, 20)] := by simp [sinitOk, exSCfg]

/-- what the id in the change is for: a change published under the caller's raw spelling (23) instead of its image (3)
passes every stream of the item by -/
example :
    let s := srun exSCfg (⟨fun _ => none, []⟩ : KSrv Nat Nat Nat) [.create 13 10, .pull 3 "a" none false]
    (spublish exSCfg ⟨23, some 15⟩ s.streams).map (fun st => st.s.out) = [[(10, "a")]] ∧
    (spublish exSCfg ⟨exSCfg.icpt 23, some 15⟩ s.streams).map (fun st => st.s.out) = [[(10, "a"), (15, "a")]] := by
  decide

end ScVerif.C14
