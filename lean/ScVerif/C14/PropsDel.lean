import ScVerif.C14.Del
/-!
# C14 — a Delete next to concurrent Updates of the same item (`Collection.Delete`)

For EVERY interleaving of a Delete's read and commit attempts with any number of complete Updates of the item: the
item's subscribers are told every stored value, in order, and then — if the Delete is answered OK — REMOVE carrying
the LAST of them, which is also the Delete's answer: a Delete never removes (or announces, or answers with) a value it
was overtaken on. A Delete answered with an error leaves the item where it is. (The keyed window sessions force the
schedule `dread, store v, dcommit, dcommit`.)
-/
namespace ScVerif.C14

variable {V : Type} [DecidableEq V]

/-- **C14_delete_removes_the_value_it_announces.** Any interleaving of a Delete's steps with Updates of the item, from
an item holding `v0`: when the Delete is answered OK with `v`, the item is gone, `v` is the LAST value the item held,
and the bus announced every stored value in order and then REMOVE with exactly `v`. -/
theorem C14_delete_removes_the_value_it_announces (v0 : V) (sched : List (DStep V)) (v : V)
    (hok : (drun (dinit v0) sched).answer = some (.ok v)) :
    let s := drun (dinit v0) sched
    s.item = none ∧ s.hist.getLast? = some v ∧ s.events = s.hist.tail.map .upd ++ [.removed v] := by
  intro s
  have h := (drun_inv sched (dinit v0) (dinit_inv v0)).2
  cases hi : (drun (dinit v0) sched).item with
  | some it =>
    obtain ⟨n, w⟩ := it
    rw [hi] at h
    exact absurd hok (h.2.2 v)
  | none =>
    rw [hi] at h
    obtain ⟨w, h1, h2, h3⟩ := h
    have : w = v := by
      rw [hok] at h3
      cases h3; rfl
    subst this
    exact ⟨rfl, h1, h2⟩

/-- **C14_rejected_delete_leaves_the_item.** Any interleaving: as long as the Delete has not been answered OK (not yet
answered, NotFound, Unavailable after five overtaken attempts) the item is there with the last stored value, and the
bus has announced exactly the stored values: no REMOVE. -/
theorem C14_rejected_delete_leaves_the_item (v0 : V) (sched : List (DStep V))
    (hno : ∀ v, (drun (dinit v0) sched).answer ≠ some (.ok v)) :
    let s := drun (dinit v0) sched
    ∃ n v, s.item = some (n, v) ∧ s.hist.getLast? = some v ∧ s.events = s.hist.tail.map .upd := by
  intro s
  have h := (drun_inv sched (dinit v0) (dinit_inv v0)).2
  cases hi : (drun (dinit v0) sched).item with
  | some it =>
    obtain ⟨n, w⟩ := it
    rw [hi] at h
    exact ⟨n, w, rfl, h.1, h.2.1⟩
  | none =>
    rw [hi] at h
    obtain ⟨w, _, _, h3⟩ := h
    exact absurd h3 (hno w)

/-- **C14_delete_window_schedule.** The schedule the keyed window sessions force (the Delete reads, an Update of the
item runs to completion, the Delete goes on): the first commit attempt is overtaken, the second removes the UPDATED
item; the item's stream is told the update, then REMOVE with the updated value. -/
theorem C14_delete_window_schedule (v0 v : V) :
    let s := drun (dinit v0) [.dread, .store v, .dcommit, .dcommit]
    s.item = none ∧ s.answer = some (.ok v) ∧ s.events = [.upd v, .removed v] ∧ s.attempts = 1 := by
  simp [drun, dstep, dinit]

/-- non-vacuity: five Updates overtake the Delete five times: Unavailable, the item stays, no REMOVE -/
example : (drun (dinit (0 : Nat)) [.dread, .store 1, .dcommit, .store 2, .dcommit, .store 3, .dcommit, .store 4, .dcommit,
    .store 5, .dcommit]).answer = some (.error 14) := by
  simp [drun, dstep, dinit]

end ScVerif.C14
