import ScVerif.Base.Line
import ScVerif.C14.Spell
/-! Driver op `spell`: the spelled keyed server (Spell.lean) run on one session (tie `spelled-ids`, spell.go).

  spell <icpt> <init> <op>…
     icpt  lower (ASCII lower case) | trim (strip `_` at both ends; `_` stands for a blank) | lowx (lower case, then
           append `x`: NOT idempotent) | id
     init  `-` or `id=val,id=val`: the records the collection starts with, ids as given to WithInitialRecord
           (NewCollection keeps each under the interceptor's image of its id)
     op    g:<id> | u:<id>:<val> | c:<id>:<val> | d:<id> | p:<id> | q:<id> (Pull with updates_only)

Values are opaque tokens; the write pipeline stores the request's token. Answer: one response per op
(`v:<val>`, `e:<code>`, `done`, `o<i>`) and, per stream in opening order, `<+|->` (live / ended) followed by the values
it carried. -/
namespace ScVerif.C14
open ScVerif.Line

def stripUnderscores (s : String) : String :=
  String.ofList ((s.toList.dropWhile (· == '_')).reverse.dropWhile (· == '_')).reverse

def spellIcpt? : String → Option (String → String)
  | "lower" => some String.toLower
  | "trim" => some stripUnderscores
  | "lowx" => some fun s => s.toLower ++ "x"
  | "id" => some id
  | _ => none

def spellCfg (f : String → String) : SCfg String String Unit String :=
  { proj := fun _ v => v, apply := fun _ u => .ok u, eqv := fun l w => l == some w, init := fun u => .ok u, icpt := f }

def parseSpellOp? (t : String) : Option (KReq String Unit String) :=
  match t.splitOn ":" with
  | ["g", k] => some (.get k "dev" none)
  | ["u", k, v] => some (.update k "dev" v)
  | ["c", k, v] => some (.create k v)
  | ["d", k] => some (.delete k false)
  | ["p", k] => some (.pull k "dev" none false)
  | ["q", k] => some (.pull k "dev" none true)
  | _ => none

def parseSpellInit? (t : String) : Option (List (String × String)) :=
  if t = "-" then some []
  else (t.splitOn ",").mapM fun kv =>
    match kv.splitOn "=" with
    | [k, v] => some (k, v)
    | _ => none

def showSpellResp : Resp String → String
  | .val v => "v:" ++ v
  | .err c => s!"e:{c}"
  | .opened i => s!"o{i}"
  | .done => "done"

def showSpellStream (st : KStream String String Unit) : String :=
  (if st.s.live then "+" else "-") ++ ",".intercalate (st.s.out.map (·.1))

def spellHandle (toks : List String) : Option String :=
  match toks with
  | "spell" :: ic :: init :: ops => some <|
    match (do
      let f ← spellIcpt? ic
      let recs ← parseSpellInit? init
      let rs ← ops.mapM parseSpellOp?
      let C := spellCfg f
      let s0 : KSrv String String Unit := sinit C recs
      pure (" ".intercalate ((sresps C s0 rs).map showSpellResp) ++ " | " ++
        " ".intercalate ((srun C s0 rs).streams.map showSpellStream))) with
    | some out => out
    | none => "!bad-op"
  | _ => none

end ScVerif.C14
