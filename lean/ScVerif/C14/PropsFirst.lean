import ScVerif.C14.Props
import ScVerif.C14.PropsAccept
import ScVerif.C14.Gau
import ScVerif.C14.Stamp
/-!
# C14 — the first write after a subscription, and write times

Two classes the harness families `first` (first.go) and `window … resend+open` (window.go) drive on the real stack:

* an updates-only subscriber has been sent nothing, its comparison base line is NOTHING (`last = nil`, and
  `cmp.Equal(nil, x) = false`): the first successful Update after the subscription is delivered WHATEVER its value -
  the zero message, an empty projection included (`C14_first_update_delivered`, `C14_updates_only_first_update`); with the
  zero message as base line instead (seeded C14-20) it is not (`C14_first_update_zero_baseline_fails`);
* `Stamp.lean`: with HEAD's time stamps (taken when the value is saved and when it is announced) no recorded stamp lies in
  the future, so a subscriber comparing event times with its seed's change time would never skip anything - every
  announcement reaches every subscriber, for every interleaving of any number of writers, subscriptions and clock ticks,
  coarse clocks included; with ONE stamp per write taken when the write begins (seeded C14-21) a value stored after
  the subscription is lost to it.
-/
namespace ScVerif.C14

variable {V Mask U : Type}

/-- **C14_first_update_delivered.** A live stream that has been sent nothing (`last = none`: an updates-only
subscription before its first message) on a server whose equivalence never identifies "nothing" with a value: a
successful Update with response `v` appends exactly `(view mask v, name)` - whatever `v` is. -/
theorem C14_first_update_delivered (C : Cfg V Mask U) (hnil : ∀ x, C.eqv none x = false)
    (s : Srv V Mask) (name : String) (u : U) (v : V)
    (h : (step C s (.update name u)).2 = .val v) (i : Nat) (st : Stream V Mask) (hi : s.streams[i]? = some st)
    (hlive : st.live = true) (hlast : st.last = none) :
    ∃ st', (step C s (.update name u)).1.streams[i]? = some st' ∧ st'.name = st.name ∧ st'.mask = st.mask ∧
      st'.out = st.out ++ [(view C st.mask v, st.name)] := by
  obtain ⟨st', h1, h2, h3, _, h5, _⟩ := C14_update_on_streams C s name u v h i st hi
  exact ⟨st', h1, h2, h3, h5 hlive (by rw [hlast]; exact hnil _)⟩

/-- **C14_updates_only_first_update.** Pull with updates_only, then (after any Gets) a successful Update with
response `v`: the stream's whole output is the one message `(view mask v, name of the Pull request)`. -/
theorem C14_updates_only_first_update (C : Cfg V Mask U) (hnil : ∀ x, C.eqv none x = false)
    (s : Srv V Mask) (name : String) (m : Option Mask) (gets : List (String × Option Mask)) (n' : String) (u : U) (v : V)
    (h : (step C (run C (step C s (.pull name m true)).1 (gets.map fun g => Req.get g.1 g.2)) (.update n' u)).2 = .val v) :
    ∃ st', (step C (run C (step C s (.pull name m true)).1 (gets.map fun g => Req.get g.1 g.2)) (.update n' u)).1.streams[s.streams.length]?
        = some st' ∧ st'.name = name ∧ st'.mask = m ∧ st'.out = [(view C m v, name)] := by
  have hrun : ∀ (gs : List (String × Option Mask)) (t : Srv V Mask), run C t (gs.map fun g => Req.get g.1 g.2) = t := by
    intro gs
    induction gs with
    | nil => intro t; rfl
    | cons g gs ih => intro t; simp only [List.map_cons, run, step]; exact ih t
  rw [hrun] at h ⊢
  have hi : (step C s (.pull name m true)).1.streams[s.streams.length]? = some (openStream C s.cur name m true) := by
    simp [step]
  obtain ⟨st', h1, h2, h3, h4⟩ := C14_first_update_delivered C hnil _ n' u v h s.streams.length _ hi rfl (by simp [openStream])
  refine ⟨st', h1, by rw [h2]; rfl, by rw [h3]; rfl, ?_⟩
  rw [h4]
  simp [openStream]

/-- the seeded base line of C14-20: nothing sent yet is compared as the zero value -/
def zeroBaseCfg : Cfg Nat Nat Nat :=
  { proj := fun _ v => v, apply := fun _ u => .ok u, eqv := fun l x => l.getD 0 == x }

/-- **C14_first_update_zero_baseline_fails.** With the zero value as an updates-only subscriber's base line the
statement of `C14_updates_only_first_update` is false: the register goes from 40 to 0, Get says 0, the stream stays
silent. -/
theorem C14_first_update_zero_baseline_fails :
    let s0 : Srv Nat Nat := { cur := 40, streams := [] }
    let s1 := (step zeroBaseCfg s0 (.pull "dev" none true)).1
    (step zeroBaseCfg s1 (.update "dev" 0)).2 = .val 0 ∧
    (step zeroBaseCfg s1 (.update "dev" 0)).1.streams.map (·.out) = [[]] := by
  decide

/-! ### the acceptor and an established updates-only stream (observation `estab`) -/

/-- **C14_acceptor_accepts_established_updates_only.** The harness may announce an updates-only stream as established
before its first message (`estab i`: its listener was in the snapshot of the write's Send). The acceptor then still
accepts EVERY sequence of announced values the model sends to such a stream - the first message included, must-entries
from the first write on - so a rejection after `estab` is never an artefact of the acceptor's bookkeeping. -/
theorem C14_acceptor_accepts_established_updates_only {U : Type} (C : Cfg Nat Nat U)
    (heqv : ∀ l x, C.eqv l x = true → l = some x)
    (hidem : ∀ m x, C.proj m (C.proj m x) = C.proj m x)
    (cur : Nat) (name : String) (m : Option Nat) (vs : List Nat) :
    acceptAll C (openStream C cur name m true) [] cur true vs = true :=
  C14_acceptor_accepts_event_sequence C heqv hidem vs (openStream C cur name m true) [] cur true rfl
    (by intro w hw; simp [openStream] at hw) (by intro e he; simp at he)

/-- **C14_acceptor_rejects_silent_first_write.** Conversely: on an established stream with nothing outstanding, a write
whose projection differs from the previous one and after which the reader finds the stream idle is rejected as
`Pull/update-missing-on-stream` - the verdict of seeded C14-20 and C14-21. On a stream that is not established the
same idle moment is accepted (the first message of an unobserved subscription stays optional). -/
theorem C14_acceptor_rejects_silent_first_write (x xp : VId) (h : x ≠ xp) :
    qIdle (qPush [] x xp true) = .reject "Pull/update-missing-on-stream" ∧ qIdle (qPush [] x xp false) = .ok := by
  constructor
  · simp [qIdle, qPush, h]
  · simp [qIdle, qPush]

/-! ### write times -/

open Stamp

/-- **C14_stamp_no_future_stamp.** HEAD's stamps (`atBegin = false`), either subscriber policy: no change time and no
seed time ever lies ahead of the clock, whatever the step. -/
theorem C14_stamp_no_future_stamp (skip : Bool) (s : St V) (x : Stamp.Step V) (h : Inv s) : Inv (Stamp.step false skip s x) := by
  obtain ⟨h1, h2⟩ := h
  cases x with
  | tick => exact ⟨Nat.le_succ_of_le h1, fun sb hsb => Nat.le_succ_of_le (h2 sb hsb)⟩
  | begin w => exact ⟨h1, h2⟩
  | store w v => exact ⟨Nat.le_refl _, h2⟩
  | send w =>
    cases ht : take w s.pending with
    | none => simp only [Stamp.step, ht]; exact ⟨h1, h2⟩
    | some r =>
      obtain ⟨⟨v, b⟩, rest⟩ := r
      simp only [Stamp.step, ht]
      refine ⟨h1, ?_⟩
      intro sb hsb
      simp only [List.mem_map] at hsb
      obtain ⟨sb0, hm, rfl⟩ := hsb
      have hd : ∀ t, (deliver skip t v sb0).seedTime = sb0.seedTime := by
        intro t; unfold deliver; split <;> rfl
      show (deliver skip _ v sb0).seedTime ≤ s.clock
      rw [hd]
      exact h2 sb0 hm
  | sub =>
    refine ⟨h1, ?_⟩
    intro sb hsb
    simp only [Stamp.step, List.mem_append, List.mem_singleton] at hsb
    rcases hsb with hsb | rfl
    · exact h2 sb hsb
    · exact h1

/-- **C14_stamp_send_reaches_every_subscriber.** HEAD's stamps: the announcement of a stored value is appended to
EVERY subscriber's output, also under the skipping policy - its stamp is the clock, and no seed is ahead of the clock. -/
theorem C14_stamp_send_reaches_every_subscriber (skip : Bool) (s : St V) (h : Inv s) (w : Nat) (v : V) (b : Nat)
    (rest : List (Nat × V × Nat)) (ht : take w s.pending = some ((v, b), rest)) :
    (Stamp.step false skip s (.send w)).subs = s.subs.map fun sb => { sb with out := sb.out ++ [v] } := by
  simp only [Stamp.step, ht]
  apply List.map_congr_left
  intro sb hsb
  have := h.2 sb hsb
  unfold deliver
  have hn : ¬ (s.clock < sb.seedTime) := Nat.not_lt.mpr this
  simp [hn]

/-- **C14_stamp_filter_never_fires.** HEAD's stamps: the run under the skipping policy IS the run without it, for
every schedule of writers, subscriptions and clock ticks (site 2 of seeded C14-21 alone is harmless). -/
theorem C14_stamp_filter_never_fires (xs : List (Stamp.Step V)) : ∀ s : St V, Inv s →
    Stamp.run false true s xs = Stamp.run false false s xs := by
  induction xs with
  | nil => intro s _; rfl
  | cons x xs ih =>
    intro s h
    have hstep : Stamp.step false true s x = Stamp.step false false s x := by
      cases x with
      | send w =>
        cases ht : take w s.pending with
        | none => simp [Stamp.step, ht]
        | some r =>
          obtain ⟨⟨v, b⟩, rest⟩ := r
          have a := C14_stamp_send_reaches_every_subscriber true s h w v b rest ht
          have c := C14_stamp_send_reaches_every_subscriber false s h w v b rest ht
          simp only [Stamp.step, ht] at a c ⊢
          rw [a, c]
      | _ => rfl
    simp only [Stamp.run]
    rw [hstep]
    exact ih _ (C14_stamp_no_future_stamp false s x h)

/-- the value a step announces, if any -/
def announced (s : St V) : Stamp.Step V → List V
  | .send w =>
    match take w s.pending with
    | some ((v, _), _) => [v]
    | none => []
  | _ => []

/-- the values announced along a schedule under HEAD's stamps, in send order -/
def sentAlong (skip : Bool) : St V → List (Stamp.Step V) → List V
  | _, [] => []
  | s, x :: xs => announced s x ++ sentAlong skip (Stamp.step false skip s x) xs

/-- **C14_stamp_subscriber_gets_every_later_announcement.** Whole-history form, HEAD's stamps, either subscriber
policy, ANY schedule of writers' begin / store / send steps, further subscriptions and clock ticks: a subscriber's
output afterwards is what it had plus EVERY value announced along the schedule, in send order - nothing is skipped,
nothing else is added, its seed time is untouched. -/
theorem C14_stamp_subscriber_gets_every_later_announcement (skip : Bool) (xs : List (Stamp.Step V)) :
    ∀ s : St V, Inv s → ∀ (j : Nat) (sb : Stamp.Sub V), s.subs[j]? = some sb →
      ∃ sb', (Stamp.run false skip s xs).subs[j]? = some sb' ∧ sb'.seedTime = sb.seedTime ∧
        sb'.out = sb.out ++ sentAlong skip s xs := by
  induction xs with
  | nil => intro s _ j sb hj; exact ⟨sb, hj, rfl, by simp [sentAlong]⟩
  | cons x xs ih =>
    intro s h j sb hj
    have hinv := C14_stamp_no_future_stamp skip s x h
    -- one step: the subscriber is still at index j, with the announced value (if any) appended
    have hone : ∃ sb1, (Stamp.step false skip s x).subs[j]? = some sb1 ∧ sb1.seedTime = sb.seedTime ∧
        sb1.out = sb.out ++ announced s x := by
      cases x with
      | tick => exact ⟨sb, hj, rfl, by simp [announced]⟩
      | begin w => exact ⟨sb, hj, rfl, by simp [announced]⟩
      | store w v => exact ⟨sb, hj, rfl, by simp [announced]⟩
      | sub =>
        refine ⟨sb, ?_, rfl, by simp [announced]⟩
        have hlt : j < s.subs.length := by
          rcases Nat.lt_or_ge j s.subs.length with hl | hl
          · exact hl
          · rw [List.getElem?_eq_none hl] at hj; cases hj
        simp only [Stamp.step]
        rw [List.getElem?_append_left hlt]
        exact hj
      | send w =>
        cases ht : take w s.pending with
        | none => exact ⟨sb, by simpa [Stamp.step, ht] using hj, rfl, by simp [announced, ht]⟩
        | some r =>
          obtain ⟨⟨v, b⟩, rest⟩ := r
          have hs := C14_stamp_send_reaches_every_subscriber skip s h w v b rest ht
          refine ⟨{ sb with out := sb.out ++ [v] }, ?_, rfl, by simp [announced, ht]⟩
          rw [hs, List.getElem?_map, hj]
          rfl
    obtain ⟨sb1, h1, h2, h3⟩ := hone
    obtain ⟨sb', g1, g2, g3⟩ := ih _ hinv j sb1 h1
    refine ⟨sb', by simpa [Stamp.run] using g1, by rw [g2, h2], ?_⟩
    rw [g3, h3]
    simp [sentAlong, List.append_assoc]

/-- writer 1 enters its write, time passes, writer 2 re-sends the current value 5 (stored and announced), a seeded
subscription is opened, writer 1's value 7 is stored and announced -/
def heartbeatSchedule : List (Stamp.Step Nat) :=
  [.begin 1, .tick, .begin 2, .store 2 5, .send 2, .sub, .store 1 7, .send 1]

/-- **C14_stamp_begin_stamp_and_filter_fails.** One stamp per write taken when the write begins, together with the
skipping policy (seeded C14-21): the register holds 7, the subscriber seeded with 5 never sees it. Each site alone
delivers it. -/
theorem C14_stamp_begin_stamp_and_filter_fails :
    (Stamp.run true true (Stamp.init 5) heartbeatSchedule).cur = 7 ∧
    (Stamp.run true true (Stamp.init 5) heartbeatSchedule).subs.map (·.out) = [[5]] ∧
    (Stamp.run true false (Stamp.init 5) heartbeatSchedule).subs.map (·.out) = [[5, 7]] ∧
    (Stamp.run false true (Stamp.init 5) heartbeatSchedule).subs.map (·.out) = [[5, 7]] := by
  decide

/-- non-vacuity: the initial state satisfies the invariant, and the example server of Props.lean never identifies
nothing with a value -/
example : Inv (Stamp.init (5 : Nat)) := ⟨Nat.le_refl _, fun _ h => by simp [Stamp.init] at h⟩

/-! ### the three-party window, any number of heartbeats

`C14_gau_window_schedule` (PropsGau.lean) has ONE overlapping writer. The window family's resend+open case rests on the
general fact: the re-validation of `GetAndUpdate` compares VALUES, so any number of writers that read and commit a
request leaving the value as it is (clients re-sending the current state) between the held writer's read and its commit
do not abort it - it is stored on top, with the value computed from what it read. -/

section heartbeats
variable {V U : Type} [DecidableEq V]

/-- heartbeat writers: each reads and commits, one after the other -/
def heartbeats (hs : List (Nat × U)) : List (GStep U) := hs.flatMap fun h => [.read h.1 h.2, .commit h.1]

/-- **C14_gau_heartbeats_keep_held_writer.** While one writer `g` is held after its read on a register holding `c`,
any number of other writers whose requests leave `c` as it is read and commit: afterwards the register still holds
`c` and `g` is still the one writer in flight (only the log of answers has grown). -/
theorem C14_gau_heartbeats_keep_held_writer (change : V → U → Except Nat V) (c : V) (g : GWriter V U)
    (rest : List (GStep U)) (hs : List (Nat × U)) :
    (∀ h, h ∈ hs → h.1 ≠ g.id ∧ change c h.2 = .ok c) →
    ∀ L : List (Nat × Except Nat V), ∃ L',
      grun change { cur := c, inflight := [g], log := L } (heartbeats hs ++ rest)
        = grun change { cur := c, inflight := [g], log := L' } rest := by
  induction hs with
  | nil => intro _ L; exact ⟨L, by simp [heartbeats]⟩
  | cons h hs ih =>
    intro hh L
    have h1 := hh h List.mem_cons_self
    have hne : ¬ g.id = h.1 := fun e => h1.1 e.symm
    obtain ⟨L', hL'⟩ := ih (fun x hx => hh x (List.mem_cons_of_mem _ hx)) (L ++ [(h.1, .ok c)])
    refine ⟨L', ?_⟩
    rw [← hL']
    simp [heartbeats, List.flatMap_cons, grun, gstep, takeWriter, hne, h1.2]

/-- **C14_gau_heartbeats_do_not_abort.** Writer `a` reads, ANY number of heartbeat writers read and commit, `a`
commits: `a` is stored - the register ends on the value `a`'s pipeline computed from what it read. -/
theorem C14_gau_heartbeats_do_not_abort (change : V → U → Except Nat V) (c vA : V) (uA : U) (a : Nat)
    (hs : List (Nat × U)) (hA : change c uA = .ok vA)
    (hh : ∀ h, h ∈ hs → h.1 ≠ a ∧ change c h.2 = .ok c) :
    (grun change ({ cur := c } : GSt V U) (.read a uA :: (heartbeats hs ++ [.commit a]))).cur = vA := by
  obtain ⟨L', hL'⟩ := C14_gau_heartbeats_keep_held_writer change c ⟨a, uA, c⟩ [.commit a] hs hh []
  simp only [grun, gstep, List.nil_append]
  rw [hL']
  simp [grun, gstep, takeWriter, hA]

/-- non-vacuity: two heartbeats (request 0 = leave the value), then the held writer's 7 is stored -/
example : (grun (fun (c u : Nat) => (.ok (if u = 0 then c else u) : Except Nat Nat)) ({ cur := 5 } : GSt Nat Nat)
    (.read 1 7 :: (heartbeats [(2, 0), (3, 0)] ++ [.commit 1]))).cur = 7 := by decide

end heartbeats

end ScVerif.C14
