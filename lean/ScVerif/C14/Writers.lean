import ScVerif.C14.Server
/-!
C14 — concurrent clients on one register: `resource.Value.set` as the TWO steps it is.

  set(value, request):
     GetAndUpdate(&mu, …)            -- STORE: read, apply, re-check and save under the write lock: `r.value = newValue`
     -- no lock is held from here on --
     bus.Send(ValueChange{newValue}) -- SEND: every Pull goroutine filters / compares / forwards the event
     return newValue                 -- the response

Any number of writers run these two steps each; a schedule is ANY interleaving of their steps (a writer's
`send` only does something once it has stored: it takes the writer's oldest stored-but-unannounced value).
The successful `GetAndUpdate` is one atomic step: its optimistic read is re-validated under the lock and the
loser is rejected with Aborted — a rejected write stores and announces nothing (`apply … = error`).

`skipOvertaken` is the seeded variant C14-10 (an event is dropped when a later store has replaced the value).
-/
namespace ScVerif.C14

/-- a stored value whose event has not been sent yet -/
structure Pending (V : Type) where
  writer : Nat
  /-- ordinal of the store (1, 2, …) -/
  seq : Nat
  val : V

structure WSrv (V Mask : Type) where
  cur : V
  streams : List (Stream V Mask)
  /-- stored, not yet announced, in store order -/
  pending : List (Pending V)
  /-- number of successful stores so far: the value the register holds came from the store with this ordinal -/
  nstores : Nat

inductive WStep (U : Type)
  | store (w : Nat) (u : U)
  | send (w : Nat)

variable {V Mask U : Type}

/-- the oldest unannounced value of writer `w`, and the others -/
def takePending (w : Nat) : List (Pending V) → Option (Pending V × List (Pending V))
  | [] => none
  | p :: ps =>
    if p.writer = w then some (p, ps)
    else match takePending w ps with
      | none => none
      | some (q, r) => some (q, p :: r)

def wstep (C : Cfg V Mask U) (skipOvertaken : Bool) (s : WSrv V Mask) : WStep U → WSrv V Mask
  | .store w u =>
    match C.apply s.cur u with
    | .error _ => s
    | .ok v => { s with cur := v, nstores := s.nstores + 1, pending := s.pending ++ [⟨w, s.nstores + 1, v⟩] }
  | .send w =>
    match takePending w s.pending with
    | none => s
    | some (p, rest) =>
      if skipOvertaken && p.seq != s.nstores then { s with pending := rest }
      else { s with pending := rest, streams := s.streams.map (push C p.val) }

def wrun (C : Cfg V Mask U) (b : Bool) : WSrv V Mask → List (WStep U) → WSrv V Mask
  | s, [] => s
  | s, x :: xs => wrun C b (wstep C b s x) xs

/-- the values successfully stored along a schedule, in store order (each is the response of its writer) -/
def storedOf (C : Cfg V Mask U) (b : Bool) : WSrv V Mask → List (WStep U) → List V
  | _, [] => []
  | s, .store w u :: xs =>
    match C.apply s.cur u with
    | .error _ => storedOf C b (wstep C b s (.store w u)) xs
    | .ok v => v :: storedOf C b (wstep C b s (.store w u)) xs
  | s, .send w :: xs => storedOf C b (wstep C b s (.send w)) xs

/-- the values announced (sent to the bus) along a schedule, in send order -/
def sentOf (C : Cfg V Mask U) (b : Bool) : WSrv V Mask → List (WStep U) → List V
  | _, [] => []
  | s, .store w u :: xs => sentOf C b (wstep C b s (.store w u)) xs
  | s, .send w :: xs =>
    match takePending w s.pending with
    | none => sentOf C b (wstep C b s (.send w)) xs
    | some (p, _) =>
      if b && p.seq != s.nstores then sentOf C b (wstep C b s (.send w)) xs
      else p.val :: sentOf C b (wstep C b s (.send w)) xs

def pvals (l : List (Pending V)) : List V := l.map (·.val)

/-- every `send` announces the OLDEST stored value there is (the order of the stores is the order of the sends) -/
def Fifo (C : Cfg V Mask U) (b : Bool) : WSrv V Mask → List (WStep U) → Prop
  | _, [] => True
  | s, .store w u :: xs => Fifo C b (wstep C b s (.store w u)) xs
  | s, .send w :: xs => (∀ p ps, s.pending = p :: ps → p.writer = w) ∧ Fifo C b (wstep C b s (.send w)) xs

/-! ### lemmas -/

theorem takePending_perm (w : Nat) : ∀ (l : List (Pending V)) (p : Pending V) (rest : List (Pending V)),
    takePending w l = some (p, rest) → l.Perm (p :: rest) := by
  intro l
  induction l with
  | nil => intro p rest h; simp [takePending] at h
  | cons a l ih =>
    intro p rest h
    simp only [takePending] at h
    split at h
    · cases h; exact List.Perm.refl _
    · cases ht : takePending w l with
      | none => simp [ht] at h
      | some qr =>
        obtain ⟨q, r⟩ := qr
        simp [ht] at h
        obtain ⟨rfl, rfl⟩ := h
        exact ((ih q r ht).cons a).trans (List.Perm.swap q a r)

theorem takePending_head (w : Nat) (p : Pending V) (ps : List (Pending V)) (h : p.writer = w) :
    takePending w (p :: ps) = some (p, ps) := by
  simp [takePending, h]

theorem getLast_cons_getD (v d : V) (l : List V) : ((v :: l).getLast?).getD d = (l.getLast?).getD v := by
  cases l with
  | nil => rfl
  | cons a l =>
    rw [List.getLast?_cons_cons]
    cases h : (a :: l).getLast? with
    | none => simp [List.getLast?_eq_none_iff] at h
    | some x => rfl

/-- under FIFO schedules the announcements are the stores, in the same order -/
theorem fifo_sent_eq_stored (C : Cfg V Mask U) (sched : List (WStep U)) : ∀ s : WSrv V Mask, Fifo C false s sched →
    sentOf C false s sched ++ pvals (wrun C false s sched).pending = pvals s.pending ++ storedOf C false s sched := by
  induction sched with
  | nil => intro s _; simp [sentOf, wrun, storedOf]
  | cons x xs ih =>
    intro s hf
    cases x with
    | store w u =>
      have key := ih (wstep C false s (.store w u)) hf
      simp only [sentOf, wrun, storedOf]
      cases ha : C.apply s.cur u with
      | error c => simpa [wstep, ha] using key
      | ok v =>
        simp only [wstep, ha] at key ⊢
        rw [key]
        simp [pvals]
    | send w =>
      have key := ih (wstep C false s (.send w)) hf.2
      simp only [sentOf, wrun, storedOf]
      cases ht : takePending w s.pending with
      | none => simpa [wstep, ht] using key
      | some pr =>
        obtain ⟨p, rest⟩ := pr
        have hp : pvals s.pending = p.val :: pvals rest := by
          cases hpd : s.pending with
          | nil => rw [hpd] at ht; simp [takePending] at ht
          | cons p' ps' =>
            have h' := takePending_head w p' ps' (hf.1 p' ps' hpd)
            rw [hpd, h'] at ht
            cases ht
            rfl
        simp only [wstep, ht, Bool.false_and, Bool.false_eq_true, if_false] at key ⊢
        rw [hp]
        simp only [List.cons_append, key]

end ScVerif.C14
