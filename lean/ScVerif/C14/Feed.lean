import ScVerif.C14.BusLemmas
/-!
C14 — the bus and the one-slot buffers together: what ONE subscriber is handed, end to end.

`Bus.lean` has the listener list and the buffer separately. Here every listener has its own buffer: a `deliver e`
puts `e` into the buffer of every listed listener whose context has not ended; `take i` is subscriber i's goroutine
taking what is waiting. `owed i` (ghost) lists the events sent since listener i was registered, while its context
had not ended — what "every open Pull stream" is about. Listener ids are fresh: a `listen i` for an id that was
registered before does nothing. `collect` is one critical section here (the code as it is).
-/
namespace ScVerif.C14

variable {E : Type}

structure Feed (E : Type) where
  bus : BusSt E := {}
  slots : Nat → Slot E := fun _ => {}
  owed : Nat → List E := fun _ => []

inductive FStep (E : Type)
  | listen (i : Nat)
  | cancel (i : Nat)
  | deliver (e : E)
  | collect
  | take (i : Nat)

def Feed.alive (s : Feed E) (i : Nat) : Bool := s.bus.registered.contains i && !s.bus.dead.contains i

def fstep (s : Feed E) : FStep E → Feed E
  | .listen i => if s.bus.registered.contains i then s else { s with bus := bstep false s.bus (.listen i) }
  | .cancel i => { s with bus := bstep false s.bus (.cancel i) }
  | .deliver e =>
    { bus := bstep false s.bus (.deliver e),
      slots := fun j => if s.bus.listeners.contains j && !s.bus.dead.contains j then slotStep (s.slots j) (.put e) else s.slots j,
      owed := fun j => if s.alive j then s.owed j ++ [e] else s.owed j }
  | .collect => { s with bus := bstep false s.bus .scan }
  | .take i => { s with slots := fun j => if j = i then slotStep (s.slots j) .take else s.slots j }

def frun : Feed E → List (FStep E) → Feed E
  | s, [] => s
  | s, x :: xs => frun (fstep s x) xs

/-- what subscriber `j` has been handed plus what is waiting for it -/
def Feed.seen (s : Feed E) (j : Nat) : List E := (s.slots j).out ++ (s.slots j).buf.toList

structure FeedInv (s : Feed E) : Prop where
  bus : BusInv s.bus
  idle : BusIdle s.bus
  listed : ∀ j, j ∈ s.bus.listeners → j ∈ s.bus.registered
  fresh : ∀ j, s.bus.registered.contains j = false → s.slots j = {} ∧ s.owed j = []
  sub : ∀ j, s.alive j = true → (s.seen j).Sublist (s.owed j)
  tip : ∀ j, s.alive j = true → s.owed j ≠ [] → (s.slots j).tip = (s.owed j).getLast?
  quiet : ∀ j, s.alive j = true → s.owed j = [] → s.slots j = {}


theorem seen_take (s : Slot E) : (slotStep s .take).out ++ (slotStep s .take).buf.toList = s.out ++ s.buf.toList := by
  cases hb : s.buf with
  | none => simp [slotStep, hb]
  | some b => simp [slotStep, hb]

theorem take_empty : slotStep ({} : Slot E) .take = {} := rfl

theorem contains_cons_false {i j : Nat} {l : List Nat} (h : (i :: l).contains j = false) : l.contains j = false ∧ j ≠ i := by
  simp only [List.contains_cons, Bool.or_eq_false_iff] at h
  exact ⟨h.2, by simpa using h.1⟩

theorem fstep_inv (s : Feed E) (x : FStep E) (h : FeedInv s) : FeedInv (fstep s x) := by
  cases x with
  | listen i =>
    simp only [fstep]
    split
    · exact h
    · rename_i hni
      have hni : s.bus.registered.contains i = false := by simpa using hni
      have hb := bstep_inv s.bus (.listen i) h.bus h.idle
      have hfi := h.fresh i hni
      refine ⟨hb.1, hb.2, ?_, ?_, ?_, ?_, ?_⟩
      · intro j hj
        simp only [bstep] at hj ⊢
        rcases List.mem_append.mp hj with hj | hj
        · exact List.mem_cons_of_mem _ (h.listed j hj)
        · simp at hj; subst hj; exact List.mem_cons_self
      · intro j hj
        simp only [bstep] at hj
        exact h.fresh j (contains_cons_false hj).1
      · intro j hj
        by_cases hji : j = i
        · subst hji
          simp [Feed.seen, hfi.1, hfi.2]
        · apply h.sub j
          simp only [Feed.alive, bstep, List.contains_cons] at hj ⊢
          simpa [hji] using hj
      · intro j hj hne
        by_cases hji : j = i
        · subst hji; exact absurd hfi.2 hne
        · apply h.tip j _ hne
          simp only [Feed.alive, bstep, List.contains_cons] at hj ⊢
          simpa [hji] using hj
      · intro j hj he
        by_cases hji : j = i
        · subst hji; exact hfi.1
        · apply h.quiet j _ he
          simp only [Feed.alive, bstep, List.contains_cons] at hj ⊢
          simpa [hji] using hj
  | cancel i =>
    have hb := bstep_inv s.bus (.cancel i) h.bus h.idle
    have hal : ∀ j, (fstep s (.cancel i)).alive j = true → s.alive j = true := by
      intro j hj
      simp only [Feed.alive, fstep, bstep, Bool.and_eq_true, Bool.not_eq_true'] at hj ⊢
      exact ⟨hj.1, (contains_cons_false hj.2).1⟩
    exact ⟨hb.1, hb.2, h.listed, h.fresh, fun j hj => h.sub j (hal j hj), fun j hj => h.tip j (hal j hj),
      fun j hj => h.quiet j (hal j hj)⟩
  | deliver e =>
    have hb := bstep_inv s.bus (.deliver e) h.bus h.idle
    have hin : ∀ j, s.alive j = true → (s.bus.listeners.contains j && !s.bus.dead.contains j) = true := by
      intro j hj
      simp only [Feed.alive, Bool.and_eq_true, Bool.not_eq_true'] at hj
      have hm := h.bus j (by simpa using hj.1) hj.2
      have hc : s.bus.listeners.contains j = true := by simpa using hm
      rw [hc, hj.2]; rfl
    refine ⟨hb.1, hb.2, h.listed, ?_, ?_, ?_, ?_⟩
    · intro j hj
      have hj' : s.bus.registered.contains j = false := hj
      have hnl : s.bus.listeners.contains j = false := by
        cases hc : s.bus.listeners.contains j with
        | false => rfl
        | true =>
          have := h.listed j (by simpa using hc)
          have : s.bus.registered.contains j = true := by simpa using this
          rw [this] at hj'; cases hj'
      have hna : s.alive j = false := by unfold Feed.alive; rw [hj']; rfl
      simp only [fstep, hnl, hna, Bool.false_and, Bool.false_eq_true, if_false]
      exact h.fresh j hj'
    · intro j hj
      have hj' : s.alive j = true := hj
      have h1 := hin j hj'
      have hs := h.sub j hj'
      simp only [Feed.seen, fstep, h1, hj', if_true, slotStep, Option.toList_some] at hs ⊢
      exact ((List.sublist_append_left _ _).trans hs).append (List.Sublist.refl _)
    · intro j hj _
      have hj' : s.alive j = true := hj
      have h1 := hin j hj'
      simp only [fstep, h1, hj', if_true, slotStep, Slot.tip]
      simp
    · intro j hj he
      have hj' : s.alive j = true := hj
      simp only [fstep, hj', if_true] at he
      simp at he
  | collect =>
    have hb := bstep_inv s.bus .scan h.bus h.idle
    refine ⟨hb.1, hb.2, ?_, h.fresh, h.sub, h.tip, h.quiet⟩
    intro j hj
    simp only [fstep, bstep, Bool.false_eq_true, if_false] at hj
    exact h.listed j (List.mem_filter.mp hj).1
  | take i =>
    refine ⟨h.bus, h.idle, h.listed, ?_, ?_, ?_, ?_⟩
    · intro j hj
      have := h.fresh j hj
      simp only [fstep]
      split
      · rw [this.1]; exact ⟨take_empty, this.2⟩
      · exact this
    · intro j hj
      have hs := h.sub j hj
      simp only [Feed.seen, fstep] at hs ⊢
      split
      · rw [seen_take]; exact hs
      · exact hs
    · intro j hj hne
      have ht := h.tip j hj hne
      simp only [fstep] at hne ⊢
      split
      · rw [slot_tip_take]; exact ht
      · exact ht
    · intro j hj he
      have hq := h.quiet j hj he
      simp only [fstep]
      split
      · rw [hq]; exact take_empty
      · exact hq

theorem frun_inv (sched : List (FStep E)) : ∀ s : Feed E, FeedInv s → FeedInv (frun s sched) := by
  induction sched with
  | nil => intro s h; exact h
  | cons x xs ih => intro s h; exact ih _ (fstep_inv s x h)

theorem feed_init_inv : FeedInv ({} : Feed E) := by
  refine ⟨?_, rfl, ?_, ?_, ?_, ?_, ?_⟩
  · intro j hj; simp at hj
  · intro j hj; simp at hj
  · intro j _; exact ⟨rfl, rfl⟩
  · intro j hj; simp [Feed.alive] at hj
  · intro j hj; simp [Feed.alive] at hj
  · intro j hj; simp [Feed.alive] at hj

end ScVerif.C14
