import ScVerif.C14.Server
/-!
C14 — a register COMPOSED of collection items: `openclosepb.Model`
(pkg/trait/openclosepb/model.go: GetPositions, UpdatePositions, PullPositions).

The resource `OpenClosePositions` is not stored. The model keeps one `OpenClosePosition` per
direction in a `resource.Collection` (id = `directionToID(direction)`) and composes the register's
value on demand. The definitions follow the Go code:

  GetPositions(read_mask)
      items := positions.List(unmasked)                 -- sorted by id
      dst   := {States: items, Preset: presetForValue(items)}         =: compose items
      return readRequest.FilterClone(dst)               -- a COPY is filtered: the stored items are not touched
  UpdatePositions(positions, update_mask)
      if positions.Preset != nil: states := copies of the named preset's positions, or InvalidArgument   =: resolve
      for _, state := range states:
          positions.Update(directionToID(state.Direction), state, WithUpdateMask(stripped mask), WithCreateIfAbsent())
          -- the mask is validated by every item write (same mask, same verdict: `valid`); an error returns at once
          -- every item write publishes ONE collection event (id, new item)
      return GetPositions()                              -- unmasked
  PullPositions(read_mask, updates_only)                 -- one goroutine per stream
      all := {}                                          -- the goroutine's OWN map id ↦ item
      changes := positions.Pull(ctx)                     -- ALWAYS a seeded subscription: the seeds fill `all`;
                                                         -- the composed value is sent after the last seed unless updates_only
      for change := range changes:
          all[change.Id] = change.NewValue
          positions := FilterClone(read_mask, compose(all))          -- states listed in id order, as Get does
          if eq(last, positions) { continue }
          last = positions; send(positions)

`seedAlways` is the one structural choice the model exposes: `true` is the code (the internal
subscription is seeded whatever the caller's updates_only), `false` passes updates_only down to the
collection subscription (`all` then starts empty for an updates-only stream).

`compose`, `proj`, `resolve`, `keyOf`, `valid`, `merge`, `eqv` are arbitrary functions: preset tables,
read-mask projection, update-mask merging (FieldUpdater), `cmp.Equal` are all inside them. Subscribing
is atomic in this model (the update-while-subscribing window is the harness's gap/race families).
-/
namespace ScVerif.C14

structure CCfg (K I S UM U V Mask : Type) where
  /-- `{States: items in id order, Preset: presetForValue(items)}` -/
  compose : (K → Option I) → V
  /-- read-mask projection -/
  proj : Mask → V → V
  /-- preset resolution of the request: the states to write, or InvalidArgument -/
  resolve : U → Except Nat (List S)
  /-- `directionToID(state.Direction)` -/
  keyOf : S → K
  /-- the (prefix-stripped) update mask passes `FieldUpdater.Validate` -/
  valid : UM → Bool
  /-- `Collection.Update(id, state, WithUpdateMask(um), WithCreateIfAbsent())`: the item's new value -/
  merge : UM → Option I → S → I
  /-- `cmp.Equal()(last, positions)` -/
  eqv : Option V → V → Bool

variable {K I S UM U V Mask : Type} [DecidableEq K]

/-- `FilterClone` -/
def cview (C : CCfg K I S UM U V Mask) (m : Option Mask) (v : V) : V :=
  match m with
  | none => v
  | some m => C.proj m v

structure CStream (K I V Mask : Type) where
  name : String
  mask : Option Mask
  /-- the stream goroutine's own map id ↦ item -/
  all : K → Option I
  /-- the last value sent -/
  last : Option V
  /-- everything sent so far, oldest first -/
  out : List (V × String)
  live : Bool

structure CSrv (K I V Mask : Type) where
  /-- the collection -/
  items : K → Option I
  streams : List (CStream K I V Mask)

inductive CReq (UM U Mask : Type)
  | get (name : String) (mask : Option Mask)
  | update (name : String) (u : U) (um : UM)
  | pull (name : String) (mask : Option Mask) (updatesOnly : Bool)
  | cancel (i : Nat)

/-- `m[k] = i` -/
def setItem (f : K → Option I) (k : K) (i : I) : K → Option I := fun k' => if k' = k then some i else f k'

/-- one collection event `(k, i)` reaches one stream goroutine -/
def cpush (C : CCfg K I S UM U V Mask) (k : K) (i : I) (st : CStream K I V Mask) : CStream K I V Mask :=
  if !st.live then st
  else
    let all' := setItem st.all k i
    let x := cview C st.mask (C.compose all')
    if C.eqv st.last x then { st with all := all' }
    else { st with all := all', last := some x, out := st.out ++ [(x, st.name)] }

/-- one `Collection.Update` of UpdatePositions' loop -/
def writeItem (C : CCfg K I S UM U V Mask) (um : UM) (s : CSrv K I V Mask) (x : S) : Except Nat (CSrv K I V Mask) :=
  if C.valid um then
    let k := C.keyOf x
    let i := C.merge um (s.items k) x
    .ok { items := setItem s.items k i, streams := s.streams.map (cpush C k i) }
  else .error 3

/-- the loop: the state after the writes that were made, and the error that ended it early (if any) -/
def writeAll (C : CCfg K I S UM U V Mask) (um : UM) : CSrv K I V Mask → List S → CSrv K I V Mask × Option Nat
  | s, [] => (s, none)
  | s, x :: xs =>
    match writeItem C um s x with
    | .error c => (s, some c)
    | .ok s' => writeAll C um s' xs

def copen (C : CCfg K I S UM U V Mask) (seedAlways : Bool) (items : K → Option I)
    (name : String) (mask : Option Mask) (uo : Bool) : CStream K I V Mask :=
  { name := name, mask := mask,
    all := if seedAlways || !uo then items else fun _ => none,
    last := if uo then none else some (cview C mask (C.compose items)),
    out := if uo then [] else [(cview C mask (C.compose items), name)],
    live := true }

def cstep (C : CCfg K I S UM U V Mask) (seedAlways : Bool) (s : CSrv K I V Mask) :
    CReq UM U Mask → CSrv K I V Mask × Resp V
  | .get _ m => (s, .val (cview C m (C.compose s.items)))
  | .update _ u um =>
    match C.resolve u with
    | .error c => (s, .err c)
    | .ok xs =>
      match writeAll C um s xs with
      | (s', some c) => (s', .err c)
      | (s', none) => (s', .val (C.compose s'.items))
  | .pull name m uo =>
    ({ s with streams := s.streams ++ [copen C seedAlways s.items name m uo] }, .opened s.streams.length)
  | .cancel i =>
    ({ s with streams := s.streams.mapIdx fun j st => if j = i then { st with live := false } else st }, .done)

def crun (C : CCfg K I S UM U V Mask) (seedAlways : Bool) : CSrv K I V Mask → List (CReq UM U Mask) → CSrv K I V Mask
  | s, [] => s
  | s, r :: rs => crun C seedAlways (cstep C seedAlways s r).1 rs

/-- the collections UpdatePositions' loop passes through: before the first write and after each one (mask valid) -/
def itemsAlong (C : CCfg K I S UM U V Mask) (um : UM) : (K → Option I) → List S → List (K → Option I)
  | f, [] => [f]
  | f, x :: xs => f :: itemsAlong C um (setItem f (C.keyOf x) (C.merge um (f (C.keyOf x)) x)) xs

/-- every live stream goroutine's own map is the collection -/
def Tracks (s : CSrv K I V Mask) : Prop := ∀ st, st ∈ s.streams → st.live = true → st.all = s.items

end ScVerif.C14
