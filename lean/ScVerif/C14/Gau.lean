import ScVerif.C14.Server
/-!
C14 — `resource.GetAndUpdate` (pkg/resource/atomic.go) as the steps it is: the optimistic write under `Value.set`
and `Collection.Update`.

  GetAndUpdate(mu, get, change, save):
     RLock; old := get(); RUnlock                        -- READ
     new, err := change(old, clone(old)); if err → return err    -- no lock held; validation, masks, interceptors
     Lock; again := get()
     if !proto.Equal(old, again) → Unlock; return Aborted        -- COMMIT, rejected: somebody stored in between
     save(new); Unlock; return new                               -- COMMIT, stored

Any number of writers; a schedule is ANY interleaving of their `read` and `commit` steps (a `commit` of a writer
that has not read does nothing). `change` is the whole write pipeline of the request (`Cfg.apply`): the Writers
model (`Writers.lean`) and the register model (`Server.lean`) treat a successful write as ONE atomic step
`apply cur u`; the theorems of `PropsGau.lean` are why they may.
-/
namespace ScVerif.C14

/-- the status a writer is answered with when the value changed between its read and its commit -/
def aborted : Nat := 10

structure GWriter (V U : Type) where
  id : Nat
  u : U
  /-- the value it read -/
  old : V

structure GSt (V U : Type) where
  cur : V
  /-- writers that have read and not committed yet -/
  inflight : List (GWriter V U) := []
  /-- the answers so far, in commit order -/
  log : List (Nat × Except Nat V) := []

inductive GStep (U : Type)
  | read (w : Nat) (u : U)
  | commit (w : Nat)

variable {V U : Type}

def takeWriter (w : Nat) : List (GWriter V U) → Option (GWriter V U × List (GWriter V U))
  | [] => none
  | g :: gs =>
    if g.id = w then some (g, gs)
    else match takeWriter w gs with
      | none => none
      | some (x, r) => some (x, g :: r)

def gstep [DecidableEq V] (change : V → U → Except Nat V) (s : GSt V U) : GStep U → GSt V U
  | .read w u => { s with inflight := s.inflight ++ [⟨w, u, s.cur⟩] }
  | .commit w =>
    match takeWriter w s.inflight with
    | none => s
    | some (g, rest) =>
      match change g.old g.u with
      | .error c => { s with inflight := rest, log := s.log ++ [(w, .error c)] }
      | .ok v =>
        if g.old = s.cur then { cur := v, inflight := rest, log := s.log ++ [(w, .ok v)] }
        else { s with inflight := rest, log := s.log ++ [(w, .error aborted)] }

def grun [DecidableEq V] (change : V → U → Except Nat V) : GSt V U → List (GStep U) → GSt V U
  | s, [] => s
  | s, x :: xs => grun change (gstep change s x) xs

/-- the requests whose commit stored a value, in commit order -/
def gstored [DecidableEq V] (change : V → U → Except Nat V) : GSt V U → List (GStep U) → List U
  | _, [] => []
  | s, .read w u :: xs => gstored change (gstep change s (.read w u)) xs
  | s, .commit w :: xs =>
    match takeWriter w s.inflight with
    | none => gstored change (gstep change s (.commit w)) xs
    | some (g, _) =>
      match change g.old g.u with
      | .error _ => gstored change (gstep change s (.commit w)) xs
      | .ok _ =>
        if g.old = s.cur then g.u :: gstored change (gstep change s (.commit w)) xs
        else gstored change (gstep change s (.commit w)) xs

/-- the register as ONE atomic step per request (`Server.step` on `.update`): a rejected request changes nothing -/
def atomicApply (change : V → U → Except Nat V) (c : V) (u : U) : V :=
  match change c u with
  | .ok v => v
  | .error _ => c

end ScVerif.C14
