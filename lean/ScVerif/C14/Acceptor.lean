import ScVerif.C14.Server
/-!
The register server run as a **trace acceptor**.  Values and masks are opaque identifiers (the
harness interns message contents); the projection is a table of facts the harness supplies
(`proj m v = p`, computed by its own independent projection).  The Update response is taken as
the oracle for the arbitrary `apply`; every later observation must be the one the model forces.
`eqv` is unknown to the acceptor, so an event whose projected value equals the previous projected
value MAY be suppressed (optional entry); one that differs MUST arrive.
-/
namespace ScVerif.C14

abbrev VId := Nat
abbrev MId := Nat   -- 0 = nil mask

structure Entry where
  val : VId
  must : Bool
  seed : Bool
  deriving DecidableEq, Repr

structure AStream where
  mask : MId
  queue : List Entry
  live : Bool
  /-- the server-side subscription is known to exist: a seeded stream proves it with its seed, an
  updates_only stream with its first message (the Pull RPC returns before the handler subscribes, so
  until then an Update may be missed) -/
  established : Bool
  /-- the last message this stream delivered (seed included) -/
  lastSeen : Option VId := none
  /-- the register (0 = the single register of an unkeyed resource; otherwise the item's id) this stream is bound to -/
  key : Nat := 0
  /-- the item was deleted: the stream has to END (PullID returns on REMOVE) -/
  ending : Bool := false

structure Acc where
  /-- key ↦ register value (absent: unknown yet / no such item) -/
  regs : List (Nat × VId) := []
  streams : List AStream
  facts : List ((MId × VId) × VId)
  /-- background mode: an accepted Update started server-side writes (a tween); until the harness reports
  quiescence, stream messages and intermediate values are not constrained, `cur` is where the register
  has to END: the background job's target, or the response of a later Update that interrupted it -/
  bg : Bool := false

def Acc.init : Acc := { streams := [], facts := [] }

def Acc.curOf (a : Acc) (k : Nat) : Option VId := (a.regs.find? (·.1 = k)).map (·.2)

def Acc.setCur (a : Acc) (k : Nat) (v : VId) : Acc := { a with regs := (k, v) :: a.regs.filter (·.1 ≠ k) }

def Acc.delCur (a : Acc) (k : Nat) : Acc := { a with regs := a.regs.filter (·.1 ≠ k) }

/-- projection by table; `none` when the harness did not supply the fact -/
def Acc.proj (a : Acc) (m : MId) (v : VId) : Option VId :=
  if m = 0 then some v else (a.facts.find? (fun f => f.1 = (m, v))).map (·.2)

inductive Obs
  | fact (m : MId) (v p : VId)
  | get (k : Nat) (m : MId) (w : VId)
  | getnf (k : Nat)              -- Get answered NotFound
  | updok (k : Nat) (v : VId)    -- also Create
  | upderr
  | updlate (k : Nat) (v : VId)  -- two writers: an Update STORED before the current value was, ANNOUNCED only now
  | delete (k : Nat)             -- the item was deleted: its streams must end
  | ended (i : Nat)              -- stream i ended (without being cancelled)
  | updokbg (k : Nat) (v target : VId)   -- Update accepted, background writes started; `target`: where they end
  | quiesce                    -- the harness waited past the background job's deadline and drained
  | open_ (k : Nat) (m : MId) (uo : Bool)
  | recv (i : Nat) (w : VId) (nameOk : Bool)
  | idle (i : Nat)
  | close (i : Nat)
  | stall (i : Nat)       -- the reader of stream i stops calling Recv: it no longer keeps up, nothing is owed to it
  | estab (i : Nat)       -- the subscription of stream i is KNOWN to exist before the next write: the harness saw its listener(s) in the snapshot `Bus.Send` took for that write (first.go), so the write's event was handed to it
  | resume (i : Nat)      -- the reader of stream i has read what was waiting for it and keeps up again: the stream has to have ENDED on the register (`quiesce`)
  | bad (cls : String)    -- panics, errors on Get/open, stream ended: never produced by the model

inductive Verdict
  | ok
  | reject (cls : String)
  | missingFact
  deriving DecidableEq, Repr

def setAt {α : Type} (l : List α) (i : Nat) (f : α → α) : List α := l.mapIdx fun j x => if j = i then f x else x

/-- drop optional entries at the head that are not `w` -/
def skipOptional (w : VId) : List Entry → List Entry
  | [] => []
  | e :: rest => if !e.must && e.val ≠ w then skipOptional w rest else e :: rest

/-- an Update response reaches a stream's expectation queue: `w` its projected value, `wp` the previous one -/
def qPush (q : List Entry) (w wp : VId) (established : Bool) : List Entry :=
  q ++ [{ val := w, must := w ≠ wp && established, seed := false }]

/-- a message `w` arrives on a stream with expectation queue `q` -/
def qRecv (q : List Entry) (w : VId) (nameOk : Bool) : List Entry × Verdict :=
  match skipOptional w q with
  | [] => ([], .reject "Pull/unexpected-stream-message")
  | e :: rest =>
    if e.val ≠ w then (rest, .reject (if e.seed then "Pull/seed-wrong" else "Pull/wrong-stream-value"))
    else if !nameOk then (rest, .reject "Pull/wrong-name")
    else (rest, .ok)

/-- the reader found the stream idle: nothing that MUST arrive may be outstanding -/
def qIdle (q : List Entry) : Verdict :=
  match q.find? (·.must) with
  | none => .ok
  | some e => .reject (if e.seed then "Pull/seed-missing" else "Pull/update-missing-on-stream")

def pushEntry (a : Acc) (k : Nat) (prev : Option VId) (v : VId) (s : AStream) : Option AStream :=
  if !s.live || s.key ≠ k then some s else
  match a.proj s.mask v with
  | none => none
  | some w =>
    match prev with
    | none => some { s with queue := s.queue ++ [{ val := w, must := s.established, seed := false }] }
    | some p =>
      match a.proj s.mask p with
      | none => none
      | some wp => some { s with queue := qPush s.queue w wp s.established }

def accept (a : Acc) : Obs → Acc × Verdict
  | .fact m v p => ({ a with facts := ((m, v), p) :: a.facts }, .ok)
  | .get k m w =>
    match a.curOf k with
    | none => if m = 0 then (a.setCur k w, .ok) else (a, .ok)
    | some c =>
      match a.proj m c with
      | none => (a, .missingFact)
      | some p =>
        if p = w then (a, .ok)
        else (a, .reject (if m = 0 then "Get/differs-from-register" else "Get/masked-get-not-projection"))
  | .getnf k =>
    match a.curOf k with
    | none => (a, .ok)
    | some _ => (a, .reject "Get/not-found-for-existing-item")
  | .updokbg k _ target =>
    ({ a.setCur k target with bg := true, streams := a.streams.map fun s => { s with queue := [] } }, .ok)
  | .quiesce =>
    -- every live, established stream must have ENDED on its register's value
    match a.streams.mapM (fun s =>
        match a.curOf s.key with
        | none => some true
        | some c => if s.live && s.established then (a.proj s.mask c).map (fun p => s.lastSeen == some p) else some true) with
    | none => (a, .missingFact)
    | some oks =>
      if oks.all id then ({ a with bg := false }, .ok)
      else ({ a with bg := false }, .reject "Pull/stream-does-not-end-on-register")
  | .updok k v =>
    if a.bg then (a.setCur k v, .ok) else
    match a.streams.mapM (pushEntry a k (a.curOf k) v) with
    | none => (a, .missingFact)
    | some ss => ({ a.setCur k v with streams := ss }, .ok)
  | .updlate k v =>
    -- the overtaken writer of two (held between `store` and `send`, Writers.lean): the register keeps the later
    -- store, the event reaches every stream of the register now, compared with the later value (sent before it)
    match a.streams.mapM (pushEntry a k (a.curOf k) v) with
    | none => (a, .missingFact)
    | some ss => ({ a with streams := ss }, .ok)
  | .upderr => (a, .ok)
  | .delete k =>
    ({ a.delCur k with streams := a.streams.map fun s => if s.live && s.key = k then { s with ending := true } else s }, .ok)
  | .ended i =>
    match a.streams[i]? with
    | none => (a, .reject "Pull/stream-ended")
    | some s =>
      if s.ending then ({ a with streams := setAt a.streams i fun s => { s with live := false, ending := false } }, .ok)
      else (a, .reject "Pull/stream-ended")
  | .open_ k m uo =>
    match a.curOf k, uo with
    | some c, false =>
      match a.proj m c with
      | none => (a, .missingFact)
      | some p => ({ a with streams := a.streams ++ [{ mask := m, queue := [{ val := p, must := true, seed := true }], live := true, established := true, key := k }] }, .ok)
    | _, _ => ({ a with streams := a.streams ++ [{ mask := m, queue := [], live := true, established := false, key := k }] }, .ok)
  | .recv i w nameOk =>
    match a.streams[i]? with
    | none => (a, .reject "Pull/unexpected-stream-message")
    | some s =>
      if a.bg then
        -- background mode: any value may pass by; only the name is checked
        ({ a with streams := setAt a.streams i fun s => { s with established := true, lastSeen := some w } },
          if nameOk then .ok else .reject "Pull/wrong-name")
      else
      let r := qRecv s.queue w nameOk
      ({ a with streams := setAt a.streams i fun s => { s with queue := r.1, established := s.established || r.2 == .ok, lastSeen := some w } }, r.2)
  | .idle i =>
    match a.streams[i]? with
    | none => (a, .ok)
    | some s =>
      if s.ending then (a, .reject "Pull/not-ended-after-delete") else
      match qIdle s.queue with
      | .ok => (a, .ok)
      | v => ({ a with streams := setAt a.streams i fun s => { s with queue := [] } }, v)
  | .close i => ({ a with streams := setAt a.streams i fun s => { s with live := false, queue := [] } }, .ok)
  | .stall i =>
    -- "whose reader keeps up" no longer applies: every value announced from now on is an optional entry (the resource
    -- keeps only the latest value for a slow subscriber: `Slow.lean`, any subsequence may arrive later)
    ({ a with streams := setAt a.streams i fun s => { s with established := false } }, .ok)
  | .estab i =>
    -- an updates-only stream that has delivered nothing yet, but whose listener is on the bus: from now on every
    -- value-changing write is owed to it, the very first one included (whatever its value: `C14_first_update_delivered`)
    ({ a with streams := setAt a.streams i fun s => { s with established := true } }, .ok)
  | .resume i =>
    -- the reader has caught up: nothing announced during the stall is expected any more; the subscription exists (it
    -- delivered before the stall): the stream is judged again, `quiesce` requires it to have ended on the register
    ({ a with streams := setAt a.streams i fun s => { s with established := true, queue := [] } }, .ok)
  | .bad cls => (a, .reject cls)

end ScVerif.C14
