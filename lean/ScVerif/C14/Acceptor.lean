import ScVerif.C14.Server
/-!
The register server run as a **trace acceptor**.  Values and masks are opaque identifiers (the
harness interns message contents); the projection is a table of facts the harness supplies
(`proj m v = p`, computed by its own independent projection).  The Update response is taken as
the oracle for the arbitrary `apply`; every later observation must be the one the model forces.
`eqv` is unknown to the acceptor, so an event whose projected value equals the previous projected
value MAY be suppressed (optional entry); one that differs MUST arrive.
-/
namespace ScVerif.C14

abbrev VId := Nat
abbrev MId := Nat   -- 0 = nil mask

structure Entry where
  val : VId
  must : Bool
  seed : Bool
  deriving DecidableEq, Repr

structure AStream where
  mask : MId
  queue : List Entry
  live : Bool
  /-- the server-side subscription is known to exist: a seeded stream proves it with its seed, an
  updates_only stream with its first message (the Pull RPC returns before the handler subscribes, so
  until then an Update may be missed) -/
  established : Bool
  /-- the last message this stream delivered (seed included) -/
  lastSeen : Option VId := none

structure Acc where
  cur : Option VId
  streams : List AStream
  facts : List ((MId × VId) × VId)
  /-- background mode: an accepted Update started server-side writes (a tween); until the harness reports
  quiescence, stream messages and intermediate values are not constrained, `cur` is where the register
  has to END: the background job's target, or the response of a later Update that interrupted it -/
  bg : Bool := false

def Acc.init : Acc := { cur := none, streams := [], facts := [] }

/-- projection by table; `none` when the harness did not supply the fact -/
def Acc.proj (a : Acc) (m : MId) (v : VId) : Option VId :=
  if m = 0 then some v else (a.facts.find? (fun f => f.1 = (m, v))).map (·.2)

inductive Obs
  | fact (m : MId) (v p : VId)
  | get (m : MId) (w : VId)
  | updok (v : VId)
  | upderr
  | updokbg (v target : VId)   -- Update accepted, background writes started; `target`: where they end
  | quiesce                    -- the harness waited past the background job's deadline and drained
  | open_ (m : MId) (uo : Bool)
  | recv (i : Nat) (w : VId) (nameOk : Bool)
  | idle (i : Nat)
  | close (i : Nat)
  | bad (cls : String)    -- panics, errors on Get/open, stream ended: never produced by the model

inductive Verdict
  | ok
  | reject (cls : String)
  | missingFact
  deriving DecidableEq, Repr

def setAt {α : Type} (l : List α) (i : Nat) (f : α → α) : List α := l.mapIdx fun j x => if j = i then f x else x

/-- drop optional entries at the head that are not `w` -/
def skipOptional (w : VId) : List Entry → List Entry
  | [] => []
  | e :: rest => if !e.must && e.val ≠ w then skipOptional w rest else e :: rest

/-- an Update response reaches a stream's expectation queue: `w` its projected value, `wp` the previous one -/
def qPush (q : List Entry) (w wp : VId) (established : Bool) : List Entry :=
  q ++ [{ val := w, must := w ≠ wp && established, seed := false }]

/-- a message `w` arrives on a stream with expectation queue `q` -/
def qRecv (q : List Entry) (w : VId) (nameOk : Bool) : List Entry × Verdict :=
  match skipOptional w q with
  | [] => ([], .reject "Pull/unexpected-stream-message")
  | e :: rest =>
    if e.val ≠ w then (rest, .reject (if e.seed then "Pull/seed-wrong" else "Pull/wrong-stream-value"))
    else if !nameOk then (rest, .reject "Pull/wrong-name")
    else (rest, .ok)

/-- the reader found the stream idle: nothing that MUST arrive may be outstanding -/
def qIdle (q : List Entry) : Verdict :=
  match q.find? (·.must) with
  | none => .ok
  | some e => .reject (if e.seed then "Pull/seed-missing" else "Pull/update-missing-on-stream")

def pushEntry (a : Acc) (prev : Option VId) (v : VId) (s : AStream) : Option AStream :=
  if !s.live then some s else
  match a.proj s.mask v with
  | none => none
  | some w =>
    match prev with
    | none => some { s with queue := s.queue ++ [{ val := w, must := s.established, seed := false }] }
    | some p =>
      match a.proj s.mask p with
      | none => none
      | some wp => some { s with queue := qPush s.queue w wp s.established }

def accept (a : Acc) : Obs → Acc × Verdict
  | .fact m v p => ({ a with facts := ((m, v), p) :: a.facts }, .ok)
  | .get m w =>
    match a.cur with
    | none => if m = 0 then ({ a with cur := some w }, .ok) else (a, .ok)
    | some c =>
      match a.proj m c with
      | none => (a, .missingFact)
      | some p =>
        if p = w then (a, .ok)
        else (a, .reject (if m = 0 then "Get/differs-from-register" else "Get/masked-get-not-projection"))
  | .updokbg _ target =>
    ({ a with cur := some target, bg := true, streams := a.streams.map fun s => { s with queue := [] } }, .ok)
  | .quiesce =>
    match a.cur with
    | none => ({ a with bg := false }, .ok)
    | some c =>
      -- every live, established stream must have ENDED on the register's value
      match a.streams.mapM (fun s => if s.live && s.established then (a.proj s.mask c).map (fun p => s.lastSeen == some p) else some true) with
      | none => (a, .missingFact)
      | some oks =>
        if oks.all id then ({ a with bg := false }, .ok)
        else ({ a with bg := false }, .reject "Pull/stream-does-not-end-on-register")
  | .updok v =>
    if a.bg then ({ a with cur := some v }, .ok) else
    match a.streams.mapM (pushEntry a a.cur v) with
    | none => (a, .missingFact)
    | some ss => ({ a with cur := some v, streams := ss }, .ok)
  | .upderr => (a, .ok)
  | .open_ m uo =>
    match a.cur, uo with
    | some c, false =>
      match a.proj m c with
      | none => (a, .missingFact)
      | some p => ({ a with streams := a.streams ++ [{ mask := m, queue := [{ val := p, must := true, seed := true }], live := true, established := true }] }, .ok)
    | _, _ => ({ a with streams := a.streams ++ [{ mask := m, queue := [], live := true, established := false }] }, .ok)
  | .recv i w nameOk =>
    match a.streams[i]? with
    | none => (a, .reject "Pull/unexpected-stream-message")
    | some s =>
      if a.bg then
        -- background mode: any value may pass by; only the name is checked
        ({ a with streams := setAt a.streams i fun s => { s with established := true, lastSeen := some w } },
          if nameOk then .ok else .reject "Pull/wrong-name")
      else
      let r := qRecv s.queue w nameOk
      ({ a with streams := setAt a.streams i fun s => { s with queue := r.1, established := s.established || r.2 == .ok, lastSeen := some w } }, r.2)
  | .idle i =>
    match a.streams[i]? with
    | none => (a, .ok)
    | some s =>
      match qIdle s.queue with
      | .ok => (a, .ok)
      | v => ({ a with streams := setAt a.streams i fun s => { s with queue := [] } }, v)
  | .close i => ({ a with streams := setAt a.streams i fun s => { s with live := false, queue := [] } }, .ok)
  | .bad cls => (a, .reject cls)

end ScVerif.C14
