import ScVerif.Base.Line
import ScVerif.C14.Composite
import ScVerif.C14.Masks
/-!
Driver side of the composed-register model (Composite.lean) run as a SIMULATOR: the harness sends the
requests it makes to a server whose register is composed of collection items (openclosepb Positions),
the model answers with what it predicts — the response's listing and, per live stream, the messages the
request puts on it (the whole burst of a multi-item Update) — and the harness compares that with what the
real stack delivered.

Items and masks are identifiers interned by the harness; the item a write produces is taken from the
Update's response (the oracle for `merge`), whether the update mask was accepted from its status
(`valid`). The composition is computed here: the listing of the items in id order (ids below 100, as
`directionToID` formats them), projected item-wise through a table of facts `(mask, item) ↦ item`.
-/
namespace ScVerif.C14
open ScVerif.Line

/-- the composed value: `(id, item)` in id order -/
abbrev Listing := List (Nat × Nat)

structure CSim where
  /-- `(mask, item) ↦ projected item`; masks without an entry for an item leave it alone -/
  facts : List ((Nat × Nat) × Nat) := []
  srv : CSrv Nat Nat Listing Nat := ⟨fun _ => none, []⟩

def listingOf (f : Nat → Option Nat) : Listing := (List.range 100).filterMap fun k => (f k).map fun i => (k, i)

def simCfg (facts : List ((Nat × Nat) × Nat)) : CCfg Nat Nat (Nat × Nat) Bool (List (Nat × Nat)) Listing Nat where
  compose := listingOf
  proj := fun m v => v.map fun ki => (ki.1, ((facts.find? fun f => f.1 = (m, ki.2)).map (·.2)).getD ki.2)
  resolve := fun u => .ok u
  keyOf := fun x => x.1
  valid := fun um => um
  merge := fun _ _ x => x.2
  eqv := fun l w => l == some w

def showListing (v : Listing) : String :=
  if v.isEmpty then "e" else ".".intercalate (v.map fun ki => toString ki.2)

def showMsgs (ms : List (Listing × String)) : String :=
  if ms.isEmpty then "-" else "|".intercalate (ms.map fun m => showListing m.1)

/-- `k:i,k:i` (or `-`) -/
def parsePairs? (s : String) : Option (List (Nat × Nat)) :=
  if s = "-" then some [] else
  (s.splitOn ",").mapM fun p =>
    match p.splitOn ":" with
    | [k, i] => do pure ((← parseNat? k), (← parseNat? i))
    | _ => none

def parseMask? (s : String) : Option (Option Nat) := do
  let m ← parseNat? s
  pure (if m = 0 then none else some m)

/-- the messages each stream gained between two states: `s<index>=<burst>` for the streams that gained any -/
def gained (old new : List (CStream Nat Nat Listing Nat)) : String :=
  let parts := (List.range new.length).filterMap fun j =>
    match new[j]?, old[j]? with
    | some n, some o => if n.out.length > o.out.length then some s!"s{j}={showMsgs (n.out.drop o.out.length)}" else none
    | some n, none => if n.out.isEmpty then none else some s!"s{j}={showMsgs n.out}"
    | _, _ => none
  if parts.isEmpty then "quiet" else " ".intercalate parts

def chandle (c : CSim) (toks : List String) : Option (CSim × String) :=
  match toks with
  | ["cinit", items] => do
    let ps ← parsePairs? items
    let f : Nat → Option Nat := fun k => (ps.find? fun p => p.1 = k).map (·.2)
    pure ({ facts := [], srv := ⟨f, []⟩ }, "ok")
  | ["cfact", m, i, p] => do
    pure ({ c with facts := ((← parseNat? m, ← parseNat? i), ← parseNat? p) :: c.facts }, "ok")
  | ["cget", m] => do
    let r := cstep (simCfg c.facts) true c.srv (.get "" (← parseMask? m))
    match r.2 with
    | .val v => pure (c, showListing v)
    | _ => none
  | ["cupd", valid, items] => do
    let ps ← parsePairs? items
    let r := cstep (simCfg c.facts) true c.srv (.update "" ps (← parseBool? valid))
    let resp := match r.2 with
      | .val v => "resp=" ++ showListing v
      | .err _ => "err"
      | _ => "?"
    pure ({ c with srv := r.1 }, resp ++ " " ++ gained c.srv.streams r.1.streams)
  | ["copen", m, uo] => do
    let r := cstep (simCfg c.facts) true c.srv (.pull "" (← parseMask? m) (← parseBool? uo))
    pure ({ c with srv := r.1 }, gained c.srv.streams r.1.streams)
  | ["rmprefix", pfx, mask] =>
    -- masks.RemovePrefix: `nil`, `-` (a mask without paths) or comma-separated dotted paths
    let m : Option (List Path) :=
      if mask = "nil" then none else if mask = "-" then some [] else some ((mask.splitOn ",").map (·.splitOn "."))
    let out := match removePrefix pfx m with
      | none => "nil"
      | some ps => if ps.isEmpty then "-" else ",".intercalate (ps.map fun p => ".".intercalate p)
    some (c, out)
  | ["cclose", i] => do
    let r := cstep (simCfg c.facts) true c.srv (.cancel (← parseNat? i))
    pure ({ c with srv := r.1 }, "ok")
  | _ => none

end ScVerif.C14
