import ScVerif.C14.Keyed
/-!
C14 — `resource.Collection.Delete` (pkg/resource/collection.go) next to concurrent Updates of the same item.

  Delete(id):
     RLock; oldVal, exists := byId[id]; RUnlock                       -- READ (`dread`)
     for attempt < 5:
        if !exists → NotFound
        (expected-value checks on oldVal, no lock held)
        Lock; oldVal2, exists2 := byId[id]
        if oldVal2 != oldVal || exists2 != exists → Unlock; refresh; continue     -- COMMIT attempt, somebody stored
        delete(byId, id); bus.Send(REMOVE oldVal.body); Unlock; return oldVal.body   -- COMMIT, removed (announced under the lock)
     → Unavailable

`oldVal2 != oldVal` compares the stored `*item` POINTERS: every Update stores a fresh one, modelled by a version number.
`store v` is a complete Update of the item by another client (one atomic step here: `PropsGau`), which also announces
its value; on a missing item it is rejected (NotFound) and changes nothing.
-/
namespace ScVerif.C14

inductive DEv (V : Type)
  | upd (v : V)
  | removed (v : V)
  deriving DecidableEq

structure DSt (V : Type) where
  /-- `byId[id]`: version (identity of the stored `*item`) and body -/
  item : Option (Nat × V)
  nver : Nat := 1
  /-- the deleting goroutine's `(oldVal, exists)` once it has read -/
  seen : Option (Option (Nat × V)) := none
  /-- failed commit attempts so far -/
  attempts : Nat := 0
  /-- what the bus announced about the item, oldest first -/
  events : List (DEv V) := []
  /-- Delete's answer -/
  answer : Option (Except Nat V) := none
  /-- ghost: the values the item has held, oldest first -/
  hist : List V

inductive DStep (V : Type)
  | dread
  | dcommit
  | store (v : V)

variable {V : Type} [DecidableEq V]

def dstep (s : DSt V) : DStep V → DSt V
  | .store v =>
    match s.item with
    | none => s
    | some _ => { s with item := some (s.nver, v), nver := s.nver + 1, events := s.events ++ [.upd v], hist := s.hist ++ [v] }
  | .dread => if s.seen.isSome || s.answer.isSome then s else { s with seen := some s.item }
  | .dcommit =>
    match s.answer, s.seen with
    | some _, _ => s
    | none, none => s
    | none, some none => { s with answer := some (.error 5) }
    | none, some (some it) =>
      if s.item = some it then
        { s with item := none, events := s.events ++ [.removed it.2], answer := some (.ok it.2) }
      else if s.attempts + 1 ≥ 5 then { s with attempts := s.attempts + 1, answer := some (.error 14) }
      else { s with seen := some s.item, attempts := s.attempts + 1 }

def drun : DSt V → List (DStep V) → DSt V
  | s, [] => s
  | s, x :: xs => drun (dstep s x) xs

/-- an item holding `v0`, nobody deleting -/
def dinit (v0 : V) : DSt V := { item := some (0, v0), hist := [v0] }

/-- while the item exists the bus has announced exactly the values stored since the start and Delete has not been
answered OK; once it is gone the bus has announced those and then REMOVE with the LAST of them, which is Delete's answer -/
def DInv (s : DSt V) : Prop :=
  s.hist ≠ [] ∧
  match s.item with
  | some (_, v) => s.hist.getLast? = some v ∧ s.events = s.hist.tail.map .upd ∧ (∀ x, s.answer ≠ some (.ok x))
  | none => ∃ v, s.hist.getLast? = some v ∧ s.events = s.hist.tail.map .upd ++ [.removed v] ∧ s.answer = some (.ok v)

/-! ### the invariant is kept by every step -/

theorem dstep_inv (s : DSt V) (x : DStep V) (h : DInv s) : DInv (dstep s x) := by
  obtain ⟨hne, h⟩ := h
  cases x with
  | store v =>
    cases hi : s.item with
    | none => simp only [dstep, hi]; exact ⟨hne, by rw [hi] at h; simpa [hi] using h⟩
    | some it =>
      obtain ⟨n, w⟩ := it
      rw [hi] at h
      obtain ⟨_, h2, h3⟩ := h
      simp only [dstep, hi]
      refine ⟨by simp, ?_⟩
      refine ⟨by simp, ?_, h3⟩
      rw [h2]
      cases hh : s.hist with
      | nil => exact absurd hh hne
      | cons a l => simp
  | dread =>
    simp only [dstep]
    split
    · exact ⟨hne, h⟩
    · exact ⟨hne, h⟩
  | dcommit =>
    simp only [dstep]
    split
    · exact ⟨hne, h⟩
    · exact ⟨hne, h⟩
    · rename_i hans _
      refine ⟨hne, ?_⟩
      cases hi : s.item with
      | none => rw [hi] at h; obtain ⟨v, _, _, h3⟩ := h; rw [hans] at h3; cases h3
      | some it =>
        obtain ⟨n, w⟩ := it
        rw [hi] at h
        exact ⟨h.1, h.2.1, by intro x hx; cases hx⟩
    · rename_i it hans _
      split
      · rename_i heq
        refine ⟨hne, ?_⟩
        obtain ⟨n, w⟩ := it
        rw [heq] at h
        exact ⟨w, h.1, by rw [h.2.1], rfl⟩
      · split
        · refine ⟨hne, ?_⟩
          cases hi : s.item with
          | none => rw [hi] at h; obtain ⟨v, _, _, h3⟩ := h; rw [hans] at h3; cases h3
          | some it' =>
            obtain ⟨n, w⟩ := it'
            rw [hi] at h
            exact ⟨h.1, h.2.1, by intro x hx; cases hx⟩
        · exact ⟨hne, h⟩

theorem drun_inv (sched : List (DStep V)) : ∀ s : DSt V, DInv s → DInv (drun s sched) := by
  induction sched with
  | nil => intro s h; exact h
  | cons x xs ih => intro s h; exact ih _ (dstep_inv s x h)

omit [DecidableEq V] in
theorem dinit_inv (v0 : V) : DInv (dinit v0) := by
  refine ⟨by simp [dinit], ?_⟩
  simp [dinit]

end ScVerif.C14
