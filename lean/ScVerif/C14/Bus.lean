import ScVerif.C14.Acceptor
/-!
C14 — what lies between `resource.Value.set` and a Pull stream: `internal/minibus`.

## The listener list (`bus.go`)

  Listen(ctx):  l := &listener{ctx}; go { <-ctx.Done(); l.stop() };  LOCK; b.listeners = append(b.listeners, l); UNLOCK
  Send(e):      snapshot of b.listeners under RLock; for each l: l.send(e) delivers unless l.ctx is done (then
                `needGc`); if needGc { collect() }
  collect():    LOCK; keep the listeners whose ctx is not done; b.listeners = kept; UNLOCK      -- ONE critical section

The model has the steps a schedule can interleave: `listen i`, `cancel i` (the subscriber's context ends),
`deliver e` (one Send's delivery loop), and `collect` as its two halves `scan` / `swap`. In the code as it is the two
halves are one critical section: `split = false` makes `scan` do both and `swap` a no-op, so NO step of another
goroutine can fall between them. `split = true` is the seeded change C14-14 (scan on a snapshot outside the lock,
only the assignment under the lock): a `listen` may then fall between `scan` and `swap`.

## The one-slot buffer (`util.go`, DropExcess)

`Value.Pull` without `WithBackpressure` puts `DropExcess` between the bus and the subscriber's goroutine:

  for { if hasMessage { select { case m := <-in: message = m            -- `put`: REPLACES what is waiting
                                 case out <- message: hasMessage = false } -- `take`
        } else { message = <-in; hasMessage = true } }                    -- `put`

so the bus never waits for a subscriber (`put` is always possible) and a subscriber that falls behind finds only the
latest value waiting.
-/
namespace ScVerif.C14

/-! ### the listener list -/

structure BusSt (E : Type) where
  /-- `b.listeners`, in registration order -/
  listeners : List Nat := []
  /-- listeners whose context has ended -/
  dead : List Nat := []
  /-- ghost: every listener that `Listen` has registered so far -/
  registered : List Nat := []
  /-- `activeListeners` of a `collect` that has scanned and not stored yet (split collect only) -/
  snap : Option (List Nat) := none
  /-- ghost: what has been handed to whom, oldest first -/
  got : List (Nat × E) := []

inductive BStep (E : Type)
  | listen (i : Nat)
  | cancel (i : Nat)
  | deliver (e : E)
  | scan
  | swap

variable {E : Type}

def bstep (split : Bool) (s : BusSt E) : BStep E → BusSt E
  | .listen i => { s with listeners := s.listeners ++ [i], registered := i :: s.registered }
  | .cancel i => { s with dead := i :: s.dead }
  | .deliver e => { s with got := s.got ++ (s.listeners.filter (fun i => !s.dead.contains i)).map (fun i => (i, e)) }
  | .scan =>
    let kept := s.listeners.filter (fun i => !s.dead.contains i)
    if split then { s with snap := some kept } else { s with listeners := kept }
  | .swap =>
    match s.snap with
    | none => s
    | some kept => { s with listeners := kept, snap := none }

def brun (split : Bool) : BusSt E → List (BStep E) → BusSt E
  | s, [] => s
  | s, x :: xs => brun split (bstep split s x) xs

/-- every registered listener whose context has not ended is in the list -/
def BusInv (s : BusSt E) : Prop := ∀ i, i ∈ s.registered → s.dead.contains i = false → i ∈ s.listeners

/-- no collect is half done -/
def BusIdle (s : BusSt E) : Prop := s.snap = none

/-! ### the one-slot buffer -/

structure Slot (E : Type) where
  /-- `hasMessage` / `message` -/
  buf : Option E := none
  /-- what the subscriber's goroutine has been handed, oldest first -/
  out : List E := []

inductive SlotStep (E : Type)
  | put (e : E)
  | take

def slotStep (s : Slot E) : SlotStep E → Slot E
  | .put e => { s with buf := some e }
  | .take =>
    match s.buf with
    | none => s
    | some e => { buf := none, out := s.out ++ [e] }

def slotRun : Slot E → List (SlotStep E) → Slot E
  | s, [] => s
  | s, x :: xs => slotRun (slotStep s x) xs

/-- the events put along a schedule, in order -/
def putsOf : List (SlotStep E) → List E
  | [] => []
  | .put e :: xs => e :: putsOf xs
  | .take :: xs => putsOf xs

/-- the newest event the slot has seen: the one waiting, else the one handed over last -/
def Slot.tip (s : Slot E) : Option E :=
  match s.buf with
  | some e => some e
  | none => s.out.getLast?

/-- a reader that keeps up: every `put` is followed by its `take` -/
def keepUp : List E → List (SlotStep E)
  | [] => []
  | e :: es => .put e :: .take :: keepUp es

/-! ### the acceptor on a reader that had stalled

While a reader is stalled (`Obs.stall`) the values announced to its stream are queued as optional entries; when it
resumes, the messages it reads are matched one by one with `qRecv`. -/

/-- every message of `ds`, in order, is accepted against the queue -/
def recvAll : List Entry → List VId → Bool
  | _, [] => true
  | q, d :: ds => (qRecv q d true).2 == .ok && recvAll (qRecv q d true).1 ds

/-- the queue a stalled stream builds up: one optional entry per announced (projected) value -/
def optQueue (vs : List VId) : List Entry := vs.map fun v => { val := v, must := false, seed := false }

/-! ### `Value.set` in front of subscribers that may make the bus wait

`set` = store, then `bus.Send` with a 5 s deadline; on expiry it answers with an error although the value is stored.
`Send` can only wait for a subscriber that asked for backpressure and whose pipeline is full. -/

structure SubRoom where
  /-- subscribed with `WithBackpressure(true)`: no `DropExcess` in front of it -/
  backpressure : Bool
  /-- free places in its pipeline (0: its reader has stalled long enough) -/
  room : Nat

/-- does `bus.Send` hand the event to this subscriber before the deadline? -/
def SubRoom.takes (s : SubRoom) : Bool := !s.backpressure || s.room > 0

/-- `Value.set` with the write pipeline `apply`: the register afterwards and the response -/
def setWithDeadline {V U : Type} (apply : V → U → Except Nat V) (cur : V) (u : U) (subs : List SubRoom) : V × Except Nat V :=
  match apply cur u with
  | .error c => (cur, .error c)
  | .ok v => if subs.all (·.takes) then (v, .ok v) else (v, .error 2)

end ScVerif.C14
