import ScVerif.C14.Bus
/-! Lemmas about the bus model (listener list, one-slot buffer) and the acceptor's queue on a resumed reader. -/
namespace ScVerif.C14

variable {E : Type}

/-! ### listener list -/

theorem bstep_inv (s : BusSt E) (x : BStep E) (hI : BusInv s) (hidle : BusIdle s) :
    BusInv (bstep false s x) ∧ BusIdle (bstep false s x) := by
  cases x with
  | listen i =>
    refine ⟨?_, hidle⟩
    intro j hj hd
    simp only [bstep] at hj hd ⊢
    rcases List.mem_cons.mp hj with rfl | hj
    · simp
    · exact List.mem_append_left _ (hI j hj hd)
  | cancel i =>
    refine ⟨?_, hidle⟩
    intro j hj hd
    simp only [bstep] at hj hd ⊢
    apply hI j hj
    cases h : s.dead.contains j with
    | false => rfl
    | true =>
      have : (i :: s.dead).contains j = true := by
        simp only [List.contains_cons, h, Bool.or_true]
      rw [this] at hd
      cases hd
  | deliver e => exact ⟨hI, hidle⟩
  | scan =>
    refine ⟨?_, hidle⟩
    intro j hj hd
    simp only [bstep, Bool.false_eq_true, if_false] at hj hd ⊢
    exact List.mem_filter.mpr ⟨hI j hj hd, by rw [hd]; rfl⟩
  | swap =>
    have : s.snap = none := hidle
    simp only [bstep, this]
    exact ⟨hI, hidle⟩

theorem brun_inv (sched : List (BStep E)) : ∀ s : BusSt E, BusInv s → BusIdle s →
    BusInv (brun false s sched) ∧ BusIdle (brun false s sched) := by
  induction sched with
  | nil => intro s h1 h2; exact ⟨h1, h2⟩
  | cons x xs ih =>
    intro s h1 h2
    have h := bstep_inv s x h1 h2
    exact ih _ h.1 h.2

/-! ### one-slot buffer -/

theorem slot_tip_take (s : Slot E) : (slotStep s .take).tip = s.tip := by
  cases hb : s.buf with
  | none => simp [slotStep, hb]
  | some e => simp [slotStep, hb, Slot.tip]

theorem slot_take_buf (s : Slot E) : (slotStep s .take).buf = none := by
  cases hb : s.buf with
  | none => simp [slotStep, hb]
  | some e => simp [slotStep, hb]

theorem slot_tip_run (sched : List (SlotStep E)) : ∀ s : Slot E,
    (slotRun s sched).tip = match (putsOf sched).getLast? with
      | some e => some e
      | none => s.tip := by
  induction sched with
  | nil => intro s; rfl
  | cons x xs ih =>
    intro s
    cases x with
    | put e =>
      simp only [slotRun, putsOf]
      rw [ih]
      cases h : (putsOf xs).getLast? with
      | none =>
        have : putsOf xs = [] := List.getLast?_eq_none_iff.mp h
        simp [this, slotStep, Slot.tip]
      | some y =>
        cases hp : putsOf xs with
        | nil => rw [hp] at h; simp at h
        | cons a l =>
          rw [hp] at h
          simp only [List.getLast?_cons_cons, h]
    | take =>
      simp only [slotRun, putsOf]
      rw [ih, slot_tip_take]

theorem slot_out_sublist (sched : List (SlotStep E)) : ∀ s : Slot E,
    ∃ d, (slotRun s sched).out = s.out ++ d ∧ d.Sublist (s.buf.toList ++ putsOf sched) := by
  induction sched with
  | nil => intro s; exact ⟨[], by simp [slotRun], List.nil_sublist _⟩
  | cons x xs ih =>
    intro s
    cases x with
    | put e =>
      obtain ⟨d, h1, h2⟩ := ih (slotStep s (.put e))
      refine ⟨d, by simpa [slotRun, slotStep] using h1, ?_⟩
      simp only [slotStep, Option.toList_some, List.singleton_append] at h2
      simp only [putsOf]
      exact h2.trans (List.sublist_append_right _ _)
    | take =>
      cases hb : s.buf with
      | none =>
        obtain ⟨d, h1, h2⟩ := ih (slotStep s .take)
        have hs : slotStep s .take = s := by simp [slotStep, hb]
        rw [hs] at h1 h2
        exact ⟨d, by simpa [slotRun, hs] using h1, by simpa [putsOf, hb] using h2⟩
      | some e =>
        obtain ⟨d, h1, h2⟩ := ih (slotStep s .take)
        have hs : slotStep s .take = { buf := none, out := s.out ++ [e] } := by simp [slotStep, hb]
        rw [hs] at h1 h2
        refine ⟨e :: d, by simp [slotRun, hs, h1], ?_⟩
        simp only [Option.toList_none, List.nil_append] at h2
        simp only [Option.toList_some, List.singleton_append, putsOf]
        exact h2.cons_cons e

theorem slot_keepUp (es : List E) : ∀ s : Slot E, s.buf = none →
    (slotRun s (keepUp es)).out = s.out ++ es ∧ (slotRun s (keepUp es)).buf = none := by
  induction es with
  | nil => intro s h; simp [keepUp, slotRun, h]
  | cons e es ih =>
    intro s _
    simp only [keepUp, slotRun]
    have h2 := ih (slotStep (slotStep s (.put e)) .take) (by simp [slotStep])
    simp only [slotStep] at h2 ⊢
    simpa using h2

/-! ### the acceptor's queue on a resumed reader -/

def AllOptional (q : List Entry) : Prop := ∀ e, e ∈ q → e.must = false

theorem skipOptional_finds (d : VId) (ds : List VId) : ∀ q : List Entry, AllOptional q →
    (d :: ds).Sublist (q.map (·.val)) →
    ∃ e rest, skipOptional d q = e :: rest ∧ e.val = d ∧ ds.Sublist (rest.map (·.val)) ∧ AllOptional rest := by
  intro q
  induction q with
  | nil => intro _ h; simp at h
  | cons a q ih =>
    intro hopt hsub
    have ha : a.must = false := hopt a List.mem_cons_self
    have hq : AllOptional q := fun e he => hopt e (List.mem_cons_of_mem _ he)
    simp only [List.map_cons] at hsub
    by_cases hv : a.val = d
    · refine ⟨a, q, ?_, hv, ?_, hq⟩
      · simp [skipOptional, hv]
      · rcases List.sublist_cons_iff.mp hsub with h | ⟨r, hr, h⟩
        · exact (List.sublist_cons_self d ds).trans h
        · cases hr; exact h
    · have hsub' : (d :: ds).Sublist (q.map (·.val)) := by
        rcases List.sublist_cons_iff.mp hsub with h | ⟨r, hr, _⟩
        · exact h
        · cases hr; exact absurd rfl hv
      obtain ⟨e, rest, h1, h2, h3, h4⟩ := ih hq hsub'
      refine ⟨e, rest, ?_, h2, h3, h4⟩
      simp only [skipOptional]
      have : (!a.must && decide (a.val ≠ d)) = true := by simp [ha, hv]
      rw [if_pos this]
      exact h1

theorem recvAll_sublist (ds : List VId) : ∀ q : List Entry, AllOptional q →
    ds.Sublist (q.map (·.val)) → recvAll q ds = true := by
  induction ds with
  | nil => intro _ _ _; rfl
  | cons d ds ih =>
    intro q hopt hsub
    obtain ⟨e, rest, h1, h2, h3, h4⟩ := skipOptional_finds d ds q hopt hsub
    have hr : qRecv q d true = (rest, .ok) := by
      simp [qRecv, h1, h2]
    simp only [recvAll, hr, beq_self_eq_true, Bool.true_and]
    exact ih rest h4 h3

theorem optQueue_allOptional (vs : List VId) : AllOptional (optQueue vs) := by
  intro e he
  simp only [optQueue, List.mem_map] at he
  obtain ⟨v, _, rfl⟩ := he
  rfl

theorem optQueue_vals (vs : List VId) : (optQueue vs).map (·.val) = vs := by
  induction vs with
  | nil => rfl
  | cons v vs ih => simpa [optQueue] using ih

end ScVerif.C14
