import ScVerif.C14.Writers
import ScVerif.C14.Lemmas
import ScVerif.C14.Props
/-!
# C14 — several clients writing one register concurrently (Writers.lean)

`resource.Value.set` stores under the lock and announces after releasing it. The theorems quantify over
EVERY interleaving of the writers' `store` / `send` steps (any number of writers, any write pipeline, any
projection): no acknowledged write is lost on the way to the streams, the register is the last store, and the
schedule the harness forces (kind "duel": writer 1 held between its store and its send while writer 2 runs)
has exactly the outcome the acceptor's `updlate` observation encodes. The seeded change C14-10 (the overtaken
writer's event is dropped) is refuted by a witness. What the code as it is does NOT give — streams ending on
the register when two writers overlap — is stated with its `_fails` witness and the `_partial` theorem.
-/
namespace ScVerif.C14

variable {V Mask U : Type}

/-- **C14_writers_send_reaches_streams.** Whatever else is going on (other writers between their store and
their send, later values already stored), a writer's `send` reaches every stream: a live stream whose
equivalence does not identify its last message with the (projected) value gets exactly one new message — the
projected value the writer stored (its response), under the name of the stream's Pull request; no other
message is added; the register is untouched. -/
theorem C14_writers_send_reaches_streams (C : Cfg V Mask U) (s : WSrv V Mask) (w : Nat) (p : Pending V)
    (rest : List (Pending V)) (hp : takePending w s.pending = some (p, rest))
    (i : Nat) (st : Stream V Mask) (hi : s.streams[i]? = some st) :
    ∃ st', (wstep C false s (.send w)).streams[i]? = some st' ∧
      st'.name = st.name ∧ st'.mask = st.mask ∧ st'.live = st.live ∧
      (st.live = true → C.eqv st.last (view C st.mask p.val) = false → st'.out = st.out ++ [(view C st.mask p.val, st.name)]) ∧
      (st'.out = st.out ∨ st'.out = st.out ++ [(view C st.mask p.val, st.name)]) ∧
      (wstep C false s (.send w)).cur = s.cur ∧ (wstep C false s (.send w)).pending = rest := by
  refine ⟨push C p.val st, by simp [wstep, hp, hi], (push_static C p.val st).1, (push_static C p.val st).2.1,
    (push_static C p.val st).2.2.1, ?_, push_out C p.val st, by simp [wstep, hp], by simp [wstep, hp]⟩
  intro hl he
  simp [push, hl, he]

/-- **C14_writers_sent_perm_stored.** Accounting over every schedule: the values announced so far together with
the values still waiting to be announced are, as a multiset, exactly the values that were waiting at the start
together with every value successfully stored since. Hence once every writer has returned (nothing pending), every
acknowledged Update has been announced exactly once — none lost, none duplicated, whatever the interleaving. -/
theorem C14_writers_sent_perm_stored (C : Cfg V Mask U) (sched : List (WStep U)) : ∀ s : WSrv V Mask,
    (sentOf C false s sched ++ pvals (wrun C false s sched).pending).Perm
      (pvals s.pending ++ storedOf C false s sched) := by
  induction sched with
  | nil => intro s; simp [sentOf, wrun, storedOf]
  | cons x xs ih =>
    intro s
    cases x with
    | store w u =>
      have key := ih (wstep C false s (.store w u))
      simp only [sentOf, wrun, storedOf]
      cases ha : C.apply s.cur u with
      | error c => simpa [wstep, ha] using key
      | ok v =>
        simp only [wstep, ha] at key ⊢
        refine key.trans ?_
        simp [pvals]
    | send w =>
      have key := ih (wstep C false s (.send w))
      simp only [sentOf, wrun, storedOf]
      cases ht : takePending w s.pending with
      | none => simpa [wstep, ht] using key
      | some pr =>
        obtain ⟨p, rest⟩ := pr
        simp only [wstep, ht, Bool.false_and, Bool.false_eq_true, if_false] at key ⊢
        have hperm : (pvals s.pending).Perm (p.val :: pvals rest) := (takePending_perm w s.pending p rest ht).map _
        exact (key.cons p.val).trans (List.Perm.append_right _ hperm.symm)

/-- **C14_writers_all_delivered.** On a register whose streams suppress nothing (no equivalence configured: every
server in pkg/trait but the ones with a tolerance), every live stream receives, for EVERY schedule, exactly the
announced values in the order of their sends, each as its own message (projected, under the Pull request's name).
With `C14_writers_sent_perm_stored`: when all writers have returned, each acknowledged value is on every stream. -/
theorem C14_writers_all_delivered (C : Cfg V Mask U) (hne : ∀ l x, C.eqv l x = false) (sched : List (WStep U)) :
    ∀ (s : WSrv V Mask) (i : Nat) (st : Stream V Mask), s.streams[i]? = some st → st.live = true →
    ∃ st', (wrun C false s sched).streams[i]? = some st' ∧ st'.name = st.name ∧ st'.mask = st.mask ∧ st'.live = true ∧
      st'.out = st.out ++ (sentOf C false s sched).map (fun v => (view C st.mask v, st.name)) := by
  induction sched with
  | nil => intro s i st hi hl; exact ⟨st, hi, rfl, rfl, hl, by simp [sentOf]⟩
  | cons x xs ih =>
    intro s i st hi hl
    cases x with
    | store w u =>
      have hs : (wstep C false s (.store w u)).streams = s.streams := by
        simp only [wstep]; cases C.apply s.cur u <;> rfl
      simpa [wrun, sentOf] using ih (wstep C false s (.store w u)) i st (by rw [hs]; exact hi) hl
    | send w =>
      simp only [wrun, sentOf]
      cases ht : takePending w s.pending with
      | none =>
        have hs : wstep C false s (.send w) = s := by simp [wstep, ht]
        rw [hs]
        exact ih s i st hi hl
      | some pr =>
        obtain ⟨p, rest⟩ := pr
        have hs : (wstep C false s (.send w)).streams = s.streams.map (push C p.val) := by simp [wstep, ht]
        have hpush : (push C p.val st).out = st.out ++ [(view C st.mask p.val, st.name)] := by
          simp [push, hl, hne]
        have hst := push_static C p.val st
        obtain ⟨st', h1, h2, h3, h4, h5⟩ := ih (wstep C false s (.send w)) i (push C p.val st)
          (by rw [hs]; simp [hi]) (by rw [hst.2.2.1]; exact hl)
        refine ⟨st', h1, h2.trans hst.1, h3.trans hst.2.1, h4, ?_⟩
        simp only [Bool.false_and, Bool.false_eq_true, if_false]
        rw [h5, hpush, hst.1, hst.2.1]
        simp

/-- **C14_writers_streams_are_sequential_pushes.** Refinement, for every equivalence: after any schedule the streams
are exactly what the sequential register server (`Server.lean`: `streams.map (push C v)` per successful Update)
produces when it is fed the ANNOUNCED values one after the other in send order. So every per-stream statement of
the sequential model (exactly one message per value-changing event, names, projections, suppression only by the
configured equivalence) carries over to concurrent writers, with the send order in place of the request order. -/
theorem C14_writers_streams_are_sequential_pushes (C : Cfg V Mask U) (sched : List (WStep U)) : ∀ s : WSrv V Mask,
    (wrun C false s sched).streams = (sentOf C false s sched).foldl (fun ss v => ss.map (push C v)) s.streams := by
  induction sched with
  | nil => intro s; rfl
  | cons x xs ih =>
    intro s
    cases x with
    | store w u =>
      simp only [wrun, sentOf]
      rw [ih]
      congr 1
      simp only [wstep]; cases C.apply s.cur u <;> rfl
    | send w =>
      simp only [wrun, sentOf]
      rw [ih]
      cases ht : takePending w s.pending with
      | none => simp [wstep, ht]
      | some pr =>
        obtain ⟨p, rest⟩ := pr
        simp [wstep, ht]

/-- **C14_writers_register_is_last_store.** After any schedule the register holds the value of the LAST successful
store (the initial value if there was none) — what every later Get returns and every new Pull starts with —
independently of the order in which the events were announced (also for the seeded variant). -/
theorem C14_writers_register_is_last_store (C : Cfg V Mask U) (b : Bool) (sched : List (WStep U)) :
    ∀ s : WSrv V Mask, (wrun C b s sched).cur = ((storedOf C b s sched).getLast?).getD s.cur := by
  induction sched with
  | nil => intro s; rfl
  | cons x xs ih =>
    intro s
    cases x with
    | store w u =>
      simp only [wrun, storedOf]
      rw [ih]
      cases ha : C.apply s.cur u with
      | error c => simp [wstep, ha]
      | ok v => simp only [wstep, ha]; rw [getLast_cons_getD]
    | send w =>
      simp only [wrun, storedOf]
      rw [ih]
      congr 1
      simp only [wstep]
      cases takePending w s.pending with
      | none => rfl
      | some pr => obtain ⟨p, rest⟩ := pr; simp only []; split <;> rfl

/-- **C14_writers_held_schedule.** The schedule the harness forces (kind "duel"): writer 1 stores `v1` and is held
before its send; writer 2 stores `v2` on top of it and announces it; then writer 1 announces `v1`. Both are
acknowledged (`storedOf`), the register ends on `v2`, nothing is left pending, and every stream was handed `v2`'s
event first and `v1`'s event after it — the acceptor's `updok v2` followed by `updlate v1`. -/
theorem C14_writers_held_schedule (C : Cfg V Mask U) (s : WSrv V Mask) (hp : s.pending = [])
    (u1 u2 : U) (v1 v2 : V) (h1 : C.apply s.cur u1 = .ok v1) (h2 : C.apply v1 u2 = .ok v2)
    (w1 w2 : Nat) (hw : w1 ≠ w2) :
    let sched : List (WStep U) := [.store w1 u1, .store w2 u2, .send w2, .send w1]
    (wrun C false s sched).cur = v2 ∧ (wrun C false s sched).pending = [] ∧
    (wrun C false s sched).streams = (s.streams.map (push C v2)).map (push C v1) ∧
    storedOf C false s sched = [v1, v2] ∧ sentOf C false s sched = [v2, v1] := by
  intro sched
  simp [sched, wrun, wstep, storedOf, sentOf, h1, h2, hp, takePending, hw]

/-- the seeded change C14-10 (an overtaken writer drops its event): an acknowledged, value-changing Update (15)
never reaches the open stream although every writer has returned -/
theorem C14_writers_skip_overtaken_fails :
    let s : WSrv Nat Nat := ⟨10, [openStream exCfg 10 "a" none false], [], 0⟩
    let sched : List (WStep Nat) := [.store 1 5, .store 2 4, .send 2, .send 1]
    storedOf exCfg true s sched = [15, 19] ∧ (wrun exCfg true s sched).pending.length = 0 ∧
    (wrun exCfg true s sched).streams.map (·.out) = [[(10, "a"), (19, "a")]] := by decide

/-- the same schedule on the code as it is: both values arrive (non-vacuity of the theorems above) -/
example :
    let s : WSrv Nat Nat := ⟨10, [openStream exCfg 10 "a" none false], [], 0⟩
    let sched : List (WStep Nat) := [.store 1 5, .store 2 4, .send 2, .send 1]
    sentOf exCfg false s sched = [19, 15] ∧ (wrun exCfg false s sched).cur = 19 ∧
    (wrun exCfg false s sched).streams.map (·.out) = [[(10, "a"), (19, "a"), (15, "a")]] := by decide

/-! ### A recorded finding: overlapping writers leave streams on the overtaken value

Nothing orders the sends of two writers, so the events can reach the subscribers in the opposite order of the
stores: every update appears (above), but the stream ENDS on a value the register no longer holds and stays there
until the next write. Full-strength statement "when all writers have returned, a stream that received anything
ends on the register's value": -/

/-- the witness: every writer has returned, Get returns 19 for ever, the live stream's last message is 15 -/
theorem C14_writers_stream_ends_on_register_fails :
    ∃ (s : WSrv Nat Nat) (sched : List (WStep Nat)),
      s.pending.length = 0 ∧ (wrun exCfg false s sched).pending.length = 0 ∧
      (wrun exCfg false s sched).streams.map
          (fun st => (st.live, st.out.getLast?, (view exCfg st.mask (wrun exCfg false s sched).cur, st.name))) =
        [(true, some (15, "a"), (19, "a"))] :=
  ⟨⟨10, [openStream exCfg 10 "a" none false], [], 0⟩, [.store 1 5, .store 2 4, .send 2, .send 1],
    by decide, by decide, by decide⟩

/-- **partial:** when the sends happen in the order of the stores (hypothesis `Fifo`: every send announces the oldest
stored value — e.g. one writer at a time, or writers that do not overlap between store and send) on a register
without equivalence, then once every writer has returned each live stream has received exactly the acknowledged
values in store order, and — if there was any — its last message is the register's value. -/
theorem C14_writers_stream_ends_on_register_partial (C : Cfg V Mask U) (hne : ∀ l x, C.eqv l x = false)
    (s : WSrv V Mask) (sched : List (WStep U)) (hf : Fifo C false s sched)
    (h0 : s.pending = []) (hdone : (wrun C false s sched).pending = [])
    (i : Nat) (st : Stream V Mask) (hi : s.streams[i]? = some st) (hl : st.live = true) :
    ∃ st', (wrun C false s sched).streams[i]? = some st' ∧
      st'.out = st.out ++ (storedOf C false s sched).map (fun v => (view C st.mask v, st.name)) ∧
      (storedOf C false s sched ≠ [] →
        st'.out.getLast? = some (view C st.mask (wrun C false s sched).cur, st.name)) := by
  obtain ⟨st', h1, _, _, _, h5⟩ := C14_writers_all_delivered C hne sched s i st hi hl
  have hs := fifo_sent_eq_stored C sched s hf
  rw [h0, hdone] at hs
  simp only [pvals, List.map_nil, List.append_nil, List.nil_append] at hs
  rw [hs] at h5
  refine ⟨st', h1, h5, ?_⟩
  intro hne'
  rw [h5, C14_writers_register_is_last_store C false sched s]
  cases hlast : (storedOf C false s sched).getLast? with
  | none => exact absurd (List.getLast?_eq_none_iff.mp hlast) hne'
  | some x =>
    rw [List.getLast?_append]
    simp [List.getLast?_map, hlast]

/-- the hypothesis is satisfiable: two writers one after the other -/
example :
    let s : WSrv Nat Nat := ⟨10, [openStream exCfg 10 "a" none false], [], 0⟩
    let sched : List (WStep Nat) := [.store 1 5, .send 1, .store 2 4, .send 2]
    Fifo exCfg false s sched ∧ (wrun exCfg false s sched).streams.map (·.out) = [[(10, "a"), (15, "a"), (19, "a")]] := by
  refine ⟨⟨?_, ?_, trivial⟩, by decide⟩ <;> intro p ps h <;> simp [wstep, exCfg, takePending] at h <;> simp [← h.1]

end ScVerif.C14
