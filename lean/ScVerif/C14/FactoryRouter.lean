/-!
C14 — the router of the full stack when it creates its clients on first use
(pkg/router/router.go `(*router).Get` with `WithFactory`, reached from every generated `ApiRouter.GetX/UpdateX/PullX`
through `GetXxxApiClient`; configured with the generated `WithXxxApiClientFactory`).

  Get(name):
     RLock; child, exists := registry[name]; RUnlock            -- step `lookup`
     if !exists { child, exists = factory(name) }               -- step `factory`: NO lock held, a NEW client each call
     if created {
        Lock; child2, exists2 := registry[name]                 -- step `insert`: check again
        if exists2 { child = child2 } else { registry[name] = child }
        Unlock }
     return child

Requests for ONE name; every request runs these steps, a schedule is any interleaving. `served` records, per
request, the client `Get` returned — the device that request is executed on. `keepOwn` is the seeded variant C14-12
(the loser of the race keeps the client it created).
-/
namespace ScVerif.C14

/-- the devices behind the router: client id ↦ state; a request is executed on the client `Get` returned -/
def execOn {S R : Type} (stepOn : S → R → S) (devs : Nat → S) : List (Nat × R) → Nat → S
  | [] => devs
  | (c, r) :: rest => execOn stepOn (fun d => if d = c then stepOn (devs c) r else devs d) rest

def runOn {S R : Type} (stepOn : S → R → S) : S → List R → S
  | s, [] => s
  | s, r :: rs => runOn stepOn (stepOn s r) rs

theorem execOn_one {S R : Type} (stepOn : S → R → S) (c0 : Nat) : ∀ (l : List (Nat × R)) (devs : Nat → S),
    (∀ x, x ∈ l → x.1 = c0) → execOn stepOn devs l c0 = runOn stepOn (devs c0) (l.map (·.2)) := by
  intro l
  induction l with
  | nil => intro devs _; rfl
  | cons x l ih =>
    intro devs h
    obtain ⟨c, r⟩ := x
    have hc : c = c0 := h (c, r) List.mem_cons_self
    subst hc
    simp only [execOn, List.map_cons, runOn]
    rw [ih _ (fun y hy => h y (List.mem_cons_of_mem _ hy))]
    simp

inductive RPhase
  | missed
  | created (c : Nat)
  deriving DecidableEq

structure RState where
  /-- the client remembered for the name -/
  registry : Option Nat
  /-- requests inside `Get`: request id ↦ phase -/
  inflight : List (Nat × RPhase)
  /-- request id ↦ the client `Get` returned to it -/
  served : List (Nat × Nat)
  /-- the factory builds a new device on every call -/
  fresh : Nat
  deriving DecidableEq

inductive RStep
  | lookup (r : Nat)
  | factory (r : Nat)
  | insert (r : Nat)

def phaseOf (r : Nat) (l : List (Nat × RPhase)) : Option RPhase := (l.find? (·.1 = r)).map (·.2)

def rstep (keepOwn : Bool) (s : RState) : RStep → RState
  | .lookup r =>
    match phaseOf r s.inflight with
    | some _ => s
    | none =>
      match s.registry with
      | some c => { s with served := (r, c) :: s.served }
      | none => { s with inflight := (r, .missed) :: s.inflight }
  | .factory r =>
    match phaseOf r s.inflight with
    | some .missed => { s with inflight := (r, .created s.fresh) :: s.inflight.filter (·.1 ≠ r), fresh := s.fresh + 1 }
    | _ => s
  | .insert r =>
    match phaseOf r s.inflight with
    | some (.created c) =>
      match s.registry with
      | some c2 => { s with inflight := s.inflight.filter (·.1 ≠ r), served := (r, if keepOwn then c else c2) :: s.served }
      | none => { s with registry := some c, inflight := s.inflight.filter (·.1 ≠ r), served := (r, c) :: s.served }
    | _ => s

def rrun (keepOwn : Bool) : RState → List RStep → RState
  | s, [] => s
  | s, x :: xs => rrun keepOwn (rstep keepOwn s x) xs

/-- every request served so far was served by the remembered client -/
def RInv (s : RState) : Prop := ∀ x, x ∈ s.served → s.registry = some x.2

theorem rstep_inv (s : RState) (x : RStep) (h : RInv s) : RInv (rstep false s x) := by
  cases x with
  | lookup r =>
    simp only [rstep]
    split
    · exact h
    · split
      · rename_i c hc
        intro y hy
        simp only [List.mem_cons] at hy
        rcases hy with rfl | hy
        · exact hc
        · exact h y hy
      · exact h
  | factory r =>
    simp only [rstep]
    split
    · exact h
    · exact h
  | insert r =>
    simp only [rstep]
    split
    · split
      · rename_i c2 hc
        intro y hy
        simp only [List.mem_cons] at hy
        rcases hy with rfl | hy
        · simpa using hc
        · exact h y hy
      · rename_i hc
        intro y hy
        simp only [List.mem_cons] at hy
        rcases hy with rfl | hy
        · rfl
        · have := h y hy
          rw [hc] at this
          cases this
    · exact h

theorem rrun_inv (xs : List RStep) : ∀ s, RInv s → RInv (rrun false s xs) := by
  induction xs with
  | nil => intro s h; exact h
  | cons x xs ih => intro s h; exact ih _ (rstep_inv s x h)

end ScVerif.C14
