import ScVerif.C14.CompositeLemmas
import ScVerif.C14.CompositeDrv
/-!
# C14 — a register composed of collection items (openclosepb: GetPositions / UpdatePositions / PullPositions)

Theorems about the model in Composite.lean, for EVERY composition (`compose`: listing + derived preset),
projection, preset table (`resolve`), id function, update-mask validity and merge, equivalence, every
initial collection and every request history (single-item and multi-item Updates, any number of streams
with any read mask and updates_only flag, cancellations).

What makes the composed register behave as ONE register is an invariant of the stream goroutines:
each keeps its own map of the items, and that map IS the collection at every moment
(`C14_composite_streams_track_collection`) — because the internal collection subscription is always
seeded, whatever the caller's updates_only. From it: an Update that writes one item puts exactly the
response's (projected) value on every stream, also on an updates-only stream that was opened when the
collection already held other items and never saw them change. An Update that writes several items is
several register writes (the recorded finding): every stream message is still the projection of a
collection the loop really passed through, and the burst ends on the response's value.
-/
namespace ScVerif.C14

variable {K I S UM U V Mask : Type} [DecidableEq K]

/-- **C14_composite_update_then_get.** If UpdatePositions succeeds with response `v`, then after any
number of requests that are not Updates (masked and unmasked Gets, new Pulls, cancellations) an
unmasked Get returns exactly `v` and a masked Get its projection; a Get never changes the state (the
read mask is applied to a copy of the composed message). Holds for both seeding choices. -/
theorem C14_composite_update_then_get (C : CCfg K I S UM U V Mask) (b : Bool) (s : CSrv K I V Mask)
    (name : String) (u : U) (um : UM) (v : V)
    (h : (cstep C b s (.update name u um)).2 = .val v)
    (rs : List (CReq UM U Mask)) (hrs : ∀ r, r ∈ rs → r.isUpdate = false) (name' : String) (m : Option Mask) :
    let s' := crun C b (cstep C b s (.update name u um)).1 rs
    (cstep C b s' (.get name' m)).2 = .val (cview C m v) ∧ (cstep C b s' (.get name' m)).1 = s' := by
  intro s'
  have hc : C.compose (cstep C b s (.update name u um)).1.items = v := by
    simp only [cstep] at h ⊢
    cases hr : C.resolve u with
    | error c => simp [hr] at h
    | ok xs =>
      simp only [hr] at h ⊢
      rcases hw : writeAll C um s xs with ⟨s1, _ | c⟩
      · simp only [hw] at h ⊢
        cases h
        rfl
      · simp [hw] at h
  refine ⟨?_, rfl⟩
  show Resp.val (cview C m (C.compose s'.items)) = Resp.val (cview C m v)
  rw [crun_nonupdate_items C b rs _ hrs, hc]

/-- **C14_composite_rejected_frame.** An UpdatePositions answered with an error status — an unknown
preset, or an update mask the item writes reject — changes nothing: not the collection (the mask is
the same for every item of the loop, so the loop can only fail at its FIRST write), not any stream. -/
theorem C14_composite_rejected_frame (C : CCfg K I S UM U V Mask) (b : Bool) (s : CSrv K I V Mask)
    (name : String) (u : U) (um : UM) (c : Nat)
    (h : (cstep C b s (.update name u um)).2 = .err c) :
    (cstep C b s (.update name u um)).1 = s := by
  simp only [cstep] at h ⊢
  cases hr : C.resolve u with
  | error c' => rfl
  | ok xs =>
    simp only [hr] at h ⊢
    cases hv : C.valid um with
    | true =>
      have := (writeAll_valid C um hv xs s).1
      rcases hw : writeAll C um s xs with ⟨s1, _ | c'⟩
      · simp [hw] at h
      · rw [hw] at this; cases this
    | false =>
      have := writeAll_invalid C um hv xs s
      rcases hw : writeAll C um s xs with ⟨s1, _ | c'⟩
      · rw [hw] at this; simpa using this
      · rw [hw] at this; simpa using this

/-- **C14_composite_streams_track_collection.** In every state reachable from any initial collection
by any request history, every live stream goroutine's own map of the items equals the collection. -/
theorem C14_composite_streams_track_collection (C : CCfg K I S UM U V Mask) (items0 : K → Option I)
    (rs : List (CReq UM U Mask)) : Tracks (crun C true ⟨items0, []⟩ rs) :=
  crun_tracks C rs ⟨items0, []⟩ (fun _ h => by simp at h)

/-- **C14_composite_pull_seed.** A new PullPositions is registered as the last stream; unless
updates_only it starts with exactly one message, the projection of what GetPositions returns, under the
request's name; with updates_only it starts empty. The collection and the other streams are untouched. -/
theorem C14_composite_pull_seed (C : CCfg K I S UM U V Mask) (s : CSrv K I V Mask) (name : String)
    (m : Option Mask) (uo : Bool) (v : V) (n : String) (hg : (cstep C true s (.get n none)).2 = .val v) :
    let s' := (cstep C true s (.pull name m uo)).1
    s'.items = s.items ∧ s'.streams.take s.streams.length = s.streams ∧
    ∃ st, s'.streams[s.streams.length]? = some st ∧ st.name = name ∧ st.mask = m ∧ st.live = true ∧
      st.out = (if uo then [] else [(cview C m v, name)]) := by
  intro s'
  have hv : v = C.compose s.items := by
    simp only [cstep, cview] at hg
    cases hg
    rfl
  refine ⟨rfl, by simp [s', cstep], copen C true s.items name m uo, by simp [s', cstep], rfl, rfl, rfl, ?_⟩
  simp [copen, hv]

/-- **C14_composite_single_item_update_on_streams.** In every reachable state, a successful
UpdatePositions that writes ONE item (one state in the request, or a preset with one position) with
response `v` is one register write: every live stream whose equivalence does not identify its last
message with the projected `v` gets exactly one new message `(view mask v, name of its Pull request)`
— whatever the stream's updates_only flag and however many other items the collection holds — and no
stream gets anything else. -/
theorem C14_composite_single_item_update_on_streams (C : CCfg K I S UM U V Mask) (items0 : K → Option I)
    (rs : List (CReq UM U Mask)) (name : String) (u : U) (um : UM) (x : S) (v : V)
    (hx : C.resolve u = .ok [x]) :
    let s := crun C true ⟨items0, []⟩ rs
    (cstep C true s (.update name u um)).2 = .val v →
    ∀ (i : Nat) (st : CStream K I V Mask), s.streams[i]? = some st →
      ∃ st', (cstep C true s (.update name u um)).1.streams[i]? = some st' ∧
        st'.name = st.name ∧ st'.mask = st.mask ∧ st'.live = st.live ∧
        (st.live = true → C.eqv st.last (cview C st.mask v) = false →
          st'.out = st.out ++ [(cview C st.mask v, st.name)]) ∧
        (st'.out = st.out ∨ st'.out = st.out ++ [(cview C st.mask v, st.name)]) := by
  intro s h i st hi
  have ht : Tracks s := C14_composite_streams_track_collection C items0 rs
  simp only [cstep, hx, writeAll] at h ⊢
  cases hw : writeItem C um s x with
  | error c => simp [hw] at h
  | ok s1 =>
    simp only [hw] at h ⊢
    obtain ⟨_, hitems, hstreams⟩ := writeItem_ok C um s s1 x hw
    have hv : v = C.compose (setItem s.items (C.keyOf x) (C.merge um (s.items (C.keyOf x)) x)) := by
      cases h
      rw [hitems]
    let k := C.keyOf x
    let it := C.merge um (s.items k) x
    have hst := cpush_static C k it st
    refine ⟨cpush C k it st, by rw [hstreams]; simp [hi, k, it], hst.1, hst.2.1, hst.2.2, ?_, ?_⟩
    · intro hl he
      have hall : st.all = s.items := ht st (List.mem_of_getElem? hi) hl
      have hxv : cview C st.mask (C.compose (setItem st.all k it)) = cview C st.mask v := by rw [hall, hv]
      have := (cpush_out C k it st hl).2 (by rw [hxv]; exact he)
      rw [this.1, hxv]
    · cases hl : st.live with
      | false => rw [cpush_dead C k it st hl]; exact Or.inl rfl
      | true =>
        have hall : st.all = s.items := ht st (List.mem_of_getElem? hi) hl
        have hxv : cview C st.mask (C.compose (setItem st.all k it)) = cview C st.mask v := by rw [hall, hv]
        rcases hb : C.eqv st.last (cview C st.mask (C.compose (setItem st.all k it))) with _ | _
        · right
          rw [((cpush_out C k it st hl).2 hb).1, hxv]
        · left
          exact ((cpush_out C k it st hl).1 hb).1

/-- **C14_composite_multi_item_update_on_streams.** In every reachable state, for a successful
UpdatePositions writing ANY number of items with response `v`: every message a stream gets during
the Update is the stream's projection, under its own name, of the composition of a collection the loop
really passed through (after its first, second, … write); stream identities do not change; and for a
live stream the burst ENDS on the response: the last value the stream sent is the projected `v`, or the
stream's equivalence identifies its last sent value with it. -/
theorem C14_composite_multi_item_update_on_streams (C : CCfg K I S UM U V Mask) (items0 : K → Option I)
    (rs : List (CReq UM U Mask)) (name : String) (u : U) (um : UM) (xs : List S) (v : V)
    (hx : C.resolve u = .ok xs) :
    let s := crun C true ⟨items0, []⟩ rs
    (cstep C true s (.update name u um)).2 = .val v →
    ∀ (i : Nat) (st : CStream K I V Mask), s.streams[i]? = some st →
      ∃ st', (cstep C true s (.update name u um)).1.streams[i]? = some st' ∧
        st'.name = st.name ∧ st'.mask = st.mask ∧ st'.live = st.live ∧
        (∀ m, m ∈ st'.out → m ∈ st.out ∨
          ∃ f, f ∈ (itemsAlong C um s.items xs).tail ∧ m = (cview C st.mask (C.compose f), st.name)) ∧
        (st.live = true → xs ≠ [] →
          st'.last = some (cview C st.mask v) ∨ C.eqv st'.last (cview C st.mask v) = true) := by
  intro s h i st hi
  have ht : Tracks s := C14_composite_streams_track_collection C items0 rs
  cases xs with
  | nil =>
    refine ⟨st, ?_, rfl, rfl, rfl, fun m hm => Or.inl hm, fun _ hne => absurd rfl hne⟩
    simp [cstep, hx, writeAll, hi]
  | cons x xs =>
    have hvalid : C.valid um = true := by
      cases hv : C.valid um with
      | true => rfl
      | false =>
        simp [cstep, hx, writeAll, writeItem, hv] at h
    obtain ⟨st', h1, hn, hm, hl, hmsgs, hfin⟩ := writeAll_stream C um hvalid (x :: xs) s ht i st hi
    have hnone := (writeAll_valid C um hvalid (x :: xs) s).1
    have hstate : (cstep C true s (.update name u um)).1 = (writeAll C um s (x :: xs)).1 := by
      simp only [cstep, hx]
      rcases hw : writeAll C um s (x :: xs) with ⟨s1, _ | c⟩ <;> rfl
    have hv : v = C.compose (writeAll C um s (x :: xs)).1.items := by
      simp only [cstep, hx] at h
      rcases hw : writeAll C um s (x :: xs) with ⟨s1, _ | c⟩
      · rw [hw] at h; cases h; rfl
      · rw [hw] at hnone; cases hnone
    refine ⟨st', by rw [hstate]; exact h1, hn, hm, hl, hmsgs, ?_⟩
    intro hlive hne
    rw [hv]
    exact hfin hlive hne

/-! ### Non-vacuity, and the opposite seeding choice -/

/-- a concrete composed register: items and keys are numbers, the composition is the sum of the items
under keys 0-3, masks take remainders, a request is its list of `(key, new item)`, equality as equivalence -/
def exCC : CCfg Nat Nat (Nat × Nat) Bool (List (Nat × Nat)) Nat Nat where
  compose := fun f => ((List.range 4).map fun k => (f k).getD 0).sum
  proj := fun m v => v % m
  resolve := fun u => if u.any (fun x => x.2 = 0) then .error 3 else .ok u
  keyOf := fun x => x.1
  valid := fun um => um
  merge := fun _ _ x => x.2
  eqv := fun l w => l == some w

def exItems : Nat → Option Nat := fun k => if k = 0 then some 10 else if k = 1 then some 80 else none

/-- two items, one seeded and one updates-only stream, a single-item Update, a multi-item Update, a rejected one:
the updates-only stream reports the WHOLE register from its first message on -/
example :
    let s := crun exCC true ⟨exItems, []⟩
      [.pull "a" none false, .pull "b" none true, .update "x" [(0, 35)] true, .update "x" [(0, 1), (1, 2)] true,
       .update "x" [(0, 7)] false, .update "x" [(0, 0)] true]
    exCC.compose s.items = 3 ∧ (s.streams.map (·.out)) = [[(90, "a"), (115, "a"), (81, "a"), (3, "a")], [(115, "b"), (81, "b"), (3, "b")]] := by
  decide

/-- every item write publishes an event, also one that leaves the item as it is: an updates-only stream that has
not sent anything yet answers it with the composition at that moment. An Update whose FIRST write changes nothing
(a preset whose first position is already in place) therefore shows such a stream the value from BEFORE the Update
(90) ahead of the response (91) — why the harness counts Updates whose items the server derives as multi-item writes -/
example :
    let s := crun exCC true ⟨exItems, []⟩ [.pull "b" none true, .update "x" [(0, 10), (1, 81)] true]
    (s.streams.map (·.out)) = [[(90, "b"), (91, "b")]] := by
  decide

/-- **C14_composite_unseeded_update_on_streams_fails.** With the opposite seeding choice (updates_only
passed down to the collection subscription, seeded change C14-7) the single-item statement is false:
an updates-only stream opened on a collection of two items reports, after a single-item Update with
response 115, a register made of the written item alone. -/
theorem C14_composite_unseeded_update_on_streams_fails :
    let s := crun exCC false ⟨exItems, []⟩ [.pull "b" none true]
    (cstep exCC false s (.update "x" [(0, 35)] true)).2 = .val 115 ∧
    ((cstep exCC false s (.update "x" [(0, 35)] true)).1.streams.map (·.out)) = [[(35, "b")]] := by
  decide

/-! ### The simulator's instance

The driver runs the model with a concrete composition (`simCfg`, CompositeDrv.lean); being an instance of
`CCfg`, every theorem above applies to it. Its composition is what GetPositions computes from the collection: -/

/-- **C14_composite_sim_listing.** The simulator's composition lists exactly the items of the collection
(ids below 100, the range of `directionToID`), each once, in strictly increasing id order. -/
theorem C14_composite_sim_listing (f : Nat → Option Nat) :
    (∀ k i, (k, i) ∈ listingOf f ↔ k < 100 ∧ f k = some i) ∧
    ((listingOf f).map (·.1)).Pairwise (· < ·) := by
  constructor
  · intro k i
    unfold listingOf
    simp only [List.mem_filterMap, List.mem_range, Option.map_eq_some_iff]
    constructor
    · rintro ⟨a, ha, b, hb, he⟩
      cases he
      exact ⟨ha, hb⟩
    · rintro ⟨hk, hf⟩
      exact ⟨k, hk, i, hf, rfl⟩
  · unfold listingOf
    rw [List.map_filterMap]
    refine List.Pairwise.filterMap _ ?_ List.pairwise_lt_range
    intro a a' hlt b hb b' hb'
    cases hfa : f a with
    | none => simp [hfa] at hb
    | some x =>
      cases hfa' : f a' with
      | none => simp [hfa'] at hb'
      | some y =>
        simp [hfa] at hb
        simp [hfa'] at hb'
        omega

/-- the simulator on the example collection: the listing, a seeded and an updates-only stream, a two-item burst -/
example :
    let c := simCfg []
    let s := crun c true ⟨exItems, []⟩ [.pull "a" none false, .pull "b" none true, .update "x" [(1, 81), (0, 11)] true]
    c.compose s.items = [(0, 11), (1, 81)] ∧
    (s.streams.map (·.out)) = [[([(0, 10), (1, 80)], "a"), ([(0, 10), (1, 81)], "a"), ([(0, 11), (1, 81)], "a")],
                               [([(0, 10), (1, 81)], "b"), ([(0, 11), (1, 81)], "b")]] := by
  decide

end ScVerif.C14
