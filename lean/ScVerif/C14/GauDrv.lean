import ScVerif.Base.Line
import ScVerif.C14.Gau
/-! Driver op `gau`: the optimistic-write model run on one schedule (tie `get-and-update`, gau.go).

  gau <cur> <step>…      step = r<w>:<u> (writer w reads; its request is u)  |  c<w> (writer w commits)

The closed family of write pipelines shared with the harness (values are numbers mod 4, so that a value can come back:
the re-validation compares VALUES): u = 9 is rejected with code 3, u = 0 stores the value read, any other u stores
(old + u) mod 4. Answer: `cur=<n>` followed by ` <w>=ok:<v>` / ` <w>=err:<code>` per answered writer in writer order. -/
namespace ScVerif.C14
open ScVerif.Line

def gauChange (old u : Nat) : Except Nat Nat :=
  if u = 9 then .error 3 else if u = 0 then .ok old else .ok ((old + u) % 4)

def parseGStep? (t : String) : Option (GStep Nat) :=
  match t.toList with
  | 'r' :: rest =>
    match (String.ofList rest).splitOn ":" with
    | [w, u] => do pure (.read (← parseNat? w) (← parseNat? u))
    | _ => none
  | 'c' :: rest => do pure (.commit (← parseNat? (String.ofList rest)))
  | _ => none

def showGau (s : GSt Nat Nat) : String :=
  let ws := (s.log.map (·.1)).eraseDups
  let sorted := (List.range ((ws.foldl max 0) + 1)).filter ws.contains
  let part (w : Nat) : String :=
    match s.log.find? (·.1 = w) with
    | some (_, .ok v) => s!" {w}=ok:{v}"
    | some (_, .error c) => s!" {w}=err:{c}"
    | none => ""
  s!"cur={s.cur}" ++ String.join (sorted.map part)

def gauHandle (toks : List String) : Option String :=
  match toks with
  | "gau" :: cur :: steps => do
    let c ← parseNat? cur
    let ss ← steps.mapM parseGStep?
    pure (showGau (grun gauChange ({ cur := c } : GSt Nat Nat) ss))
  | _ => none

end ScVerif.C14
