/-!
C14 — write times: `resource.Value.set` / `Value.Pull` with their time stamps.

  set:   [begin]  validate, enter GetAndUpdate (optimistic phase: interceptors, expected checks; no lock held)
         [store]  under the write lock: r.value = v; r.changeTime = clock.Now()        -- HEAD: the stamp is taken HERE
         [send]   bus.Send(ValueChange{v, ChangeTime: clock.Now()})                    -- HEAD: and again here
  Pull:  [sub]    under the read lock: seed = (r.value, r.changeTime); Listen

Any number of writers, any interleaving of their three steps with subscriptions and with the passing of time
(`tick`; a step that takes no time at all is allowed: coarse clocks). Two policies are parameters:
`atBegin` (seeded C14-21 site 1: ONE stamp per write, taken when the write begins, used for changeTime and the event)
and `skip` (site 2: a subscriber skips events stamped before its seed's change time). `PropsFirst.lean`: with HEAD's
stamps the filter never fires (each site alone is harmless), with both a stored value is lost to a seeded subscriber.
-/
namespace ScVerif.C14.Stamp

structure Sub (V : Type) where
  seedTime : Nat
  /-- everything delivered, seed first -/
  out : List V

structure St (V : Type) where
  clock : Nat
  cur : V
  changeTime : Nat
  /-- writer ↦ the clock when it entered `set` -/
  begun : List (Nat × Nat)
  /-- stored, not yet announced, in store order: writer, value, the writer's begin stamp -/
  pending : List (Nat × V × Nat)
  subs : List (Sub V)

inductive Step (V : Type)
  | tick
  | begin (w : Nat)
  | store (w : Nat) (v : V)
  | send (w : Nat)
  | sub

variable {V : Type}

/-- the oldest unannounced store of writer `w`, and the others -/
def take (w : Nat) : List (Nat × V × Nat) → Option ((V × Nat) × List (Nat × V × Nat))
  | [] => none
  | p :: ps =>
    if p.1 = w then some (p.2, ps)
    else match take w ps with
      | none => none
      | some (q, r) => some (q, p :: r)

/-- one event (value `v`, stamped `t`) reaches one subscriber -/
def deliver (skip : Bool) (t : Nat) (v : V) (s : Sub V) : Sub V :=
  if skip && decide (t < s.seedTime) then s else { s with out := s.out ++ [v] }

def step (atBegin skip : Bool) (s : St V) : Step V → St V
  | .tick => { s with clock := s.clock + 1 }
  | .begin w => { s with begun := (w, s.clock) :: s.begun }
  | .store w v =>
    let b := (s.begun.lookup w).getD s.clock
    { s with cur := v, changeTime := if atBegin then b else s.clock, pending := s.pending ++ [(w, v, b)] }
  | .send w =>
    match take w s.pending with
    | none => s
    | some ((v, b), rest) =>
      { s with pending := rest, subs := s.subs.map (deliver skip (if atBegin then b else s.clock) v) }
  | .sub => { s with subs := s.subs ++ [{ seedTime := s.changeTime, out := [s.cur] }] }

def run (atBegin skip : Bool) : St V → List (Step V) → St V
  | s, [] => s
  | s, x :: xs => run atBegin skip (step atBegin skip s x) xs

/-- no stamp recorded anywhere lies in the future -/
def Inv (s : St V) : Prop := s.changeTime ≤ s.clock ∧ ∀ sb, sb ∈ s.subs → sb.seedTime ≤ s.clock

def init (v : V) : St V := { clock := 0, cur := v, changeTime := 0, begun := [], pending := [], subs := [] }

end ScVerif.C14.Stamp
