import ScVerif.C14.Composite
/-! Lemmas about the composed register (helpers for PropsComposite.lean). -/
namespace ScVerif.C14

variable {K I S UM U V Mask : Type} [DecidableEq K]

theorem cpush_static (C : CCfg K I S UM U V Mask) (k : K) (i : I) (st : CStream K I V Mask) :
    (cpush C k i st).name = st.name ∧ (cpush C k i st).mask = st.mask ∧ (cpush C k i st).live = st.live := by
  unfold cpush
  split
  · exact ⟨rfl, rfl, rfl⟩
  · dsimp only
    split <;> exact ⟨rfl, rfl, rfl⟩

theorem cpush_all (C : CCfg K I S UM U V Mask) (k : K) (i : I) (st : CStream K I V Mask) (hl : st.live = true) :
    (cpush C k i st).all = setItem st.all k i := by
  unfold cpush
  simp only [hl, Bool.not_true, Bool.false_eq_true, if_false]
  split <;> rfl

/-- what one collection event does to a live stream's sent list -/
theorem cpush_out (C : CCfg K I S UM U V Mask) (k : K) (i : I) (st : CStream K I V Mask) (hl : st.live = true) :
    let x := cview C st.mask (C.compose (setItem st.all k i))
    (C.eqv st.last x = true → (cpush C k i st).out = st.out ∧ (cpush C k i st).last = st.last) ∧
    (C.eqv st.last x = false → (cpush C k i st).out = st.out ++ [(x, st.name)] ∧ (cpush C k i st).last = some x) := by
  intro x
  unfold cpush
  simp only [hl, Bool.not_true, Bool.false_eq_true, if_false]
  constructor
  · intro he
    have : C.eqv st.last (cview C st.mask (C.compose (setItem st.all k i))) = true := he
    simp [this]
  · intro he
    have : C.eqv st.last (cview C st.mask (C.compose (setItem st.all k i))) = false := he
    simp [this, x]

theorem cpush_dead (C : CCfg K I S UM U V Mask) (k : K) (i : I) (st : CStream K I V Mask) (hl : st.live = false) :
    cpush C k i st = st := by
  unfold cpush
  simp [hl]

theorem writeItem_ok (C : CCfg K I S UM U V Mask) (um : UM) (s s' : CSrv K I V Mask) (x : S)
    (h : writeItem C um s x = .ok s') :
    C.valid um = true ∧
    s'.items = setItem s.items (C.keyOf x) (C.merge um (s.items (C.keyOf x)) x) ∧
    s'.streams = s.streams.map (cpush C (C.keyOf x) (C.merge um (s.items (C.keyOf x)) x)) := by
  unfold writeItem at h
  split at h
  · next hv =>
    cases h
    exact ⟨hv, rfl, rfl⟩
  · cases h

theorem writeItem_err (C : CCfg K I S UM U V Mask) (um : UM) (s : CSrv K I V Mask) (x : S) (c : Nat)
    (h : writeItem C um s x = .error c) : C.valid um = false := by
  unfold writeItem at h
  split at h
  · cases h
  · next hv => simpa using hv

theorem writeItem_tracks (C : CCfg K I S UM U V Mask) (um : UM) (s s' : CSrv K I V Mask) (x : S)
    (ht : Tracks s) (h : writeItem C um s x = .ok s') : Tracks s' := by
  obtain ⟨_, hi, hs⟩ := writeItem_ok C um s s' x h
  intro st' hm hl
  rw [hs] at hm
  obtain ⟨st, hst, rfl⟩ := List.mem_map.mp hm
  have hl0 : st.live = true := by rw [← (cpush_static C _ _ st).2.2]; exact hl
  rw [cpush_all C _ _ st hl0, ht st hst hl0, hi]

theorem writeAll_tracks (C : CCfg K I S UM U V Mask) (um : UM) (xs : List S) :
    ∀ s : CSrv K I V Mask, Tracks s → Tracks (writeAll C um s xs).1 := by
  induction xs with
  | nil => intro s ht; exact ht
  | cons x xs ih =>
    intro s ht
    simp only [writeAll]
    cases hw : writeItem C um s x with
    | error c => exact ht
    | ok s' => exact ih s' (writeItem_tracks C um s s' x ht hw)

theorem cstep_tracks (C : CCfg K I S UM U V Mask) (s : CSrv K I V Mask) (r : CReq UM U Mask)
    (ht : Tracks s) : Tracks (cstep C true s r).1 := by
  cases r with
  | get n m => exact ht
  | update n u um =>
    simp only [cstep]
    cases hr : C.resolve u with
    | error c => exact ht
    | ok xs =>
      have := writeAll_tracks C um xs s ht
      dsimp only
      rcases hw : writeAll C um s xs with ⟨s', _ | c⟩
      · rw [hw] at this; exact this
      · rw [hw] at this; exact this
  | pull n m uo =>
    intro st hm hl
    simp only [cstep] at hm ⊢
    rcases List.mem_append.mp hm with h | h
    · exact ht st h hl
    · simp at h
      subst h
      simp [copen]
  | cancel i =>
    intro st hm hl
    simp only [cstep] at hm ⊢
    obtain ⟨j, hj, rfl⟩ := List.mem_mapIdx.mp hm
    by_cases hji : j = i
    · simp [hji] at hl
    · simp only [hji, if_false] at hl ⊢
      exact ht _ (List.getElem_mem _) hl

theorem crun_tracks (C : CCfg K I S UM U V Mask) (rs : List (CReq UM U Mask)) :
    ∀ s : CSrv K I V Mask, Tracks s → Tracks (crun C true s rs) := by
  induction rs with
  | nil => intro s ht; exact ht
  | cons r rs ih => intro s ht; exact ih _ (cstep_tracks C s r ht)

/-- with a valid mask the loop never fails and ends on the last collection of `itemsAlong` -/
theorem writeAll_valid (C : CCfg K I S UM U V Mask) (um : UM) (hv : C.valid um = true) (xs : List S) :
    ∀ s : CSrv K I V Mask, (writeAll C um s xs).2 = none ∧
      (itemsAlong C um s.items xs).getLast? = some (writeAll C um s xs).1.items := by
  induction xs with
  | nil => intro s; simp [writeAll, itemsAlong]
  | cons x xs ih =>
    intro s
    simp only [writeAll, writeItem, hv, if_true, itemsAlong]
    have := ih { items := setItem s.items (C.keyOf x) (C.merge um (s.items (C.keyOf x)) x),
                 streams := s.streams.map (cpush C (C.keyOf x) (C.merge um (s.items (C.keyOf x)) x)) }
    refine ⟨this.1, ?_⟩
    rw [List.getLast?_cons]
    rw [this.2]
    rfl

/-- with an invalid mask the loop stops at the first item: nothing was written -/
theorem writeAll_invalid (C : CCfg K I S UM U V Mask) (um : UM) (hv : C.valid um = false) (xs : List S)
    (s : CSrv K I V Mask) : (writeAll C um s xs).1 = s := by
  cases xs with
  | nil => rfl
  | cons x xs => simp [writeAll, writeItem, hv]

def CReq.isUpdate : CReq UM U Mask → Bool
  | .update _ _ _ => true
  | _ => false

theorem cstep_nonupdate_items (C : CCfg K I S UM U V Mask) (b : Bool) (s : CSrv K I V Mask) (r : CReq UM U Mask)
    (h : r.isUpdate = false) : (cstep C b s r).1.items = s.items := by
  cases r <;> simp [CReq.isUpdate] at h <;> rfl

theorem crun_nonupdate_items (C : CCfg K I S UM U V Mask) (b : Bool) (rs : List (CReq UM U Mask)) :
    ∀ s : CSrv K I V Mask, (∀ r, r ∈ rs → r.isUpdate = false) → (crun C b s rs).items = s.items := by
  induction rs with
  | nil => intro s _; rfl
  | cons r rs ih =>
    intro s h
    simp only [crun]
    rw [ih _ (fun x hx => h x (List.mem_cons_of_mem _ hx)), cstep_nonupdate_items C b s r (h r List.mem_cons_self)]

theorem itemsAlong_head (C : CCfg K I S UM U V Mask) (um : UM) (f : K → Option I) (xs : List S) :
    f ∈ itemsAlong C um f xs := by
  cases xs <;> simp [itemsAlong]

/-- what the whole loop (valid mask) does to one stream: see `C14_composite_multi_item_update_on_streams` -/
theorem writeAll_stream (C : CCfg K I S UM U V Mask) (um : UM) (hv : C.valid um = true) (xs : List S) :
    ∀ (s : CSrv K I V Mask), Tracks s → ∀ (i : Nat) (st : CStream K I V Mask), s.streams[i]? = some st →
      ∃ st', (writeAll C um s xs).1.streams[i]? = some st' ∧
        st'.name = st.name ∧ st'.mask = st.mask ∧ st'.live = st.live ∧
        (∀ m, m ∈ st'.out → m ∈ st.out ∨
          ∃ f, f ∈ (itemsAlong C um s.items xs).tail ∧ m = (cview C st.mask (C.compose f), st.name)) ∧
        (st.live = true → xs ≠ [] →
          st'.last = some (cview C st.mask (C.compose (writeAll C um s xs).1.items)) ∨
          C.eqv st'.last (cview C st.mask (C.compose (writeAll C um s xs).1.items)) = true) := by
  induction xs with
  | nil =>
    intro s _ i st hi
    exact ⟨st, hi, rfl, rfl, rfl, fun m hm => Or.inl hm, fun _ h => absurd rfl h⟩
  | cons x xs ih =>
    intro s ht i st hi
    let k := C.keyOf x
    let it := C.merge um (s.items k) x
    let s1 : CSrv K I V Mask := { items := setItem s.items k it, streams := s.streams.map (cpush C k it) }
    have hw : writeItem C um s x = .ok s1 := by simp [writeItem, hv, s1, k, it]
    have ht1 : Tracks s1 := writeItem_tracks C um s s1 x ht hw
    have hi1 : s1.streams[i]? = some (cpush C k it st) := by simp [s1, hi]
    obtain ⟨st', h1, hn, hm, hl, hmsgs, hfin⟩ := ih s1 ht1 i (cpush C k it st) hi1
    have hst := cpush_static C k it st
    have hwa : writeAll C um s (x :: xs) = writeAll C um s1 xs := by simp [writeAll, hw]
    have htail : (itemsAlong C um s.items (x :: xs)).tail = itemsAlong C um s1.items xs := rfl
    refine ⟨st', by rw [hwa]; exact h1, hn.trans hst.1, hm.trans hst.2.1, hl.trans hst.2.2, ?_, ?_⟩
    · intro m hmem
      rcases hmsgs m hmem with h | ⟨f, hf, hmf⟩
      · -- a message of the stream after the first write
        cases hlive : st.live with
        | false => rw [cpush_dead C k it st hlive] at h; exact Or.inl h
        | true =>
          have hall : setItem st.all k it = s1.items := by
            have := ht st (List.mem_of_getElem? hi) hlive
            simp [s1, this]
          rcases hb : C.eqv st.last (cview C st.mask (C.compose (setItem st.all k it))) with _ | _
          · have := ((cpush_out C k it st hlive).2 hb).1
            rw [this] at h
            rcases List.mem_append.mp h with h | h
            · exact Or.inl h
            · simp at h
              refine Or.inr ⟨s1.items, ?_, ?_⟩
              · rw [htail]; exact itemsAlong_head C um s1.items xs
              · rw [h, hall]
          · have := ((cpush_out C k it st hlive).1 hb).1
            rw [this] at h
            exact Or.inl h
      · refine Or.inr ⟨f, ?_, ?_⟩
        · rw [htail]; exact List.mem_of_mem_tail hf
        · rw [hmf, hst.2.1, hst.1]
    · intro hlive _
      rw [hwa]
      cases xs with
      | nil =>
        -- the last write: st' is the stream after it
        have hst' : st' = cpush C k it st := by
          have : (writeAll C um s1 []).1.streams[i]? = some st' := h1
          simp only [writeAll] at this
          rw [hi1] at this
          exact (Option.some.inj this).symm
        have hall : setItem st.all k it = s1.items := by
          have := ht st (List.mem_of_getElem? hi) hlive
          simp [s1, this]
        simp only [writeAll]
        rcases hb : C.eqv st.last (cview C st.mask (C.compose (setItem st.all k it))) with _ | _
        · left
          rw [hst', ((cpush_out C k it st hlive).2 hb).2, hall]
        · right
          rw [hst', ((cpush_out C k it st hlive).1 hb).2, ← hall]
          exact hb
      | cons y ys =>
        have := hfin (by rw [hst.2.2]; exact hlive) (by simp)
        rw [hst.2.1] at this
        exact this

end ScVerif.C14
