import ScVerif.C14.Props
import ScVerif.C14.PropsWriters
/-!
# C14 — the acceptor accepts every sequence of events the model sends to a stream

`C14_acceptor_accepts_model_stream` (Props.lean) is one step. Here it is iterated: whatever values are announced
to a stream one after the other — the responses of sequential Updates, or, for concurrent writers, the announced
values in send order (`C14_writers_streams_are_sequential_pushes`; the harness's `updok` / `updlate` observations
of a forced two-writer schedule) — the acceptor's queue functions answer `ok` for every message the model sends
and for every idle moment in between. So a rejection by the acceptor is never an artefact of its bookkeeping.
-/
namespace ScVerif.C14

variable {U : Type}

/-- **C14_acceptor_accepts_event_sequence.** Under the hypotheses of the one-step theorem (the equivalence
suppresses only repeated values, the projection is idempotent) and its simulation invariant at the start, the
acceptor accepts EVERY finite sequence of announced values on a live stream, whatever the `established` flag. -/
theorem C14_acceptor_accepts_event_sequence (C : Cfg Nat Nat U)
    (heqv : ∀ l x, C.eqv l x = true → l = some x)
    (hidem : ∀ m x, C.proj m (C.proj m x) = C.proj m x) (vs : List Nat) :
    ∀ (st : Stream Nat Nat) (q : List Entry) (prev : Nat) (est : Bool), st.live = true →
      (∀ w, st.last = some w → view C st.mask w = view C st.mask prev) →
      AllOpt q (view C st.mask prev) →
      acceptAll C st q prev est vs = true := by
  induction vs with
  | nil => intro st q prev est _ _ _; rfl
  | cons v vs ih =>
    intro st q prev est hlive hI hq
    have key := C14_acceptor_accepts_model_stream C heqv hidem st hlive q prev v est hI hq
    simp only at key
    have hst := push_static C v st
    simp only [acceptAll, acceptPush]
    cases he : C.eqv st.last (view C st.mask v) with
    | true =>
      obtain ⟨_, h2, h3, h4⟩ := key.1 he
      simp only [if_true, h2, beq_self_eq_true, Bool.true_and, Bool.or_false]
      exact ih (push C v st) _ v est (by rw [hst.2.2.1]; exact hlive)
        (by rw [hst.2.1]; exact h4) (by rw [hst.2.1]; exact h3)
    | false =>
      obtain ⟨_, h2, h3, h4, h5⟩ := key.2 he
      simp only [Bool.false_eq_true, if_false, h2, h3, beq_self_eq_true, Bool.true_and, Bool.and_self]
      exact ih (push C v st) _ v (est || true) (by rw [hst.2.2.1]; exact hlive)
        (by rw [hst.2.1]; exact h5) (by rw [hst.2.1]; exact h4)

/-- non-vacuity: the forced two-writer schedule on the example server — the later store's value 19 first, then the
overtaken 15 — is accepted, message by message -/
example : acceptAll exCfg (openStream exCfg 10 "a" none false) [] 10 true [19, 15] = true := by decide

end ScVerif.C14
