/-
C14 — servers whose Update starts background writes: lightpb.MemoryDevice brightness tweens
(pkg/trait/lightpb/memory.go).  An accepted tween Update returns at once; a goroutine then writes
progress values on every tick and finally the target, each write guarded by
`WithExpectedValue(lastObj)` (the value the goroutine itself wrote last): when anybody else has
written in between, the guard fails and the goroutine stops.
-/
namespace ScVerif.C14

structure Job (V : Type) where
  /-- what the goroutine wrote last (`lastObj`) -/
  last : V
  target : V

structure TSrv (V : Type) where
  cur : V
  job : Option (Job V)

inductive BgStep (V : Type)
  /-- a tick before the deadline: writes the progress value `p` -/
  | progress (p : V)
  /-- the tick at/after the deadline: lands on the target -/
  | finish

variable {V : Type} [DecidableEq V]

/-- one step of the tween goroutine; `guardFinish` = the finishing write carries the expected-value guard
(the code as it is) -/
def bgStep (guardFinish : Bool) (s : TSrv V) : BgStep V → TSrv V
  | .progress p =>
    match s.job with
    | none => s
    | some j => if s.cur = j.last then { cur := p, job := some { j with last := p } } else { s with job := none }
  | .finish =>
    match s.job with
    | none => s
    | some j => if !guardFinish || s.cur = j.last then { cur := j.target, job := none } else { s with job := none }

def bgRun (guardFinish : Bool) : TSrv V → List (BgStep V) → TSrv V
  | s, [] => s
  | s, b :: bs => bgRun guardFinish (bgStep guardFinish s b) bs

/-- a plain (non-tween) Update lands while the goroutine is still alive: the register becomes its response -/
def interrupt (s : TSrv V) (v : V) : TSrv V := { s with cur := v }

theorem bgRun_nojob (g : Bool) (bs : List (BgStep V)) : ∀ s : TSrv V, s.job = none → bgRun g s bs = s := by
  induction bs with
  | nil => intro s _; rfl
  | cons b bs ih =>
    intro s h
    have : bgStep g s b = s := by cases b <;> simp [bgStep, h]
    simp only [bgRun, this]
    exact ih s h

end ScVerif.C14
