import ScVerif.Generated.C14Facts
/-!
# C14 — tables regenerated from the source tree on every run (K3)

`ScVerif/Generated/C14Facts.lean` is written by `harness/cmd/c14 -facts` from `/repo`'s current
sources before this file is built.
-/
namespace ScVerif.C14
open ScVerif.Generated.C14

/-- Servers whose Get/Update/Pull methods deliberately do not have the canonical translation shape;
their behaviour is still decided by the acceptor (the Update response is the oracle), this list only
documents why the syntactic shape differs. -/
def customServers : List String := [
  -- UpdateActiveMode selects a mode by id (`ChangeActiveMode`): there is no update mask to translate
  "electricpb.NewModelServer/ActiveMode",
  -- preset / tween pipeline: several writes with expected-value checks, update_mask is not used
  "lightpb.NewMemoryDevice/Brightness",
  -- deprecated aliases that delegate to the PressedState methods (kept for source compatibility)
  "presspb.NewModelServer/ButtonState"
]

/-- **C14_servers_all_driven.** Every server implementation over a resource present in the source
tree (a `New…` constructor of a `pkg/trait` package returning a struct that embeds a generated
`Unimplemented…ApiServer` and holds a resource or a model) is a row of the table of stacks the
acceptor drives. -/
theorem C14_servers_all_driven : ∀ c, c ∈ discoveredServers → c ∈ drivenServers := by decide

/-- **C14_triples_canonical.** Every Get/Update/Pull method trio declared by a server type has the
canonical translation shape — `WithReadMask(req.ReadMask)` in Get and Pull, `WithUpdateMask(req.UpdateMask)`
in Update, `WithUpdatesOnly(req.UpdatesOnly)` in Pull, `Name: req.Name` in the changes it sends — or
is one of the explicitly listed custom servers. -/
theorem C14_triples_canonical : ∀ t, t ∈ triples → t.canonical = true ∨ t.key ∈ customServers := by decide

/-- the tables are not empty -/
example : discoveredServers.length ≥ 20 ∧ triples.length ≥ 10 := by decide

end ScVerif.C14
