import ScVerif.C14.BusLemmas
/-!
# C14 — between `Value.set` and the Pull streams: the bus's listener list, the one-slot buffer, the send deadline

"each successful Update … appears on every open Pull stream whose reader keeps up" rests on three facts about
`internal/minibus` and `resource.Value` that the register model (`Server.lean`: `streams.map (push v)`) takes for
granted:

* a subscription, once registered, stays in the bus's listener list until ITS OWN context ends — whatever other
  subscriptions come and go and whenever the bus tidies up (`Bus.collect`), under every interleaving
  (the seeded change C14-14, a collect that scans outside its critical section, is refuted by a witness);
* the one-slot buffer in front of every subscriber (`DropExcess`) hands a reader that keeps up every event, hands a
  reader that falls behind a subsequence ending on the latest event, and never makes the bus wait
  (what the harness's `stall` / `resume` observations are judged by);
* so without `WithBackpressure` an Update is rejected only by its write pipeline — before anything is stored;
  with backpressure (seeded change C14-15) an Update can be answered with an error after it has been stored.
-/
namespace ScVerif.C14

variable {E : Type}

/-- **C14_bus_live_listeners_stay_registered.** In the code as it is (`collect` one critical section), for EVERY
schedule of `Listen`s, cancellations, deliveries and collects: every subscription that was registered and whose
context has not ended is in `b.listeners` (and no collect is ever half done between two steps). -/
theorem C14_bus_live_listeners_stay_registered (sched : List (BStep E)) (s : BusSt E)
    (hI : BusInv s) (hidle : BusIdle s) :
    BusInv (brun false s sched) ∧ BusIdle (brun false s sched) :=
  brun_inv sched s hI hidle

/-- **C14_bus_event_reaches_every_live_subscriber.** After ANY history on a fresh bus, the next `Send` hands its
event to every subscription that has been registered and not cancelled. -/
theorem C14_bus_event_reaches_every_live_subscriber (sched : List (BStep E)) (e : E) (i : Nat) :
    let s := brun false ({} : BusSt E) sched
    i ∈ s.registered → s.dead.contains i = false → (i, e) ∈ (bstep false s (.deliver e)).got := by
  intro s hreg hlive
  have hI : BusInv ({} : BusSt E) := by intro j hj; simp at hj
  have h := (brun_inv sched ({} : BusSt E) hI rfl).1 i hreg hlive
  simp only [bstep]
  apply List.mem_append_right
  apply List.mem_map.mpr
  exact ⟨i, List.mem_filter.mpr ⟨h, by rw [hlive]; rfl⟩, rfl⟩

/-- **C14_bus_nothing_for_cancelled_subscribers.** A `Send` hands its event only to listeners whose context has not
ended, each at most as often as it is listed; everything handed over earlier stays as it was. -/
theorem C14_bus_nothing_for_cancelled_subscribers (b : Bool) (s : BusSt E) (e : E) :
    ∃ l, (bstep b s (.deliver e)).got = s.got ++ l ∧ ∀ p, p ∈ l → p.2 = e ∧ p.1 ∈ s.listeners ∧ s.dead.contains p.1 = false := by
  refine ⟨_, rfl, ?_⟩
  intro p hp
  obtain ⟨i, hi, rfl⟩ := List.mem_map.mp hp
  obtain ⟨h1, h2⟩ := List.mem_filter.mp hi
  refine ⟨rfl, h1, ?_⟩
  cases h : s.dead.contains i with
  | false => rfl
  | true => rw [h] at h2; cases h2

/-- **C14_bus_split_collect_refuted** (seeded change C14-14). When `collect` picks the live listeners on a snapshot
and stores the result in a second critical section, a `Listen` that falls between the two is thrown away: a
registered subscription whose context has not ended misses the next event. -/
theorem C14_bus_split_collect_refuted :
    ∃ (sched : List (BStep Nat)) (i e : Nat),
      let s := brun true ({} : BusSt Nat) sched
      i ∈ s.registered ∧ s.dead.contains i = false ∧ (i, e) ∉ (bstep true s (.deliver e)).got :=
  ⟨[.listen 1, .cancel 1, .deliver 5, .scan, .listen 2, .swap], 2, 7, by decide⟩

/-- non-vacuity: the same schedule on the code as it is (`scan` is the whole collect, `swap` does nothing): the
new subscription gets the event -/
example : (2, 7) ∈ (bstep false (brun false ({} : BusSt Nat) [.listen 1, .cancel 1, .deliver 5, .scan, .listen 2, .swap]) (.deliver 7)).got := by
  decide

/-- **C14_slow_reader_gets_subsequence.** Whatever the interleaving of the bus's `put`s and the subscriber's
`take`s on the one-slot buffer: what the subscriber is handed is a subsequence, in order, of what was waiting plus
what was put. -/
theorem C14_slow_reader_gets_subsequence (sched : List (SlotStep E)) (s : Slot E) :
    ∃ d, (slotRun s sched).out = s.out ++ d ∧ d.Sublist (s.buf.toList ++ putsOf sched) :=
  slot_out_sublist sched s

/-- **C14_slow_reader_ends_on_latest.** Whatever the interleaving, once the subscriber has taken what is waiting,
the LAST event it was handed is the last event put: a reader that fell behind ends on the register's value. -/
theorem C14_slow_reader_ends_on_latest (sched : List (SlotStep E)) (s : Slot E) (h : putsOf sched ≠ []) :
    (slotStep (slotRun s sched) .take).out.getLast? = (putsOf sched).getLast? := by
  have h1 := slot_tip_take (slotRun s sched)
  have h2 := slot_tip_run sched s
  have h3 := slot_take_buf (slotRun s sched)
  have h4 : (slotStep (slotRun s sched) .take).tip = (slotStep (slotRun s sched) .take).out.getLast? := by
    simp only [Slot.tip, h3]
  rw [← h4, h1, h2]
  cases hl : (putsOf sched).getLast? with
  | none => exact absurd (List.getLast?_eq_none_iff.mp hl) h
  | some e => rfl

/-- **C14_reader_keeping_up_gets_everything.** A reader that takes after every put is handed every event, in
order, and leaves the buffer empty. -/
theorem C14_reader_keeping_up_gets_everything (es : List E) (s : Slot E) (h : s.buf = none) :
    (slotRun s (keepUp es)).out = s.out ++ es ∧ (slotRun s (keepUp es)).buf = none :=
  slot_keepUp es s h

/-- **C14_bus_never_waits_for_buffered_subscriber.** `put` is possible in every state of the buffer and leaves
exactly the new event waiting: the bus never waits for a subscriber without backpressure. -/
theorem C14_bus_never_waits_for_buffered_subscriber (s : Slot E) (e : E) :
    (slotStep s (.put e)).buf = some e ∧ (slotStep s (.put e)).out = s.out := ⟨rfl, rfl⟩

/-- **C14_acceptor_accepts_resumed_reader.** The harness's judgement of a reader that had stalled: the values
announced during the stall are queued as optional entries; EVERY subsequence, in order, is accepted message by
message when the reader resumes. -/
theorem C14_acceptor_accepts_resumed_reader (q : List Entry) (ds : List VId)
    (hopt : ∀ e, e ∈ q → e.must = false) (hsub : ds.Sublist (q.map (·.val))) :
    recvAll q ds = true :=
  recvAll_sublist ds q hopt hsub

/-- **C14_acceptor_accepts_one_slot_buffer.** The two together: whatever the interleaving of announcements and
reads on the one-slot buffer of a stalled stream, the acceptor accepts everything the reader is handed. -/
theorem C14_acceptor_accepts_one_slot_buffer (sched : List (SlotStep VId)) :
    recvAll (optQueue (putsOf sched)) (slotRun ({} : Slot VId) sched).out = true := by
  obtain ⟨d, h1, h2⟩ := slot_out_sublist sched ({} : Slot VId)
  have hd : (slotRun ({} : Slot VId) sched).out = d := by simpa using h1
  rw [hd]
  apply recvAll_sublist d _ (optQueue_allOptional _)
  rw [optQueue_vals]
  simpa using h2

/-- entries queued while a reader is stalled (`established = false`) are optional, whatever the values -/
theorem C14_stalled_entries_are_optional (q : List Entry) (w wp : VId) (hopt : ∀ e, e ∈ q → e.must = false) :
    (∀ e, e ∈ qPush q w wp false → e.must = false) ∧ (qPush q w wp false).map (·.val) = q.map (·.val) ++ [w] := by
  constructor
  · intro e he
    simp only [qPush, List.mem_append, List.mem_singleton] at he
    rcases he with he | rfl
    · exact hopt e he
    · simp
  · simp [qPush]

/-- non-vacuity: five values announced while the reader is stalled, three of them delivered -/
example : recvAll (optQueue [3, 4, 3, 5, 6]) [3, 5, 6] = true := by decide

/-- … and a message that was never announced is rejected -/
example : recvAll (optQueue [3, 4, 3, 5, 6]) [3, 7] = false := by decide

variable {V U : Type}

/-- **C14_rejected_update_leaves_register_without_backpressure.** As long as no subscriber asked for backpressure
(every trait server as it is), `Value.set` answers with an error only when its write pipeline does, and then the
register is unchanged — however many subscribers there are and however long their readers have stalled. -/
theorem C14_rejected_update_leaves_register_without_backpressure (apply : V → U → Except Nat V) (cur : V) (u : U)
    (subs : List SubRoom) (hnb : ∀ s, s ∈ subs → s.backpressure = false) :
    setWithDeadline apply cur u subs = (match apply cur u with
      | .error c => (cur, .error c)
      | .ok v => (v, .ok v)) ∧
    ∀ c, (setWithDeadline apply cur u subs).2 = .error c → (setWithDeadline apply cur u subs).1 = cur := by
  have hall : subs.all (·.takes) = true := by
    apply List.all_eq_true.mpr
    intro s hs
    simp [SubRoom.takes, hnb s hs]
  constructor
  · unfold setWithDeadline
    cases apply cur u with
    | error c => rfl
    | ok v => simp [hall]
  · intro c hc
    unfold setWithDeadline at hc ⊢
    cases h : apply cur u with
    | error c' => rfl
    | ok v => simp [h, hall] at hc

/-- **C14_backpressure_rejects_after_storing** (seeded change C14-15). With one subscriber that asked for
backpressure and whose reader has stalled, an Update is answered with an error AFTER its value has been stored:
"an Update rejected with any error status leaves Get unchanged" fails. -/
theorem C14_backpressure_rejects_after_storing :
    ∃ (apply : Nat → Nat → Except Nat Nat) (cur u : Nat) (subs : List SubRoom) (c : Nat),
      (setWithDeadline apply cur u subs).2 = .error c ∧ (setWithDeadline apply cur u subs).1 ≠ cur :=
  ⟨fun _ u => .ok u, 0, 1, [⟨true, 0⟩], 2, by simp [setWithDeadline, SubRoom.takes]⟩

/-- non-vacuity: the same stalled subscriber without backpressure: the Update is answered OK -/
example : setWithDeadline (fun _ (u : Nat) => (.ok u : Except Nat Nat)) 0 1 [⟨false, 0⟩] = (1, .ok 1) := by
  simp [setWithDeadline, SubRoom.takes]

end ScVerif.C14
