/-
C14 — the generic register server.

One trait resource exposed through `GetX / UpdateX / PullX`
(pkg/trait/*/model_server.go, model.go, memory.go; pkg/resource/value.go), seen by a client through
`WrapApi(router(WrapApi(server)))` (the wrappers and the router forward requests and responses
unchanged: C12/C13).  The model follows the code's translation:

  GetX(name, read_mask)              = FilterClone(read_mask, value)
  UpdateX(name, payload, update_mask, extras…)
        = value.Set(payload, WithUpdateMask(update_mask), interceptors…)   -- ANY function of (current, request)
          ok v  → value := v; `bus.Send(v)`: every open Pull forwards FilterClone(mask, v) unless
                  `equivalence.Compare(last, filtered)`; the response is v itself
          error → nothing changes
  PullX(name, read_mask, updates_only)
        = seed (unless updates_only) then one change per forwarded event, each carrying request.name

`apply`, `eqv` and `proj` are arbitrary: per-trait business rules (interceptors, writable fields,
relative/delta flags, derived values, equivalence tolerances) are all inside `apply` / `eqv`.
-/
namespace ScVerif.C14

structure Cfg (V Mask U : Type) where
  /-- read-mask projection (C06) -/
  proj : Mask → V → V
  /-- the whole write pipeline: validation, masks, interceptors; `Except` = gRPC status code -/
  apply : V → U → Except Nat V
  /-- configured equivalence: `Compare(last, next)`; `last = none` when nothing was sent and updates_only -/
  eqv : Option V → V → Bool

variable {V Mask U : Type}

/-- `FilterClone` -/
def view (C : Cfg V Mask U) (m : Option Mask) (v : V) : V :=
  match m with
  | none => v
  | some m => C.proj m v

structure Stream (V Mask : Type) where
  name : String
  mask : Option Mask
  updatesOnly : Bool
  /-- `last` of Value.Pull: the unfiltered current value at subscription (nil if updates_only), then the last sent value -/
  last : Option V
  /-- everything sent on this stream so far, oldest first: what a reader that keeps up receives -/
  out : List (V × String)
  live : Bool

structure Srv (V Mask : Type) where
  cur : V
  streams : List (Stream V Mask)

inductive Req (Mask U : Type)
  | get (name : String) (mask : Option Mask)
  | update (name : String) (u : U)
  | pull (name : String) (mask : Option Mask) (updatesOnly : Bool)
  | cancel (i : Nat)

inductive Resp (V : Type)
  | val (v : V)
  | err (code : Nat)
  | opened (i : Nat)
  | done
  deriving DecidableEq

/-- one event `v` reaches one stream -/
def push (C : Cfg V Mask U) (v : V) (s : Stream V Mask) : Stream V Mask :=
  if !s.live then s
  else if C.eqv s.last (view C s.mask v) then s
  else { s with last := some (view C s.mask v), out := s.out ++ [(view C s.mask v, s.name)] }

def openStream (C : Cfg V Mask U) (cur : V) (name : String) (mask : Option Mask) (uo : Bool) : Stream V Mask :=
  { name := name, mask := mask, updatesOnly := uo,
    last := if uo then none else some cur,
    out := if uo then [] else [(view C mask cur, name)],
    live := true }

def step (C : Cfg V Mask U) (s : Srv V Mask) : Req Mask U → Srv V Mask × Resp V
  | .get _ m => (s, .val (view C m s.cur))
  | .update _ u =>
    match C.apply s.cur u with
    | .error c => (s, .err c)
    | .ok v => ({ cur := v, streams := s.streams.map (push C v) }, .val v)
  | .pull name m uo =>
    ({ s with streams := s.streams ++ [openStream C s.cur name m uo] }, .opened s.streams.length)
  | .cancel i =>
    ({ s with streams := s.streams.mapIdx fun j st => if j = i then { st with live := false } else st }, .done)

def run (C : Cfg V Mask U) : Srv V Mask → List (Req Mask U) → Srv V Mask
  | s, [] => s
  | s, r :: rs => run C (step C s r).1 rs

def Req.isUpdate : Req Mask U → Bool
  | .update _ _ => true
  | _ => false

end ScVerif.C14
