import ScVerif.C14.StackLemmas
/-!
# C14 — two more pieces of the full stack

* the router when it creates its clients on first use (FactoryRouter.lean): for EVERY interleaving of the
  `lookup / factory / insert` steps of any number of concurrent first requests for a name, every request is
  served by the one remembered client — so all of them talk to one register;
* hailpb's collector of arrived hails on top of the keyed family (Collector.lean): a history of
  Get/Update/Pull never deletes anything, whatever timestamps the Updates carry; a Create deletes old items only.

The seeded changes C14-12 (the loser of the creation race keeps its own client) and C14-11 (the collector also
runs after an Update) are refuted by witnesses.
-/
namespace ScVerif.C14

/-- **C14_factory_router_one_client.** From any router state in which no request has been served yet, after ANY
schedule every request `Get` has answered was given the client the registry remembers — hence any two requests
for the name, however their first uses overlapped, are executed on the same device (one register). -/
theorem C14_factory_router_one_client (sched : List RStep) (s : RState) (h0 : s.served = []) :
    (∀ r c, (r, c) ∈ (rrun false s sched).served → (rrun false s sched).registry = some c) ∧
    (∀ r1 c1 r2 c2, (r1, c1) ∈ (rrun false s sched).served → (r2, c2) ∈ (rrun false s sched).served → c1 = c2) := by
  have hinv : RInv (rrun false s sched) := rrun_inv sched s (by intro x hx; rw [h0] at hx; cases hx)
  refine ⟨fun r c h => hinv (r, c) h, ?_⟩
  intro r1 c1 r2 c2 h1 h2
  have e1 := hinv (r1, c1) h1
  have e2 := hinv (r2, c2) h2
  rw [e1] at e2
  cases e2
  rfl

/-- **C14_factory_router_one_register.** What "served by one client" buys: when every request of a history was
handed the same client `c0` by `Get` (which `C14_factory_router_one_client` guarantees), executing each request on
the device of the client it was handed is executing the whole history, in order, on the single device of `c0` —
for ANY device semantics `stepOn` (in particular the register server `step`), whatever other devices exist. -/
theorem C14_factory_router_one_register {S R : Type} (stepOn : S → R → S) (c0 : Nat) (l : List (Nat × R))
    (devs : Nat → S) (h : ∀ x, x ∈ l → x.1 = c0) :
    execOn stepOn devs l c0 = runOn stepOn (devs c0) (l.map (·.2)) :=
  execOn_one stepOn c0 l devs h

/-- with the seeded change the orphan device takes the loser's Update and the remembered device never sees it -/
example :
    execOn (fun (s : Nat) (r : Nat) => s + r) (fun _ => 0) [(1, 5), (0, 7), (1, 1)] 1 = 6 ∧
    runOn (fun (s : Nat) (r : Nat) => s + r) 0 [5, 7, 1] = 13 := by decide

/-- **C14_factory_router_registry_stable.** Once a client is remembered for the name it stays the remembered one
under every further schedule (also in the seeded variant: what differs there is only who is SERVED by it). -/
theorem C14_factory_router_registry_stable (b : Bool) (c : Nat) (sched : List RStep) (s : RState)
    (h : s.registry = some c) : (rrun b s sched).registry = some c :=
  rrun_registry_stable b c sched s h

/-- the seeded change C14-12: request 1 loses the creation race and is served by the orphan client 0 it created,
request 2 (and everybody after it) by the remembered client 1 -/
theorem C14_factory_router_keep_own_fails :
    let s := rrun true ⟨none, [], [], 0⟩ [.lookup 1, .lookup 2, .factory 1, .factory 2, .insert 2, .insert 1, .lookup 3]
    s.served = [(3, 1), (1, 0), (2, 1)] ∧ s.registry = some 1 := by decide

/-- the same schedule on the code as it is: everybody is served by client 1 -/
example :
    let s := rrun false ⟨none, [], [], 0⟩ [.lookup 1, .lookup 2, .factory 1, .factory 2, .insert 2, .insert 1, .lookup 3]
    s.served = [(3, 1), (1, 1), (2, 1)] ∧ s.registry = some 1 := by decide

variable {K V Mask U : Type} [DecidableEq K]

/-- **C14_collector_update_then_get.** hailpb with its collector armed or not, for every "old" predicate, every
listing, every write pipeline: after a successful Update of item `k` with response `v` — whatever `v` carries, an
old arrive_time included — an unmasked Get of `k` returns `v` after any requests that are not Creates and do not
write `k` (Gets, Pulls, cancellations, Updates/Deletes of other ids, the collector's timer re-arming). -/
theorem C14_collector_update_then_get (C : KCfg V Mask U) (old : V → Bool) (keys : List K) (s : GSrv K V Mask)
    (k : K) (name : String) (u : U) (v : V)
    (h : (gstep C old keys false s (.req (.update k name u))).2 = .val v)
    (rs : List (GReq K Mask U)) (hrs : ∀ r, r ∈ rs → r.quiet k = true) (name' : String) :
    (gstep C old keys false (grun C old keys false (gstep C old keys false s (.req (.update k name u))).1 rs)
      (.req (.get k name' none))).2 = .val v := by
  have hu := gstep_noncreate C old keys s (.update k name u) rfl
  rw [hu.2] at h
  have hreg : (gstep C old keys false s (.req (.update k name u))).1.k.regs k = some v := by
    rw [hu.1]; exact kupdate_ok_reg C s.k k name u v h
  generalize (gstep C old keys false s (.req (.update k name u))).1 = s1 at hreg ⊢
  have hfin : (grun C old keys false s1 rs).k.regs k = some v := by rw [grun_quiet_reg C old keys k rs s1 hrs, hreg]
  rw [(gstep_noncreate C old keys _ (.get k name' none) rfl).2]
  simp [kstep, hfin, view]

/-- **C14_collector_only_old.** A collector run (the deferred end of CreateHail) leaves every item as it is or
deletes it, and it deletes old items only: an item that is not old keeps its value. -/
theorem C14_collector_only_old (C : KCfg V Mask U) (old : V → Bool) (keys : List K) (s : KSrv K V Mask) (k : K) (v : V)
    (hv : s.regs k = some v) :
    ((collect C old keys s).regs k = some v ∨ (collect C old keys s).regs k = none) ∧
    (old v = false → (collect C old keys s).regs k = some v) := by
  rcases collect_reg C old keys k s with h | ⟨h, v', hv', ho⟩
  · exact ⟨Or.inl (h.trans hv), fun _ => h.trans hv⟩
  · refine ⟨Or.inr h, ?_⟩
    intro hno
    rw [hv] at hv'
    cases hv'
    rw [hno] at ho
    cases ho

/-- the seeded change C14-11 (the collector also runs, deferred, after UpdateHail): the Update is answered with the
value it wrote (510, "arrived long ago"), the next Get of that item is NotFound -/
theorem C14_collector_on_update_fails :
    let s : GSrv Nat Nat Nat := ⟨⟨fun k => if k = 1 then some 10 else none, []⟩, true⟩
    let old : Nat → Bool := fun v => decide (v > 100)
    (gstep exKCfg old [1] true s (.req (.update 1 "x" 500))).2 = .val 510 ∧
    (gstep exKCfg old [1] true (gstep exKCfg old [1] true s (.req (.update 1 "x" 500))).1 (.req (.get 1 "x" none))).2
      = .err notFound := by decide

/-- the same requests on the code as it is (non-vacuity: the collector is armed, the value is old) -/
example :
    let s : GSrv Nat Nat Nat := ⟨⟨fun k => if k = 1 then some 10 else none, []⟩, true⟩
    let old : Nat → Bool := fun v => decide (v > 100)
    (gstep exKCfg old [1] false (gstep exKCfg old [1] false s (.req (.update 1 "x" 500))).1 (.req (.get 1 "x" none))).2
      = .val 510 := by decide

end ScVerif.C14
