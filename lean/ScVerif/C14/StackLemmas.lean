import ScVerif.C14.Collector
import ScVerif.C14.FactoryRouter
import ScVerif.C14.PropsKeyed
/-! Lemmas for PropsStack.lean (collector on the keyed family, router with a factory). -/
namespace ScVerif.C14

variable {K V Mask U : Type} [DecidableEq K]

theorem kupdate_ok_reg (C : KCfg V Mask U) (s : KSrv K V Mask) (k : K) (name : String) (u : U) (v : V)
    (h : (kstep C s (.update k name u)).2 = .val v) : (kstep C s (.update k name u)).1.regs k = some v := by
  simp only [kstep] at h ⊢
  cases hr : s.regs k with
  | none => simp [hr] at h
  | some cur =>
    simp only [hr] at h ⊢
    cases ha : C.apply cur u with
    | error c => simp [ha] at h
    | ok w => simp [ha] at h ⊢; simp [setReg, h]

/-- without the seeded change only a Create ends with a collector run -/
theorem gstep_noncreate (C : KCfg V Mask U) (old : V → Bool) (keys : List K) (s : GSrv K V Mask) (r : KReq K Mask U)
    (h : runsGc false r = false) :
    (gstep C old keys false s (.req r)).1.k = (kstep C s.k r).1 ∧ (gstep C old keys false s (.req r)).2 = (kstep C s.k r).2 := by
  simp [gstep, h]

theorem gstep_quiet_reg (C : KCfg V Mask U) (old : V → Bool) (keys : List K) (s : GSrv K V Mask) (k : K)
    (r : GReq K Mask U) (h : r.quiet k = true) : (gstep C old keys false s r).1.k.regs k = s.k.regs k := by
  cases r with
  | rearm => rfl
  | req r =>
    cases r with
    | create k' u => simp [GReq.quiet] at h
    | get k' n m => rw [(gstep_noncreate C old keys s _ rfl).1]; exact kstep_other_reg C s.k _ k rfl
    | pull k' n m uo => rw [(gstep_noncreate C old keys s _ rfl).1]; exact kstep_other_reg C s.k _ k rfl
    | cancel i => rw [(gstep_noncreate C old keys s _ rfl).1]; exact kstep_other_reg C s.k _ k rfl
    | update k' n u =>
      rw [(gstep_noncreate C old keys s _ rfl).1]
      exact kstep_other_reg C s.k _ k (by simpa [GReq.quiet] using h)
    | delete k' am =>
      rw [(gstep_noncreate C old keys s _ rfl).1]
      exact kstep_other_reg C s.k _ k (by simpa [GReq.quiet] using h)

theorem grun_quiet_reg (C : KCfg V Mask U) (old : V → Bool) (keys : List K) (k : K) (rs : List (GReq K Mask U)) :
    ∀ s : GSrv K V Mask, (∀ r, r ∈ rs → r.quiet k = true) → (grun C old keys false s rs).k.regs k = s.k.regs k := by
  induction rs with
  | nil => intro s _; rfl
  | cons r rs ih =>
    intro s h
    simp only [grun]
    rw [ih _ (fun x hx => h x (List.mem_cons_of_mem _ hx)), gstep_quiet_reg C old keys s k r (h r List.mem_cons_self)]

/-- one collector step touches the register of its own key only, and only when the item is old -/
theorem collect_step_reg (C : KCfg V Mask U) (old : V → Bool) (s : KSrv K V Mask) (k' k : K) :
    let s' := (match s.regs k' with
      | some v => if old v then (kstep C s (.delete k' true)).1 else s
      | none => s)
    (s'.regs k = s.regs k ∨ (s'.regs k = none ∧ ∃ v, s.regs k = some v ∧ old v = true)) := by
  intro s'
  cases hr : s.regs k' with
  | none => simp [s', hr]
  | some v =>
    by_cases ho : old v = true
    · by_cases hk : k = k'
      · subst hk
        right
        simp [s', hr, ho, kstep, setReg]
      · left
        simp [s', hr, ho, kstep, setReg, hk]
    · simp [s', hr, ho]

theorem collect_reg (C : KCfg V Mask U) (old : V → Bool) (keys : List K) (k : K) : ∀ s : KSrv K V Mask,
    (collect C old keys s).regs k = s.regs k ∨
      ((collect C old keys s).regs k = none ∧ ∃ v, s.regs k = some v ∧ old v = true) := by
  induction keys with
  | nil => intro s; exact Or.inl rfl
  | cons k' ks ih =>
    intro s
    simp only [collect, List.foldl_cons]
    have h1 := collect_step_reg C old s k' k
    simp only at h1
    generalize hs1 : (match s.regs k' with
      | some v => if old v then (kstep C s (.delete k' true)).1 else s
      | none => s) = s1 at h1
    have h2 := ih s1
    simp only [collect] at h2
    subst hs1
    rcases h2 with h2 | ⟨h2, v, hv, ho⟩
    · rcases h1 with h1 | ⟨h1, v, hv, ho⟩
      · exact Or.inl (h2.trans h1)
      · exact Or.inr ⟨h2.trans h1, v, hv, ho⟩
    · rcases h1 with h1 | ⟨h1, v', hv', ho'⟩
      · exact Or.inr ⟨h2, v, h1 ▸ hv, ho⟩
      · rw [h1] at hv; cases hv

theorem rrun_registry_stable (b : Bool) (c : Nat) (xs : List RStep) : ∀ s : RState, s.registry = some c →
    (rrun b s xs).registry = some c := by
  induction xs with
  | nil => intro s h; exact h
  | cons x xs ih =>
    intro s h
    apply ih
    cases x with
    | lookup r => simp only [rstep]; split; exact h; split <;> exact h
    | factory r => simp only [rstep]; split <;> exact h
    | insert r =>
      simp only [rstep]
      split
      · split
        · exact h
        · rename_i hc; rw [hc] at h; cases h
      · exact h

end ScVerif.C14
