import ScVerif.C14.Server
/-! Lemmas about the register server model (helpers for Props.lean). -/
namespace ScVerif.C14

variable {V Mask U : Type}

theorem step_nonupdate_cur (C : Cfg V Mask U) (s : Srv V Mask) (r : Req Mask U) (h : r.isUpdate = false) :
    (step C s r).1.cur = s.cur := by
  cases r <;> simp [Req.isUpdate] at h <;> rfl

theorem run_nonupdate_cur (C : Cfg V Mask U) (rs : List (Req Mask U)) :
    ∀ s : Srv V Mask, (∀ r, r ∈ rs → r.isUpdate = false) → (run C s rs).cur = s.cur := by
  induction rs with
  | nil => intro s _; rfl
  | cons r rs ih =>
    intro s h
    simp only [run]
    rw [ih _ (fun x hx => h x (List.mem_cons_of_mem _ hx)), step_nonupdate_cur C s r (h r List.mem_cons_self)]

/-- what `push` does to the sent list: nothing, or exactly one appended message -/
theorem push_out (C : Cfg V Mask U) (v : V) (s : Stream V Mask) :
    (push C v s).out = s.out ∨ (push C v s).out = s.out ++ [(view C s.mask v, s.name)] := by
  unfold push
  split
  · exact Or.inl rfl
  · split
    · exact Or.inl rfl
    · exact Or.inr rfl

theorem push_static (C : Cfg V Mask U) (v : V) (s : Stream V Mask) :
    (push C v s).name = s.name ∧ (push C v s).mask = s.mask ∧ (push C v s).live = s.live ∧
    (push C v s).updatesOnly = s.updatesOnly := by
  unfold push
  split
  · exact ⟨rfl, rfl, rfl, rfl⟩
  · split <;> exact ⟨rfl, rfl, rfl, rfl⟩

/-- A value is *explained* by a history when it is the initial value or the response of a successful Update. -/
inductive Explained (C : Cfg V Mask U) (init : V) : List (Req Mask U) → V → Prop
  | init (rs) : Explained C init rs init
  | resp (rs : List (Req Mask U)) (name : String) (u : U) (v : V) (rest : List (Req Mask U)) :
      C.apply (run C ⟨init, []⟩ rs).cur u = .ok v → Explained C init (rs ++ .update name u :: rest) v

end ScVerif.C14
