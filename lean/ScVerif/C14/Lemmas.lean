import ScVerif.C14.Server
/-! Lemmas about the register server model (helpers for Props.lean). -/
namespace ScVerif.C14

variable {V Mask U : Type}

theorem step_nonupdate_cur (C : Cfg V Mask U) (s : Srv V Mask) (r : Req Mask U) (h : r.isUpdate = false) :
    (step C s r).1.cur = s.cur := by
  cases r <;> simp [Req.isUpdate] at h <;> rfl

theorem run_nonupdate_cur (C : Cfg V Mask U) (rs : List (Req Mask U)) :
    ∀ s : Srv V Mask, (∀ r, r ∈ rs → r.isUpdate = false) → (run C s rs).cur = s.cur := by
  induction rs with
  | nil => intro s _; rfl
  | cons r rs ih =>
    intro s h
    simp only [run]
    rw [ih _ (fun x hx => h x (List.mem_cons_of_mem _ hx)), step_nonupdate_cur C s r (h r List.mem_cons_self)]

/-- what `push` does to the sent list: nothing, or exactly one appended message -/
theorem push_out (C : Cfg V Mask U) (v : V) (s : Stream V Mask) :
    (push C v s).out = s.out ∨ (push C v s).out = s.out ++ [(view C s.mask v, s.name)] := by
  unfold push
  split
  · exact Or.inl rfl
  · split
    · exact Or.inl rfl
    · exact Or.inr rfl

theorem push_static (C : Cfg V Mask U) (v : V) (s : Stream V Mask) :
    (push C v s).name = s.name ∧ (push C v s).mask = s.mask ∧ (push C v s).live = s.live ∧
    (push C v s).updatesOnly = s.updatesOnly := by
  unfold push
  split
  · exact ⟨rfl, rfl, rfl, rfl⟩
  · split <;> exact ⟨rfl, rfl, rfl, rfl⟩

/-- A value is *explained* by a history when it is the initial value or the response of a successful Update. -/
inductive Explained (C : Cfg V Mask U) (init : V) : List (Req Mask U) → V → Prop
  | init (rs) : Explained C init rs init
  | resp (rs : List (Req Mask U)) (name : String) (u : U) (v : V) (rest : List (Req Mask U)) :
      C.apply (run C ⟨init, []⟩ rs).cur u = .ok v → Explained C init (rs ++ .update name u :: rest) v

/-- the values the register holds along a run: before it and after every request -/
def vals (C : Cfg V Mask U) : Srv V Mask → List (Req Mask U) → List V
  | s, [] => [s.cur]
  | s, r :: rs => s.cur :: vals C (step C s r).1 rs

/-- a message on a stream is accounted for: it was there before, or it is the stream's view of a value in `vs` under the stream's name -/
def Accounted (C : Cfg V Mask U) (old : List (Stream V Mask)) (vs : List V) (st : Stream V Mask) (x : V × String) : Prop :=
  (∃ so, so ∈ old ∧ x ∈ so.out) ∨ (x.2 = st.name ∧ ∃ v, v ∈ vs ∧ x.1 = view C st.mask v)

theorem push_accounted (C : Cfg V Mask U) (v : V) (st : Stream V Mask) (x : V × String) (hx : x ∈ (push C v st).out) :
    x ∈ st.out ∨ x = (view C st.mask v, st.name) := by
  rcases push_out C v st with h | h
  · rw [h] at hx; exact Or.inl hx
  · rw [h] at hx
    rcases List.mem_append.mp hx with hx | hx
    · exact Or.inl hx
    · simp at hx; exact Or.inr hx

/-- one step: every message of every stream afterwards was on the same-named/masked stream before, or is the view of the new register value, or is the seed of the stream just opened -/
theorem step_streams (C : Cfg V Mask U) (s : Srv V Mask) (r : Req Mask U) (st' : Stream V Mask)
    (hst : st' ∈ (step C s r).1.streams) (x : V × String) (hx : x ∈ st'.out) :
    (∃ st, st ∈ s.streams ∧ st.name = st'.name ∧ st.mask = st'.mask ∧ x ∈ st.out) ∨
    (x.2 = st'.name ∧ (x.1 = view C st'.mask (step C s r).1.cur ∨ x.1 = view C st'.mask s.cur)) := by
  cases r with
  | get n m => exact Or.inl ⟨st', hst, rfl, rfl, hx⟩
  | update n u =>
    simp only [step] at hst ⊢
    cases ha : C.apply s.cur u with
    | error c => simp only [ha] at hst; exact Or.inl ⟨st', hst, rfl, rfl, hx⟩
    | ok w =>
      simp only [ha] at hst ⊢
      obtain ⟨st, hm, rfl⟩ := List.mem_map.mp hst
      have hs := push_static C w st
      rcases push_accounted C w st x hx with h | h
      · exact Or.inl ⟨st, hm, hs.1.symm, hs.2.1.symm, h⟩
      · refine Or.inr ⟨?_, Or.inl ?_⟩
        · rw [h, hs.1]
        · rw [h, hs.2.1]
  | pull n m uo =>
    simp only [step] at hst ⊢
    rcases List.mem_append.mp hst with h | h
    · exact Or.inl ⟨st', h, rfl, rfl, hx⟩
    · simp at h
      subst h
      cases uo with
      | true => simp [openStream] at hx
      | false =>
        simp [openStream] at hx
        exact Or.inr ⟨by rw [hx]; rfl, Or.inr (by rw [hx]; rfl)⟩
  | cancel i =>
    simp only [step] at hst
    obtain ⟨j, hj, rfl⟩ := List.mem_mapIdx.mp hst
    refine Or.inl ⟨s.streams[j], List.getElem_mem _, ?_, ?_, ?_⟩
    · split <;> rfl
    · split <;> rfl
    · revert hx; split <;> exact id

theorem cur_mem_vals (C : Cfg V Mask U) (s : Srv V Mask) (rs : List (Req Mask U)) : s.cur ∈ vals C s rs := by
  cases rs <;> simp [vals]

end ScVerif.C14
