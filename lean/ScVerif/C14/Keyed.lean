import ScVerif.C14.Server
/-!
C14 — keyed families of registers: collection items exposed through `GetX / UpdateX / PullX`
with an id in the request (hailpb Hail, publicationpb Publication, vendingpb Stock), created and
deleted by `CreateX` / `DeleteX` (or at the model level).

  GetX(id, read_mask)       = Collection.Get(id)  → NotFound when absent
  UpdateX(payload with id)  = Collection.Update(id, …) → NotFound when absent; ok v → event for that id only
  CreateX(payload)          = Collection.Add(id, …)
  DeleteX(id)               = Collection.Delete(id): the item's Pull streams END (PullID returns on REMOVE)
  PullX(id, read_mask, updates_only) = Collection.PullID(id): seed if the item exists (unless updates_only),
                              then that item's changes only

One register per id, reusing the single-register definitions (`view`, `push`, `openStream`).
-/
namespace ScVerif.C14

structure KCfg (V Mask U : Type) extends Cfg V Mask U where
  /-- the Create pipeline (id generation and interceptors included) -/
  init : U → Except Nat V

structure KStream (K V Mask : Type) where
  key : K
  s : Stream V Mask

structure KSrv (K V Mask : Type) where
  regs : K → Option V
  streams : List (KStream K V Mask)

inductive KReq (K Mask U : Type)
  | get (k : K) (name : String) (mask : Option Mask)
  | update (k : K) (name : String) (u : U)
  | create (k : K) (u : U)
  | delete (k : K) (allowMissing : Bool)
  | pull (k : K) (name : String) (mask : Option Mask) (updatesOnly : Bool)
  | cancel (i : Nat)

variable {K V Mask U : Type} [DecidableEq K]

def notFound : Nat := 5
def alreadyExists : Nat := 6

/-- an event for key `k` reaches exactly the streams of `k` -/
def kpush (C : KCfg V Mask U) (k : K) (v : V) (st : KStream K V Mask) : KStream K V Mask :=
  if st.key = k then { st with s := push C.toCfg v st.s } else st

/-- Delete ends the streams of `k` -/
def kend (k : K) (st : KStream K V Mask) : KStream K V Mask :=
  if st.key = k then { st with s := { st.s with live := false } } else st

def setReg (regs : K → Option V) (k : K) (v : Option V) : K → Option V := fun x => if x = k then v else regs x

/-- the stream a Pull of `k` registers: seeded from the item if it exists -/
def pullStream (C : KCfg V Mask U) (s : KSrv K V Mask) (k : K) (name : String) (m : Option Mask) (uo : Bool) : Stream V Mask :=
  match s.regs k with
  | some cur => openStream C.toCfg cur name m uo
  | none => { name := name, mask := m, updatesOnly := uo, last := none, out := [], live := true }

def kstep (C : KCfg V Mask U) (s : KSrv K V Mask) : KReq K Mask U → KSrv K V Mask × Resp V
  | .get k _ m =>
    match s.regs k with
    | none => (s, .err notFound)
    | some v => (s, .val (view C.toCfg m v))
  | .update k _ u =>
    match s.regs k with
    | none => (s, .err notFound)
    | some cur =>
      match C.apply cur u with
      | .error c => (s, .err c)
      | .ok v => ({ regs := setReg s.regs k (some v), streams := s.streams.map (kpush C k v) }, .val v)
  | .create k u =>
    match s.regs k with
    | some _ => (s, .err alreadyExists)
    | none =>
      match C.init u with
      | .error c => (s, .err c)
      | .ok v => ({ regs := setReg s.regs k (some v), streams := s.streams.map (kpush C k v) }, .val v)
  | .delete k allowMissing =>
    match s.regs k with
    | none => (s, if allowMissing then .done else .err notFound)
    | some _ => ({ regs := setReg s.regs k none, streams := s.streams.map (kend k) }, .done)
  | .pull k name m uo =>
    ({ s with streams := s.streams ++ [{ key := k, s := pullStream C s k name m uo }] }, .opened s.streams.length)
  | .cancel i =>
    ({ s with streams := s.streams.mapIdx fun j st => if j = i then { st with s := { st.s with live := false } } else st }, .done)

def krun (C : KCfg V Mask U) : KSrv K V Mask → List (KReq K Mask U) → KSrv K V Mask
  | s, [] => s
  | s, r :: rs => krun C (kstep C s r).1 rs

/-- the request writes the register of `k` -/
def KReq.writes (k : K) : KReq K Mask U → Bool
  | .update k' _ _ | .create k' _ | .delete k' _ => decide (k' = k)
  | _ => false

end ScVerif.C14
