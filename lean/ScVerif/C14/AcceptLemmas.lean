import ScVerif.C14.Acceptor
/-! Lemmas about the acceptor's per-stream expectation queue. -/
namespace ScVerif.C14

/-- every entry is optional and carries the value `x` -/
def AllOpt (q : List Entry) (x : VId) : Prop := ∀ e, e ∈ q → e.must = false ∧ e.val = x

theorem skipOptional_same (w : VId) : ∀ q : List Entry, AllOpt q w → skipOptional w q = q := by
  intro q h
  cases q with
  | nil => rfl
  | cons e rest =>
    have he := h e List.mem_cons_self
    simp [skipOptional, he.2]

theorem skipOptional_drop (w x : VId) (hne : x ≠ w) (r : List Entry) :
    ∀ q : List Entry, AllOpt q x → skipOptional w (q ++ r) = skipOptional w r := by
  intro q
  induction q with
  | nil => intro _; rfl
  | cons e rest ih =>
    intro h
    have he := h e List.mem_cons_self
    have hr : AllOpt rest x := fun e' he' => h e' (List.mem_cons_of_mem _ he')
    simp only [List.cons_append, skipOptional]
    have : (!e.must && decide (e.val ≠ w)) = true := by simp [he.1, he.2, hne]
    rw [if_pos this]
    exact ih hr

theorem qIdle_allOpt (q : List Entry) (x : VId) (h : AllOpt q x) : qIdle q = .ok := by
  unfold qIdle
  have : q.find? (·.must) = none := by
    apply List.find?_eq_none.mpr
    intro e he
    simp [(h e he).1]
  rw [this]

variable {U : Type}

theorem view_idem (C : Cfg Nat Nat U) (hidem : ∀ m x, C.proj m (C.proj m x) = C.proj m x) (m : Option Nat) (x : Nat) :
    view C m (view C m x) = view C m x := by
  cases m with
  | none => rfl
  | some k => exact hidem k x

/-- replay one announced value `v` against the acceptor's queue `q` of a stream: `qPush`, then — if the model sends
the message — `qRecv` of exactly that message and `qIdle`, else `qIdle` at once. Returns the queue afterwards,
whether a message was sent, and whether every verdict was `ok`. -/
def acceptPush (C : Cfg Nat Nat U) (st : Stream Nat Nat) (q : List Entry) (prev v : Nat) (est : Bool) :
    List Entry × Bool × Bool :=
  let x := view C st.mask v
  let q1 := qPush q x (view C st.mask prev) est
  if C.eqv st.last x then (q1, false, qIdle q1 == .ok)
  else ((qRecv q1 x true).1, true, (qRecv q1 x true).2 == .ok && qIdle (qRecv q1 x true).1 == .ok)

/-- the values `vs` are announced one after the other; `prev` is the value announced before them -/
def acceptAll (C : Cfg Nat Nat U) : Stream Nat Nat → List Entry → Nat → Bool → List Nat → Bool
  | _, _, _, _, [] => true
  | st, q, prev, est, v :: vs =>
    let r := acceptPush C st q prev v est
    r.2.2 && acceptAll C (push C v st) r.1 v (est || r.2.1) vs

end ScVerif.C14
