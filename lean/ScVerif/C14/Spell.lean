import ScVerif.C14.Keyed
/-!
C14 — keyed families behind an ID INTERCEPTOR (`resource.WithIDInterceptor`): one item, many spellings of its id.

`pkg/resource/collection.go`: `Get`, `Update` (and `Add` = `Update` with create options), `Delete` and `PullID` all
start with `id = c.idInterceptor(id)` and use that ONE variable for everything that follows:

  Get(id)      looks `byId[id]` up
  Update(id)   reads / stores `byId[id]` and publishes `CollectionChange{Id: id, NewValue: v}`
  Delete(id)   removes `byId[id]` and publishes `CollectionChange{Id: id, ChangeType: REMOVE}`
  PullID(id)   subscribes to the collection's changes (seeds included) and, change by change:
                 `if change.Id != id { continue }`; REMOVE → return (the channel closes); else forward `NewValue`

The model keeps the two halves of a write apart, as the code does: the write produces a CHANGE carrying an id
(`SChange`), and every open single-item stream decides by comparing that id with the id IT holds (`sdeliver`).
That the two ids are images of the same interceptor is what makes an Update under one spelling reach a stream opened
under another: `sstep_refines` proves the spelled server equal, request by request, to the keyed server of Keyed.lean on
the interceptor's images. The interceptor is an arbitrary function: nothing assumes it idempotent (the code applies it
exactly once to every id it is given).
-/
namespace ScVerif.C14

structure SCfg (S V Mask U : Type) extends KCfg V Mask U where
  /-- `resource.WithIDInterceptor` -/
  icpt : S → S

/-- a `CollectionChange` as `PullID` reads it: the id it carries, the new value (`none`: ChangeType REMOVE) -/
structure SChange (S V : Type) where
  id : S
  newValue : Option V

variable {S V Mask U : Type} [DecidableEq S]

/-- the body of PullID's loop for one change; `st.key` is the variable `id` of PullID (the interceptor's image of the
id in the Pull request) -/
def sdeliver (C : SCfg S V Mask U) (ch : SChange S V) (st : KStream S V Mask) : KStream S V Mask :=
  if st.key ≠ ch.id then st
  else
    match ch.newValue with
    | none => { st with s := { st.s with live := false } }
    | some v => { st with s := push C.toCfg v st.s }

/-- publish: every subscription sees the change -/
def spublish (C : SCfg S V Mask U) (ch : SChange S V) (sts : List (KStream S V Mask)) : List (KStream S V Mask) :=
  sts.map (sdeliver C ch)

/-- one request, the id spelled as the caller likes -/
def sstep (C : SCfg S V Mask U) (s : KSrv S V Mask) : KReq S Mask U → KSrv S V Mask × Resp V
  | .get id _ m =>
    let id := C.icpt id
    match s.regs id with
    | none => (s, .err notFound)
    | some v => (s, .val (view C.toCfg m v))
  | .update id _ u =>
    let id := C.icpt id
    match s.regs id with
    | none => (s, .err notFound)
    | some cur =>
      match C.apply cur u with
      | .error c => (s, .err c)
      | .ok v => ({ regs := setReg s.regs id (some v), streams := spublish C ⟨id, some v⟩ s.streams }, .val v)
  | .create id u =>
    let id := C.icpt id
    match s.regs id with
    | some _ => (s, .err alreadyExists)
    | none =>
      match C.init u with
      | .error c => (s, .err c)
      | .ok v => ({ regs := setReg s.regs id (some v), streams := spublish C ⟨id, some v⟩ s.streams }, .val v)
  | .delete id allowMissing =>
    let id := C.icpt id
    match s.regs id with
    | none => (s, if allowMissing then .done else .err notFound)
    | some _ => ({ regs := setReg s.regs id none, streams := spublish C ⟨id, none⟩ s.streams }, .done)
  | .pull id name m uo =>
    let id := C.icpt id
    ({ s with streams := s.streams ++ [{ key := id, s := pullStream C.toKCfg s id name m uo }] }, .opened s.streams.length)
  | .cancel i =>
    ({ s with streams := s.streams.mapIdx fun j st => if j = i then { st with s := { st.s with live := false } } else st }, .done)

/-- `NewCollection`: every initial record (`WithInitialRecord(id, v)`) is kept under the interceptor's image of its id
(two records with one image make NewCollection panic: `sinitOk`); no streams yet -/
def sinit (C : SCfg S V Mask U) (recs : List (S × V)) : KSrv S V Mask :=
  { regs := fun k => (recs.find? fun kv => C.icpt kv.1 = k).map (·.2), streams := [] }

/-- NewCollection does not panic: the images of the configured ids are pairwise different -/
def sinitOk (C : SCfg S V Mask U) (recs : List (S × V)) : Prop :=
  (recs.map fun kv => C.icpt kv.1).Nodup

theorem sinit_reg (C : SCfg S V Mask U) (recs : List (S × V)) (h : sinitOk C recs) (id : S) (v : V)
    (hm : (id, v) ∈ recs) : (sinit C recs : KSrv S V Mask).regs (C.icpt id) = some v := by
  induction recs with
  | nil => cases hm
  | cons kv rest ih =>
    simp only [sinitOk, List.map_cons, List.nodup_cons] at h
    rcases List.mem_cons.mp hm with e | hm'
    · subst e; simp [sinit]
    · have hne : C.icpt kv.1 ≠ C.icpt id := by
        intro e
        exact h.1 (e ▸ List.mem_map.mpr ⟨(id, v), hm', rfl⟩)
      have := ih h.2 hm'
      simp only [sinit] at this ⊢
      simp [hne, this]

def srun (C : SCfg S V Mask U) : KSrv S V Mask → List (KReq S Mask U) → KSrv S V Mask
  | s, [] => s
  | s, r :: rs => srun C (sstep C s r).1 rs

/-- the responses of a session, in order -/
def sresps (C : SCfg S V Mask U) : KSrv S V Mask → List (KReq S Mask U) → List (Resp V)
  | _, [] => []
  | s, r :: rs => (sstep C s r).2 :: sresps C (sstep C s r).1 rs

def kresps (C : KCfg V Mask U) : KSrv S V Mask → List (KReq S Mask U) → List (Resp V)
  | _, [] => []
  | s, r :: rs => (kstep C s r).2 :: kresps C (kstep C s r).1 rs

/-- the request with its id replaced by the interceptor's image -/
def KReq.mapKey (f : S → S) : KReq S Mask U → KReq S Mask U
  | .get k n m => .get (f k) n m
  | .update k n u => .update (f k) n u
  | .create k u => .create (f k) u
  | .delete k am => .delete (f k) am
  | .pull k n m uo => .pull (f k) n m uo
  | .cancel i => .cancel i

theorem sdeliver_some (C : SCfg S V Mask U) (k : S) (v : V) :
    sdeliver C ⟨k, some v⟩ = kpush C.toKCfg k v := by
  funext st
  by_cases h : st.key = k <;> simp [sdeliver, kpush, h]

theorem sdeliver_none (C : SCfg S V Mask U) (k : S) :
    sdeliver C (⟨k, none⟩ : SChange S V) = kend k := by
  funext st
  by_cases h : st.key = k <;> simp [sdeliver, kend, h]

/-- request by request the spelled server IS the keyed server on the interceptor's images -/
theorem sstep_refines (C : SCfg S V Mask U) (s : KSrv S V Mask) (r : KReq S Mask U) :
    sstep C s r = kstep C.toKCfg s (r.mapKey C.icpt) := by
  cases r with
  | get id n m =>
    cases h : s.regs (C.icpt id) <;> simp [sstep, kstep, KReq.mapKey, h]
  | update id n u =>
    cases h : s.regs (C.icpt id) with
    | none => simp [sstep, kstep, KReq.mapKey, h]
    | some cur =>
      cases ha : C.apply cur u <;> simp [sstep, kstep, KReq.mapKey, spublish, sdeliver_some, h, ha]
  | create id u =>
    cases h : s.regs (C.icpt id) with
    | some cur => simp [sstep, kstep, KReq.mapKey, h]
    | none =>
      cases ha : C.init u <;> simp [sstep, kstep, KReq.mapKey, spublish, sdeliver_some, h, ha]
  | delete id am =>
    cases h : s.regs (C.icpt id) <;> simp [sstep, kstep, KReq.mapKey, spublish, sdeliver_none, h]
  | pull id n m uo => simp [sstep, kstep, KReq.mapKey]
  | cancel i => simp [sstep, kstep, KReq.mapKey]

theorem srun_refines (C : SCfg S V Mask U) (rs : List (KReq S Mask U)) :
    ∀ s : KSrv S V Mask, srun C s rs = krun C.toKCfg s (rs.map (KReq.mapKey C.icpt)) := by
  induction rs with
  | nil => intro s; rfl
  | cons r rs ih => intro s; simp only [srun, krun, List.map_cons, sstep_refines, ih]

theorem sresps_refines (C : SCfg S V Mask U) (rs : List (KReq S Mask U)) :
    ∀ s : KSrv S V Mask, sresps C s rs = kresps C.toKCfg s (rs.map (KReq.mapKey C.icpt)) := by
  induction rs with
  | nil => intro s; rfl
  | cons r rs ih => intro s; simp only [sresps, kresps, List.map_cons, sstep_refines, ih]

theorem mapKey_writes (f : S → S) (k : S) (r : KReq S Mask U) :
    (r.mapKey f).writes k = (match r with
      | .update k' _ _ | .create k' _ | .delete k' _ => decide (f k' = k)
      | _ => false) := by
  cases r <;> rfl

end ScVerif.C14
