import ScVerif.C14.Keyed
/-!
C14 — hailpb.Model's collector of arrived hails on top of the keyed family (pkg/trait/hailpb/model.go).

  CreateHail:  defer m.gc();  hails.Add(…)
  UpdateHail:  hails.Update(id, …)                    -- no collector
  gc():        if keepAlive < 0 return; take the ticket or return; (the ticket comes back after keepAlive)
               for every hail with arrive_time before now-keepAlive: hails.Delete(id, WithAllowMissing, WithExpectedValue)

`old v` abstracts "arrive_time of v lies further back than the keep-alive" (any predicate); `keys` the ids the
collection lists; `rearm` is the timer putting the ticket back. `gcOnUpdate` is the seeded variant C14-11.
-/
namespace ScVerif.C14

variable {K V Mask U : Type} [DecidableEq K]

/-- one collector run: a Delete (allow_missing) of every listed item that is old -/
def collect (C : KCfg V Mask U) (old : V → Bool) (keys : List K) (s : KSrv K V Mask) : KSrv K V Mask :=
  keys.foldl (fun s k =>
    match s.regs k with
    | some v => if old v then (kstep C s (.delete k true)).1 else s
    | none => s) s

structure GSrv (K V Mask : Type) where
  k : KSrv K V Mask
  ticket : Bool

inductive GReq (K Mask U : Type)
  | req (r : KReq K Mask U)
  | rearm

/-- does the request end with a (deferred) collector call? -/
def runsGc (gcOnUpdate : Bool) : KReq K Mask U → Bool
  | .create _ _ => true
  | .update _ _ _ => gcOnUpdate
  | _ => false

def gstep (C : KCfg V Mask U) (old : V → Bool) (keys : List K) (gcOnUpdate : Bool) (s : GSrv K V Mask) :
    GReq K Mask U → GSrv K V Mask × Resp V
  | .rearm => ({ s with ticket := true }, .done)
  | .req r =>
    let o := kstep C s.k r
    if runsGc gcOnUpdate r && s.ticket then ({ k := collect C old keys o.1, ticket := false }, o.2)
    else ({ s with k := o.1 }, o.2)

def grun (C : KCfg V Mask U) (old : V → Bool) (keys : List K) (b : Bool) : GSrv K V Mask → List (GReq K Mask U) → GSrv K V Mask
  | s, [] => s
  | s, r :: rs => grun C old keys b (gstep C old keys b s r).1 rs

/-- the request is not a Create and does not write `k` (rearm included) -/
def GReq.quiet (k : K) : GReq K Mask U → Bool
  | .rearm => true
  | .req (.create _ _) => false
  | .req r => !r.writes k

end ScVerif.C14
