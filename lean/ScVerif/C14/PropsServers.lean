import ScVerif.Generated.C14Facts
/-!
# C14 — table regenerated from the source tree on every run (K3): server constructors

`ScVerif/Generated/C14Facts.lean` is written by `harness/cmd/c14 -facts` from `/repo`'s current
sources before this file is built. Only DISCOVERY is syntactic (which constructors exist); how a
server method translates its request is not matched syntactically — that is established
behaviourally, per discovered triple, by the trace acceptor and its scenario families.
-/
namespace ScVerif.C14
open ScVerif.Generated.C14

/-- **C14_servers_all_driven.** Every server implementation over a resource present in the source
tree (a `New…` constructor of a `pkg/trait` package returning a struct that embeds a generated
`Unimplemented…ApiServer` and holds a resource or a model) is a row of the table of stacks the
acceptor drives: a new server cannot be added without being driven. -/
theorem C14_servers_all_driven : ∀ c, c ∈ discoveredServers → c ∈ drivenServers := by decide

/-- the table is not empty -/
example : discoveredServers.length ≥ 20 := by decide

end ScVerif.C14
