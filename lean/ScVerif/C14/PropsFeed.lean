import ScVerif.C14.Feed
/-!
# C14 — what one subscriber is handed, end to end (bus + one-slot buffers)

"each successful Update … appears on every open Pull stream whose reader keeps up", one layer below the register
model: a subscriber is OWED every event sent from its registration on, as long as its own context has not ended — a
definition that does not mention the bus's listener list. For EVERY interleaving of any number of `Listen`s,
cancellations, `Send`s, collects and the subscribers' own reads:

* what a subscriber has been handed (plus what is waiting for it) is a subsequence, in order, of what it is owed —
  nothing else ever reaches it;
* once it has taken what is waiting, the LAST event it was handed is the last event it is owed: whatever other
  subscriptions came and went, whenever the bus tidied up, and however far it fell behind, it ends on the register;
* a subscriber that is owed something has been offered it: its buffer is never found empty-handed.
-/
namespace ScVerif.C14

variable {E : Type}

/-- **C14_feed_subscriber_gets_subsequence_of_what_it_is_owed.** Any history on a fresh bus, any subscriber whose
subscription exists and whose context has not ended. -/
theorem C14_feed_subscriber_gets_subsequence_of_what_it_is_owed (sched : List (FStep E)) (i : Nat)
    (halive : (frun ({} : Feed E) sched).alive i = true) :
    ((frun ({} : Feed E) sched).slots i).out.Sublist ((frun ({} : Feed E) sched).owed i) :=
  (List.sublist_append_left _ _).trans ((frun_inv sched {} feed_init_inv).sub i halive)

/-- **C14_feed_subscriber_ends_on_latest.** Any history on a fresh bus: once a live subscriber has taken what is
waiting for it, the last event it was handed is the last event sent since it subscribed. -/
theorem C14_feed_subscriber_ends_on_latest (sched : List (FStep E)) (i : Nat)
    (halive : (frun ({} : Feed E) sched).alive i = true) (howed : (frun ({} : Feed E) sched).owed i ≠ []) :
    (slotStep ((frun ({} : Feed E) sched).slots i) .take).out.getLast? = ((frun ({} : Feed E) sched).owed i).getLast? := by
  have ht := (frun_inv sched {} feed_init_inv).tip i halive howed
  have h1 := slot_tip_take ((frun ({} : Feed E) sched).slots i)
  have h3 := slot_take_buf ((frun ({} : Feed E) sched).slots i)
  have h4 : (slotStep ((frun ({} : Feed E) sched).slots i) .take).tip
      = (slotStep ((frun ({} : Feed E) sched).slots i) .take).out.getLast? := by
    simp only [Slot.tip, h3]
  rw [← h4, h1, ht]

/-- **C14_feed_every_send_reaches_every_live_subscriber.** Any history, then one more `Send`: the event is waiting in
the buffer of EVERY subscriber whose subscription exists and whose context has not ended, and is the newest thing
each of them is owed. -/
theorem C14_feed_every_send_reaches_every_live_subscriber (sched : List (FStep E)) (e : E) (i : Nat)
    (halive : (frun ({} : Feed E) sched).alive i = true) :
    let s := fstep (frun ({} : Feed E) sched) (.deliver e)
    (s.slots i).buf = some e ∧ (s.owed i).getLast? = some e := by
  have hinv := frun_inv sched ({} : Feed E) feed_init_inv
  have hal := halive
  simp only [Feed.alive, Bool.and_eq_true, Bool.not_eq_true'] at hal
  have hm := hinv.bus i (by simpa using hal.1) hal.2
  have hc : (frun ({} : Feed E) sched).bus.listeners.contains i = true := by simpa using hm
  have hnd : i ∉ (frun ({} : Feed E) sched).bus.dead := by simpa using hal.2
  simp [fstep, hm, hnd, halive, slotStep]

/-- non-vacuity: subscriber 1 cancels, 2 subscribes while the bus has not tidied up yet, falls behind by two events
and ends on the latest -/
example : (slotStep ((frun ({} : Feed Nat) [.listen 1, .deliver 5, .cancel 1, .listen 2, .deliver 6, .collect, .deliver 7, .deliver 8]).slots 2) .take).out = [8] := by
  decide

end ScVerif.C14
