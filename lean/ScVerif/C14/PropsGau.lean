import ScVerif.C14.Gau
/-!
# C14 — the optimistic write (`resource.GetAndUpdate`) is one atomic register write, or nothing

The register model and the writers model take a successful Update as ONE step `apply cur u` on the value the register
holds at that moment, and a rejected one as no step at all. The code reads, computes without a lock, and re-validates
under the lock (`Gau.lean`). For EVERY write pipeline `change` and EVERY interleaving of any number of writers'
reads and commits:

* the register's value is that of the atomic register fed the stored requests in commit order, and every one of them
  succeeds there with exactly the value its writer was answered with;
* the register changes only in a commit answered OK, to exactly the answered value — a commit answered with any
  error (the pipeline's, or Aborted) leaves it as it was;
* a writer whose read was overtaken by a store of a different value is answered Aborted (the window family's forced
  schedule: the harness parks one Update between its read and its commit while a second one runs to completion).
-/
namespace ScVerif.C14

variable {V U : Type} [DecidableEq V]

/-- every request of `us` succeeds on the atomic register started at `c`, one after the other -/
def AllStore (change : V → U → Except Nat V) : V → List U → Prop
  | _, [] => True
  | c, u :: us => ∃ v, change c u = .ok v ∧ AllStore change v us

/-- **C14_gau_refines_atomic_register.** For every write pipeline, every state and every interleaving of reads and
commits: the requests whose commit stored a value all succeed on the ATOMIC register, applied one after the other in
commit order from the value the register had, and the register ends on exactly the value that produces. -/
theorem C14_gau_refines_atomic_register (change : V → U → Except Nat V) (sched : List (GStep U)) :
    ∀ s : GSt V U,
      AllStore change s.cur (gstored change s sched) ∧
      (grun change s sched).cur = (gstored change s sched).foldl (atomicApply change) s.cur := by
  induction sched with
  | nil => intro s; exact ⟨trivial, rfl⟩
  | cons x xs ih =>
    intro s
    cases x with
    | read w u =>
      have h := ih (gstep change s (.read w u))
      simpa [gstored, grun, gstep] using h
    | commit w =>
      have h := ih (gstep change s (.commit w))
      simp only [gstored, grun]
      cases ht : takeWriter w s.inflight with
      | none =>
        simp only [gstep, ht] at h ⊢
        exact h
      | some gr =>
        obtain ⟨g, rest⟩ := gr
        cases hc : change g.old g.u with
        | error c =>
          simp only [gstep, ht, hc] at h ⊢
          exact h
        | ok v =>
          by_cases heq : g.old = s.cur
          · have hcur : change s.cur g.u = .ok v := by rw [← heq]; exact hc
            simp only [gstep, ht, heq, hcur, if_true] at h ⊢
            refine ⟨⟨v, hcur, h.1⟩, ?_⟩
            rw [h.2]
            simp [List.foldl_cons, atomicApply, hcur]
          · simp only [gstep, ht, hc, heq, if_false] at h ⊢
            exact h

/-- **C14_gau_register_changes_only_with_ok.** One commit, any state: if the register's value is different afterwards,
the writer was answered OK with exactly the new value. So an Update answered with ANY error status — its pipeline's,
or Aborted — leaves Get unchanged. -/
theorem C14_gau_register_changes_only_with_ok (change : V → U → Except Nat V) (s : GSt V U) (w : Nat)
    (hne : (gstep change s (.commit w)).cur ≠ s.cur) :
    (gstep change s (.commit w)).log = s.log ++ [(w, .ok (gstep change s (.commit w)).cur)] := by
  simp only [gstep] at hne ⊢
  cases ht : takeWriter w s.inflight with
  | none => simp [ht] at hne
  | some gr =>
    obtain ⟨g, rest⟩ := gr
    cases hc : change g.old g.u with
    | error c => simp [ht, hc] at hne
    | ok v =>
      by_cases heq : g.old = s.cur
      · have hcur : change s.cur g.u = .ok v := by rw [← heq]; exact hc
        simp [heq, hcur]
      · simp [ht, hc, heq] at hne

/-- **C14_gau_reads_change_nothing.** A writer's read (and its lock-free computation) leaves the register and the
answers as they were. -/
theorem C14_gau_reads_change_nothing (change : V → U → Except Nat V) (s : GSt V U) (w : Nat) (u : U) :
    (gstep change s (.read w u)).cur = s.cur ∧ (gstep change s (.read w u)).log = s.log := ⟨rfl, rfl⟩

/-- **C14_gau_overtaken_writer_aborts.** A writer that read `old`, whose pipeline accepts the request, and that
commits when the register holds a different value is answered Aborted; nothing else changes. -/
theorem C14_gau_overtaken_writer_aborts (change : V → U → Except Nat V) (s : GSt V U) (w : Nat)
    (g : GWriter V U) (rest : List (GWriter V U)) (v : V)
    (ht : takeWriter w s.inflight = some (g, rest)) (hc : change g.old g.u = .ok v) (hne : g.old ≠ s.cur) :
    gstep change s (.commit w) = { s with inflight := rest, log := s.log ++ [(w, .error aborted)] } := by
  simp [gstep, ht, hc, hne]

/-- **C14_gau_window_schedule.** The schedule the window sessions force (A reads, B reads and commits, A commits) on a
quiet register, for every pipeline and pair of requests both acceptable on the value read: B is stored and answered
with its value; A is answered Aborted and the register stays on B's value when B changed the value — and is stored
on top of it, with the value computed from what it read, when B did not. -/
theorem C14_gau_window_schedule (change : V → U → Except Nat V) (c vA vB : V) (uA uB : U)
    (hA : change c uA = .ok vA) (hB : change c uB = .ok vB) :
    let s := grun change ({ cur := c } : GSt V U) [.read 1 uA, .read 2 uB, .commit 2, .commit 1]
    (vB ≠ c → s.cur = vB ∧ s.log = [(2, .ok vB), (1, .error aborted)]) ∧
    (vB = c → s.cur = vA ∧ s.log = [(2, .ok vB), (1, .ok vA)]) := by
  constructor
  · intro hne
    have hne' : ¬ c = vB := fun h => hne h.symm
    simp [grun, gstep, takeWriter, hA, hB, hne']
  · intro heq
    subst heq
    simp [grun, gstep, takeWriter, hA, hB]

/-- non-vacuity: increments on a counter; the overtaken writer is rejected and the register keeps the other's value -/
example : (grun (fun (c u : Nat) => (.ok (c + u) : Except Nat Nat)) ({ cur := 5 } : GSt Nat Nat)
    [.read 1 10, .read 2 20, .commit 2, .commit 1]).cur = 25 := by decide

/-- … and without overlap both are stored -/
example : (grun (fun (c u : Nat) => (.ok (c + u) : Except Nat Nat)) ({ cur := 5 } : GSt Nat Nat)
    [.read 2 20, .commit 2, .read 1 10, .commit 1]).cur = 35 := by decide

end ScVerif.C14
