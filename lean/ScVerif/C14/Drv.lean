import ScVerif.Base.Line
/-! Driver handler for C14 (stub: replaced by the property's owner). -/
namespace ScVerif.C14

def handle (_toks : List String) : String := "!bad-op"

end ScVerif.C14
