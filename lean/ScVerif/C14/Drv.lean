import ScVerif.Base.Line
import ScVerif.C14.Acceptor
import ScVerif.C14.CompositeDrv
import ScVerif.C14.GauDrv
import ScVerif.C14.SpellDrv
/-! Driver handler for C14 (stateful): one observation per line, answers the acceptor's verdict. -/
namespace ScVerif.C14
open ScVerif.Line

def parseObs? (toks : List String) : Option Obs :=
  match toks with
  | ["fact", m, v, p] => do pure (.fact (← parseNat? m) (← parseNat? v) (← parseNat? p))
  | ["get", m, w] => do pure (.get 0 (← parseNat? m) (← parseNat? w))
  | ["updok", v] => do pure (.updok 0 (← parseNat? v))
  | ["kget", k, m, w] => do pure (.get (← parseNat? k) (← parseNat? m) (← parseNat? w))
  | ["kgetnf", k] => do pure (.getnf (← parseNat? k))
  | ["kupdok", k, v] => do pure (.updok (← parseNat? k) (← parseNat? v))
  | ["kdelete", k] => do pure (.delete (← parseNat? k))
  | ["kopen", k, m, uo] => do pure (.open_ (← parseNat? k) (← parseNat? m) (← parseBool? uo))
  | ["upderr"] => some .upderr
  | ["updlate", v] => do pure (.updlate 0 (← parseNat? v))
  | ["kupdlate", k, v] => do pure (.updlate (← parseNat? k) (← parseNat? v))
  | ["updokbg", v, t] => do pure (.updokbg 0 (← parseNat? v) (← parseNat? t))
  | ["quiesce"] => some .quiesce
  | ["open", m, uo] => do pure (.open_ 0 (← parseNat? m) (← parseBool? uo))
  | ["recv", i, w, n] => do pure (.recv (← parseNat? i) (← parseNat? w) (← parseBool? n))
  | ["idle", i] => do pure (.idle (← parseNat? i))
  | ["close", i] => do pure (.close (← parseNat? i))
  | ["stall", i] => do pure (.stall (← parseNat? i))
  | ["estab", i] => do pure (.estab (← parseNat? i))
  | ["resume", i] => do pure (.resume (← parseNat? i))
  | ["getpanic"] => some (.bad "Get/panic")
  | ["geterr"] => some (.bad "Get/error")
  | ["getunimpl"] => some (.bad "Get/unimplemented")
  | ["kbad", cls] => some (.bad cls)
  | ["updpanic"] => some (.bad "Update/panic")
  | ["openerr"] => some (.bad "Pull/open-failed")
  | ["ended", i] => do pure (.ended (← parseNat? i))
  | _ => none

def showVerdict : Verdict → String
  | .ok => "ok"
  | .reject c => "reject:" ++ c
  | .missingFact => "!missing-fact"

def handle (a : Acc) (toks : List String) : Acc × String :=
  match toks with
  | ["reset"] => (Acc.init, "ok")
  | _ =>
    match parseObs? toks with
    | none => (a, "!bad-op")
    | some o =>
      let (a', v) := accept a o
      (a', showVerdict v)

/-- the driver's state: the register acceptor and the composed-register simulator (ops `c…`, CompositeDrv.lean) -/
structure DrvState where
  acc : Acc := Acc.init
  sim : CSim := {}

def handleAll (s : DrvState) (toks : List String) : DrvState × String :=
  match gauHandle toks with
  | some out => (s, out)
  | none =>
  match spellHandle toks with
  | some out => (s, out)
  | none =>
  match chandle s.sim toks with
  | some (c, out) => ({ s with sim := c }, out)
  | none =>
    let (a, out) := handle s.acc toks
    ({ s with acc := a }, out)

end ScVerif.C14
