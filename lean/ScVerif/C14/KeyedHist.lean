import ScVerif.C14.Keyed
/-!
C14 — the whole history of one stream of a keyed family: what a single-item Pull stream has carried after ANY session
is the fold of the events of its own item (successful Updates / Creates: `push`; a Delete: the end) over the stream as
it was opened. `kevents` lists those events along the session, from the responses the server gave.
-/
namespace ScVerif.C14

variable {K V Mask U : Type} [DecidableEq K]

/-- the event a request publishes for item `k` in state `s`: `some (some v)` a new value, `some none` REMOVE -/
def kevent (C : KCfg V Mask U) (k : K) (s : KSrv K V Mask) (r : KReq K Mask U) : Option (Option V) :=
  match r with
  | .update k' _ _ | .create k' _ =>
    if k' = k then
      match (kstep C s r).2 with
      | .val v => some (some v)
      | _ => none
    else none
  | .delete k' _ =>
    if k' = k then
      match s.regs k with
      | some _ => some none
      | none => none
    else none
  | _ => none

def kevents (C : KCfg V Mask U) (k : K) : KSrv K V Mask → List (KReq K Mask U) → List (Option V)
  | _, [] => []
  | s, r :: rs => (kevent C k s r).toList ++ kevents C k (kstep C s r).1 rs

/-- one event reaches one stream of the item -/
def applyEv (C : KCfg V Mask U) (st : Stream V Mask) : Option V → Stream V Mask
  | some v => push C.toCfg v st
  | none => { st with live := false }

def KReq.cancels (i : Nat) : KReq K Mask U → Bool
  | .cancel j => decide (j = i)
  | _ => false

theorem kstep_stream (C : KCfg V Mask U) (s : KSrv K V Mask) (r : KReq K Mask U) (i : Nat) (st : KStream K V Mask)
    (hi : s.streams[i]? = some st) (hc : r.cancels i = false) :
    (kstep C s r).1.streams[i]? =
      some { key := st.key, s := (kevent C st.key s r).toList.foldl (applyEv C) st.s } := by
  have hlt : i < s.streams.length := by
    rcases Nat.lt_or_ge i s.streams.length with h | h
    · exact h
    · rw [List.getElem?_eq_none h] at hi; cases hi
  cases r with
  | get k' n m =>
    cases h : s.regs k' <;> simp [kstep, kevent, h, hi]
  | update k' n u =>
    cases h : s.regs k' with
    | none =>
      by_cases hk : k' = st.key
      · subst hk; simp [kstep, kevent, h, hi]
      · simp [kstep, kevent, h, hi, hk]
    | some cur =>
      cases ha : C.apply cur u with
      | error c =>
        by_cases hk : k' = st.key
        · subst hk; simp [kstep, kevent, h, ha, hi]
        · simp [kstep, kevent, h, ha, hi, hk]
      | ok v =>
        by_cases hk : k' = st.key
        · subst hk; simp [kstep, kevent, h, ha, hi, kpush, applyEv]
        · have hk' : st.key ≠ k' := fun e => hk e.symm
          simp [kstep, kevent, h, ha, hi, kpush, hk, hk']
  | create k' u =>
    cases h : s.regs k' with
    | some cur =>
      by_cases hk : k' = st.key
      · subst hk; simp [kstep, kevent, h, hi]
      · simp [kstep, kevent, h, hi, hk]
    | none =>
      cases ha : C.init u with
      | error c =>
        by_cases hk : k' = st.key
        · subst hk; simp [kstep, kevent, h, ha, hi]
        · simp [kstep, kevent, h, ha, hi, hk]
      | ok v =>
        by_cases hk : k' = st.key
        · subst hk; simp [kstep, kevent, h, ha, hi, kpush, applyEv]
        · have hk' : st.key ≠ k' := fun e => hk e.symm
          simp [kstep, kevent, h, ha, hi, kpush, hk, hk']
  | delete k' am =>
    cases h : s.regs k' with
    | none =>
      by_cases hk : k' = st.key
      · subst hk; simp [kstep, kevent, h, hi]
      · simp [kstep, kevent, h, hi, hk]
    | some cur =>
      by_cases hk : k' = st.key
      · subst hk; simp [kstep, kevent, h, hi, kend, applyEv]
      · have hk' : st.key ≠ k' := fun e => hk e.symm
        simp [kstep, kevent, h, hi, kend, hk, hk']
  | pull k' n m uo =>
    simp [kstep, kevent, List.getElem?_append_left hlt, hi]
  | cancel j =>
    have hj : j ≠ i := by simpa [KReq.cancels] using hc
    have hj' : i ≠ j := fun e => hj e.symm
    simp [kstep, kevent, hi, hj']

/-- the stream's whole history -/
theorem krun_stream (C : KCfg V Mask U) (rs : List (KReq K Mask U)) :
    ∀ (s : KSrv K V Mask) (i : Nat) (st : KStream K V Mask), s.streams[i]? = some st →
      (∀ r, r ∈ rs → r.cancels i = false) →
      (krun C s rs).streams[i]? = some { key := st.key, s := (kevents C st.key s rs).foldl (applyEv C) st.s } := by
  induction rs with
  | nil => intro s i st hi _; simpa [krun, kevents] using hi
  | cons r rs ih =>
    intro s i st hi hc
    have h1 := kstep_stream C s r i st hi (hc r List.mem_cons_self)
    have h2 := ih (kstep C s r).1 i _ h1 (fun x hx => hc x (List.mem_cons_of_mem _ hx))
    simp only [krun, kevents, List.foldl_append]
    exact h2

end ScVerif.C14
