import ScVerif.C14.Masks
import ScVerif.C14.CompositeLemmas
/-!
# C14 — update masks of the composed register (masks.RemovePrefix + masked item merge)

`UpdatePositions` hands the request's update mask to every item write after `masks.RemovePrefix("states", …)`.
The theorems state what that translation is for EVERY mask (as repaired by 1cf4513: before, a mask below
`states` was always rejected and the mask `[states]` meant "write nothing"), and what a masked Update
therefore does to the collection, for every composition, projection, preset table, validity predicate and
equivalence.
-/
namespace ScVerif.C14

/-- **C14_strip_one_cases.** What one path of the request mask contributes: the list's name alone and `name.*`
select whole items (nothing is contributed); `name.f…` contributes `f…`; `name.*.f…` contributes `f…`; a path
outside the list contributes nothing. -/
theorem C14_strip_one_cases (pfx : String) :
    stripOne pfx [pfx] = none ∧ stripOne pfx [pfx, "*"] = none ∧
    (∀ f r, f ≠ "*" → stripOne pfx (pfx :: f :: r) = some (f :: r)) ∧
    (∀ f r, stripOne pfx (pfx :: "*" :: f :: r) = some (f :: r)) ∧
    (∀ s r, s ≠ pfx → stripOne pfx (s :: r) = none) := by
  refine ⟨by simp [stripOne], by simp [stripOne], ?_, ?_, ?_⟩
  · intro f r hf
    cases r with
    | nil =>
      simp only [stripOne, ne_eq, not_true_eq_false, if_false]
      split
      · rename_i h; cases h
      · rename_i h; simp at h; exact absurd h hf
      · rename_i h; simp at h; exact absurd h.1 hf
      · rfl
    | cons a r =>
      simp only [stripOne, ne_eq, not_true_eq_false, if_false]
      split
      · rename_i h; cases h
      · rename_i h; simp at h
      · rename_i h; simp at h; exact absurd h.1 hf
      · rfl
  · intro f r
    simp [stripOne]
  · intro s r hs
    cases r <;> simp [stripOne, hs]

/-- **C14_remove_prefix_result.** For every mask: the result is "no mask" exactly when the request had no mask or
no path contributes (then the items are written whole); otherwise it consists exactly of the contributions of the
request's paths, in order. It is never an empty non-nil mask (which `FieldUpdater.Merge` reads as "no changes"). -/
theorem C14_remove_prefix_result (pfx : String) (m : Option (List Path)) :
    removePrefix pfx m ≠ some [] ∧
    (removePrefix pfx m = none ↔ m = none ∨ ∃ ps, m = some ps ∧ ∀ p, p ∈ ps → stripOne pfx p = none) ∧
    (∀ ps out, m = some ps → removePrefix pfx m = some out → out = ps.filterMap (stripOne pfx) ∧
      ∀ q, q ∈ out ↔ ∃ p, p ∈ ps ∧ stripOne pfx p = some q) := by
  cases m with
  | none =>
    refine ⟨by simp [removePrefix], by simp [removePrefix], ?_⟩
    intro ps out h; cases h
  | some ps =>
    refine ⟨?_, ?_, ?_⟩
    · simp only [removePrefix]
      split
      · simp
      · rename_i h
        intro he
        have he' := Option.some.inj he
        simp [he'] at h
    · simp only [removePrefix]
      constructor
      · intro h
        right
        refine ⟨ps, rfl, ?_⟩
        split at h
        · rename_i he
          intro p hp
          have : ps.filterMap (stripOne pfx) = [] := by simpa using he
          rw [List.filterMap_eq_nil_iff] at this
          exact this p hp
        · cases h
      · rintro (h | ⟨ps', h, hall⟩)
        · cases h
        · cases h
          have : ps.filterMap (stripOne pfx) = [] := List.filterMap_eq_nil_iff.mpr hall
          simp [this]
    · intro ps' out h hr
      cases h
      simp only [removePrefix] at hr
      split at hr
      · cases hr
      · cases hr
        refine ⟨rfl, ?_⟩
        intro q
        simp [List.mem_filterMap]

/-- **C14_update_mask_frame.** The item an Update writes, for every request mask: fields the stripped mask names
come from the written item, every other field keeps the stored item's value; without item fields in the mask
(no mask, the list's name, `name.*`, only other fields of the resource) the item IS the written one. -/
theorem C14_update_mask_frame {X : Type} (pfx : String) (reqMask : Option (List Path))
    (old : Option (String → Option X)) (x : String → Option X) :
    (maskFields (removePrefix pfx reqMask) = none → itemMerge pfx reqMask old x = x) ∧
    (∀ l, maskFields (removePrefix pfx reqMask) = some l → ∀ g,
      (g ∈ l → itemMerge pfx reqMask old x g = x g) ∧ (g ∉ l → itemMerge pfx reqMask old x g = old.bind (· g))) := by
  constructor
  · intro h
    simp [itemMerge, maskedMerge, h]
  · intro l h g
    simp only [itemMerge, maskedMerge, h]
    constructor
    · intro hg; simp [hg]
    · intro hg; simp [hg]

/-- **C14_update_mask_single_field.** The request mask `[name.f]` (f not the wildcard) writes field `f` of the item
and nothing else; the masks `none` and `[name]` write the whole item. -/
theorem C14_update_mask_single_field {X : Type} (pfx f : String) (hf : f ≠ "*")
    (old : Option (String → Option X)) (x : String → Option X) :
    (∀ g, itemMerge pfx (some [[pfx, f]]) old x g = if g = f then x f else old.bind (· g)) ∧
    itemMerge pfx none old x = x ∧ itemMerge pfx (some [[pfx]]) old x = x := by
  have h1 := (C14_strip_one_cases pfx).2.2.1 f [] hf
  refine ⟨?_, by simp [itemMerge, removePrefix, maskFields, maskedMerge], ?_⟩
  · intro g
    simp only [itemMerge, removePrefix, List.filterMap_cons, h1, List.filterMap_nil, List.isEmpty_cons,
      Bool.false_eq_true, if_false, maskFields, maskedMerge, List.mem_singleton]
    by_cases hg : g = f
    · simp [hg]
    · simp [hg]
  · have h2 := (C14_strip_one_cases pfx).1
    simp [itemMerge, removePrefix, h2, maskFields, maskedMerge]

/-! ### Through the composed register -/

variable {K V Mask U X : Type} [DecidableEq K]

/-- the composed register whose item writes merge through the translated request mask -/
def maskedCfg (pfx : String) (compose : (K → Option (String → Option X)) → V) (proj : Mask → V → V)
    (resolve : U → Except Nat (List (K × (String → Option X)))) (valid : Option (List Path) → Bool)
    (eqv : Option V → V → Bool) :
    CCfg K (String → Option X) (K × (String → Option X)) (Option (List Path)) U V Mask where
  compose := compose
  proj := proj
  resolve := resolve
  keyOf := fun s => s.1
  valid := valid
  merge := fun um old s => itemMerge pfx um old s.2
  eqv := eqv

/-- **C14_composite_masked_update.** Through UpdatePositions: a successful Update of ONE item `(k, x)` with
request mask `[name.f]` leaves every other item alone and changes, in item `k`, field `f` only (taken from the
payload); the response is the composition of exactly that collection — so the next Get shows the payload's `f`
and the stored values of every other field. For every composition, projection, preset table, validity, equivalence
and state. -/
theorem C14_composite_masked_update (pfx f : String) (hf : f ≠ "*")
    (compose : (K → Option (String → Option X)) → V) (proj : Mask → V → V)
    (resolve : U → Except Nat (List (K × (String → Option X)))) (valid : Option (List Path) → Bool)
    (eqv : Option V → V → Bool) (b : Bool)
    (s : CSrv K (String → Option X) V Mask) (name : String) (u : U) (k : K) (x : String → Option X) (v : V)
    (hx : resolve u = .ok [(k, x)]) :
    let C := maskedCfg pfx compose proj resolve valid eqv
    (cstep C b s (.update name u (some [[pfx, f]]))).2 = .val v →
    let s' := (cstep C b s (.update name u (some [[pfx, f]]))).1
    v = compose s'.items ∧
    (∀ k', k' ≠ k → s'.items k' = s.items k') ∧
    ∃ it, s'.items k = some it ∧ ∀ g, it g = if g = f then x f else (s.items k).bind (· g) := by
  intro C h s'
  have hstep : ∀ s1, writeItem C (some [[pfx, f]]) s (k, x) = .ok s1 →
      cstep C b s (.update name u (some [[pfx, f]])) = (s1, .val (compose s1.items)) := by
    intro s1 hw
    simp only [cstep]
    have : C.resolve u = .ok [(k, x)] := hx
    rw [this]
    simp only [writeAll, hw]
    rfl
  cases hw : writeItem C (some [[pfx, f]]) s (k, x) with
  | error c =>
    have : (cstep C b s (.update name u (some [[pfx, f]]))).2 = .err c := by
      simp only [cstep]
      have : C.resolve u = .ok [(k, x)] := hx
      rw [this]
      simp only [writeAll, hw]
    rw [this] at h
    cases h
  | ok s1 =>
    have hs := hstep s1 hw
    obtain ⟨_, hitems, _⟩ := writeItem_ok C _ s s1 (k, x) hw
    have hs' : s' = s1 := by simp only [s', hs]
    rw [hs] at h
    refine ⟨by rw [hs']; cases h; rfl, ?_, ?_⟩
    · intro k' hk
      rw [hs', hitems]
      simp [setItem, hk, C, maskedCfg]
    · refine ⟨itemMerge pfx (some [[pfx, f]]) (s.items k) x, ?_, ?_⟩
      · rw [hs', hitems]
        simp [setItem, C, maskedCfg]
      · exact (C14_update_mask_single_field pfx f hf (s.items k) x).1

/-! ### Non-vacuity -/

example : removePrefix "states" (some [["states", "open_percent"], ["preset"], ["states", "*", "direction"], ["states"]])
    = some [["open_percent"], ["direction"]] := by decide

example : removePrefix "states" (some [["states"], ["preset", "name"]]) = none := by decide

example : itemMerge "states" (some [["states", "a"]]) (some fun g => if g = "b" then some 1 else none)
    (fun g => if g = "a" then some 2 else if g = "b" then some 3 else none) "b" = some 1 := by decide

end ScVerif.C14
