import ScVerif.C14.Lemmas
import ScVerif.C14.Acceptor
import ScVerif.C14.AcceptLemmas
import ScVerif.C14.Tween
/-!
# C14 — trait servers give read-your-writes through the full stack

Theorems about the generic register server (Server.lean) for EVERY write pipeline `apply` (any
interceptors, masks, business rules), every equivalence `eqv`, every projection `proj`, every
request history.  The harness ties the model to every discovered Get/Update/Pull triple by running
it as a trace acceptor (Acceptor.lean) on the real stack.
-/
namespace ScVerif.C14

variable {V Mask U : Type}

/-- **C14_update_then_get.** If an Update succeeds with response `v`, then after any number of
requests that are not Updates (Gets with any mask, new Pulls, cancellations, for any names) an
unmasked Get returns exactly `v`. -/
theorem C14_update_then_get (C : Cfg V Mask U) (s : Srv V Mask) (name : String) (u : U) (v : V)
    (h : (step C s (.update name u)).2 = .val v)
    (rs : List (Req Mask U)) (hrs : ∀ r, r ∈ rs → r.isUpdate = false) (name' : String) :
    (step C (run C (step C s (.update name u)).1 rs) (.get name' none)).2 = .val v := by
  have hc : (step C s (.update name u)).1.cur = v := by
    simp only [step] at h ⊢
    cases ha : C.apply s.cur u with
    | error c => simp [ha] at h
    | ok w => simp [ha] at h ⊢; exact h
  show Resp.val (view C none (run C (step C s (.update name u)).1 rs).cur) = Resp.val v
  rw [run_nonupdate_cur C rs _ hrs, hc]
  rfl

/-- **C14_masked_get.** A Get with a read mask is the projection of the unmasked Get in the same state. -/
theorem C14_masked_get (C : Cfg V Mask U) (s : Srv V Mask) (n n' : String) (m : Mask) (v : V)
    (h : (step C s (.get n none)).2 = .val v) :
    (step C s (.get n' (some m))).2 = .val (C.proj m v) ∧ (step C s (.get n' (some m))).1 = s := by
  simp only [step, view] at h ⊢
  cases h
  simp

/-- **C14_pull_seed.** A new Pull is registered as the last stream; it starts with exactly one
message — the (projected) current value under the request's name — unless updates_only, in which
case it starts empty. Existing streams and the register are untouched. -/
theorem C14_pull_seed (C : Cfg V Mask U) (s : Srv V Mask) (name : String) (m : Option Mask) (uo : Bool) :
    let s' := (step C s (.pull name m uo)).1
    s'.cur = s.cur ∧ s'.streams.take s.streams.length = s.streams ∧
    ∃ st, s'.streams[s.streams.length]? = some st ∧ st.name = name ∧ st.mask = m ∧ st.live = true ∧
      st.out = (if uo then [] else [(view C m s.cur, name)]) := by
  intro s'
  refine ⟨rfl, by simp [s', step], openStream C s.cur name m uo, by simp [s', step], rfl, rfl, rfl, ?_⟩
  simp [openStream]

/-- **C14_update_on_streams.** A successful Update with response `v` reaches every stream: a live
stream whose configured equivalence does not identify its last message with the (projected) `v`
gets exactly one new message, `(view mask v, name given in its Pull request)`, appended after
everything sent before; every other stream's sent list is unchanged; no other message is ever
added. Stream identities (index, name, mask) never change. -/
theorem C14_update_on_streams (C : Cfg V Mask U) (s : Srv V Mask) (name : String) (u : U) (v : V)
    (h : (step C s (.update name u)).2 = .val v) (i : Nat) (st : Stream V Mask) (hi : s.streams[i]? = some st) :
    ∃ st', (step C s (.update name u)).1.streams[i]? = some st' ∧
      st'.name = st.name ∧ st'.mask = st.mask ∧ st'.live = st.live ∧
      (st.live = true → C.eqv st.last (view C st.mask v) = false → st'.out = st.out ++ [(view C st.mask v, st.name)]) ∧
      (st'.out = st.out ∨ st'.out = st.out ++ [(view C st.mask v, st.name)]) := by
  simp only [step] at h ⊢
  cases ha : C.apply s.cur u with
  | error c => simp [ha] at h
  | ok w =>
    simp [ha] at h
    subst h
    refine ⟨push C w st, by simp [hi], (push_static C w st).1, (push_static C w st).2.1, (push_static C w st).2.2.1, ?_, push_out C w st⟩
    intro hl he
    simp [push, hl, he]

/-- **C14_rejected_frame.** An Update answered with an error status changes nothing: the register,
every stream's sent list, hence every later Get and every stream's future. -/
theorem C14_rejected_frame (C : Cfg V Mask U) (s : Srv V Mask) (name : String) (u : U) (c : Nat)
    (h : (step C s (.update name u)).2 = .err c) :
    (step C s (.update name u)).1 = s ∧
    ∀ n m, (step C (step C s (.update name u)).1 (.get n m)).2 = (step C s (.get n m)).2 := by
  have hs : (step C s (.update name u)).1 = s := by
    simp only [step] at h ⊢
    cases ha : C.apply s.cur u with
    | error c' => rfl
    | ok w => simp [ha] at h
  exact ⟨hs, fun n m => by rw [hs]⟩

/-- **C14_get_is_last_response.** History form of read-your-writes: in every reachable state the
register holds the initial value or the response of a successful Update of the history, and a Get
never changes the state. -/
theorem C14_get_is_last_response (C : Cfg V Mask U) (init : V) (rs : List (Req Mask U)) :
    Explained C init rs (run C ⟨init, []⟩ rs).cur ∨ (run C ⟨init, []⟩ rs).cur = init := by
  suffices h : ∀ (pre : List (Req Mask U)) (post : List (Req Mask U)),
      Explained C init (pre ++ post) (run C (run C ⟨init, []⟩ pre) post).cur ∨
        (run C (run C ⟨init, []⟩ pre) post).cur = (run C ⟨init, []⟩ pre).cur by
    have := h [] rs
    simpa [run] using this
  intro pre post
  induction post generalizing pre with
  | nil => exact Or.inr rfl
  | cons r post ih =>
    have hrun : ∀ (a : List (Req Mask U)) (b : List (Req Mask U)) (s : Srv V Mask), run C s (a ++ b) = run C (run C s a) b := by
      intro a
      induction a with
      | nil => intro b s; rfl
      | cons x a iha => intro b s; exact iha b _
    have key := ih (pre ++ [r])
    have e1 : run C ⟨init, []⟩ (pre ++ [r]) = (step C (run C ⟨init, []⟩ pre) r).1 := by
      rw [hrun]; rfl
    rw [e1] at key
    have e2 : pre ++ [r] ++ post = pre ++ r :: post := by simp
    rw [e2] at key
    simp only [run]
    rcases key with key | key
    · exact Or.inl key
    · rw [key]
      cases r with
      | update name u =>
        simp only [step]
        cases ha : C.apply (run C ⟨init, []⟩ pre).cur u with
        | error c => exact Or.inr rfl
        | ok w => exact Or.inl (Explained.resp pre name u w post ha)
      | get n m => exact Or.inr rfl
      | pull n m uo => exact Or.inr rfl
      | cancel i => exact Or.inr rfl

/-- **C14_stream_messages_accounted.** History form of "one coherent register" for streams: after ANY
request history, every message on every stream either was already on that stream (same name, same
mask) before the history, or carries the stream's own request name and is the stream's projection of
a value the register actually held during the history (`vals`: the value before, and the value after
each request — by `C14_get_is_last_response` the initial value or an Update response). Nothing else
ever appears on a stream. -/
theorem C14_stream_messages_accounted (C : Cfg V Mask U) (rs : List (Req Mask U)) :
    ∀ (s : Srv V Mask) (st' : Stream V Mask), st' ∈ (run C s rs).streams → ∀ x, x ∈ st'.out →
      (∃ st, st ∈ s.streams ∧ st.name = st'.name ∧ st.mask = st'.mask ∧ x ∈ st.out) ∨
      (x.2 = st'.name ∧ ∃ v, v ∈ vals C s rs ∧ x.1 = view C st'.mask v) := by
  induction rs with
  | nil => intro s st' hst x hx; exact Or.inl ⟨st', hst, rfl, rfl, hx⟩
  | cons r rs ih =>
    intro s st' hst x hx
    rcases ih (step C s r).1 st' hst x hx with ⟨st1, h1, hn, hm, hx1⟩ | ⟨hn, v, hv, hxv⟩
    · rcases step_streams C s r st1 h1 x hx1 with ⟨st, h0, hn0, hm0, hx0⟩ | ⟨hn1, hval⟩
      · exact Or.inl ⟨st, h0, hn0.trans hn, hm0.trans hm, hx0⟩
      · refine Or.inr ⟨hn1.trans hn, ?_⟩
        rcases hval with hval | hval
        · exact ⟨(step C s r).1.cur, by simp [vals, cur_mem_vals], by rw [hval, hm]⟩
        · exact ⟨s.cur, by simp [vals], by rw [hval, hm]⟩
    · exact Or.inr ⟨hn, v, by simp [vals, hv], hxv⟩

/-! ### Non-vacuity -/

/-- a concrete server: values are numbers, `apply` adds and rejects 0, masks take remainders, equality as equivalence -/
def exCfg : Cfg Nat Nat Nat where
  proj := fun m v => v % m
  apply := fun cur u => if u = 0 then .error 3 else .ok (cur + u)
  eqv := fun l w => l == some w

example :
    let s := run exCfg ⟨10, []⟩ [.pull "a" none false, .pull "b" (some 4) true, .update "x" 5, .update "x" 0, .update "x" 4]
    s.cur = 19 ∧ (s.streams.map (·.out)) = [[(10, "a"), (15, "a"), (19, "a")], [(3, "b")]] := by decide

/-! ### The acceptor accepts what the model does

The tie runs the model as an acceptor (Acceptor.lean): per stream it keeps a queue of expected
messages. The theorem below is the per-stream simulation step that makes a rejection meaningful: for
values and masks given as identifiers, whenever the model's `push` handles an Update response `v` on a
live stream — whether its equivalence suppresses the message or not — the acceptor's queue functions
(`qPush`, then `qRecv` for the message sent, `qIdle` when the reader finds nothing more) answer `ok`,
and the simulation invariant is re-established. Hypotheses (both hold for the servers in `/repo` on
the harness's inputs, see props/C14.json): the equivalence suppresses only repeated values, and the
projection is idempotent. -/

/-- **C14_acceptor_accepts_model_stream.** -/
theorem C14_acceptor_accepts_model_stream (C : Cfg Nat Nat U)
    (heqv : ∀ l x, C.eqv l x = true → l = some x)
    (hidem : ∀ m x, C.proj m (C.proj m x) = C.proj m x)
    (st : Stream Nat Nat) (hlive : st.live = true) (q : List Entry) (prev v : Nat) (est : Bool)
    -- simulation invariant before the Update: what was last sent projects like the register, and the
    -- queue holds only suppressed (optional) expectations of the register's current projection
    (hI : ∀ w, st.last = some w → view C st.mask w = view C st.mask prev)
    (hq : AllOpt q (view C st.mask prev)) :
    let x := view C st.mask v
    let q1 := qPush q x (view C st.mask prev) est
    -- the model suppresses the message: the reader finds the stream idle, accepted
    (C.eqv st.last x = true →
        (push C v st).out = st.out ∧ qIdle q1 = .ok ∧ AllOpt q1 x ∧
        ∀ w, (push C v st).last = some w → view C st.mask w = view C st.mask v) ∧
    -- the model sends `x` under the stream's name: the message and the following idle are accepted
    (C.eqv st.last x = false →
        (push C v st).out = st.out ++ [(x, st.name)] ∧ (qRecv q1 x true).2 = .ok ∧
        qIdle (qRecv q1 x true).1 = .ok ∧ AllOpt (qRecv q1 x true).1 x ∧
        ∀ w, (push C v st).last = some w → view C st.mask w = view C st.mask v) := by
  intro x q1
  have hxx : view C st.mask x = view C st.mask v := view_idem C hidem st.mask v
  constructor
  · intro he
    have hl : st.last = some x := heqv _ _ he
    have hxp : x = view C st.mask prev := by
      have := hI x hl
      rw [hxx] at this
      exact this
    have hq1 : AllOpt q1 x := by
      intro e hm
      rcases List.mem_append.mp hm with hm | hm
      · have := hq e hm
        exact ⟨this.1, by rw [this.2, hxp]⟩
      · simp at hm
        subst hm
        exact ⟨by simp [hxp], rfl⟩
    refine ⟨by simp [push, hlive, x, he], qIdle_allOpt q1 x hq1, hq1, ?_⟩
    intro w hw
    have : (push C v st).last = st.last := by simp [push, hlive, x, he]
    rw [this, hl] at hw
    cases hw
    exact hxx
  · intro he
    have hout : (push C v st).out = st.out ++ [(x, st.name)] := by simp [push, hlive, x, he]
    have hlast : (push C v st).last = some x := by simp [push, hlive, x, he]
    have hfin : ∀ w, (push C v st).last = some w → view C st.mask w = view C st.mask v := by
      intro w hw
      rw [hlast] at hw
      cases hw
      exact hxx
    by_cases hxp : x = view C st.mask prev
    · -- unchanged projection: the new entry is optional like the old ones, the head matches
      have hq1 : AllOpt q1 x := by
        intro e hm
        rcases List.mem_append.mp hm with hm | hm
        · have := hq e hm
          exact ⟨this.1, by rw [this.2, hxp]⟩
        · simp at hm
          subst hm
          exact ⟨by simp [hxp], rfl⟩
      have hskip : skipOptional x q1 = q1 := skipOptional_same x q1 hq1
      have hne : q1 ≠ [] := by simp [q1, qPush]
      cases hq1l : q1 with
      | nil => exact absurd hq1l hne
      | cons e rest =>
        have hev : e.val = x := (hq1 e (by rw [hq1l]; exact List.mem_cons_self)).2
        have hrest : AllOpt rest x := fun e' he' => hq1 e' (by rw [hq1l]; exact List.mem_cons_of_mem _ he')
        have hr : qRecv (e :: rest) x true = (rest, .ok) := by
          rw [hq1l] at hskip
          simp [qRecv, hskip, hev]
        refine ⟨hout, by rw [hr], by rw [hr]; exact qIdle_allOpt rest x hrest, by rw [hr]; exact hrest, hfin⟩
    · -- changed projection: the stale optional entries are skipped, the new (possibly MUST) entry matches
      have hskip : skipOptional x q1 = skipOptional x [{ val := x, must := x ≠ view C st.mask prev && est, seed := false }] :=
        skipOptional_drop x (view C st.mask prev) (fun h => hxp h.symm) _ q hq
      have hr : qRecv q1 x true = ([], .ok) := by
        simp [qRecv, hskip, skipOptional]
      refine ⟨hout, by rw [hr], by rw [hr]; rfl, by rw [hr]; exact fun e he => by simp at he, hfin⟩

/-! ### Servers whose Update starts background writes (lightpb.MemoryDevice tweens)

Read-your-writes under an interrupted tween: the response of the interrupting Update stays the
register's value whatever the tween goroutine still does, for every schedule of its remaining
ticks — because every one of its writes is guarded by the value it wrote last. -/

/-- **C14_tween_interrupt_sticks.** After a plain Update with response `v` lands on a server with a live
tween job (and `v` differs from what the job wrote last), every further sequence of progress ticks and
the finishing tick leaves the register at `v`. -/
theorem C14_tween_interrupt_sticks {W : Type} [DecidableEq W] (s : TSrv W) (j : Job W) (v : W)
    (hj : s.job = some j) (hv : v ≠ j.last) (bs : List (BgStep W)) :
    (bgRun true (interrupt s v) bs).cur = v := by
  cases bs with
  | nil => rfl
  | cons b bs =>
    have h1 : bgStep true (interrupt s v) b = { cur := v, job := none } := by
      cases b <;> simp [bgStep, interrupt, hj, hv]
    simp only [bgRun, h1]
    rw [bgRun_nojob true bs _ rfl]

/-- the same server with an UNGUARDED finishing write (the seeded change C14-1) loses the Update -/
theorem C14_tween_unguarded_finish_fails :
    ∃ (s : TSrv Nat) (j : Job Nat) (v : Nat), s.job = some j ∧ v ≠ j.last ∧
      (bgRun false (interrupt s v) [.finish]).cur ≠ v :=
  ⟨⟨50, some ⟨50, 80⟩⟩, ⟨50, 80⟩, 10, rfl, by decide, by decide⟩

/-- **C14_tween_completes.** Left alone, the job ends on its target whatever progress values the ticks
write: after any progress ticks followed by the finishing tick the register holds the target. -/
theorem C14_tween_completes {W : Type} [DecidableEq W] (ps : List W) :
    ∀ (s : TSrv W) (j : Job W), s.job = some j → s.cur = j.last →
      (bgRun true s (ps.map BgStep.progress ++ [.finish])).cur = j.target := by
  induction ps with
  | nil =>
    intro s j hj hc
    simp [bgRun, bgStep, hj, hc]
  | cons p ps ih =>
    intro s j hj hc
    simp only [List.map_cons, List.cons_append, bgRun]
    have h1 : bgStep true s (.progress p) = { cur := p, job := some { j with last := p } } := by
      simp [bgStep, hj, hc]
    rw [h1]
    exact ih _ { j with last := p } rfl rfl

/-! ### A recorded finding: composite (multi-item) updates — openclosepb.UpdatePositions

`UpdatePositions` carries one request out as one `Collection.Update` per state; each of them is a
register write with its own event. The full-strength statement `C14_update_on_streams` (exactly one
new message, the response's value) does not hold for such a server: -/

/-- a composite Update: the request is a list of register writes, the response is the final value -/
def stepMulti (C : Cfg V Mask U) (s : Srv V Mask) (name : String) : List U → Srv V Mask × Resp V
  | [] => (s, .val s.cur)
  | u :: us =>
    match step C s (.update name u) with
    | (s', .val _) => stepMulti C s' name us
    | (s', r) => (s', r)

/-- with two or more parts an open stream receives an intermediate value the response never had -/
theorem C14_composite_update_on_streams_fails :
    ∃ (s : Srv Nat Nat) (us : List Nat) (v : Nat) (st st' : Stream Nat Nat),
      (stepMulti exCfg s "x" us).2 = .val v ∧ s.streams[0]? = some st ∧
      (stepMulti exCfg s "x" us).1.streams[0]? = some st' ∧ st.live = true ∧
      exCfg.eqv st.last (view exCfg st.mask v) = false ∧
      st'.out ≠ st.out ++ [(view exCfg st.mask v, st.name)] :=
  ⟨⟨10, [openStream exCfg 10 "a" none false]⟩, [1, 2], 13, openStream exCfg 10 "a" none false,
    { name := "a", mask := none, updatesOnly := false, last := some 13, out := [(10, "a"), (11, "a"), (13, "a")], live := true },
    by decide, rfl, rfl, by decide, by decide, by decide⟩

/-- **partial:** a composite Update with exactly one part IS the register write of that part — same
state, same response — so every theorem above applies to it (hypothesis: the request has one part;
the harness's monitor reports multi-part requests under the recorded finding). -/
theorem C14_composite_update_on_streams_partial (C : Cfg V Mask U) (s : Srv V Mask) (name : String) (u : U) :
    stepMulti C s name [u] = step C s (.update name u) := by
  simp only [stepMulti, step]
  cases C.apply s.cur u with
  | error c => rfl
  | ok w => rfl

/-- the hypothesis of the partial theorem is satisfiable by a reachable state -/
example : (stepMulti exCfg ⟨10, []⟩ "x" [5]).2 = .val 15 := by decide

/-! ### A recorded finding: an edited seed — enterleavesensorpb.PullEnterLeaveEvents

The model clears occupant and direction in the seed it sends (documented). -/

/-- a Pull whose seed is `edit cur` instead of `cur` -/
def openStreamEdited (C : Cfg V Mask U) (edit : V → V) (cur : V) (name : String) (mask : Option Mask) (uo : Bool) : Stream V Mask :=
  { openStream C cur name mask uo with out := if uo then [] else [(view C mask (edit cur), name)] }

/-- the full-strength `C14_pull_seed` fails for such a server -/
theorem C14_pull_seed_edited_fails :
    ∃ (edit : Nat → Nat) (cur : Nat), (openStreamEdited exCfg edit cur "a" none false).out ≠ [(view exCfg none cur, "a")] :=
  ⟨fun _ => 0, 7, by decide⟩

/-- **partial:** when the edit leaves the current value alone (enter/leave: the last event carries
neither occupant nor direction — e.g. initially or after ResetEnterLeaveTotals) the Pull is the
register's Pull and `C14_pull_seed` applies. -/
theorem C14_pull_seed_edited_partial (C : Cfg V Mask U) (edit : V → V) (cur : V) (name : String) (mask : Option Mask) (uo : Bool)
    (h : edit cur = cur) : openStreamEdited C edit cur name mask uo = openStream C cur name mask uo := by
  simp [openStreamEdited, openStream, h]

/-- the hypothesis is satisfiable: an edit that clears a component leaves values without it alone -/
example : (fun n : Nat => n % 10) 7 = 7 := by decide

end ScVerif.C14
