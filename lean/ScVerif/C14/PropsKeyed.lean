import ScVerif.C14.Keyed
import ScVerif.C14.Lemmas
/-!
# C14 — keyed families of registers (hail, publication, vending stock)

The register theorems lifted pointwise to `id ↦ register`, for every write pipeline, equivalence,
projection and create pipeline, plus the two statements that only make sense for a family: no
cross-talk between ids, and Delete ends the item's streams.
-/
namespace ScVerif.C14

variable {K V Mask U : Type} [DecidableEq K]

theorem kstep_other_reg (C : KCfg V Mask U) (s : KSrv K V Mask) (r : KReq K Mask U) (k : K)
    (h : r.writes k = false) : (kstep C s r).1.regs k = s.regs k := by
  cases r with
  | get k' n m => simp only [kstep]; split <;> rfl
  | update k' n u =>
    have hk : k ≠ k' := by intro e; subst e; simp [KReq.writes] at h
    simp only [kstep]
    split
    · rfl
    · split
      · rfl
      · simp [setReg, hk]
  | create k' u =>
    have hk : k ≠ k' := by intro e; subst e; simp [KReq.writes] at h
    simp only [kstep]
    split
    · rfl
    · split
      · rfl
      · simp [setReg, hk]
  | delete k' am =>
    have hk : k ≠ k' := by intro e; subst e; simp [KReq.writes] at h
    simp only [kstep]
    split
    · rfl
    · simp [setReg, hk]
  | pull k' n m uo => rfl
  | cancel i => rfl

theorem krun_other_reg (C : KCfg V Mask U) (k : K) (rs : List (KReq K Mask U)) :
    ∀ s : KSrv K V Mask, (∀ r, r ∈ rs → r.writes k = false) → (krun C s rs).regs k = s.regs k := by
  induction rs with
  | nil => intro s _; rfl
  | cons r rs ih =>
    intro s h
    simp only [krun]
    rw [ih _ (fun x hx => h x (List.mem_cons_of_mem _ hx)), kstep_other_reg C s r k (h r List.mem_cons_self)]

/-- **C14_keyed_update_then_get.** After a successful Update of item `k` with response `v`, an unmasked
Get of `k` returns `v` after any requests that do not write `k` — Gets, Pulls, cancellations, and
Updates / Creates / Deletes of OTHER ids. -/
theorem C14_keyed_update_then_get (C : KCfg V Mask U) (s : KSrv K V Mask) (k : K) (name : String) (u : U) (v : V)
    (h : (kstep C s (.update k name u)).2 = .val v)
    (rs : List (KReq K Mask U)) (hrs : ∀ r, r ∈ rs → r.writes k = false) (name' : String) :
    (kstep C (krun C (kstep C s (.update k name u)).1 rs) (.get k name' none)).2 = .val v := by
  have hreg : (kstep C s (.update k name u)).1.regs k = some v := by
    simp only [kstep] at h ⊢
    cases hr : s.regs k with
    | none => simp [hr] at h
    | some cur =>
      simp only [hr] at h ⊢
      cases ha : C.apply cur u with
      | error c => simp [ha] at h
      | ok w => simp [ha] at h ⊢; simp [setReg, h]
  generalize (kstep C s (.update k name u)).1 = s1 at hreg ⊢
  have hfin : (krun C s1 rs).regs k = some v := by rw [krun_other_reg C k rs s1 hrs, hreg]
  simp [kstep, hfin, view]

/-- **C14_keyed_masked_get.** -/
theorem C14_keyed_masked_get (C : KCfg V Mask U) (s : KSrv K V Mask) (k : K) (n n' : String) (m : Mask) (v : V)
    (h : (kstep C s (.get k n none)).2 = .val v) :
    (kstep C s (.get k n' (some m))).2 = .val (C.proj m v) := by
  simp only [kstep] at h ⊢
  cases hr : s.regs k with
  | none => simp [hr] at h
  | some cur => simp [hr, view] at h ⊢; rw [h]

/-- **C14_keyed_pull_seed.** A Pull of an existing item starts with its (projected) value under the
request's name unless updates_only; a Pull of a missing item starts empty; it is registered last,
bound to its id, and changes nothing else. -/
theorem C14_keyed_pull_seed (C : KCfg V Mask U) (s : KSrv K V Mask) (k : K) (name : String) (m : Option Mask) (uo : Bool) :
    let s' := (kstep C s (.pull k name m uo)).1
    s'.regs = s.regs ∧ s'.streams.take s.streams.length = s.streams ∧
    ∃ st, s'.streams[s.streams.length]? = some st ∧ st.key = k ∧ st.s.name = name ∧ st.s.mask = m ∧ st.s.live = true ∧
      st.s.out = (match s.regs k with
        | some cur => if uo then [] else [(view C.toCfg m cur, name)]
        | none => []) := by
  intro s'
  refine ⟨rfl, by simp [s', kstep], { key := k, s := pullStream C s k name m uo }, by simp [s', kstep], rfl, ?_, ?_, ?_, ?_⟩ <;>
    (cases hr : s.regs k <;> simp [pullStream, hr, openStream])

/-- **C14_keyed_update_on_streams** (with **no cross-talk** on streams). A successful Update of `k`
with response `v`: every stream bound to `k` is handled exactly as in the single-register theorem
(`push`: one new message `(view mask v, its name)` unless suppressed by the equivalence or not live);
every stream bound to another id is left exactly as it was. -/
theorem C14_keyed_update_on_streams (C : KCfg V Mask U) (s : KSrv K V Mask) (k : K) (name : String) (u : U) (v : V)
    (h : (kstep C s (.update k name u)).2 = .val v) (i : Nat) (st : KStream K V Mask) (hi : s.streams[i]? = some st) :
    (kstep C s (.update k name u)).1.streams[i]? =
      some (if st.key = k then { st with s := push C.toCfg v st.s } else st) := by
  simp only [kstep] at h ⊢
  cases hr : s.regs k with
  | none => simp [hr] at h
  | some cur =>
    simp only [hr] at h ⊢
    cases ha : C.apply cur u with
    | error c => simp [ha] at h
    | ok w =>
      simp [ha] at h ⊢
      subst h
      simp [hi, kpush]

/-- **C14_keyed_rejected_frame.** An Update answered with an error (NotFound for a missing id
included) changes nothing at all. -/
theorem C14_keyed_rejected_frame (C : KCfg V Mask U) (s : KSrv K V Mask) (k : K) (name : String) (u : U) (c : Nat)
    (h : (kstep C s (.update k name u)).2 = .err c) : (kstep C s (.update k name u)).1 = s := by
  simp only [kstep] at h ⊢
  cases hr : s.regs k with
  | none => rfl
  | some cur =>
    simp only [hr] at h ⊢
    cases ha : C.apply cur u with
    | error c' => rfl
    | ok w => simp [ha] at h

/-- **C14_keyed_no_crosstalk.** Whatever a request on id `k` does (Update, Create, Delete, Get, Pull),
every other id's register is untouched and every stream bound to another id is exactly as before. -/
theorem C14_keyed_no_crosstalk (C : KCfg V Mask U) (s : KSrv K V Mask) (k k' : K) (hk : k' ≠ k) (r : KReq K Mask U)
    (n : String) (u : U) (am : Bool)
    (hr : r = .update k n u ∨ r = .create k u ∨ r = .delete k am) :
    (kstep C s r).1.regs k' = s.regs k' ∧
    ∀ (i : Nat) (st : KStream K V Mask), s.streams[i]? = some st → st.key = k' → (kstep C s r).1.streams[i]? = some st := by
  have hne : ∀ st : KStream K V Mask, st.key = k' → st.key ≠ k := fun st h e => hk (h.symm.trans e)
  rcases hr with rfl | rfl | rfl
  · refine ⟨kstep_other_reg C s _ k' (by simp [KReq.writes, Ne.symm hk]), fun i st hi hkey => ?_⟩
    simp only [kstep]
    split
    · exact hi
    · split
      · exact hi
      · simp [hi, kpush, hne st hkey]
  · refine ⟨kstep_other_reg C s _ k' (by simp [KReq.writes, Ne.symm hk]), fun i st hi hkey => ?_⟩
    simp only [kstep]
    split
    · exact hi
    · split
      · exact hi
      · simp [hi, kpush, hne st hkey]
  · refine ⟨kstep_other_reg C s _ k' (by simp [KReq.writes, Ne.symm hk]), fun i st hi hkey => ?_⟩
    simp only [kstep]
    split
    · exact hi
    · simp [hi, kend, hne st hkey]

/-- **C14_keyed_delete_ends_streams.** A successful Delete of an existing item: Get answers NotFound,
every stream bound to the id has ended (not live, nothing appended), a later Update is NotFound. -/
theorem C14_keyed_delete_ends_streams (C : KCfg V Mask U) (s : KSrv K V Mask) (k : K) (am : Bool) (cur : V)
    (hex : s.regs k = some cur) :
    let s' := (kstep C s (.delete k am)).1
    s'.regs k = none ∧ (∀ n m, (kstep C s' (.get k n m)).2 = .err notFound) ∧
    (∀ n u, (kstep C s' (.update k n u)) = (s', .err notFound)) ∧
    ∀ (i : Nat) (st : KStream K V Mask), s.streams[i]? = some st → st.key = k →
      s'.streams[i]? = some { st with s := { st.s with live := false } } := by
  intro s'
  have hreg : s'.regs k = none := by simp [s', kstep, hex, setReg]
  refine ⟨hreg, fun n m => by simp [kstep, hreg], fun n u => by simp [kstep, hreg], fun i st hi hkey => ?_⟩
  simp [s', kstep, hex, hi, kend, hkey]

/-! ### Non-vacuity -/

def exKCfg : KCfg Nat Nat Nat := { exCfg' with init := fun u => if u = 0 then .error 3 else .ok u }
where exCfg' : Cfg Nat Nat Nat :=
  { proj := fun m v => v % m, apply := fun cur u => if u = 0 then .error 3 else .ok (cur + u), eqv := fun l w => l == some w }

example :
    let s := krun exKCfg (⟨fun _ => none, []⟩ : KSrv Nat Nat Nat)
      [.create 1 10, .create 2 20, .pull 1 "a" none false, .pull 2 "b" none false, .update 1 "x" 5, .delete 2 false, .update 2 "x" 1]
    s.regs 1 = some 15 ∧ s.regs 2 = none ∧
      s.streams.map (fun st => (st.key, st.s.out, st.s.live)) = [(1, [(10, "a"), (15, "a")], true), (2, [(20, "b")], false)] := by
  decide

end ScVerif.C14
