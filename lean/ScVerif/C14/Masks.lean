import ScVerif.C14.Composite
/-!
C14 — how an update mask of the composed register reaches the item writes: `masks.RemovePrefix`
(pkg/masks/util.go, only caller `openclosepb.Model.UpdatePositions`) and the masked item merge
(`FieldUpdater.Merge` for top-level item fields).

  RemovePrefix(prefix, mask)                      -- as repaired by 1cf4513
      mask == nil            → nil
      for path in mask.Paths:
          path == prefix                  → dropped      ("states": whole items)
          path starts with prefix + "."   → rest := path without prefix and dot
               rest == "*"                → dropped
               rest starts with "*."      → out += rest without "*."
               else                       → out += rest
          else                            → dropped      (another field of the resource)
      len(out) == 0 → nil  else out       -- never an empty non-nil mask (which would mean "no changes")

A path is modelled as its list of segments (`states.open_percent` = ["states", "open_percent"]).
-/
namespace ScVerif.C14

abbrev Path := List String

/-- what one path contributes -/
def stripOne (pfx : String) : Path → Option Path
  | [] => none
  | s :: rest =>
    if s ≠ pfx then none
    else
      match rest with
      | [] => none
      | ["*"] => none
      | "*" :: r => some r
      | r => some r

def removePrefix (pfx : String) : Option (List Path) → Option (List Path)
  | none => none
  | some ps =>
    let out := ps.filterMap (stripOne pfx)
    if out.isEmpty then none else some out

/-- the item fields a (stripped) item mask names: its single-segment paths -/
def maskFields : Option (List Path) → Option (List String)
  | none => none
  | some ps => some (ps.filterMap fun p => match p with | [f] => some f | _ => none)

/-- an item as its top-level fields; `FieldUpdater.Merge`: without a mask the item becomes the written one, with a
mask exactly the named fields are taken from the written item (cleared when it lacks them) -/
def maskedMerge {X : Type} (fs : Option (List String)) (old : Option (String → Option X)) (x : String → Option X) :
    String → Option X :=
  match fs with
  | none => x
  | some l => fun f => if f ∈ l then x f else old.bind (· f)

/-- the item merge of UpdatePositions for a REQUEST mask: strip the list's name, then merge field-wise -/
def itemMerge {X : Type} (pfx : String) (reqMask : Option (List Path)) (old : Option (String → Option X))
    (x : String → Option X) : String → Option X :=
  maskedMerge (maskFields (removePrefix pfx reqMask)) old x

end ScVerif.C14
