import ScVerif.C20.EnterLeaveSpec
/-!
# C20 — property theorems, EnterLeave

Property (fixed text, enter/leave clause): "enter/leave totals … stay mutually consistent": totals are
counters — ENTER increments enter_total, LEAVE leave_total, explicit totals override, ResetTotals
zeroes both and nothing else.
-/
namespace ScVerif.C20.EnterLeave

theorem C20_enterleave_step (s : Event) (c : Counters) (o : Op) (hr : Refines s c) (hs : Safe c) :
    Refines (step s o) (specStep c o) := by
  cases o with
  | event ev =>
    exact ⟨adjust_refines _ _ _ _ hr.1 hs.1, adjust_refines _ _ _ _ hr.2 hs.2⟩
  | reset => exact ⟨rfl, rfl⟩

/-- **Totals are counters, for every event sequence** (any directions, occupants, explicit totals,
resets, any length): as long as no counter stands at the int32 maximum, the stored totals are
exactly the two counters of the spec — ENTER adds one to enter_total, LEAVE adds one to leave_total,
an explicit total different from the current one replaces it, ResetTotals makes both zero. -/
theorem C20_enterleave_counters (ops : List Op) : ∀ (s : Event) (c : Counters),
    Refines s c → SafeRun c ops → Refines (run s ops) (ops.foldl specStep c) := by
  induction ops with
  | nil => intro s c h _; exact h
  | cons o rest ih =>
    intro s c h hs
    exact ih _ _ (C20_enterleave_step s c o h hs.1) hs.2

/-- the default model state (both totals zero) refines the zero counters, which are safe -/
example : Refines ⟨0, none, some 0, some 0⟩ (0, 0) ∧ Safe (0, 0) := by unfold Refines Safe maxInt32; decide
/-- a model without totals also refines the zero counters -/
example : Refines ⟨0, none, none, none⟩ (0, 0) := by unfold Refines; decide
/-- a run satisfying `SafeRun`: two people enter, one leaves → (2, 1) -/
example : run ⟨0, none, some 0, some 0⟩ [.event ⟨1, none, none, none⟩, .event ⟨1, none, none, none⟩, .event ⟨2, none, none, none⟩]
    = ⟨2, none, some 2, some 1⟩ := by decide

/-- **The excluded point of `C20_enterleave_counters` is real, and what the code does there**: a total at
the int32 maximum is not incremented by a further ENTER (it saturates; before the fix it wrapped to
−2147483648), so the plain counter spec (which would say 2147483648) is not refined. -/
theorem C20_enterleave_counters_fails_at_max :
    ∃ s c o, Refines s c ∧ ¬ Safe c ∧ ¬ Refines (step s o) (specStep c o) ∧
      (step s o).enterTotal = some maxInt32 := by
  refine ⟨⟨0, none, some maxInt32, some 0⟩, (maxInt32, 0), .event ⟨1, none, none, none⟩, ?_, ?_, ?_, ?_⟩
  · unfold Refines; decide
  · unfold Safe maxInt32; decide
  · unfold Refines; decide
  · decide

/-- **Without any hypothesis: the totals are saturating counters**, for every event sequence — the
same counter rule, except that a counter at the int32 maximum stays there. -/
theorem C20_enterleave_saturating (ops : List Op) : ∀ (s : Event) (c : Counters),
    Refines s c → Refines (run s ops) (ops.foldl satStep c) := by
  induction ops with
  | nil => intro s c h; exact h
  | cons o rest ih =>
    intro s c h
    apply ih
    cases o with
    | event ev => exact ⟨adjust_refines_sat _ _ _ _ h.1, adjust_refines_sat _ _ _ _ h.2⟩
    | reset => exact ⟨rfl, rfl⟩

/-- **Totals never become negative**: from non-negative totals, with non-negative explicit totals in
the events, both totals are non-negative after every sequence (in particular they cannot wrap). -/
theorem C20_enterleave_nonneg (ops : List Op)
    (hev : ∀ o ∈ ops, ∀ ev, o = .event ev → (∀ v, ev.enterTotal = some v → 0 ≤ v) ∧ (∀ v, ev.leaveTotal = some v → 0 ≤ v)) :
    ∀ s : Event, 0 ≤ s.enterTotal.getD 0 → 0 ≤ s.leaveTotal.getD 0 →
      0 ≤ (run s ops).enterTotal.getD 0 ∧ 0 ≤ (run s ops).leaveTotal.getD 0 := by
  induction ops with
  | nil => intro s h1 h2; exact ⟨h1, h2⟩
  | cons o rest ih =>
    intro s h1 h2
    have hrest := ih (fun o' ho' => hev o' (List.mem_cons_of_mem _ ho'))
    cases o with
    | event ev =>
      have h := hev (.event ev) List.mem_cons_self ev rfl
      exact hrest (step s (.event ev)) (adjust_nonneg _ _ _ h1 h.1) (adjust_nonneg _ _ _ h2 h.2)
    | reset => exact hrest (step s .reset) (by simp [step, resetTotals, merge]) (by simp [step, resetTotals, merge])

/-- **ResetTotals zeroes both totals and nothing else**, from every state. -/
theorem C20_enterleave_reset (s : Event) :
    (resetTotals s).enterTotal = some 0 ∧ (resetTotals s).leaveTotal = some 0 ∧
    (resetTotals s).direction = s.direction ∧ (resetTotals s).occupant = s.occupant := by
  simp [resetTotals, merge]

/-- **An event replaces direction and occupant and always leaves both totals present.** -/
theorem C20_enterleave_event_fields (s ev : Event) :
    (create s ev).direction = ev.direction ∧ (create s ev).occupant = ev.occupant ∧
    (create s ev).enterTotal.isSome ∧ (create s ev).leaveTotal.isSome := by
  refine ⟨rfl, rfl, ?_, ?_⟩ <;> simp only [create, merge, adjustTotal] <;> split <;> (try split) <;> rfl

end ScVerif.C20.EnterLeave
