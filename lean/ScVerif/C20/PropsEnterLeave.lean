import ScVerif.C20.EnterLeaveSpec
/-!
# C20 — property theorems, EnterLeave

Property (fixed text, enter/leave clause): "enter/leave totals … stay mutually consistent": totals are
counters — ENTER increments enter_total, LEAVE leave_total, explicit totals override, ResetTotals
zeroes both and nothing else.
-/
namespace ScVerif.C20.EnterLeave

theorem C20_enterleave_step (s : Event) (c : Counters) (o : Op) (hr : Refines s c) (hs : Safe c) :
    Refines (step s o) (specStep c o) := by
  cases o with
  | event ev =>
    exact ⟨adjust_refines _ _ _ _ hr.1 hs.1 hs.2.1, adjust_refines _ _ _ _ hr.2 hs.2.2.1 hs.2.2.2⟩
  | reset => exact ⟨rfl, rfl⟩

/-- **Totals are counters, for every event sequence** (any directions, occupants, explicit totals,
resets, any length): as long as no counter is incremented at the int32 maximum, the stored totals are
exactly the two counters of the spec — ENTER adds one to enter_total, LEAVE adds one to leave_total,
an explicit total different from the current one replaces it, ResetTotals makes both zero. -/
theorem C20_enterleave_counters (ops : List Op) : ∀ (s : Event) (c : Counters),
    Refines s c → SafeRun c ops → Refines (run s ops) (ops.foldl specStep c) := by
  induction ops with
  | nil => intro s c h _; exact h
  | cons o rest ih =>
    intro s c h hs
    exact ih _ _ (C20_enterleave_step s c o h hs.1) hs.2

/-- the default model state (both totals zero) refines the zero counters, which are safe -/
example : Refines ⟨0, none, some 0, some 0⟩ (0, 0) ∧ Safe (0, 0) := by unfold Refines Safe; decide
/-- a model without totals also refines the zero counters -/
example : Refines ⟨0, none, none, none⟩ (0, 0) := by unfold Refines; decide
/-- a run satisfying `SafeRun`: two people enter, one leaves → (2, 1) -/
example : run ⟨0, none, some 0, some 0⟩ [.event ⟨1, none, none, none⟩, .event ⟨1, none, none, none⟩, .event ⟨2, none, none, none⟩]
    = ⟨2, none, some 2, some 1⟩ := by decide

/-- **ResetTotals zeroes both totals and nothing else**, from every state. -/
theorem C20_enterleave_reset (s : Event) :
    (resetTotals s).enterTotal = some 0 ∧ (resetTotals s).leaveTotal = some 0 ∧
    (resetTotals s).direction = s.direction ∧ (resetTotals s).occupant = s.occupant := by
  simp [resetTotals, merge]

/-- **An event replaces direction and occupant and always leaves both totals present.** -/
theorem C20_enterleave_event_fields (s ev : Event) :
    (create s ev).direction = ev.direction ∧ (create s ev).occupant = ev.occupant ∧
    (create s ev).enterTotal.isSome ∧ (create s ev).leaveTotal.isSome := by
  refine ⟨rfl, rfl, ?_, ?_⟩ <;> simp only [create, merge, adjustTotal] <;> split <;> (try split) <;> rfl

end ScVerif.C20.EnterLeave
