import ScVerif.C20.ModeLemmas
/-!
# C20 — property theorems, Mode

Property (fixed text, mode clause): "mode relative steps (wrapping) … stay mutually consistent.
Models constructed with explicit configuration (modes, …) use it, and none of these operations panics
on a well-formed request."
-/
namespace ScVerif.C20.Mode

/-- the request that only steps mode `n` by `k` -/
def relReq (n : String) (k : Int) (mask : Mask) : Request := ⟨[], [(n, k)], mask⟩

/-- **Relative step** (every int32 step `k`, positive, negative or huge; every mode with at least one
value; with or without the update mask): if the current value sits at index `i` of the mode's `n`
values, the selected value is the one at the Euclidean index `(i + k) mod n`. -/
theorem C20_mode_step (modes : List ModeDef) (old : Values) (n : String) (k : Int) (mask : Mask)
    (v0 : String) (rest : List String) (cur : String) (i : Nat)
    (hv : availableValues modes n = v0 :: rest) (hl : lookup n old = some cur)
    (hi : indexOf (v0 :: rest) cur = some i) :
    lookup n (update modes old [] [(n, k)] mask) =
      (v0 :: rest)[(((i : Int) + k) % ((rest.length + 1 : Nat) : Int)).toNat]? ∧
    (((i : Int) + k) % ((rest.length + 1 : Nat) : Int)).toNat < (v0 :: rest).length := by
  have hw := wrapIndex_eq i k (rest.length + 1) (by omega)
  have h1 := Int.emod_nonneg ((i : Int) + k) (b := ((rest.length + 1 : Nat) : Int)) (by omega)
  have h2 := Int.emod_lt_of_pos ((i : Int) + k) (b := ((rest.length + 1 : Nat) : Int)) (by omega)
  have hlt : (((i : Int) + k) % ((rest.length + 1 : Nat) : Int)).toNat < (v0 :: rest).length := by
    simp only [List.length_cons]; omega
  refine ⟨?_, hlt⟩
  rw [List.getElem?_eq_getElem hlt]
  apply update_rel_single
  unfold relativeOne
  simp only [hv, hl, hi, hw, set]
  rw [List.getElem?_eq_getElem hlt]
  rfl

/-- **Unknown current value ⇒ first**: if the mode has no current value, or the current value is not
one of the mode's values, any relative step selects the first value. -/
theorem C20_mode_step_unknown (modes : List ModeDef) (old : Values) (n : String) (k : Int) (mask : Mask)
    (v0 : String) (rest : List String)
    (hv : availableValues modes n = v0 :: rest)
    (hu : lookup n old = none ∨ ∃ cur, lookup n old = some cur ∧ indexOf (v0 :: rest) cur = none) :
    lookup n (update modes old [] [(n, k)] mask) = some v0 := by
  apply update_rel_single
  unfold relativeOne
  rcases hu with hu | ⟨cur, h1, h2⟩
  · simp only [hv, hu, set]
  · simp only [hv, h1, h2, set]

/-- a relative step on a mode the model does not know writes nothing -/
example : update [⟨"spin", ["auto", "slow"]⟩] [("spin", "auto")] [] [("nomode", 3)] .values = [] := by decide

/-- **Every sequence of relative steps** on a mode with distinct values, each with or without the
mask: from index `i`, after steps `k₁ … kⱼ` the selected value is the one at `(i + Σ k) mod n`. -/
theorem C20_mode_seq (modes : List ModeDef) (n : String) (vs : List String)
    (hv : availableValues modes n = vs) (hnd : vs.Nodup) :
    ∀ (steps : List (Int × Mask)) (vals : Values) (i : Nat) (hi : i < vs.length),
      lookup n vals = some vs[i] →
      lookup n (Model.run ⟨modes, vals⟩ (steps.map (fun s => relReq n s.1 s.2))).values =
        vs[(((i : Int) + (steps.map (·.1)).sum) % (vs.length : Int)).toNat]? := by
  intro steps
  induction steps with
  | nil =>
    intro vals i hi hl
    have : ((i : Int) % (vs.length : Int)).toNat = i := by
      rw [Int.emod_eq_of_lt (by omega) (by omega)]; simp
    simp [Model.run, this, hl, List.getElem?_eq_getElem hi]
  | cons s rest ih =>
    intro vals i hi hl
    cases vs with
    | nil => simp at hi
    | cons v0 tl =>
      have hidx := indexOf_getElem (v0 :: tl) hnd i hi
      obtain ⟨hstep, hlt⟩ := C20_mode_step modes vals n s.1 s.2 v0 tl _ i hv hl hidx
      rw [List.getElem?_eq_getElem hlt] at hstep
      have := ih (update modes vals [] [(n, s.1)] s.2) _ hlt hstep
      simp only [List.map_cons, Model.run, List.foldl_cons] at this ⊢
      show lookup n (List.foldl Model.step ⟨modes, update modes vals [] [(n, s.1)] s.2⟩ _).values = _
      rw [this]
      congr 2
      have h1 := Int.emod_nonneg ((i : Int) + s.1) (b := ((tl.length + 1 : Nat) : Int)) (by omega)
      rw [Int.toNat_of_nonneg h1]
      simp only [List.length_cons, List.sum_cons]
      rw [Int.emod_add_emod, Int.add_assoc]

/-- wrap-around in both directions on the default "spin" mode -/
example : lookup "spin" (update [⟨"spin", ["auto", "slow", "fast"]⟩] [("spin", "auto")] [] [("spin", -1)] .none)
    = some "fast" := by decide
/-- the repaired overflow: +2147483646 from "fast" (index 2 of 3) selects index (2 + 2147483646) mod 3 = 2
(32-bit arithmetic wrapped to a negative sum and selected "slow") -/
example : lookup "spin" (update [⟨"spin", ["auto", "slow", "fast"]⟩] [("spin", "fast")] [] [("spin", 2147483646)] .values)
    = some "fast" := by decide

/-- **Configuration is used**: for every list of modes (distinct names, each with at least one value)
`NewModelModes` succeeds, the model's modes are exactly the given ones, every mode starts at its first
value, and no other mode has a value. -/
theorem C20_mode_config (modes : List ModeDef) (hne : ∀ md ∈ modes, md.values ≠ [])
    (hnd : (modes.map (·.name)).Nodup) :
    ∃ m, newModelModes modes = some m ∧ m.modes = modes ∧
      (∀ md ∈ modes, lookup md.name m.values = md.values.head?) ∧
      (∀ n, n ∉ modes.map (·.name) → lookup n m.values = none) := by
  have hany : modes.any (fun m => m.values.isEmpty) = false := by
    rw [List.any_eq_false]
    intro md hmd
    have := hne md hmd
    cases h : md.values with
    | nil => exact absurd h this
    | cons _ _ => simp
  refine ⟨⟨modes, initialValues modes⟩, by simp [newModelModes, hany], rfl, ?_, ?_⟩
  · intro md hmd
    have := (initialValues_spec modes [] hnd).1 md hmd
    unfold initialValues
    rw [this]
    cases h : md.values with
    | nil => exact absurd h (hne md hmd)
    | cons _ _ => rfl
  · intro n hn
    have := (initialValues_spec modes [] hnd).2 n hn
    unfold initialValues
    rw [this]; rfl

/-- the hypotheses hold for the default modes and the repaired constructor uses its argument -/
example : (newModelModes [⟨"eco", ["on", "off"]⟩]).map (·.modes.map (·.name)) = some ["eco"] := by decide

/-- **The excluded points are real, and what the code does there.**
(1) `C20_mode_seq` needs distinct values: with values a,b,a the current value "a" is always taken to be
its FIRST occurrence (`C20_mode_step` holds as stated, with `indexOf`), so from index 1 two steps of +1
end on "b", not on the value at (1+2) mod 3.
(2) `C20_mode_config` needs distinct mode names: with two modes named "m" the initial value is the first
value of the LAST one while `AvailableValues` serves the FIRST one, so the initial value is not one of
the mode's available values. -/
theorem C20_mode_hypotheses_needed :
    (lookup "m" (Model.run ⟨[⟨"m", ["a", "b", "a"]⟩], [("m", "b")]⟩
        [relReq "m" 1 .none, relReq "m" 1 .none]).values = some "b" ∧
      ["a", "b", "a"][((1 : Int) + 2) % 3 |>.toNat]? = some "a") ∧
    (lookup "m" (initialValues [⟨"m", ["a"]⟩, ⟨"m", ["b"]⟩]) = some "b" ∧
      availableValues [⟨"m", ["a"]⟩, ⟨"m", ["b"]⟩] "m" = ["a"]) := by
  decide

/-- **No panic on well-formed configuration**: `NewModelModes` panics exactly when some mode has no
values; `UpdateModeValues` has no panic outcome at all (total function). -/
theorem C20_mode_no_panic (modes : List ModeDef) :
    newModelModes modes = none ↔ ∃ md ∈ modes, md.values = [] := by
  unfold newModelModes
  constructor
  · intro h
    by_cases hany : modes.any (fun m => m.values.isEmpty) = true
    · rw [List.any_eq_true] at hany
      obtain ⟨md, hmd, he⟩ := hany
      exact ⟨md, hmd, by simpa using he⟩
    · simp [hany] at h
  · rintro ⟨md, hmd, he⟩
    have : modes.any (fun m => m.values.isEmpty) = true := by
      rw [List.any_eq_true]; exact ⟨md, hmd, by simp [he]⟩
    simp [this]

/-- **The guards of `relativeAdjustment` on a constructed model** (every configuration `NewModelModes` accepts,
every stored map, every mode name, every int32 step).  (1) `len(values) == 0 { continue }` fires exactly for a name
that is not one of the model's modes: a constructed model has no mode without values, so no known mode is skipped
and `values[0]` - the "no current value" and the "unknown current value" branch - always exists.  (2) When the
current value is found at index `i`, the index the code computes is within the list (`values[newI]` cannot go out
of range), and it is the Euclidean `(i + k) mod n`.  Together: no indexing in the interceptor can panic. -/
theorem C20_mode_indexing_safe (modes : List ModeDef) (m : Model) (hm : newModelModes modes = some m)
    (n : String) (k : Int) :
    (availableValues m.modes n = [] ↔ n ∉ m.modes.map (·.name)) ∧
    (∀ cur i, indexOf (availableValues m.modes n) cur = some i →
      0 ≤ wrapIndex i k (availableValues m.modes n).length ∧
      (wrapIndex i k (availableValues m.modes n).length).toNat < (availableValues m.modes n).length ∧
      wrapIndex i k (availableValues m.modes n).length =
        ((i : Int) + k) % ((availableValues m.modes n).length : Int)) := by
  have hne : ∀ md ∈ modes, md.values ≠ [] := by
    intro md hmd he
    have : newModelModes modes = none := (C20_mode_no_panic modes).2 ⟨md, hmd, he⟩
    rw [this] at hm; cases hm
  have hmodes : m.modes = modes := by
    unfold newModelModes at hm
    split at hm
    · cases hm
    · cases hm; rfl
  rw [hmodes]
  refine ⟨availableValues_nil_iff modes hne n, ?_⟩
  intro cur i hi
  have hpos : 0 < (availableValues modes n).length := by
    cases hv : availableValues modes n with
    | nil => rw [hv] at hi; simp [indexOf] at hi
    | cons _ _ => simp
  have hw := wrapIndex_eq i k _ hpos
  have h1 := Int.emod_nonneg ((i : Int) + k) (b := ((availableValues modes n).length : Int)) (by omega)
  have h2 := Int.emod_lt_of_pos ((i : Int) + k) (b := ((availableValues modes n).length : Int)) (by omega)
  rw [hw]
  exact ⟨h1, by omega, rfl⟩

/-- the guard is needed: on a list with a value-less mode (which `NewModelModes` refuses) the mode IS known and has
no first value - the state a constructor that accepted it would put the interceptor in -/
example : newModelModes [⟨"speed", ["slow", "fast"]⟩, ⟨"scene", []⟩] = none ∧
    availableValues [⟨"speed", ["slow", "fast"]⟩, ⟨"scene", []⟩] "scene" = [] ∧
    "scene" ∈ [(⟨"speed", ["slow", "fast"]⟩ : ModeDef), ⟨"scene", []⟩].map (·.name) := by decide

end ScVerif.C20.Mode
