import ScVerif.C20.ModeFanConc
import ScVerif.C20.GauOps
import ScVerif.C20.PropsMode
import ScVerif.C20.PropsFanSpeed
/-!
# C20 — property theorems, Mode and FanSpeed under concurrent callers

Property (fixed text): "… fan-speed preset, index and percentage, mode relative steps (wrapping) … stay
mutually consistent."  Under overlapping callers of `UpdateModeValues` / `UpdateFanSpeed` (any number of
threads, any programs, any schedule of the atomic steps of `GetAndUpdate`): the stored value is the
sequential run of exactly the requests that were not refused — **no relative step is lost and none is
applied twice**, so the sequential theorems (`C20_mode_seq`, `C20_fan_consistent`) describe it.
-/
namespace ScVerif.C20.Mode
open Gau

/-- **the stored mode values are a sequential run of exactly the committed requests.** -/
theorem C20_mode_conc_is_sequential_run (modes : List ModeDef) (init : Values) (now : Int)
    (progs : List (List Request)) (sched : List Ev) :
    let c := Cfg.run ⟨init, now, (progs.map (·.map (requestCall modes))).map Thread.ofCalls⟩ sched
    ∃ rs : List Request, (∀ r ∈ rs, ∃ p ∈ progs, r ∈ p) ∧ rs.length = c.oks ∧
      c.store = (Model.run ⟨modes, init⟩ rs).values := by
  intro c
  obtain ⟨rs, h1, h2, h3⟩ := run_linearizes_ops (requestCall modes)
    (fun v r => (Model.step ⟨modes, v⟩ r).values) (requestCall_apply modes) init now progs sched
  exact ⟨rs, h1, h2, by rw [run_values]; exact h3⟩

/-- **relative steps add up under every interleaving**: threads that step mode `n` (distinct values `vs`)
by any amounts, any schedule — the selected value is the one at index `(i + sum of the committed steps)
mod |vs|`, where exactly as many steps are summed as calls were not refused. -/
theorem C20_mode_conc_steps_add_up (modes : List ModeDef) (n : String) (vs : List String)
    (hv : availableValues modes n = vs) (hnd : vs.Nodup) (vals : Values) (i : Nat) (hi : i < vs.length)
    (h0 : lookup n vals = some vs[i]) (now : Int) (progs : List (List (Int × Mask))) (sched : List Ev) :
    let c := Cfg.run ⟨vals, now,
      (progs.map (·.map (fun s => requestCall modes (relReq n s.1 s.2)))).map Thread.ofCalls⟩ sched
    ∃ steps : List (Int × Mask), (∀ s ∈ steps, ∃ p ∈ progs, s ∈ p) ∧ steps.length = c.oks ∧
      lookup n c.store = vs[(((i : Int) + (steps.map (·.1)).sum) % (vs.length : Int)).toNat]? := by
  intro c
  obtain ⟨steps, h1, h2, h3⟩ := run_linearizes_ops (fun s : Int × Mask => requestCall modes (relReq n s.1 s.2))
    (fun v s => (Model.step ⟨modes, v⟩ (relReq n s.1 s.2)).values)
    (fun s v t => requestCall_apply modes (relReq n s.1 s.2) v t) vals now progs sched
  refine ⟨steps, h1, h2, ?_⟩
  have h3' : c.store = steps.foldl (fun v s => (Model.step ⟨modes, v⟩ (relReq n s.1 s.2)).values) vals := h3
  have hrun : c.store = (Model.run ⟨modes, vals⟩ (steps.map (fun s => relReq n s.1 s.2))).values := by
    rw [h3', run_values, List.foldl_map]
  rw [hrun]
  exact C20_mode_seq modes n vs hv hnd steps vals i hi h0

/-- two overlapping steps (+1 and +2) from "a" of [a, b, c]: the one that reaches the lock second is refused
and counts nothing — "b", one committed call -/
example :
    let c := Cfg.run ⟨[("m", "a")], 0,
      ([[((1 : Int), Mask.none)], [((2 : Int), Mask.none)]].map
        (·.map (fun s => requestCall [⟨"m", ["a", "b", "c"]⟩] (relReq "m" s.1 s.2)))).map Thread.ofCalls⟩
      [.step 0, .step 1, .step 0, .step 1, .step 0, .step 1]
    lookup "m" c.store = some "b" ∧ c.oks = 1 := by
  decide +kernel

end ScVerif.C20.Mode

namespace ScVerif.C20.FanSpeed
open Gau

variable {α : Type} [DecidableEq α]

/-- **the stored fan speed is a sequential run of exactly the committed requests** (`run` skips a request
that is answered with an error; such a call commits nothing). -/
theorem C20_fan_conc_is_sequential_run (add : α → α → α) (ps : List (Preset α)) (init : Fan α) (now : Int)
    (progs : List (List (Request α))) (sched : List Ev) :
    let c := Cfg.run ⟨init, now, (progs.map (·.map (requestCall add ps))).map Thread.ofCalls⟩ sched
    ∃ rs : List (Request α), (∀ r ∈ rs, ∃ p ∈ progs, r ∈ p) ∧ rs.length = c.oks ∧
      c.store = run add ps init rs :=
  run_linearizes_ops (requestCall add ps) (step add ps) (fun _ _ _ => rfl) init now progs sched

/-- **preset, index and percentage stay mutually consistent under every interleaving**: any number of
threads, any programs of `UpdateFanSpeed` requests none of which clears the preset of a fan that has one
(`WriteOK` on every consistent fan speed — e.g. every masked write that leaves the preset alone or names one),
any schedule: the stored fan speed is consistent at every point, and so is every fan speed a call returned.
A relative step is computed inside the transaction from the value the commit lands on, so no interleaving
yields an index / preset / percentage triple that no sequential run has. -/
theorem C20_fan_conc_consistent (add : α → α → α) (ps : List (Preset α)) (hwf : WF ps) (init : Fan α)
    (h0 : Consistent ps init) (now : Int) (progs : List (List (Request α)))
    (hok : ∀ p ∈ progs, ∀ r ∈ p, ∀ s, Consistent ps s → WriteOK add s r) (sched : List Ev) :
    let c := Cfg.run ⟨init, now, (progs.map (·.map (requestCall add ps))).map Thread.ofCalls⟩ sched
    Consistent ps c.store ∧ ∀ th ∈ c.threads, ∀ v, Res.ok v ∈ th.results → Consistent ps v := by
  intro c
  have hm : Mono (fun (s : Fan α) (_ : Int) => Consistent ps s) := fun _ _ _ _ h => h
  have hg := run_inv hm sched _ (init_inv (fun (s : Fan α) (_ : Int) => Consistent ps s) init now
    (progs.map (·.map (requestCall add ps))) h0 (fun cs hcs cl hcl => by
      obtain ⟨p, hp, rfl⟩ := List.mem_map.mp hcs
      obtain ⟨r, hr, rfl⟩ := List.mem_map.mp hcl
      refine ⟨fun _ o t ho hck => ?_, fun he => by simp [requestCall] at he⟩
      show Consistent ps (step add ps o r)
      unfold step
      cases hu : update add ps o r with
      | ok v => exact consistent_step add ps o v r hwf ho (hok p hp r hr o ho) hu
      | invalidArgument => exact ho
      | panic => exact ho))
  exact ⟨hg.store, fun th hth v hv => by
    obtain ⟨_, h⟩ := (hg.threads th hth).results _ hv
    exact h⟩

/-- the hypothesis is satisfiable: a relative index step under its own mask leaves the preset to
`DeriveValues` on every fan speed -/
example : ∀ s : Fan Rat, WriteOK radd s ⟨⟨0, "", 1, 0⟩, true, some [.index]⟩ := by
  intro s h
  simp [merged, merge] at h

end ScVerif.C20.FanSpeed
