import ScVerif.C20.Config
/-! Lemmas about the option plumbing model (`Config.lean`). -/
namespace ScVerif.C20.Config

theorem apply_res (a : Args) (opts : List MOpt) (r : Nat) :
    (a.apply opts).res r = a.res r ++ proj r opts := by
  induction opts generalizing a with
  | nil => simp [Args.apply, proj]
  | cons o rest ih =>
    have step : (a.apply (o :: rest)) = (a.applyOne o).apply rest := by simp [Args.apply]
    rw [step, ih]
    cases o with
    | shared o => simp [Args.applyOne, proj]
    | target r' os =>
      by_cases h : r = r'
      · simp [Args.applyOne, proj, h]
      · simp [Args.applyOne, proj, h]
    | extra k => simp [Args.applyOne, proj]

theorem apply_extra (a : Args) (opts : List MOpt) :
    (a.apply opts).extra = (lastExtra opts).or a.extra := by
  induction opts generalizing a with
  | nil => simp [Args.apply, lastExtra]
  | cons o rest ih =>
    have step : (a.apply (o :: rest)) = (a.applyOne o).apply rest := by simp [Args.apply]
    rw [step, ih]
    cases o with
    | shared o => simp [Args.applyOne, lastExtra]
    | target r' os => simp [Args.applyOne, lastExtra]
    | extra k =>
      simp only [Args.applyOne, lastExtra]
      cases lastExtra rest <;> simp

theorem proj_append (r : Nat) (xs ys : List MOpt) : proj r (xs ++ ys) = proj r xs ++ proj r ys := by
  induction xs with
  | nil => simp [proj]
  | cons o rest ih =>
    cases o with
    | shared o => simp [proj, ih]
    | target r' os =>
      by_cases h : r = r'
      · subst h; simp [proj, ih]
      · simp [proj, ih, h]
    | extra k => simp [proj, ih]

theorem lastExtra_append (xs ys : List MOpt) : lastExtra (xs ++ ys) = (lastExtra ys).or (lastExtra xs) := by
  induction xs with
  | nil => simp [lastExtra]
  | cons o rest ih =>
    cases o with
    | shared o => simp [lastExtra, ih]
    | target r' os => simp [lastExtra, ih]
    | extra k =>
      simp only [List.cons_append, lastExtra, ih]
      cases lastExtra ys <;> cases lastExtra rest <;> simp

theorem recsOf_append (xs ys : List ROpt) : recsOf (xs ++ ys) = recsOf xs ++ recsOf ys := by
  induction xs with
  | nil => simp [recsOf]
  | cons o rest ih => cases o <;> simp [recsOf, ih]

theorem recsOf_map_initialRecord (recs : List (String × Nat)) :
    recsOf (recs.map fun p => ROpt.initialRecord p.1 p.2) = recs := by
  induction recs with
  | nil => rfl
  | cons q rest ih => simp [recsOf, ih]

/-- A successful `computeConfig` loop: the registers are the last ones given, the records accumulate in order. -/
theorem computeFrom_some {c c' : RConfig} {os : List ROpt} (h : computeFrom c os = some c') :
    c'.records = c.records ++ recsOf os ∧ c'.clock = lastClock c.clock os ∧ c'.rng = lastRng c.rng os ∧
    c'.equiv = lastEquiv c.equiv os ∧ c'.initialValue = lastValue c.initialValue os := by
  induction os generalizing c with
  | nil =>
    simp only [computeFrom, Option.some.injEq] at h
    subst h
    simp [recsOf, lastClock, lastRng, lastEquiv, lastValue]
  | cons o rest ih =>
    simp only [computeFrom] at h
    cases hc : c.apply o with
    | none => simp [hc] at h
    | some c1 =>
      simp only [hc] at h
      have := ih h
      cases o with
      | clock k =>
        simp only [RConfig.apply, Option.some.injEq] at hc; subst hc
        simpa [recsOf, lastClock, lastRng, lastEquiv, lastValue] using this
      | rng k =>
        simp only [RConfig.apply, Option.some.injEq] at hc; subst hc
        simpa [recsOf, lastClock, lastRng, lastEquiv, lastValue] using this
      | equiv k =>
        simp only [RConfig.apply, Option.some.injEq] at hc; subst hc
        simpa [recsOf, lastClock, lastRng, lastEquiv, lastValue] using this
      | initialValue v =>
        simp only [RConfig.apply, Option.some.injEq] at hc; subst hc
        simpa [recsOf, lastClock, lastRng, lastEquiv, lastValue] using this
      | initialRecord id v =>
        simp only [RConfig.apply] at hc
        split at hc
        · simp at hc
        · simp only [Option.some.injEq] at hc; subst hc
          simpa [recsOf, lastClock, lastRng, lastEquiv, lastValue] using this

/-- The loop panics exactly when some record id is configured twice (for this resource). -/
theorem computeFrom_none_iff (c : RConfig) (os : List ROpt) (hc : (c.records.map Prod.fst).Nodup) :
    computeFrom c os = none ↔ ¬ ((c.records ++ recsOf os).map Prod.fst).Nodup := by
  induction os generalizing c with
  | nil => simp [computeFrom, recsOf, hc]
  | cons o rest ih =>
    cases o with
    | clock k => simpa [computeFrom, RConfig.apply, recsOf] using ih { c with clock := k } hc
    | rng k => simpa [computeFrom, RConfig.apply, recsOf] using ih { c with rng := k } hc
    | equiv k => simpa [computeFrom, RConfig.apply, recsOf] using ih { c with equiv := k } hc
    | initialValue v => simpa [computeFrom, RConfig.apply, recsOf] using ih { c with initialValue := some v } hc
    | initialRecord id v =>
      by_cases hin : id ∈ c.records.map Prod.fst
      · have : ¬ ((c.records ++ recsOf (ROpt.initialRecord id v :: rest)).map Prod.fst).Nodup := by
          intro hnd
          simp only [recsOf, List.map_append, List.map_cons] at hnd
          have := (List.nodup_append.mp hnd).2.2 id hin id (by simp)
          exact this rfl
        simp only [computeFrom, RConfig.apply, hin, if_true, true_iff]
        exact this
      · have hc' : (({ c with records := c.records ++ [(id, v)] } : RConfig).records.map Prod.fst).Nodup := by
          simp only [List.map_append, List.map_cons, List.map_nil]
          refine List.nodup_append.mpr ⟨hc, by simp, ?_⟩
          intro a ha b hb
          simp only [List.mem_singleton] at hb
          subst hb
          intro hab; subst hab; exact hin ha
        have := ih { c with records := c.records ++ [(id, v)] } hc'
        simpa [computeFrom, RConfig.apply, hin, recsOf, List.append_assoc] using this

end ScVerif.C20.Config
