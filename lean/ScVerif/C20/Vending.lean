/-!
# C20 / Vending — executable model of `pkg/trait/vendingpb/{model.go,model_opts.go,unitpb/convert.go}`

Quantities are exact rationals (the code uses float32/float64; the harness compares within a relative
tolerance).  The unit table is transcribed from `siUnits` in `unitpb/convert.go` and tied to the code
for every ordered unit pair on every run.  The model follows the code after the fixes:
`updateStock` writes remaining in remaining's own unit, `DispenseInstantly` returns the conversion
error, `WithConsumablesOption` appends to the consumables options.
-/
namespace ScVerif.C20.Vending

inductive Cat where
  | volume | weight | length
  deriving DecidableEq, Repr

/-- `siUnits`: Consumable_Unit number ↦ (factor to the SI unit, category).
2 METER, 3 LITER, 4 CUBIC_METER, 5 CUP (US fluid cup = 3.785411784 l / 16), 6 KILOGRAM;
0 UNIT_UNSPECIFIED, 1 NO_UNIT and anything else are not convertible. -/
def siUnit (u : Int) : Option (Rat × Cat) :=
  if u = 2 then some (1, .length)
  else if u = 3 then some (1, .volume)
  else if u = 4 then some (1000, .volume)
  else if u = 5 then some ((3785411784 : Rat) / 1000000000 / 16, .volume)
  else if u = 6 then some (1, .weight)
  else none

/-- `unitpb.Convert`; `none` is the error. -/
def convert (v : Rat) (src dst : Int) : Option Rat :=
  if src = dst then some v
  else match siUnit src, siUnit dst with
    | some (fs, cs), some (fd, cd) => if cs = cd then some (v * fs / fd) else none
    | _, _ => none

structure Qty where
  unit : Int
  amount : Rat
  deriving DecidableEq

structure Stock where
  used : Option Qty
  remaining : Option Qty
  lastDispensed : Option Qty := none
  dispensing : Bool := false
  deriving DecidableEq

/-- `updateStock` followed by the rest of the interceptor; `none` is the conversion error (the
interceptor then restores the old value, so nothing changes). -/
def dispenseStock (q : Qty) (src : Stock) : Option Stock :=
  let used' : Option (Option Qty) :=
    match src.used with
    | none => some none
    | some u => (convert q.amount q.unit u.unit).map (fun d => some ⟨u.unit, u.amount + d⟩)
  match used' with
  | none => none
  | some used' =>
    let rem' : Option (Option Qty) :=
      match src.remaining with
      | none => some none
      | some r => (convert q.amount q.unit r.unit).map (fun d =>
          let amount := r.amount - d
          some ⟨r.unit, if amount < 0 then 0 else amount⟩)
    match rem' with
    | none => none
    | some rem' => some { used := used', remaining := rem', lastDispensed := some q, dispensing := false }

abbrev Inventory := List (String × Stock)

def lookup (n : String) : Inventory → Option Stock
  | [] => none
  | (k, v) :: rest => if k = n then some v else lookup n rest

def set (n : String) (v : Stock) : Inventory → Inventory
  | [] => [(n, v)]
  | (k, w) :: rest => if k = n then (k, v) :: rest else (k, w) :: set n v rest

inductive Outcome where
  | ok (stock : Stock)
  | invalidArgument      -- empty consumable (ModelServer.Dispense)
  | notFound             -- unknown consumable
  | conversionError      -- reported since the fix (gRPC code Unknown: a plain Go error)
  deriving DecidableEq

/-- `Model.DispenseInstantly` (with the server's empty-consumable check). -/
def dispense (inv : Inventory) (name : String) (q : Qty) : Inventory × Outcome :=
  if name = "" then (inv, .invalidArgument)
  else match lookup name inv with
    | none => (inv, .notFound)
    | some st =>
      match dispenseStock q st with
      | none => (inv, .conversionError)
      | some st' => (set name st' inv, .ok st')

/-- `ModelServer.Dispense`: a request without a quantity is rejected (since the fix; it panicked). -/
def dispenseReq (inv : Inventory) (name : String) (q : Option Qty) : Inventory × Outcome :=
  if name = "" then (inv, .invalidArgument)
  else match q with
    | none => (inv, .invalidArgument)
    | some q => dispense inv name q

def run (inv : Inventory) (ops : List (String × Option Qty)) : Inventory :=
  ops.foldl (fun inv o => (dispenseReq inv o.1 o.2).1) inv

/-! ## option plumbing (`model_opts.go`) -/

inductive Opt where
  | initialStock (names : List String)        -- WithInitialStock → WithInventoryOption
  | initialConsumable (names : List String)   -- WithInitialConsumable → WithConsumablesOption

structure ModelArgs where
  consumableOptions : List String := []
  inventoryOptions : List String := []

def applyOpt (a : ModelArgs) : Opt → ModelArgs
  | .initialStock ns => { a with inventoryOptions := a.inventoryOptions ++ ns }
  | .initialConsumable ns => { a with consumableOptions := a.consumableOptions ++ ns }

def calcModelArgs (opts : List Opt) : ModelArgs := opts.foldl applyOpt {}

end ScVerif.C20.Vending
