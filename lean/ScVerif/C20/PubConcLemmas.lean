import ScVerif.C20.PubConc
import ScVerif.C20.GauLemmas
import ScVerif.C20.PublicationReceipt
/-!
# C20 / Publication — the calls satisfy the generic interleaving theorem's conditions, and each is the
sequential `step` on the stored item
-/
namespace ScVerif.C20.Publication
open Gau

/-- receipt-belongs-to-version and version-is-hash-of-content, as one time-indexed invariant -/
def PubOK (H : Hash) (p : Pub) (now : Int) : Prop := ReceiptOK now p ∧ p.version = mint H p

theorem PubOK.mono (H : Hash) : Gau.Mono (PubOK H) :=
  fun _ _ _ hle h => ⟨h.1.mono hle, h.2⟩

theorem updateCall_ok (H : Hash) (p : Pub) (mask : UMask) (v : String) : (updateCall H p mask v).OK (PubOK H) :=
  ⟨fun _ o t _ _ => ⟨computed_receiptOK H t _, (computed_version H t _).1⟩, fun he => by simp [updateCall] at he⟩

theorem ackCall_ok (H : Hash) (v : String) (receipt : Int) (reason : String) (allow : Bool) :
    (ackCall v receipt reason allow).OK (PubOK H) := by
  refine ⟨fun _ o t ho _ => ?_, fun he => by simp [ackCall] at he⟩
  obtain ⟨⟨pt, h1, h2, _⟩, hv⟩ := ho
  refine ⟨⟨pt, h1, h2, fun a ha t' ht' => ?_⟩, ?_⟩
  · simp only [ackCall, Option.some.injEq] at ha
    subst ha
    simp only [Option.some.injEq] at ht'
    subst ht'
    exact ⟨h2, Int.le_refl _⟩
  · show o.version = _
    rw [hv]
    unfold mint
    simp only [ackCall]
    cases o.audience <;> rfl

/-- the update call is `step … (.update …)` on the stored item -/
theorem step_update_eq (H : Hash) (t : Int) (s : Store) (p cur : Pub) (mask : UMask) (v : String)
    (hid : p.id ≠ "") (hl : lookup p.id s = some cur) :
    step H t s (.update p mask v) =
      match (updateCall H p mask v).check cur with
      | some _ => (s, .failedPrecondition)
      | none => (set p.id ((updateCall H p mask v).apply cur t) s, .ok) := by
  simp only [step, hid, if_false, hl, updateCall]
  split
  · rfl
  · cases mask <;> rfl

/-- the acknowledge call is `step … (.ack …)` on the stored item -/
theorem step_ack_eq (H : Hash) (t : Int) (s : Store) (id v : String) (cur : Pub) (receipt : Int)
    (reason : String) (allow : Bool) (hid : id ≠ "") (hv : v ≠ "") (hl : lookup id s = some cur) :
    step H t s (.ack id v receipt reason allow) =
      match (ackCall v receipt reason allow).check cur with
      | some .aborted => (s, .aborted)
      | some (.already _) => (s, .ok)
      | some .failedPrecondition => (s, .failedPrecondition)
      | none => (set id ((ackCall v receipt reason allow).apply cur t) s, .ok) := by
  simp only [step, hid, hv, or_self, if_false, hl, ackCall]
  by_cases h1 : cur.version ≠ v
  · simp [h1]
  · by_cases h2 : acked cur = true
    · cases allow <;> simp [h1, h2]
    · simp [h1, h2]

/-- a request of the publication API on an existing publication -/
inductive PReq where
  | update (p : Pub) (mask : UMask) (version : String)
  | ack (version : String) (receipt : Int) (reason : String) (allowAck : Bool)

def PReq.call (H : Hash) : PReq → PCall
  | .update p m v => updateCall H p m v
  | .ack v r reason a => ackCall v r reason a

theorem PReq.call_ok (H : Hash) (r : PReq) : (r.call H).OK (PubOK H) := by
  cases r with
  | update p m v => exact updateCall_ok H p m v
  | ack v r reason a => exact ackCall_ok H v r reason a

end ScVerif.C20.Publication
