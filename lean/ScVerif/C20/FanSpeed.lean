/-!
# C20 / FanSpeed — executable model of `pkg/trait/fanspeedpb/{model.go,model_server.go}`

`ModelServer.UpdateFanSpeed` → `Model.UpdateFanSpeed`: `validateUpdate`, the relative interceptor
(adds the old percentage and index to the written ones), the field-mask merge (the server passes the
request's update_mask since the fix) and `DeriveValues` (preset > index > percentage).

Percentages are values of an arbitrary type `α` with decidable equality, and the relative update adds
them with an arbitrary function `add : α → α → α`: the code only ever compares percentages for equality
and adds them, so every theorem holds for float32 with its rounding addition as well as for exact
rationals (the one thing excluded is NaN, whose `==` is not reflexive).  The driver instantiates
`α := Rat`, `add := (· + ·)`.  The relative index sum saturates at the int32 limits.
-/
namespace ScVerif.C20.FanSpeed

/-- the relative index sum is computed in 64 bits and kept inside int32 (since the fix; it wrapped) -/
def sat32 (x : Int) : Int := if x > 2147483647 then 2147483647 else if x < -2147483648 then -2147483648 else x

structure Preset (α : Type) where
  name : String
  pct : α
  deriving DecidableEq

structure Fan (α : Type) where
  pct : α
  preset : String
  index : Int
  direction : Int
  deriving DecidableEq

inductive Field where
  | pct | preset | index | direction
  deriving DecidableEq

variable {α : Type} [DecidableEq α]

/-- `FieldUpdater.Merge` -/
def merge (mask : Option (List Field)) (cur src : Fan α) : Fan α :=
  match mask with
  | none => src
  | some fs =>
    { pct := if Field.pct ∈ fs then src.pct else cur.pct
      preset := if Field.preset ∈ fs then src.preset else cur.preset
      index := if Field.index ∈ fs then src.index else cur.index
      direction := if Field.direction ∈ fs then src.direction else cur.direction }

/-- first index whose preset satisfies `p` (the `for i, preset := range m.presets … break` loops) -/
def findIdx (p : Preset α → Bool) : List (Preset α) → Option Nat
  | [] => none
  | x :: xs => if p x then some 0 else (findIdx p xs).map (· + 1)

/-- `DeriveValues`; `none` is the index-out-of-range panic of the index branch on an empty preset list. -/
def deriveValues (ps : List (Preset α)) (old new : Fan α) : Option (Fan α) :=
  if old.preset ≠ new.preset then
    match findIdx (fun p => p.name == new.preset) ps with
    | some i => some { new with index := i, pct := (ps[i]?.map (·.pct)).getD new.pct }
    | none => some new
  else if old.index ≠ new.index then
    let idx := if new.index ≥ ps.length then (ps.length : Int) - 1 else new.index
    let idx := if idx < 0 then 0 else idx
    match ps[idx.toNat]? with
    | some p => some { new with index := idx, preset := p.name, pct := p.pct }
    | none => none
  else if old.pct ≠ new.pct then
    match findIdx (fun p => p.pct == new.pct) ps with
    | some i => some { new with index := i, preset := (ps[i]?.map (·.name)).getD "" }
    | none => some { new with index := -1, preset := "" }
  else some new

inductive Outcome (α : Type) where
  | ok (v : Fan α)
  | invalidArgument
  | panic
  deriving DecidableEq

structure Request (α : Type) where
  src : Fan α
  relative : Bool
  mask : Option (List Field)

/-- the value handed to `DeriveValues`: relative interceptor, then the masked merge -/
def merged (add : α → α → α) (old : Fan α) (r : Request α) : Fan α :=
  let src := if r.relative then { r.src with pct := add r.src.pct old.pct, index := sat32 (r.src.index + old.index) } else r.src
  merge r.mask old src

def update (add : α → α → α) (ps : List (Preset α)) (old : Fan α) (r : Request α) : Outcome α :=
  if r.src.preset ≠ "" ∧ (findIdx (fun p => p.name == r.src.preset) ps).isNone then .invalidArgument
  else match deriveValues ps old (merged add old r) with
    | some v => .ok v
    | none => .panic

/-- state after a request (unchanged on error) -/
def step (add : α → α → α) (ps : List (Preset α)) (old : Fan α) (r : Request α) : Fan α :=
  match update add ps old r with
  | .ok v => v
  | _ => old

def run (add : α → α → α) (ps : List (Preset α)) (s : Fan α) (rs : List (Request α)) : Fan α :=
  rs.foldl (step add ps) s

end ScVerif.C20.FanSpeed
