/-!
# C20 / FanSpeed — executable model of `pkg/trait/fanspeedpb/{model.go,model_server.go}`

`ModelServer.UpdateFanSpeed` → `Model.UpdateFanSpeed`: `validateUpdate`, the relative interceptor
(adds the old percentage and index to the written ones), the field-mask merge (the server passes the
request's update_mask since the fix) and `DeriveValues` (preset > index > percentage).
Percentages are rationals (the harness uses quarter steps, exact in float32); the relative index sum
wraps as int32.
-/
namespace ScVerif.C20.FanSpeed

def wrap32 (x : Int) : Int := (x + 2147483648) % 4294967296 - 2147483648

structure Preset where
  name : String
  pct : Rat
  deriving DecidableEq

structure Fan where
  pct : Rat
  preset : String
  index : Int
  direction : Int
  deriving DecidableEq

inductive Field where
  | pct | preset | index | direction
  deriving DecidableEq

/-- `FieldUpdater.Merge` -/
def merge (mask : Option (List Field)) (cur src : Fan) : Fan :=
  match mask with
  | none => src
  | some fs =>
    { pct := if Field.pct ∈ fs then src.pct else cur.pct
      preset := if Field.preset ∈ fs then src.preset else cur.preset
      index := if Field.index ∈ fs then src.index else cur.index
      direction := if Field.direction ∈ fs then src.direction else cur.direction }

/-- first index whose preset satisfies `p` (the `for i, preset := range m.presets … break` loops) -/
def findIdx (p : Preset → Bool) : List Preset → Option Nat
  | [] => none
  | x :: xs => if p x then some 0 else (findIdx p xs).map (· + 1)

/-- `DeriveValues`; `none` is the index-out-of-range panic of the index branch on an empty preset list. -/
def deriveValues (ps : List Preset) (old new : Fan) : Option Fan :=
  if old.preset ≠ new.preset then
    match findIdx (fun p => p.name == new.preset) ps with
    | some i => some { new with index := i, pct := (ps[i]?.map (·.pct)).getD new.pct }
    | none => some new
  else if old.index ≠ new.index then
    let idx := if new.index ≥ ps.length then (ps.length : Int) - 1 else new.index
    let idx := if idx < 0 then 0 else idx
    match ps[idx.toNat]? with
    | some p => some { new with index := idx, preset := p.name, pct := p.pct }
    | none => none
  else if old.pct ≠ new.pct then
    match findIdx (fun p => p.pct == new.pct) ps with
    | some i => some { new with index := i, preset := (ps[i]?.map (·.name)).getD "" }
    | none => some { new with index := -1, preset := "" }
  else some new

inductive Outcome where
  | ok (v : Fan)
  | invalidArgument
  | panic
  deriving DecidableEq

structure Request where
  src : Fan
  relative : Bool
  mask : Option (List Field)

/-- the value handed to `DeriveValues`: relative interceptor, then the masked merge -/
def merged (old : Fan) (r : Request) : Fan :=
  let src := if r.relative then { r.src with pct := r.src.pct + old.pct, index := wrap32 (r.src.index + old.index) } else r.src
  merge r.mask old src

def update (ps : List Preset) (old : Fan) (r : Request) : Outcome :=
  if r.src.preset ≠ "" ∧ (findIdx (fun p => p.name == r.src.preset) ps).isNone then .invalidArgument
  else match deriveValues ps old (merged old r) with
    | some v => .ok v
    | none => .panic

/-- state after a request (unchanged on error) -/
def step (ps : List Preset) (old : Fan) (r : Request) : Fan :=
  match update ps old r with
  | .ok v => v
  | _ => old

def run (ps : List Preset) (s : Fan) (rs : List Request) : Fan := rs.foldl (step ps) s

end ScVerif.C20.FanSpeed
