/-!
# C20 / Meter — executable model of `pkg/trait/meterpb/model.go`

`NewModel` (keeps a configured reading, fills in missing times — since the fix), `RecordReading`
(write under the mask `usage, end_time` — since the fix; the mask-less write cleared start_time) and
`Reset` (mask `usage, start_time, end_time`).  The clock is injected: every operation carries the
value of `Clock().Now()`.  `usage` is passed through untouched, so it is an opaque token.
-/
namespace ScVerif.C20.Meter

structure Reading where
  usage : String
  start : Option Int
  stop : Option Int        -- end_time
  deriving DecidableEq

inductive Field where
  | usage | start | stop
  deriving DecidableEq

/-- `FieldUpdater.Merge` (see EnterLeave.merge) -/
def merge (mask : Option (List Field)) (cur src : Reading) : Reading :=
  match mask with
  | none => src
  | some fs =>
    { usage := if Field.usage ∈ fs then src.usage else cur.usage
      start := if Field.start ∈ fs then src.start else cur.start
      stop := if Field.stop ∈ fs then src.stop else cur.stop }

/-- `NewModel(WithInitialValue(init))` at clock value `now`: the interceptor merges the stored value
into the (empty) written message, then fills the absent times; the write has no mask. -/
def newModel (init : Reading) (now : Int) : Reading :=
  let v : Reading := { usage := init.usage, start := init.start, stop := init.stop }
  let v := if v.start.isNone then { v with start := some now } else v
  let v := if v.stop.isNone then { v with stop := some now } else v
  merge none init v

/-- `RecordReading(val)` at clock value `now` -/
def recordReading (cur : Reading) (val : String) (now : Int) : Reading :=
  merge (some [.usage, .stop]) cur { usage := val, start := none, stop := some now }

/-- `Reset()` at clock value `now` -/
def reset (cur : Reading) (now : Int) : Reading :=
  merge (some [.usage, .start, .stop]) cur { usage := "0", start := some now, stop := some now }

inductive Op where
  | record (val : String) (now : Int)
  | reset (now : Int)

def Op.time : Op → Int
  | .record _ t => t
  | .reset t => t

def step (cur : Reading) : Op → Reading
  | .record v t => recordReading cur v t
  | .reset t => reset cur t

def run (cur : Reading) (ops : List Op) : Reading := ops.foldl step cur

end ScVerif.C20.Meter
