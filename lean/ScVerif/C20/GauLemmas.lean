import ScVerif.C20.Gau
/-!
# C20 — the generic interleaving theorem (lemmas)

For a time-indexed invariant `I s now` that is monotone in `now` (a bound "not in the future" stays true
as time passes): if every call either reads the clock inside the transaction and its sequential effect
preserves `I` **at the instant it read** (`I o t → I (apply o t) t`), or reads the clock early but
establishes `I` whatever it overwrites (`I (apply o t) t` for all `o`), then `I store now` holds after
every interleaving of any number of threads running any programs of such calls, with any amount of time
passing between steps; and every value a call returns satisfied `I` at some instant.

The reason is local: the value a late call read satisfied `I` when it was read, hence (monotonicity) at
the later instant `t` the call read the clock; compare-and-commit only writes when the store still
equals the value read, so what is written is the sequential effect on the *current* store at an instant
`t ≤ now`.  A call that read the clock early has no such link between `t` and the value it later reads.
-/
namespace ScVerif.C20.Gau

variable {σ ε : Type}

def Call.OK (I : σ → Int → Prop) (c : Call σ ε) : Prop :=
  (c.early = false → ∀ o t, I o t → c.check o = none → I (c.apply o t) t) ∧
  (c.early = true → ∀ o t, I (c.apply o t) t)

def PhaseInv (I : σ → Int → Prop) (c : Call σ ε) (now : Int) : Phase σ → Prop
  | .start => True
  | .haveOld o => I o now
  | .haveT t => t ≤ now ∧ c.early = true
  | .both o t => t ≤ now ∧ (c.early = false → I o t ∧ c.check o = none)
  | .ready o t => t ≤ now ∧ (c.early = false → I o t ∧ c.check o = none)

def ResOk (I : σ → Int → Prop) : Res σ ε → Prop
  | .ok r => ∃ t, I r t
  | _ => True

structure ThreadInv (I : σ → Int → Prop) (now : Int) (th : Thread σ ε) : Prop where
  cur : ∀ c p, th.cur = some (c, p) → c.OK I ∧ PhaseInv I c now p
  todo : ∀ c ∈ th.todo, c.OK I
  results : ∀ r ∈ th.results, ResOk I r

structure GInv (I : σ → Int → Prop) (c : Cfg σ ε) : Prop where
  store : I c.store c.now
  threads : ∀ th ∈ c.threads, ThreadInv I c.now th

abbrev Mono (I : σ → Int → Prop) : Prop := ∀ s t t', t ≤ t' → I s t → I s t'

theorem PhaseInv.mono {I : σ → Int → Prop} (hm : Mono I) {c : Call σ ε} {now : Int} {p : Phase σ}
    (h : PhaseInv I c now p) (d : Nat) : PhaseInv I c (now + d) p := by
  cases p with
  | start => trivial
  | haveOld o => exact hm _ _ _ (by omega) h
  | haveT t => exact ⟨by have := h.1; omega, h.2⟩
  | both o t => exact ⟨by have := h.1; omega, h.2⟩
  | ready o t => exact ⟨by have := h.1; omega, h.2⟩

theorem ThreadInv.mono {I : σ → Int → Prop} (hm : Mono I) {now : Int} {th : Thread σ ε}
    (h : ThreadInv I now th) (d : Nat) : ThreadInv I (now + d) th :=
  ⟨fun c p hc => ⟨(h.cur c p hc).1, PhaseInv.mono hm (h.cur c p hc).2 d⟩, h.todo, h.results⟩

theorem callStep_inv [DecidableEq σ] {I : σ → Int → Prop} (hm : Mono I) (store : σ) (now : Int) (c : Call σ ε)
    (p : Phase σ) (hc : c.OK I) (hs : I store now) (hp : PhaseInv I c now p) :
    I (callStep store now c p).1 now ∧ PhaseInv I c now (callStep store now c p).2.1 ∧
    ∀ r, (callStep store now c p).2.2 = some r → ResOk I r := by
  cases p with
  | start =>
    simp only [callStep]
    split
    · next he => exact ⟨hs, ⟨Int.le_refl _, he⟩, by simp⟩
    · exact ⟨hs, hs, by simp⟩
  | haveOld o =>
    simp only [callStep]
    cases hck : c.check o with
    | some e => exact ⟨hs, trivial, fun r hr => by simp only [Option.some.injEq] at hr; subst hr; trivial⟩
    | none =>
      simp only
      split
      · exact ⟨hs, ⟨Int.le_refl _, fun _ => ⟨hp, hck⟩⟩, by simp⟩
      · exact ⟨hs, ⟨Int.le_refl _, fun _ => ⟨hp, hck⟩⟩, by simp⟩
  | haveT t => exact ⟨hs, ⟨hp.1, fun he => by simp [hp.2] at he⟩, by simp [callStep]⟩
  | both o t =>
    simp only [callStep]
    split
    · cases hck : c.check o with
      | some e => exact ⟨hs, trivial, fun r hr => by simp only [Option.some.injEq] at hr; subst hr; trivial⟩
      | none => exact ⟨hs, hp, by simp⟩
    · exact ⟨hs, hp, by simp⟩
  | ready o t =>
    simp only [callStep]
    have hnew : I (c.apply o t) t := by
      cases he : c.early with
      | false => exact hc.1 he o t (hp.2 he).1 (hp.2 he).2
      | true => exact hc.2 he o t
    split
    · refine ⟨hm _ _ _ hp.1 hnew, trivial, fun r hr => ?_⟩
      simp only [Option.some.injEq] at hr
      subst hr
      exact ⟨t, hnew⟩
    · split
      · exact ⟨hs, trivial, by simp⟩
      · exact ⟨hs, trivial, fun r hr => by simp only [Option.some.injEq] at hr; subst hr; trivial⟩

theorem threadGo_inv [DecidableEq σ] {I : σ → Int → Prop} (hm : Mono I) (store : σ) (now : Int)
    (results : List (Res σ ε)) (c : Call σ ε) (p : Phase σ) (todo : List (Call σ ε))
    (hs : I store now) (hc : c.OK I) (hp : PhaseInv I c now p) (htodo : ∀ c' ∈ todo, c'.OK I)
    (hres : ∀ r ∈ results, ResOk I r) :
    I (threadGo store now results c p todo).1 now ∧
    ThreadInv I now (threadGo store now results c p todo).2 := by
  have h := callStep_inv hm store now c p hc hs hp
  unfold threadGo
  generalize callStep store now c p = out at h
  obtain ⟨s', p', r⟩ := out
  cases r with
  | none =>
    refine ⟨h.1, ⟨fun c2 p2 heq => ?_, htodo, hres⟩⟩
    simp only [Option.some.injEq, Prod.mk.injEq] at heq
    obtain ⟨rfl, rfl⟩ := heq
    exact ⟨hc, h.2.1⟩
  | some r =>
    refine ⟨h.1, ⟨fun c2 p2 heq => by simp at heq, htodo, fun r' hr' => ?_⟩⟩
    rcases List.mem_cons.mp hr' with rfl | hr'
    · exact h.2.2 _ rfl
    · exact hres _ hr'

theorem threadStep_inv [DecidableEq σ] {I : σ → Int → Prop} (hm : Mono I) (store : σ) (now : Int) (th : Thread σ ε)
    (hs : I store now) (ht : ThreadInv I now th) :
    I (threadStep store now th).1 now ∧ ThreadInv I now (threadStep store now th).2 := by
  obtain ⟨cur, todo, results⟩ := th
  cases cur with
  | some cp =>
    obtain ⟨c, p⟩ := cp
    have := ht.cur c p rfl
    exact threadGo_inv hm store now results c p todo hs this.1 this.2 ht.todo ht.results
  | none =>
    cases todo with
    | nil => exact ⟨hs, ht⟩
    | cons c rest =>
      exact threadGo_inv hm store now results c .start rest hs (ht.todo c (List.mem_cons_self ..)) trivial
        (fun c' hc' => ht.todo c' (List.mem_cons_of_mem _ hc')) ht.results

theorem step_inv [DecidableEq σ] {I : σ → Int → Prop} (hm : Mono I) (c : Cfg σ ε) (ev : Ev) (h : GInv I c) :
    GInv I (c.step ev) := by
  cases ev with
  | tick d =>
    exact ⟨show I c.store (c.now + d) from hm _ _ _ (by omega) h.store,
      fun th hth => ThreadInv.mono hm (h.threads th hth) d⟩
  | step i =>
    simp only [Cfg.step]
    cases hth : c.threads[i]? with
    | none => exact h
    | some th =>
      have hmem : th ∈ c.threads := List.mem_of_getElem? hth
      have := threadStep_inv hm c.store c.now th h.store (h.threads th hmem)
      refine ⟨this.1, fun th' hth' => ?_⟩
      rcases List.mem_or_eq_of_mem_set hth' with h' | rfl
      · exact h.threads th' h'
      · exact this.2

theorem run_inv [DecidableEq σ] {I : σ → Int → Prop} (hm : Mono I) (sched : List Ev) :
    ∀ c : Cfg σ ε, GInv I c → GInv I (c.run sched) := by
  induction sched with
  | nil => intro c h; exact h
  | cons ev rest ih => intro c h; exact ih _ (step_inv hm c ev h)

theorem ofCalls_inv (I : σ → Int → Prop) (now : Int) (cs : List (Call σ ε)) (h : ∀ c ∈ cs, c.OK I) :
    ThreadInv I now (Thread.ofCalls cs) :=
  ⟨fun _ _ he => by simp [Thread.ofCalls] at he, h, fun _ hr => by simp [Thread.ofCalls] at hr⟩

/-- GInv of an initial configuration: threads that have not started, programs of OK calls -/
theorem init_inv (I : σ → Int → Prop) (store : σ) (now : Int) (progs : List (List (Call σ ε)))
    (h0 : I store now) (hok : ∀ cs ∈ progs, ∀ c ∈ cs, c.OK I) :
    GInv I ⟨store, now, progs.map Thread.ofCalls⟩ :=
  ⟨h0, fun th hth => by
    obtain ⟨cs, hcs, rfl⟩ := List.mem_map.mp hth
    exact ofCalls_inv I now cs (hok cs hcs)⟩

/-- a thread step either leaves the store alone (and returns no new value), or it is the commit of the
thread's current call: the store equalled the value the call had read, and the store becomes — and the
call returns — the call's effect on the *current* store at the instant the call read from the clock -/
theorem threadStep_seq [DecidableEq σ] (store : σ) (now : Int) (th : Thread σ ε) :
    ((threadStep store now th).1 = store ∧
      ∀ r, (threadStep store now th).2.results = .ok r :: th.results → False) ∨
    ∃ cl t, th.cur = some (cl, .ready store t) ∧
      (threadStep store now th).1 = cl.apply store t ∧
      (threadStep store now th).2.results = .ok (cl.apply store t) :: th.results := by
  have noNew : ∀ (rs : List (Res σ ε)) (r : σ), rs = .ok r :: rs → False :=
    fun rs r h => absurd (congrArg List.length h) (by simp)
  have errNew : ∀ (rs : List (Res σ ε)) (e : ε) (r : σ), (Res.err e :: rs : List (Res σ ε)) = .ok r :: rs → False :=
    fun rs e r h => by simp at h
  have abNew : ∀ (rs : List (Res σ ε)) (r : σ), (Res.aborted :: rs : List (Res σ ε)) = .ok r :: rs → False :=
    fun rs r h => by simp at h
  have go : ∀ (c : Call σ ε) (p : Phase σ) (todo : List (Call σ ε)) (results : List (Res σ ε)),
      ((threadGo store now results c p todo).1 = store ∧
        ∀ r, (threadGo store now results c p todo).2.results = .ok r :: results → False) ∨
      ∃ t, p = .ready store t ∧ (threadGo store now results c p todo).1 = c.apply store t ∧
        (threadGo store now results c p todo).2.results = .ok (c.apply store t) :: results := by
    intro c p todo results
    cases p with
    | start =>
      left
      by_cases he : c.early = true <;> simp [threadGo, callStep, he]
    | haveOld o =>
      left
      cases hck : c.check o <;> by_cases htm : c.timed = true <;> simp [threadGo, callStep, hck, htm]
    | haveT t => left; simp [threadGo, callStep]
    | both o t =>
      left
      by_cases he : c.early = true
      · cases hck : c.check o <;> simp [threadGo, callStep, he, hck]
      · simp [threadGo, callStep, he]
    | ready o t =>
      by_cases heq : store = o
      · right
        subst heq
        exact ⟨t, rfl, by simp [threadGo, callStep], by simp [threadGo, callStep]⟩
      · left
        by_cases hr : c.retry = true <;> simp [threadGo, callStep, heq, hr]
  obtain ⟨cur, todo, results⟩ := th
  cases cur with
  | none =>
    cases todo with
    | nil => left; exact ⟨rfl, fun r hr => noNew _ r hr⟩
    | cons c rest =>
      rcases go c .start rest results with h | ⟨t, hp, _⟩
      · left; exact h
      · cases hp
  | some cp =>
    obtain ⟨c, p⟩ := cp
    rcases go c p todo results with h | ⟨t, hp, h1, h2⟩
    · left; exact h
    · right; subst hp; exact ⟨c, t, rfl, h1, h2⟩

end ScVerif.C20.Gau
