import ScVerif.C20.Vending
import ScVerif.C20.VendingLemmas
/-!
# C20 / Vending — the `DispenseInstantly` interceptor as written, partial writes included

`Vending.dispenseStock` describes a dispense as one all-or-nothing function.  The code is not written
that way (`pkg/trait/vendingpb/model.go`): `updateStock(quantity, old, new)` assigns `new.Used` *before*
it attempts the conversion for `Remaining`, so when the second conversion fails `new` is already half
written; the `InterceptBefore` callback then undoes this with `proto.Reset(new); proto.Merge(new, old)`,
and the (mask-less) write stores `new` in either case.  This file models exactly that — the written
message `{Consumable: name}` (no stock fields), the two assignments in order, `proto.Merge`'s proto3
rule that an unpopulated (zero) scalar of the source does not overwrite — and proves it equal to the
all-or-nothing description (`dispenseCode_eq`), so every theorem about `dispense` is a theorem about
the code's shape; and that the `proto.Reset` is necessary (`intercept` with `resets := false`).
-/
namespace ScVerif.C20.Vending

/-- `proto.Merge` on an optional `Consumable.Quantity` field: absent source ⇒ untouched; absent
destination ⇒ a copy; otherwise field by field, a zero unit / zero amount of the source is skipped -/
def mergeQty (dst src : Option Qty) : Option Qty :=
  match src, dst with
  | none, d => d
  | some s, none => some s
  | some s, some d => some ⟨if s.unit = 0 then d.unit else s.unit, if s.amount = 0 then d.amount else s.amount⟩

/-- `proto.Merge(dst, src)` on `Consumable.Stock` (the consumable name is the same on both sides) -/
def mergeStock (dst src : Stock) : Stock :=
  { used := mergeQty dst.used src.used, remaining := mergeQty dst.remaining src.remaining,
    lastDispensed := mergeQty dst.lastDispensed src.lastDispensed,
    dispensing := src.dispensing || dst.dispensing }

/-- the message after `proto.Reset`, and also the stock fields of the written `{Consumable: name}` -/
def emptyStock : Stock := { used := none, remaining := none, lastDispensed := none, dispensing := false }

/-- second half of `updateStock`: `dst` as far as written, and whether it succeeded -/
def updateRemaining (q : Qty) (src dst : Stock) : Stock × Bool :=
  match src.remaining with
  | none => (dst, true)
  | some r =>
    match convert q.amount q.unit r.unit with
    | none => (dst, false)
    | some d =>
      let amount := r.amount - d
      ({ dst with remaining := some ⟨r.unit, if amount < 0 then 0 else amount⟩ }, true)

/-- `updateStock(quantity, src, dst)` -/
def updateStockCode (q : Qty) (src dst : Stock) : Stock × Bool :=
  match src.used with
  | none => updateRemaining q src dst
  | some u =>
    match convert q.amount q.unit u.unit with
    | none => (dst, false)
    | some d => updateRemaining q src { dst with used := some ⟨u.unit, u.amount + d⟩ }

/-- the `InterceptBefore` callback of `DispenseInstantly`; `resets` = the error path starts with
`proto.Reset(newVal)` (it does) -/
def intercept (resets : Bool) (q : Qty) (old new : Stock) : Stock × Bool :=
  match updateStockCode q old new with
  | (dst, false) => (mergeStock (if resets then emptyStock else dst) old, false)
  | (dst, true) => ({ dst with lastDispensed := some q, dispensing := false }, true)

/-- `Model.DispenseInstantly` as written: the write has no update mask, so the stored stock is replaced
by the intercepted message on the error path too -/
def dispenseCode (inv : Inventory) (name : String) (q : Qty) : Inventory × Outcome :=
  if name = "" then (inv, .invalidArgument)
  else match lookup name inv with
    | none => (inv, .notFound)
    | some st =>
      match intercept true q st emptyStock with
      | (newVal, true) => (set name newVal inv, .ok newVal)
      | (newVal, false) => (set name newVal inv, .conversionError)

def dispenseReqCode (inv : Inventory) (name : String) (q : Option Qty) : Inventory × Outcome :=
  if name = "" then (inv, .invalidArgument)
  else match q with
    | none => (inv, .invalidArgument)
    | some q => dispenseCode inv name q

theorem mergeQty_none (q : Option Qty) : mergeQty none q = q := by
  cases q <;> rfl

theorem mergeStock_empty (st : Stock) : mergeStock emptyStock st = st := by
  obtain ⟨u, r, l, d⟩ := st
  simp [mergeStock, emptyStock, mergeQty_none]

theorem set_same {n : String} {st : Stock} : ∀ {inv : Inventory}, lookup n inv = some st → set n st inv = inv
  | [], h => by simp [lookup] at h
  | (k, w) :: rest, h => by
    by_cases hk : k = n
    · simp [lookup, hk] at h; simp [set, hk, h]
    · simp [lookup, hk] at h; simp [set, hk, set_same h]

/-- the interceptor as written computes the all-or-nothing function, and on the error path gives back
exactly the old value, whatever `updateStock` had already written into the new one -/
theorem intercept_eq (q : Qty) (old : Stock) :
    intercept true q old emptyStock =
      match dispenseStock q old with
      | some st' => (st', true)
      | none => (old, false) := by
  obtain ⟨u, r, l, d⟩ := old
  cases u with
  | none =>
    cases r with
    | none => simp [intercept, updateStockCode, updateRemaining, dispenseStock, emptyStock]
    | some r =>
      cases hc : convert q.amount q.unit r.unit <;>
        simp [intercept, updateStockCode, updateRemaining, dispenseStock, emptyStock, hc, mergeStock, mergeQty_none]
  | some u =>
    cases hu : convert q.amount q.unit u.unit with
    | none => simp [intercept, updateStockCode, dispenseStock, emptyStock, hu, mergeStock, mergeQty_none]
    | some du =>
      cases r with
      | none => simp [intercept, updateStockCode, updateRemaining, dispenseStock, emptyStock, hu]
      | some r =>
        cases hc : convert q.amount q.unit r.unit <;>
          simp [intercept, updateStockCode, updateRemaining, dispenseStock, emptyStock, hu, hc, mergeStock, mergeQty_none]

theorem dispenseCode_eq (inv : Inventory) (name : String) (q : Qty) :
    dispenseCode inv name q = dispense inv name q := by
  unfold dispenseCode dispense
  by_cases hn : name = ""
  · simp [hn]
  · simp only [hn, if_false]
    cases hl : lookup name inv with
    | none => rfl
    | some st =>
      simp only [intercept_eq]
      cases hd : dispenseStock q st with
      | none => simp [set_same hl]
      | some st' => simp

theorem dispenseReqCode_eq (inv : Inventory) (name : String) (q : Option Qty) :
    dispenseReqCode inv name q = dispenseReq inv name q := by
  unfold dispenseReqCode dispenseReq
  cases q <;> simp [dispenseCode_eq]

end ScVerif.C20.Vending
