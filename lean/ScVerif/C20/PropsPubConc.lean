import ScVerif.C20.PubConcLemmas
import ScVerif.C20.GauLin
import ScVerif.C20.GauChecked
/-!
# C20 — property theorems, Publication under concurrent callers

Property (fixed text, publication clause): "publication version and acknowledgement state stay
mutually consistent".  Full-strength statement for overlapping calls on one publication: for every
hash `H`, **any number of threads, any programs of `UpdatePublication` (any mask, any version
precondition) and `AcknowledgePublication` (any receipt, with or without allow_acknowledged) and any
interleaving of their atomic steps with any time passing in between**, the stored publication's version
is `H` of its own content, it has a publish time, and a recorded receipt time lies between that publish
time and now — no version ever carries an acknowledgement older than itself; every publication a call
returns satisfied the same; every commit is the sequential `step` on the stored item.
Instances of the generic interleaving theorem (`GauLemmas.run_inv`).
-/
namespace ScVerif.C20.Publication
open Gau

/-- **version = H(content) and publish ≤ receipt ≤ now, after every interleaving.** -/
theorem C20_pub_conc_consistent (H : Hash) (cur : Pub) (now : Int) (progs : List (List PReq))
    (h0 : ReceiptOK now cur ∧ cur.version = mint H cur) (sched : List Ev) :
    let c := Cfg.run ⟨cur, now, (progs.map (·.map (PReq.call H))).map Thread.ofCalls⟩ sched
    ReceiptOK c.now c.store ∧ c.store.version = mint H c.store :=
  (run_inv (PubOK.mono H) sched _ (init_inv (PubOK H) cur now _ h0 (fun cs hcs c hc => by
    obtain ⟨p, _, rfl⟩ := List.mem_map.mp hcs
    obtain ⟨r, _, rfl⟩ := List.mem_map.mp hc
    exact r.call_ok H))).store

/-- **every publication a call returns** had its version = H(content) and its receipt time, if any,
not before its publish time. -/
theorem C20_pub_conc_results (H : Hash) (cur : Pub) (now : Int) (progs : List (List PReq))
    (h0 : ReceiptOK now cur ∧ cur.version = mint H cur) (sched : List Ev) :
    ∀ th ∈ (Cfg.run ⟨cur, now, (progs.map (·.map (PReq.call H))).map Thread.ofCalls⟩ sched).threads,
      ∀ r, Res.ok r ∈ th.results → (∃ t, ReceiptOK t r) ∧ r.version = mint H r := by
  have hg := run_inv (PubOK.mono H) sched _ (init_inv (PubOK H) cur now
    (progs.map (·.map (PReq.call H))) h0 (fun cs hcs c hc => by
      obtain ⟨p, _, rfl⟩ := List.mem_map.mp hcs
      obtain ⟨r, _, rfl⟩ := List.mem_map.mp hc
      exact r.call_ok H))
  intro th hth r hr
  obtain ⟨t, h1, h2⟩ := (hg.threads th hth).results _ hr
  exact ⟨⟨t, h1⟩, h2⟩

/-- **every commit is the sequential operation on the stored publication; nothing else writes.** -/
theorem C20_pub_conc_commit_is_sequential (store : Pub) (now : Int) (th : Thread Pub PErr) :
    ((threadStep store now th).1 = store ∧
      ∀ r, (threadStep store now th).2.results ≠ .ok r :: th.results) ∨
    ∃ cl t, th.cur = some (cl, .ready store t) ∧
      (threadStep store now th).1 = cl.apply store t ∧
      (threadStep store now th).2.results = .ok (cl.apply store t) :: th.results := by
  rcases threadStep_seq store now th with h | h
  · left; exact ⟨h.1, fun r hr => h.2 r hr⟩
  · right; exact h

/-- … and the calls' checks and effects are those of the sequential model's `step` on a store that
holds the publication (so the sequential theorems describe each committed or refused concurrent call). -/
theorem C20_pub_conc_calls_are_steps (H : Hash) (t : Int) (s : Store) (cur : Pub) :
    (∀ (p : Pub) (mask : UMask) (v : String), p.id ≠ "" → lookup p.id s = some cur →
      step H t s (.update p mask v) =
        match (updateCall H p mask v).check cur with
        | some _ => (s, .failedPrecondition)
        | none => (set p.id ((updateCall H p mask v).apply cur t) s, .ok)) ∧
    (∀ (id v : String) (receipt : Int) (reason : String) (allow : Bool), id ≠ "" → v ≠ "" →
      lookup id s = some cur →
      step H t s (.ack id v receipt reason allow) =
        match (ackCall v receipt reason allow).check cur with
        | some .aborted => (s, .aborted)
        | some (.already _) => (s, .ok)
        | some .failedPrecondition => (s, .failedPrecondition)
        | none => (set id ((ackCall v receipt reason allow).apply cur t) s, .ok)) :=
  ⟨fun p mask v hid hl => step_update_eq H t s p cur mask v hid hl,
   fun id v receipt reason allow hid hv hl => step_ack_eq H t s id v cur receipt reason allow hid hv hl⟩

/-- **The version / acknowledge protocol holds at the commit, under every interleaving**: at every point of
every interleaving, a step of thread `i` either leaves the stored publication alone, or it is the commit of
an `UpdatePublication` whose version precondition (if it names one) is the version stored *at that moment*
— and the new publication is the sequential update of exactly that stored publication — or the commit of an
`AcknowledgePublication` that names the version stored at that moment, which carries no ACCEPTED / REJECTED
receipt yet.  No conditional write is ever applied on top of a version it did not name, whatever other
calls ran between its read and its commit. -/
theorem C20_pub_conc_version_protocol (H : Hash) (cur : Pub) (now : Int) (progs : List (List PReq))
    (sched : List Ev) (i : Nat) :
    let c := Cfg.run ⟨cur, now, (progs.map (·.map (PReq.call H))).map Thread.ofCalls⟩ sched
    (c.step (.step i)).store = c.store ∨
    (∃ t p m v, (v = "" ∨ c.store.version = v) ∧
        (c.step (.step i)).store = computed H t (mergeUpdate m c.store p)) ∨
    (∃ t v r reason a, c.store.version = v ∧ acked c.store = false ∧
        (c.step (.step i)).store = (ackCall v r reason a).apply c.store t) := by
  intro c
  have h0 : (c.step (.step i)).store = c.store ∨
      ∃ th cl t, c.threads[i]? = some th ∧ th.cur = some (cl, .ready c.store t) ∧
        cl.check c.store = none ∧ (c.step (.step i)).store = cl.apply c.store t :=
    run_commit_checked cur now (progs.map (·.map (PReq.call H))) sched i
  have hcalls : ∀ x ∈ c.calls, ∃ cs ∈ progs.map (·.map (PReq.call H)), x ∈ cs :=
    fun x hx => init_calls cur now _ x (run_calls sched _ x hx)
  clear_value c
  rcases h0 with h | ⟨th, cl, t, hth, hcur, hck, hst⟩
  · left; exact h
  · right
    have hmem : th ∈ c.threads := List.mem_of_getElem? hth
    have hcl : cl ∈ c.calls := mem_calls_of_mem hmem (by simp [Thread.calls, hcur])
    obtain ⟨cs, hcs, hx⟩ := hcalls cl hcl
    obtain ⟨prog, _, rfl⟩ := List.mem_map.mp hcs
    obtain ⟨req, _, rfl⟩ := List.mem_map.mp hx
    cases req with
    | update p m v =>
      left
      refine ⟨t, p, m, v, ?_, hst⟩
      simp only [PReq.call, updateCall] at hck
      by_cases hv : v = ""
      · left; exact hv
      · right
        by_cases hne : c.store.version = v
        · exact hne
        · simp [hv, hne] at hck
    | ack v r reason a =>
      right
      refine ⟨t, v, r, reason, a, ?_, ?_, hst⟩
      · simp only [PReq.call, ackCall] at hck
        by_cases hne : c.store.version = v
        · exact hne
        · simp [hne] at hck
      · simp only [PReq.call, ackCall] at hck
        by_cases hne : c.store.version = v
        · cases hacked : acked c.store with
          | false => rfl
          | true => cases a <;> simp [hne, hacked] at hck
        · simp [hne] at hck

/-- **acknowledged at most once, whatever the number of concurrent acknowledgers**: any number of threads,
any programs of `AcknowledgePublication` calls with an ACCEPTED / REJECTED receipt (any versions, with or
without allow_acknowledged), any schedule: at most ONE of all these calls ever commits (returns a newly
acknowledged publication); all others are refused (or, with allow_acknowledged, answered with the already
acknowledged publication without a write). -/
theorem C20_pub_conc_acknowledged_once (cur : Pub) (now : Int)
    (progs : List (List (String × Int × String × Bool)))
    (hr : ∀ p ∈ progs, ∀ a ∈ p, a.2.1 = 2 ∨ a.2.1 = 3) (sched : List Ev) :
    (Cfg.run ⟨cur, now, (progs.map (·.map (fun a => ackCall a.1 a.2.1 a.2.2.1 a.2.2.2))).map Thread.ofCalls⟩
      sched).oks ≤ 1 := by
  obtain ⟨log, hmem, _, hleg, hcnt⟩ := linearizes_legal cur now
    (progs.map (·.map (fun a => ackCall a.1 a.2.1 a.2.2.1 a.2.2.2))) sched
  rw [hcnt]
  have hack : ∀ p ∈ log, ∃ v r reason a, (r = 2 ∨ r = 3) ∧ p.1 = ackCall v r reason a := by
    intro p hp
    obtain ⟨cs, hcs, hx⟩ := hmem p hp
    obtain ⟨prog, hprog, rfl⟩ := List.mem_map.mp hcs
    obtain ⟨a, ha, heq⟩ := List.mem_map.mp hx
    exact ⟨a.1, a.2.1, a.2.2.1, a.2.2.2, hr prog hprog a ha, heq.symm⟩
  match log, hleg, hack with
  | [], _, _ => simp
  | [_], _, _ => simp
  | p :: q :: rest, hleg, hack =>
    exfalso
    obtain ⟨v, r, reason, a, hr2, hp⟩ := hack p (by simp)
    obtain ⟨v', r', reason', a', _, hq⟩ := hack q (by simp)
    have hq2 := hleg.2.1
    rw [hp, hq] at hq2
    simp only [ackCall] at hq2
    have hacked : acked { cur with audience := some ⟨(cur.audience.map (·.name)).getD "", r, reason, some p.2⟩ } = true := by
      rcases hr2 with rfl | rfl <;> simp [acked]
    split at hq2
    · simp at hq2
    · simp at hq2

/-- … and one does commit: two threads acknowledge the same version at once (ACCEPTED / REJECTED), steps
alternating — exactly one of them is committed -/
example :
    (Cfg.run ⟨(⟨"p", "b", "", some ⟨"n", 1, "", none⟩, "p", some 100⟩ : Pub), 100,
      ([[("p", (2 : Int), "", false)], [("p", (3 : Int), "no", false)]].map
        (·.map (fun a => ackCall a.1 a.2.1 a.2.2.1 a.2.2.2))).map Thread.ofCalls⟩
      [.step 0, .step 1, .step 0, .step 1, .step 0, .step 1, .step 0, .step 1]).oks = 1 := by
  decide

/-- **why the version check must run inside the write**: the variant that checks the version by a separate
read before the write (here: a call that only checks, followed by an unconditional update) lets a rival's
update slip in between — the update meant for version "b" is committed on top of version "b2", both of the
caller's steps answer ok, and the rival's content is lost without notice.  (`H` = the body, so a version
tells the content.) -/
theorem C20_pub_conc_check_outside_fails :
    let H : Hash := fun _ b _ _ => b
    let p0 : Pub := ⟨"p", "b", "", none, "b", some 100⟩
    let precheck : PCall := ⟨false, fun cur => if cur.version ≠ "b" then some .failedPrecondition else none,
      fun cur _ => cur, false, false⟩
    let c := Cfg.run ⟨p0, 100, [[precheck, updateCall H ⟨"p", "a2", "", none, "", none⟩ .none ""],
        [updateCall H ⟨"p", "b2", "", none, "", none⟩ .none ""]].map Thread.ofCalls⟩
      [.step 0, .step 0, .step 0, .step 1, .step 1, .step 1, .step 1, .step 0, .step 0, .step 0]
    c.store.version = "b2" ∧ (c.step (.step 0)).store.version = "a2" ∧
      (c.step (.step 0)).threads.map (·.results.map (fun r => match r with | .ok _ => true | _ => false))
        = [[true, true], [true]] := by
  decide

/-- the hypothesis is reachable: what `CreatePublication` stores at time 100 -/
example : ReceiptOK 100 (computed (fun a _ _ _ => a) 100 ⟨"p", "b", "", some ⟨"n", 0, "", none⟩, "", none⟩) ∧
    (computed (fun a _ _ _ => a) 100 ⟨"p", "b", "", some ⟨"n", 0, "", none⟩, "", none⟩).version
      = mint (fun a _ _ _ => a) (computed (fun a _ _ _ => a) 100 ⟨"p", "b", "", some ⟨"n", 0, "", none⟩, "", none⟩) :=
  ⟨computed_receiptOK _ _ _, (computed_version _ _ _).1⟩

/-- an acknowledge overlapped by a same-content update (same version, new publish time 105) is refused
as a concurrent update; the store keeps the update's publication with the receipt reset -/
example :
    let H : Hash := fun a _ _ _ => a
    let p0 : Pub := computed H 100 ⟨"p", "b", "", some ⟨"n", 0, "", none⟩, "", none⟩
    let c := Cfg.run ⟨p0, 100, [[ackCall "p" 2 "" false], [updateCall H ⟨"p", "b", "", none, "", none⟩ (.fields true false .none) ""]].map Thread.ofCalls⟩
      [.step 0, .step 0, .tick 5, .step 1, .step 1, .step 1, .step 1, .step 0, .step 0]
    c.store = ⟨"p", "b", "", some ⟨"n", 1, "", none⟩, "p", some 105⟩ ∧
      c.threads.map (·.results) = [[.aborted], [.ok ⟨"p", "b", "", some ⟨"n", 1, "", none⟩, "p", some 105⟩]] := by
  decide

/-- **why the receipt time must be read inside the transaction**: an acknowledge that takes its
timestamp before the write (`early = true`) commits a receipt time (100) older than the publish time
(105) of the version it lands on, when a same-content update slips in between. -/
theorem C20_pub_conc_clock_outside_fails :
    ∃ (H : Hash) (cur : Pub) (progs : List (List PCall)) (sched : List Ev),
      (ReceiptOK 100 cur ∧ cur.version = mint H cur) ∧
      ¬ ∃ t', ReceiptOK t' (Cfg.run ⟨cur, 100, progs.map Thread.ofCalls⟩ sched).store := by
  refine ⟨fun a _ _ _ => a, ⟨"p", "b", "", some ⟨"n", 1, "", none⟩, "p", some 100⟩,
    [[{ ackCall "p" 2 "" false with early := true }],
     [updateCall (fun a _ _ _ => a) ⟨"p", "b", "", none, "", none⟩ (.fields true false .none) ""]],
    [.step 0, .tick 5, .step 1, .step 1, .step 1, .step 1, .step 0, .step 0, .step 0],
    ⟨⟨100, rfl, Int.le_refl _, fun a ha t ht => by simp at ha; subst ha; simp at ht⟩, rfl⟩, ?_⟩
  have h : (Cfg.run ⟨(⟨"p", "b", "", some ⟨"n", 1, "", none⟩, "p", some 100⟩ : Pub), 100,
      [[{ ackCall "p" 2 "" false with early := true }],
       [updateCall (fun a _ _ _ => a) ⟨"p", "b", "", none, "", none⟩ (.fields true false .none) ""]].map Thread.ofCalls⟩
      [.step 0, .tick 5, .step 1, .step 1, .step 1, .step 1, .step 0, .step 0, .step 0]).store
      = ⟨"p", "b", "", some ⟨"n", 2, "", some 100⟩, "p", some 105⟩ := by decide
  rw [h]
  rintro ⟨t', pt, hpt, _, hr⟩
  simp only [Option.some.injEq] at hpt
  subst hpt
  have := (hr _ rfl 100 rfl).1
  omega

end ScVerif.C20.Publication
