import ScVerif.C20.GauLin
/-!
# C20 — the log of committed calls has exactly one entry per successful result (lemmas)
-/
namespace ScVerif.C20.Gau

variable {σ ε : Type}

def Res.isOk : Res σ ε → Bool
  | .ok _ => true
  | _ => false

def Thread.oks (th : Thread σ ε) : Nat := th.results.countP Res.isOk
def Cfg.oks (c : Cfg σ ε) : Nat := (c.threads.map Thread.oks).sum

theorem sum_set {α : Type} (f : α → Nat) : ∀ (l : List α) (i : Nat) (a b : α), l[i]? = some a →
    ((l.set i b).map f).sum + f a = (l.map f).sum + f b
  | [], i, a, b, h => by simp at h
  | x :: xs, 0, a, b, h => by
    simp at h; subst h; simp only [List.set, List.map_cons, List.sum_cons]; omega
  | x :: xs, i + 1, a, b, h => by
    simp at h
    have := sum_set f xs i a b h
    simp only [List.set, List.map_cons, List.sum_cons]; omega

variable [DecidableEq σ]

theorem threadGo_oks (store : σ) (now : Int) (results : List (Res σ ε)) (c : Call σ ε) (p : Phase σ)
    (todo : List (Call σ ε)) :
    ((threadGo store now results c p todo).1 = store ∧
      (threadGo store now results c p todo).2.oks = results.countP Res.isOk) ∨
    (∃ t, p = .ready store t ∧ (threadGo store now results c p todo).1 = c.apply store t ∧
      (threadGo store now results c p todo).2.oks = results.countP Res.isOk + 1) := by
  cases p with
  | start =>
    left
    by_cases he : c.early = true <;> simp [threadGo, callStep, he, Thread.oks]
  | haveOld o =>
    left
    cases hck : c.check o <;> by_cases htm : c.timed = true <;>
      simp [threadGo, callStep, hck, htm, Thread.oks, Res.isOk]
  | haveT t => left; simp [threadGo, callStep, Thread.oks]
  | both o t =>
    left
    by_cases he : c.early = true
    · cases hck : c.check o <;> simp [threadGo, callStep, he, hck, Thread.oks, Res.isOk]
    · simp [threadGo, callStep, he, Thread.oks]
  | ready o t =>
    by_cases heq : store = o
    · right
      subst heq
      exact ⟨t, rfl, by simp [threadGo, callStep], by simp [threadGo, callStep, Thread.oks, List.countP_cons, Res.isOk]⟩
    · left
      by_cases hr : c.retry = true <;> simp [threadGo, callStep, heq, hr, Thread.oks, Res.isOk]

theorem threadStep_oks (store : σ) (now : Int) (th : Thread σ ε) :
    ((threadStep store now th).1 = store ∧ (threadStep store now th).2.oks = th.oks) ∨
    (∃ cl t, th.cur = some (cl, .ready store t) ∧ (threadStep store now th).1 = cl.apply store t ∧
      (threadStep store now th).2.oks = th.oks + 1) := by
  obtain ⟨cur, todo, results⟩ := th
  cases cur with
  | none =>
    cases todo with
    | nil => left; exact ⟨rfl, rfl⟩
    | cons c rest =>
      rcases threadGo_oks store now results c .start rest with h | ⟨t, hp, _⟩
      · left; exact h
      · cases hp
  | some cp =>
    obtain ⟨c, p⟩ := cp
    rcases threadGo_oks store now results c p todo with h | ⟨t, hp, h1, h2⟩
    · left; exact h
    · right; subst hp; exact ⟨c, t, rfl, h1, h2⟩

theorem step_oks (c : Cfg σ ε) (ev : Ev) :
    ((c.step ev).store = c.store ∧ (c.step ev).oks = c.oks) ∨
    ∃ cl ∈ c.calls, ∃ t, (c.step ev).store = cl.apply c.store t ∧ (c.step ev).oks = c.oks + 1 := by
  cases ev with
  | tick d => left; exact ⟨rfl, rfl⟩
  | step i =>
    simp only [Cfg.step]
    cases hth : c.threads[i]? with
    | none => left; exact ⟨rfl, rfl⟩
    | some th =>
      have hmem : th ∈ c.threads := List.mem_of_getElem? hth
      have hsum := sum_set Thread.oks c.threads i th (threadStep c.store c.now th).2 hth
      rcases threadStep_oks c.store c.now th with h | ⟨cl, t, hcur, h1, h2⟩
      · left
        refine ⟨h.1, ?_⟩
        simp only [Cfg.oks]
        omega
      · right
        refine ⟨cl, mem_calls_of_mem hmem (by simp [Thread.calls, hcur]), t, h1, ?_⟩
        simp only [Cfg.oks]
        omega

theorem run_linearizes_counted (sched : List Ev) : ∀ c : Cfg σ ε,
    ∃ log : List (Call σ ε × Int), (∀ p ∈ log, p.1 ∈ c.calls) ∧
      (c.run sched).store = replay c.store log ∧ (c.run sched).oks = c.oks + log.length := by
  induction sched with
  | nil => intro c; exact ⟨[], by simp, rfl, rfl⟩
  | cons ev rest ih =>
    intro c
    obtain ⟨log, hmem, hlog, hcnt⟩ := ih (c.step ev)
    have hmem' : ∀ p ∈ log, p.1 ∈ c.calls := fun p hp => step_calls c ev _ (hmem p hp)
    rcases step_oks c ev with ⟨h, hk⟩ | ⟨cl, hcl, t, h, hk⟩
    · refine ⟨log, hmem', by rw [← h]; exact hlog, ?_⟩
      show (Cfg.run (c.step ev) rest).oks = _
      omega
    · refine ⟨(cl, t) :: log, ?_, ?_, ?_⟩
      · intro p hp
        rcases List.mem_cons.mp hp with rfl | hp
        · exact hcl
        · exact hmem' p hp
      · show (Cfg.run (c.step ev) rest).store = _
        rw [hlog, h]; rfl
      · show (Cfg.run (c.step ev) rest).oks = _
        simp only [List.length_cons]
        omega

end ScVerif.C20.Gau
