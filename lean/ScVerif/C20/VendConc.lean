import ScVerif.C20.VendingCode
import ScVerif.C20.Gau
/-!
# C20 / Vending — concurrent `DispenseInstantly` on one stock record as calls of the generic model

`DispenseInstantly` writes through `Collection.Update` on the inventory; its `InterceptBefore` computes
the new stock from the value read inside the transaction and reads no clock (`timed = false`).  On a
conversion error the interceptor restores the old value and the (no-op) write is still committed; the
error is returned afterwards — so also an erroring call can be refused as a concurrent update.
-/
namespace ScVerif.C20.Vending

abbrev VCall := Gau.Call Stock Unit

def dispenseCall (q : Qty) : VCall :=
  ⟨false, fun _ => none, fun cur _ => (intercept true q cur emptyStock).1, false, false⟩

/-- one sequential dispense on a record: the all-or-nothing function, an error changing nothing -/
def dispenseOrKeep (st : Stock) (q : Qty) : Stock := (dispenseStock q st).getD st

theorem dispenseCall_apply (q : Qty) (cur : Stock) (t : Int) :
    (dispenseCall q).apply cur t = dispenseOrKeep cur q := by
  show (intercept true q cur emptyStock).1 = _
  rw [intercept_eq]
  unfold dispenseOrKeep
  cases dispenseStock q cur <;> rfl

end ScVerif.C20.Vending
