import ScVerif.C20.VendingLemmas
import ScVerif.C20.VendingCode
/-!
# C20 — property theorems, Vending

Property (fixed text, vending clause): "vending dispense adds the quantity to used and subtracts it
from remaining (floored at zero) in each quantity's own unit, unit conversion round-trips within its
category and conversion errors are reported, not swallowed; … Models constructed with explicit
configuration … use it."  Quantities are exact rationals.
-/
namespace ScVerif.C20.Vending

/-- Conversion round-trips exactly (in ℚ) whenever it succeeds — i.e. within a category. -/
theorem C20_convert_roundtrip (v w : Rat) (a b : Int) (h : convert v a b = some w) :
    convert w b a = some v := by
  unfold convert at h ⊢
  by_cases hab : a = b
  · subst hab; simp only [if_true] at h ⊢; cases h; rfl
  · have hba : ¬ b = a := fun e => hab e.symm
    simp only [hab, hba, if_false] at h ⊢
    cases ha : siUnit a with
    | none => simp [ha] at h
    | some pa =>
      obtain ⟨fa, ca⟩ := pa
      cases hb : siUnit b with
      | none => simp [ha, hb] at h
      | some pb =>
        obtain ⟨fb, cb⟩ := pb
        simp only [ha, hb] at h ⊢
        by_cases hc : ca = cb
        · subst hc
          simp only [if_true] at h ⊢
          cases h
          have hfa := siUnit_factor_ne_zero ha
          have hfb := siUnit_factor_ne_zero hb
          rw [Rat.div_mul_cancel hfb, Rat.mul_div_cancel hfa]
        · simp [hc] at h

/-- Conversion fails exactly when the units differ and are not two convertible units of one category. -/
theorem C20_convert_error_iff (v : Rat) (a b : Int) :
    convert v a b = none ↔
      a ≠ b ∧ ¬ ∃ fa fb c, siUnit a = some (fa, c) ∧ siUnit b = some (fb, c) := by
  unfold convert
  by_cases hab : a = b
  · simp [hab]
  · simp only [hab, if_false, ne_eq, not_false_eq_true, true_and]
    cases ha : siUnit a with
    | none => simp
    | some pa =>
      obtain ⟨fa, ca⟩ := pa
      cases hb : siUnit b with
      | none => simp
      | some pb =>
        obtain ⟨fb, cb⟩ := pb
        by_cases hc : ca = cb
        · subst hc; simp
        · simp only [hc, if_false, true_iff]
          rintro ⟨fa', fb', c, h1, h2⟩
          cases h1; cases h2; exact hc rfl

/-- the table knows litres and cubic metres: 2 m³ = 2000 l, and back -/
example : convert 2 4 3 = some 2000 ∧ convert 2000 3 4 = some 2 := by decide +kernel
/-- litres to metres is an error -/
example : convert 1 3 2 = none := by decide +kernel

/-- **Dispense on one stock record** (all quantities, all units, any subset of used/remaining
present): used' = used + conv q in used's unit; remaining' = max 0 (remaining − conv q) in remaining's
unit; an absent quantity stays absent; last_dispensed = q, dispensing = false. -/
theorem C20_dispense (q : Qty) (st st' : Stock) (h : dispenseStock q st = some st') :
    (match st.used with
      | none => st'.used = none
      | some u => ∃ d, convert q.amount q.unit u.unit = some d ∧ st'.used = some ⟨u.unit, u.amount + d⟩) ∧
    (match st.remaining with
      | none => st'.remaining = none
      | some r => ∃ d, convert q.amount q.unit r.unit = some d ∧
          st'.remaining = some ⟨r.unit, max 0 (r.amount - d)⟩) ∧
    st'.lastDispensed = some q ∧ st'.dispensing = false := by
  unfold dispenseStock at h
  cases hu : st.used with
  | none =>
    simp only [hu] at h
    cases hr : st.remaining with
    | none => simp only [hr] at h; cases h; simp
    | some r =>
      simp only [hr] at h
      cases hc : convert q.amount q.unit r.unit with
      | none => simp [hc] at h
      | some d =>
        simp only [hc, Option.map_some] at h; cases h
        refine ⟨rfl, ⟨d, hc, ?_⟩, rfl, rfl⟩
        simp only [Rat.max_def]
        by_cases hlt : r.amount - d < 0
        · have : ¬ (0 : Rat) ≤ r.amount - d := Rat.not_le.mpr hlt
          simp [hlt, this]
        · have : (0 : Rat) ≤ r.amount - d := Rat.not_lt.mp hlt
          simp [hlt, this]
  | some u =>
    simp only [hu] at h
    cases hcu : convert q.amount q.unit u.unit with
    | none => simp [hcu] at h
    | some du =>
      simp only [hcu, Option.map_some] at h
      cases hr : st.remaining with
      | none => simp only [hr] at h; cases h; exact ⟨⟨du, hcu, rfl⟩, rfl, rfl, rfl⟩
      | some r =>
        simp only [hr] at h
        cases hc : convert q.amount q.unit r.unit with
        | none => simp [hc] at h
        | some d =>
          simp only [hc, Option.map_some] at h; cases h
          refine ⟨⟨du, hcu, rfl⟩, ⟨d, hc, ?_⟩, rfl, rfl⟩
          simp only [Rat.max_def]
          by_cases hlt : r.amount - d < 0
          · have : ¬ (0 : Rat) ≤ r.amount - d := Rat.not_le.mpr hlt
            simp [hlt, this]
          · have : (0 : Rat) ≤ r.amount - d := Rat.not_lt.mp hlt
            simp [hlt, this]

/-- Dispense succeeds on a record exactly when every conversion it needs succeeds. -/
theorem C20_dispense_ok_iff (q : Qty) (st : Stock) :
    dispenseStock q st = none ↔
      (∃ u, st.used = some u ∧ convert q.amount q.unit u.unit = none) ∨
      (∃ r, st.remaining = some r ∧ convert q.amount q.unit r.unit = none) := by
  unfold dispenseStock
  cases hu : st.used with
  | none =>
    cases hr : st.remaining with
    | none => simp
    | some r => cases hc : convert q.amount q.unit r.unit <;> simp [hc]
  | some u =>
    cases hcu : convert q.amount q.unit u.unit with
    | none => simp [hcu]
    | some du =>
      cases hr : st.remaining with
      | none => simp [hcu]
      | some r => cases hc : convert q.amount q.unit r.unit <;> simp [hcu, hc]

/-- **Conversion errors are reported, not swallowed, and the stock is unchanged**: when a needed
conversion fails, Dispense on a known consumable returns the conversion error and the same inventory. -/
theorem C20_dispense_error (inv : Inventory) (name : String) (q : Qty) (st : Stock)
    (hn : name ≠ "") (hl : lookup name inv = some st)
    (hfail : (∃ u, st.used = some u ∧ convert q.amount q.unit u.unit = none) ∨
             (∃ r, st.remaining = some r ∧ convert q.amount q.unit r.unit = none)) :
    dispense inv name q = (inv, .conversionError) := by
  have := (C20_dispense_ok_iff q st).mpr hfail
  simp [dispense, hn, hl, this]

/-- the reported error is reachable: 1 kg dispensed from a stock counted in litres -/
example : dispense [("water", { used := some ⟨3, 5⟩, remaining := none })] "water" ⟨6, 1⟩
    = ([("water", { used := some ⟨3, 5⟩, remaining := none })], .conversionError) := by decide +kernel

/-- **A request without a quantity is well-formed enough to be answered**: it is rejected with
InvalidArgument and nothing changes (no panic), whatever the consumable and the stock. -/
theorem C20_dispense_missing_quantity (inv : Inventory) (name : String) :
    dispenseReq inv name none = (inv, .invalidArgument) := by
  unfold dispenseReq; split <;> rfl

/-- with a quantity the server call is `DispenseInstantly` -/
theorem C20_dispense_req (inv : Inventory) (name : String) (q : Qty) :
    dispenseReq inv name (some q) = dispense inv name q := by
  unfold dispenseReq dispense; split <;> rfl

/-! ## the interceptor as written (partial writes, `proto.Reset` + `proto.Merge` on the error path) -/

/-- **The code's shape refines the all-or-nothing description**: `DispenseInstantly` as written —
`updateStock` assigning `used` before it tries the conversion for `remaining`, the error path restoring
the old value with `proto.Reset` + `proto.Merge`, the mask-less write storing the intercepted message in
either case — equals `dispenseReq` for every inventory, consumable and quantity.  Hence every theorem
above about `dispense` / `dispenseReq` / `run` holds for the code's shape (which is what the driver runs). -/
theorem C20_dispense_code_refines (inv : Inventory) (name : String) (q : Option Qty) :
    dispenseReqCode inv name q = dispenseReq inv name q :=
  dispenseReqCode_eq inv name q

/-- **A dispense that errors commits nothing**: whenever `updateStock` reports an error — on its first
or its second conversion, i.e. also after it has already written `used` — the intercepted message is
exactly the old stock: every field, for every old stock (any subset of used/remaining present, any
units and categories, `used.amount = 0` included) and every quantity. -/
theorem C20_dispense_error_commits_nothing (q : Qty) (old : Stock)
    (herr : (updateStockCode q old emptyStock).2 = false) :
    intercept true q old emptyStock = (old, false) := by
  unfold intercept
  generalize updateStockCode q old emptyStock = out at herr
  obtain ⟨dst, b⟩ := out
  simp only at herr
  subst herr
  simp [mergeStock_empty]

/-- … and through the collection: the inventory is the same list and the error is reported. -/
theorem C20_dispense_error_inventory (inv : Inventory) (name : String) (q : Qty) (st : Stock)
    (hn : name ≠ "") (hl : lookup name inv = some st)
    (herr : (updateStockCode q st emptyStock).2 = false) :
    dispenseCode inv name q = (inv, .conversionError) := by
  simp [dispenseCode, hn, hl, C20_dispense_error_commits_nothing q st herr, set_same hl]

/-- **the `proto.Reset` on the error path is necessary**: merging the old value into the half-written
message keeps the freshly computed `used.amount` when the old one is zero (proto3 merge skips
unpopulated scalars) — used in litres at 0, remaining in kilograms, 2 m³ dispensed: the call reports
the conversion error for `remaining` and yet `used` would become 2000 l. -/
theorem C20_dispense_error_needs_reset :
    ∃ (q : Qty) (old : Stock), (updateStockCode q old emptyStock).2 = false ∧
      (intercept false q old emptyStock).1 ≠ old ∧ (intercept true q old emptyStock).1 = old :=
  ⟨⟨4, 2⟩, { used := some ⟨3, 0⟩, remaining := some ⟨6, 5⟩ }, by decide +kernel, by decide +kernel, by decide +kernel⟩

/-- the second-conversion error is reachable with a non-zero `used` as well (then even the merge alone
would restore it; the theorem above does not depend on that) -/
example : (updateStockCode ⟨4, 2⟩ { used := some ⟨3, 7⟩, remaining := some ⟨6, 5⟩ } emptyStock)
    = ({ used := some ⟨3, 2007⟩, remaining := none }, false) := by decide +kernel

/-- Dispense touches only the named record. -/
theorem C20_dispense_frame (inv : Inventory) (name m : String) (q : Qty) (h : m ≠ name) :
    lookup m (dispense inv name q).1 = lookup m inv := by
  unfold dispense
  by_cases hn : name = ""
  · simp [hn]
  · simp only [hn, if_false]
    cases hl : lookup name inv with
    | none => rfl
    | some st =>
      cases hd : dispenseStock q st with
      | none => simp only [hd]
      | some st' => simp only [hd]; exact lookup_set_other h st' inv

/-- What never changes about a record: which of used/remaining are present, and their units. -/
def shape (st : Stock) : Option Int × Option Int := (st.used.map (·.unit), st.remaining.map (·.unit))

/-- **Every Dispense sequence** (any consumables, quantities, units, failing or not): no stock record
is created or dropped, and in every record exactly the quantities that were present stay present,
each in its own unit — only present quantities are ever touched. -/
theorem C20_dispense_seq_shape (ops : List (String × Option Qty)) : ∀ (inv : Inventory) (m : String),
    (lookup m (run inv ops)).map shape = (lookup m inv).map shape := by
  induction ops with
  | nil => intro inv m; rfl
  | cons o rest ih =>
    intro inv m
    show (lookup m (run (dispenseReq inv o.1 o.2).1 rest)).map shape = _
    rw [ih]
    obtain ⟨oname, oq⟩ := o
    cases oq with
    | none => unfold dispenseReq; split <;> rfl
    | some q =>
    have hreq : dispenseReq inv oname (some q) = dispense inv oname q := by
      unfold dispenseReq dispense; split <;> rfl
    rw [hreq]
    generalize ho : ((oname, q) : String × Qty) = o
    have ho1 : oname = o.1 := by rw [← ho]
    have ho2 : q = o.2 := by rw [← ho]
    rw [ho1, ho2]
    by_cases hm : m = o.1
    · subst hm
      unfold dispense
      by_cases hn : o.1 = ""
      · simp [hn]
      · simp only [hn, if_false]
        cases hl : lookup o.1 inv with
        | none => simp [hl]
        | some st =>
          cases hd : dispenseStock o.2 st with
          | none => simp [hl, hd]
          | some st' =>
            simp only [hd, lookup_set_self, Option.map_some]
            have := C20_dispense o.2 st st' hd
            obtain ⟨h1, h2, _, _⟩ := this
            unfold shape
            cases hu : st.used with
            | none =>
              rw [hu] at h1; simp only at h1
              cases hr : st.remaining with
              | none => rw [hr] at h2; simp only at h2; simp [h1, h2]
              | some r => rw [hr] at h2; obtain ⟨d, _, h2⟩ := h2; simp [h1, h2]
            | some u =>
              rw [hu] at h1; obtain ⟨du, _, h1⟩ := h1
              cases hr : st.remaining with
              | none => rw [hr] at h2; simp only at h2; simp [h1, h2]
              | some r => rw [hr] at h2; obtain ⟨d, _, h2⟩ := h2; simp [h1, h2]
    · rw [C20_dispense_frame inv o.1 m o.2 hm]

/-- **Options**: for every list of `WithInitialStock` / `WithInitialConsumable` options, the
consumables collection is configured with exactly the consumables and the inventory with exactly the
stock records, in order. -/
theorem C20_vending_opts (opts : List Opt) :
    (calcModelArgs opts).consumableOptions =
      opts.flatMap (fun o => match o with | .initialConsumable ns => ns | .initialStock _ => []) ∧
    (calcModelArgs opts).inventoryOptions =
      opts.flatMap (fun o => match o with | .initialStock ns => ns | .initialConsumable _ => []) := by
  have gen : ∀ (opts : List Opt) (a : ModelArgs),
      (opts.foldl applyOpt a).consumableOptions = a.consumableOptions ++
        opts.flatMap (fun o => match o with | .initialConsumable ns => ns | .initialStock _ => []) ∧
      (opts.foldl applyOpt a).inventoryOptions = a.inventoryOptions ++
        opts.flatMap (fun o => match o with | .initialStock ns => ns | .initialConsumable _ => []) := by
    intro opts
    induction opts with
    | nil => intro a; simp
    | cons o rest ih =>
      intro a
      obtain ⟨h1, h2⟩ := ih (applyOpt a o)
      simp only [List.foldl_cons, List.flatMap_cons]
      rw [h1, h2]
      cases o <;> simp [applyOpt]
  have := gen opts {}
  simpa [calcModelArgs] using this

/-- the repaired defect: a consumable option populates consumables, not the inventory -/
example : (calcModelArgs [.initialConsumable ["tea"]]).consumableOptions = ["tea"] ∧
    (calcModelArgs [.initialConsumable ["tea"]]).inventoryOptions = [] := by decide

end ScVerif.C20.Vending
