import ScVerif.C20.FanSpeedLemmas
/-! Spec predicates and the step lemma for C20/FanSpeed (helpers for PropsFanSpeed). -/
namespace ScVerif.C20.FanSpeed

set_option linter.unusedSectionVars false
variable {α : Type} [DecidableEq α] (add : α → α → α)

/-- preset, index and percentage agree: a named preset sits at `index` with that percentage; no
preset means index −1 and no preset has that percentage. -/
def Consistent (ps : List (Preset α)) (v : Fan α) : Prop :=
  (v.preset ≠ "" → 0 ≤ v.index ∧ ∃ p, ps[v.index.toNat]? = some p ∧ p.name = v.preset ∧ p.pct = v.pct) ∧
  (v.preset = "" → v.index = -1 ∧ ∀ p ∈ ps, p.pct ≠ v.pct)

/-- well-formed configuration: at least one preset, every preset named -/
def WF (ps : List (Preset α)) : Prop := ps ≠ [] ∧ ∀ p ∈ ps, p.name ≠ ""

/-- The explicit hypothesis on the write: it does not clear the preset of a fan that has one (the
value handed to DeriveValues keeps a non-empty preset non-empty).  A mask-less write that omits the
preset, on a fan at a named preset, is the excluded point. -/
def WriteOK (old : Fan α) (r : Request α) : Prop :=
  ¬ ((merged add old r).preset = "" ∧ old.preset ≠ "")

instance (old : Fan α) (r : Request α) : Decidable (WriteOK add old r) := by unfold WriteOK; infer_instance

theorem clamp_bounds (n : Nat) (hn : 0 < n) (x : Int) :
    let idx := if x ≥ (n : Int) then (n : Int) - 1 else x
    let idx := if idx < 0 then 0 else idx
    0 ≤ idx ∧ idx.toNat < n := by
  simp only
  split <;> split <;> omega

theorem clamp_eq (n : Nat) (hn : 0 < n) (x : Int) :
    (if (if x ≥ (n : Int) then (n : Int) - 1 else x) < 0 then 0 else if x ≥ (n : Int) then (n : Int) - 1 else x)
      = max 0 (min x ((n : Int) - 1)) := by
  simp only [Int.max_def, Int.min_def]
  split <;> split <;> (try split) <;> (try split) <;> omega

theorem getElem?_mem {ps : List (Preset α)} {i : Nat} {p : Preset α} (h : ps[i]? = some p) : p ∈ ps :=
  List.mem_of_getElem? h

theorem consistent_step (ps : List (Preset α)) (old v : Fan α) (r : Request α) (hwf : WF ps)
    (hc : Consistent ps old) (hw : WriteOK add old r) (hu : update add ps old r = .ok v) : Consistent ps v := by
  unfold update at hu
  by_cases hval : r.src.preset ≠ "" ∧ (findIdx (fun p => p.name == r.src.preset) ps).isNone
  · simp [hval] at hu
  · simp only [hval, if_false] at hu
    generalize hnew : merged add old r = new at hu hw
    have hmp := merged_preset add old r
    rw [hnew] at hmp
    have hu : deriveValues ps old new = some v := by
      cases hdv : deriveValues ps old new with
      | none => simp [hdv] at hu
      | some w => simp only [hdv] at hu; cases hu; rfl
    unfold deriveValues at hu
    by_cases h1 : old.preset ≠ new.preset
    · rw [if_pos h1] at hu
      cases hf : findIdx (fun p => p.name == new.preset) ps with
      | some i =>
        obtain ⟨x, hx, hp⟩ := findIdx_some hf
        simp only [hf, hx, Option.map_some, Option.getD_some] at hu
        cases hu
        have hname : x.name = new.preset := by simpa using hp
        refine ⟨fun _ => ⟨by simp, x, by simpa using hx, hname, rfl⟩, fun he => ?_⟩
        exact absurd (hname.trans he) (hwf.2 x (getElem?_mem hx))
      | none =>
        exfalso
        rcases hmp with hmp | hmp
        · exact h1 hmp.symm
        · by_cases he : new.preset = ""
          · have : old.preset = "" := by
              apply Classical.byContradiction; intro ho
              exact hw (by rw [hnew]; exact ⟨he, ho⟩)
            exact h1 (this.trans he.symm)
          · apply hval
            refine ⟨by rw [← hmp]; exact he, ?_⟩
            rw [← hmp, hf]; rfl
    · have h1' : old.preset = new.preset := by
        apply Classical.byContradiction; intro h; exact h1 h
      rw [if_neg h1] at hu
      by_cases h2 : old.index ≠ new.index
      · rw [if_pos h2] at hu
        have hlen : 0 < ps.length := by
          cases ps with
          | nil => exact absurd rfl hwf.1
          | cons _ _ => simp
        have hb := clamp_bounds ps.length hlen new.index
        simp only at hb
        cases hp : ps[(if (if new.index ≥ ↑ps.length then (ps.length : Int) - 1 else new.index) < 0 then 0
            else if new.index ≥ ↑ps.length then (ps.length : Int) - 1 else new.index).toNat]? with
        | none => simp [hp] at hu
        | some p =>
          simp only [hp] at hu
          cases hu
          refine ⟨fun _ => ⟨hb.1, p, hp, rfl, rfl⟩, fun he => ?_⟩
          exact absurd he (hwf.2 p (getElem?_mem hp))
      · have h2' : old.index = new.index := by
          apply Classical.byContradiction; intro h; exact h2 h
        rw [if_neg h2] at hu
        by_cases h3 : old.pct ≠ new.pct
        · rw [if_pos h3] at hu
          cases hf : findIdx (fun p => p.pct == new.pct) ps with
          | some i =>
            obtain ⟨x, hx, hp⟩ := findIdx_some hf
            simp only [hf, hx, Option.map_some, Option.getD_some] at hu
            cases hu
            have hpct : x.pct = new.pct := by simpa using hp
            refine ⟨fun _ => ⟨by simp, x, by simpa using hx, rfl, hpct⟩, fun he => ?_⟩
            exact absurd he (hwf.2 x (getElem?_mem hx))
          | none =>
            simp only [hf] at hu
            cases hu
            refine ⟨fun h => absurd rfl h, fun _ => ⟨rfl, fun p hp => ?_⟩⟩
            have := findIdx_none hf p hp
            simpa using this
        · have h3' : old.pct = new.pct := by
            apply Classical.byContradiction; intro h; exact h3 h
          rw [if_neg h3] at hu
          cases hu
          unfold Consistent at hc ⊢
          rw [← h1', ← h2', ← h3']
          exact hc

end ScVerif.C20.FanSpeed
