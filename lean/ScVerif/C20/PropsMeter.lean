import ScVerif.C20.Meter
/-!
# C20 — property theorems, Meter

Property (fixed text, meter clause): "meter start and end times … stay mutually consistent":
start ≤ end; RecordReading sets usage and end = now and keeps start; Reset sets both to now; a model
constructed with an initial reading uses it.
-/
namespace ScVerif.C20.Meter

/-- the clock never goes back: each op's time is at least the previous one -/
def Mono : Int → List Op → Prop
  | _, [] => True
  | t, o :: rest => t ≤ o.time ∧ Mono o.time rest

/-- both times recorded, start ≤ end ≤ now -/
def Inv (r : Reading) (now : Int) : Prop :=
  ∃ s e, r.start = some s ∧ r.stop = some e ∧ s ≤ e ∧ e ≤ now

/-- **RecordReading keeps start** (and sets usage and end = now), from every state. -/
theorem C20_meter_record (r : Reading) (v : String) (now : Int) :
    (recordReading r v now).start = r.start ∧ (recordReading r v now).stop = some now ∧
    (recordReading r v now).usage = v := by
  simp [recordReading, merge]

/-- **Reset sets usage to zero and both times to now.** -/
theorem C20_meter_reset (r : Reading) (now : Int) :
    reset r now = ⟨"0", some now, some now⟩ := by
  simp [reset, merge]

/-- **NewModel uses the configured reading**: usage and the times that are present are kept, absent
times become now. -/
theorem C20_meter_new (init : Reading) (now : Int) :
    (newModel init now).usage = init.usage ∧
    (newModel init now).start = some (init.start.getD now) ∧
    (newModel init now).stop = some (init.stop.getD now) := by
  obtain ⟨u, s, e⟩ := init
  cases s <;> cases e <;> simp [newModel, merge]

/-- a new model satisfies the invariant when the configured times are ordered, not in the future, and
an end time is only configured together with a start time (otherwise start := now may exceed it) -/
theorem C20_meter_new_inv (init : Reading) (now : Int)
    (h1 : ∀ s, init.start = some s → s ≤ now) (h2 : ∀ e, init.stop = some e → e ≤ now)
    (h3 : ∀ s e, init.start = some s → init.stop = some e → s ≤ e)
    (h4 : init.start = none → init.stop = none) :
    Inv (newModel init now) now := by
  obtain ⟨u, s, e⟩ := init
  cases s with
  | none =>
    cases e with
    | none => exact ⟨now, now, by simp [newModel, merge], by simp [newModel, merge], Int.le_refl _, Int.le_refl _⟩
    | some e => exact absurd (h4 rfl) (by simp)
  | some s =>
    cases e with
    | none => exact ⟨s, now, by simp [newModel, merge], by simp [newModel, merge], h1 s rfl, Int.le_refl _⟩
    | some e => exact ⟨s, e, by simp [newModel, merge], by simp [newModel, merge], h3 s e rfl rfl, h2 e rfl⟩

theorem C20_meter_step_inv (r : Reading) (t : Int) (o : Op) (h : Inv r t) (ht : t ≤ o.time) :
    Inv (step r o) o.time := by
  obtain ⟨s, e, hs, he, hse, het⟩ := h
  cases o with
  | record v now =>
    simp only [Op.time] at ht
    refine ⟨s, now, ?_, ?_, by omega, Int.le_refl _⟩
    · simp [step, recordReading, merge, hs]
    · simp [step, recordReading, merge]
  | reset now =>
    exact ⟨now, now, by simp [step, reset, merge], by simp [step, reset, merge], Int.le_refl _, Int.le_refl _⟩

/-- **start ≤ end after every sequence** of RecordReading / Reset (any length, any usages) under a
clock that never goes back; both times stay recorded and end is never in the future. -/
theorem C20_meter_start_le_end (ops : List Op) : ∀ (r : Reading) (t : Int), Inv r t → Mono t ops →
    ∃ t', Inv (run r ops) t' := by
  induction ops with
  | nil => intro r t h _; exact ⟨t, h⟩
  | cons o rest ih =>
    intro r t h hm
    exact ih _ _ (C20_meter_step_inv r t o h hm.1) hm.2

/-- **start is the time of the last Reset, end the time of the last op, usage the last recorded
value**: after `… Reset(t)` followed by any RecordReadings `recs ++ [record v t']`. -/
theorem C20_meter_registers (r : Reading) (pre : List Op) (t : Int) (recs : List (String × Int))
    (v : String) (t' : Int) :
    run r (pre ++ [.reset t] ++ recs.map (fun p => Op.record p.1 p.2) ++ [.record v t'])
      = ⟨v, some t, some t'⟩ := by
  have hrecs : ∀ (recs : List (String × Int)) (r0 : Reading), r0.start = some t →
      (run r0 (recs.map (fun p => Op.record p.1 p.2))).start = some t := by
    intro recs
    induction recs with
    | nil => intro r0 h; exact h
    | cons p rest ih =>
      intro r0 h
      exact ih _ (by simp [step, recordReading, merge, h])
  unfold run at *
  simp only [List.foldl_append, List.foldl_cons, List.foldl_nil]
  have h1 : (step (List.foldl step r pre) (.reset t)).start = some t := by simp [step, reset, merge]
  have h2 := hrecs recs _ h1
  unfold run at h2
  simp only [step, recordReading, merge] at h2 ⊢
  simp [h2]

/-- the invariant's hypotheses are reachable: a fresh model at t = 100, then a monotone run -/
example : Inv (newModel ⟨"0", none, none⟩ 100) 100 ∧ Mono 100 [.record "5" 101, .reset 101, .record "7" 105] := by
  refine ⟨⟨100, 100, by decide, by decide, by decide, by decide⟩, by simp [Mono, Op.time]⟩
/-- the repaired defect: recording keeps the start time -/
example : run (newModel ⟨"0", none, none⟩ 100) [.record "5" 103] = ⟨"5", some 100, some 103⟩ := by decide

end ScVerif.C20.Meter
