import ScVerif.C20.Parent
import ScVerif.C20.Gau
/-!
# C20 / Parent — concurrent `AddChild` / `AddChildTrait` / `RemoveChildTrait` on one child as calls of the generic model

All three write through `Collection.Update` = `GetAndUpdate` on the children collection.  The stored value
of the generic model is one child's record: `none` = no child of that name (`Update`'s read then hands out
a provisional empty message, and the compare at the lock is "still absent"), `some ts` = its trait list.

* `AddChild` = `Collection.Add` (`WithExpectAbsent` + `WithCreateIfAbsent`): the read refuses a child that
  exists (`AlreadyExists`); the model method ignores every error (also a lost race), so it never retries;
* `AddChildTrait`: creates if absent, `InterceptBefore` computes `traitUnion` of the traits READ INSIDE the
  transaction; no check; **made again when the commit is refused** (`retry`, fix 1e16ef0 — before it the
  `Aborted` error was thrown as a panic, see `C20_parent_conc_legacy_panics`);
* `RemoveChildTrait`: the read refuses an absent child (`NotFound` → the method returns nil);
  `InterceptBefore` computes `traitRemove`; made again when the commit is refused.

None reads the clock (`timed = false`).
-/
namespace ScVerif.C20.Parent

/-- one child's record -/
abbrev Rec := Option (List String)

inductive CErr where
  | notFound
  | alreadyExists
  deriving DecidableEq, Repr

/-- the calls on one child -/
inductive COp where
  | addChild (ts : List String)
  | addTrait (ts : List String)
  | removeTrait (ts : List String)
  deriving DecidableEq, Repr

/-- sequential meaning of a call on the record (`Parent.step` seen from one child name) -/
def recStep (r : Rec) : COp → Rec
  | .addChild ts => match r with
    | some old => some old
    | none => some ts
  | .addTrait ts => some (traitUnion (r.getD []) ts)
  | .removeTrait ts => r.map (traitRemove · ts)

abbrev PCall := Gau.Call Rec CErr

/-- what the read of the call refuses -/
def opCheck : COp → Rec → Option CErr
  | .addChild _, r => if r.isSome then some .alreadyExists else none
  | .addTrait _, _ => none
  | .removeTrait _, r => if r.isNone then some .notFound else none

/-- does the model method make the write again after a refused commit? -/
def opRetry : COp → Bool
  | .addChild _ => false
  | _ => true

def opCall (o : COp) : PCall := ⟨false, opCheck o, fun r _ => recStep r o, false, opRetry o⟩

/-- NOT the code any more: `AddChildTrait` / `RemoveChildTrait` before fix 1e16ef0 — one attempt, the
`Aborted` of a refused commit reached `panic(err)`. -/
def legacyCall (o : COp) : PCall := { opCall o with retry := false }

theorem opCall_apply (o : COp) (cur : Rec) (t : Int) : (opCall o).apply cur t = recStep cur o := rfl

end ScVerif.C20.Parent
