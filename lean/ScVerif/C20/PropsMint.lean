import ScVerif.C20.Mint
/-!
# C20 — property theorems, minting publication versions at the same time

Property (fixed text, publication clause): "publication version/receipt fields stay mutually consistent" - the
version of a publication is the hash of its own content - here for any number of writers whose `mintVersion` calls
overlap in the lock-free change phase of `resource.GetAndUpdate`, on one model or on several models of one process,
under every interleaving of the digest operations (reset, five writes, sum), for every byte-string hash `Hc`.
-/
namespace ScVerif.C20.Mint
open ScVerif.C20.Publication

/-- **Own digest: every version is the hash of its own publication** - whatever the number of callers, their
publications and the schedule, a caller that has returned holds exactly `mintVersion` of its own publication (the
sequential function of `Publication.lean`), and a caller that has not returned holds nothing. -/
theorem C20_pub_mint_parallel (Hc : String → String) (pubs : Nat → Pub) (sched : List Nat) (t : Nat) :
    ((run Hc own pubs sched).phase t = .done →
      (run Hc own pubs sched).out t = some (mint (hashOf Hc) (pubs t))) ∧
    ((run Hc own pubs sched).phase t ≠ .done → (run Hc own pubs sched).out t = none) := by
  have h := inv_run Hc pubs sched t
  constructor
  · intro hd
    rw [hd] at h
    rw [h, cat_chunks Hc (pubs t)]
  · intro hd
    cases hp : (run Hc own pubs sched).phase t with
    | start => rw [hp] at h; exact h
    | writing l => rw [hp] at h; exact h.2
    | done => exact absurd hp hd

/-- **Nobody waits for anybody**: a caller has returned as soon as it has taken 7 steps of its own (reset, five
writes, sum), wherever the other callers are and whether or not the digest is shared. -/
theorem C20_pub_mint_finishes (Hc : String → String) (slot : Nat → Nat) (pubs : Nat → Pub) (sched : List Nat)
    (t : Nat) (h : 7 ≤ sched.count t) : (run Hc slot pubs sched).phase t = .done := by
  unfold run
  rw [phase_foldl]
  obtain ⟨m, hm⟩ : ∃ m, sched.count t = m + 7 := ⟨sched.count t - 7, by omega⟩
  rw [hm]
  show iter (pubs t) m .done = .done
  exact iter_done _ m

/-- two publications that differ in their body only -/
def pA : Pub := ⟨"p1", "hello", "text/plain", none, "", none⟩
def pB : Pub := ⟨"p1", "world", "text/plain", none, "", none⟩
def two : Nat → Pub := fun t => if t = 0 then pA else pB

/-- **One digest for the process fails** (the variant with a package-level digest that every call resets first;
sequentially the same function).  (1) Caller 0 writes its chunks, caller 1 resets the digest and writes its own,
then both read the sum: caller 0's publication gets the version of caller 1's content.  (2) The two callers
alternate: both publications get one and the same version, the hash of a mixture that is the content of neither.
With a digest of its own each caller gets its own version under these very schedules
(`C20_pub_mint_parallel`). -/
theorem C20_pub_mint_shared_digest_fails (Hc : String → String) :
    let s1 := [0, 0, 0, 0, 0, 0, 1, 1, 1, 1, 1, 1, 0, 1]
    let s2 := [0, 1, 0, 1, 0, 1, 0, 1, 0, 1, 0, 1, 0, 1]
    ((run Hc shared two s1).phase 0 = .done ∧
      (run Hc shared two s1).out 0 = some (mint (hashOf Hc) pB) ∧
      (run Hc own two s1).out 0 = some (mint (hashOf Hc) pA)) ∧
    ((run Hc shared two s2).out 0 = some (Hc "v1v1p1p1helloworldtext/plaintext/plain") ∧
      (run Hc shared two s2).out 1 = some (Hc "v1v1p1p1helloworldtext/plaintext/plain") ∧
      mint (hashOf Hc) pA = Hc "v1p1hellotext/plain" ∧ mint (hashOf Hc) pB = Hc "v1p1worldtext/plain") := by
  simp [run, step, init, upd, shared, own, two, pA, pB, chunks, cat, mint, hashOf]

/-- non-vacuity of `C20_pub_mint_parallel`: under the alternating schedule both callers have returned -/
example (Hc : String → String) :
    (run Hc own two [0, 1, 0, 1, 0, 1, 0, 1, 0, 1, 0, 1, 0, 1]).phase 0 = .done ∧
    (run Hc own two [0, 1, 0, 1, 0, 1, 0, 1, 0, 1, 0, 1, 0, 1]).phase 1 = .done :=
  ⟨C20_pub_mint_finishes Hc own two _ 0 (by decide), C20_pub_mint_finishes Hc own two _ 1 (by decide)⟩

/-- **Devices of one process are independent** (any number of publication models, any operations, any order in
which the process happens to execute them, every hash): the store of device `d` is the sequential run
(`Publication.run`) of exactly the operations addressed to `d`, in their order, each at its own clock reading,
from `d`'s own initial store - whatever the other devices are asked to do in between.  This is the statement the
parallel-devices tie checks on the real code, where the operations of different devices overlap in time. -/
theorem C20_pub_devices_independent (H : Hash) (init : Nat → Store) (sched : List (Nat × (Int × Op))) (d : Nat) :
    (sched.foldl (stepAt (fun s o => (Publication.step H o.1 s o.2).1)) init) d =
      Publication.run H (init d) (opsOf d sched) := by
  rw [stepAt_foldl]; rfl

/-- the same for every model given by a step function (the seven trait models of this property are) -/
theorem C20_devices_independent {σ α : Type} (f : σ → α → σ) (init : Nat → σ) (sched : List (Nat × α)) (d : Nat) :
    (sched.foldl (stepAt f) init) d = (opsOf d sched).foldl f (init d) :=
  stepAt_foldl f d sched init

/-- two devices, interleaved creates: each keeps its own record only -/
example : ((([(0, ((1001 : Int), Op.create pA)), (1, (1001, Op.create pB)), (0, (1002, Op.delete "p1" "" false))] :
      List (Nat × (Int × Op))).foldl
    (stepAt (fun s o => (Publication.step (hashOf id) o.1 s o.2).1)) (fun _ => [])) 1).map (·.2.body) = ["world"] := by
  decide

end ScVerif.C20.Mint
