import ScVerif.Base.Line
import ScVerif.C20.Parent
import ScVerif.C20.ParentConc
import ScVerif.C20.Esc
/-! Driver ops of the Parent model: `par.union`, `par.remove`, `par.seq`, `par.conc`. -/
namespace ScVerif.C20.Parent
open ScVerif.Line

def decList (s : String) : List String :=
  if s = "-" || s = "" then [] else (s.splitOn ",").map unesc

def encList (xs : List String) : String :=
  if xs.isEmpty then "-" else ",".intercalate (xs.map esc)

def decName (s : String) : String := if s = "~" then "" else unesc s
def encName (s : String) : String := if s = "" then "~" else esc s

def parseOp? (tok : String) : Option Op :=
  match tok.splitOn ":" with
  | ["addchild", n, ts] => some (.addChild (decName n) (decList ts))
  | ["add", n, ts] => some (.addTrait (decName n) (decList ts))
  | ["rm", n, ts] => some (.removeTrait (decName n) (decList ts))
  | ["rmchild", n, _] => some (.removeChild (decName n))
  | _ => none

/-- `ListChildren`: sorted by child name. -/
def showState (s : Children) : String :=
  let sorted := s.mergeSort (fun a b => decide (a.1 ≤ b.1))
  if sorted.isEmpty then "-"
  else "|".intercalate (sorted.map (fun kv => encName kv.1 ++ "=" ++ encList kv.2))

def runSeq (ops : List Op) : String :=
  let (_, outs) := ops.foldl (fun (acc : Children × List String) o =>
    let (s', ret) := step acc.1 o
    (s', (ret ++ "#" ++ showState s') :: acc.2)) ([], [])
  ";".intercalate outs.reverse


/-! ## `par.conc`: a schedule of the harness' thread steps on the interleaving model

The harness parks a thread after the read (`r`, yield point `gau.afterRead`) and before the lock (`l`,
`gau.beforeLock`), and between calls.  One harness step is one atomic step of the model, except that the real
code has no park point (a) between a read that refuses the call (`NotFound`, `AlreadyExists` are decided
by the get function) and the call's return, and (b) between a refused commit of a retrying call and its next
read: the model's two steps are taken together there (the first of the two changes nothing and reads
nothing that is used later, so no interleaving is lost). -/

structure Obs where
  rets : List String := []      -- finished calls, most recent first
  traces : List String := []
  trace : String := ""          -- park points of the current call

def encRec : Rec → String
  | none => "~"
  | some ts => encList ts

def parseCOp? (tok : String) : Option COp :=
  match tok.splitOn ":" with
  | ["addchild", ts] => some (.addChild (decList ts))
  | ["add", ts] => some (.addTrait (decList ts))
  | ["rm", ts] => some (.removeTrait (decList ts))
  | _ => none

/-- what the model method hands its caller -/
def showRet (op : Option COp) (old : Rec) : Option (Gau.Res Rec CErr) → String
  | some (.ok v) => match op with
    | some (.addTrait _) => (if old.isNone then "created=" else "existing=") ++ encRec v
    | some (.removeTrait _) => "ok=" ++ encRec v
    | _ => "ok"
  | some (.err _) => match op with
    | some (.removeTrait _) => "nil"
    | _ => "ok"
  | some .aborted => match op with
    | some (.addChild _) => "ok"          -- AddChild ignores every error
    | _ => "panic"                        -- only the legacy calls get here
  | none => "?"

def hstepAux (prog : List COp) : Nat → Gau.Cfg Rec CErr → Obs → Nat → Gau.Cfg Rec CErr × Obs
  | 0, c, ob, _ => (c, ob)
  | fuel + 1, c, ob, i =>
    match c.threads[i]? with
    | none => (c, ob)
    | some th =>
      if th.cur.isNone && th.todo.isEmpty then (c, ob) else
      let c' := c.step (.step i)
      match c'.threads[i]? with
      | none => (c', ob)
      | some th' =>
        if th'.results.length > th.results.length then
          let old : Rec := match th.cur with
            | some (_, .ready o _) => o
            | _ => none
          let ret := showRet prog[th.results.length]? old th'.results.head?
          (c', { rets := ret :: ob.rets, traces := ob.trace :: ob.traces, trace := "" })
        else match th'.cur with
          | some (cl, .haveOld o) =>
            if (cl.check o).isSome then hstepAux prog fuel c' ob i
            else (c', { ob with trace := ob.trace ++ "r" })
          | some (_, .ready _ _) => (c', { ob with trace := ob.trace ++ "l" })
          | some (_, .start) => hstepAux prog fuel c' ob i
          | _ => (c', ob)

def hstep (progs : List (List COp)) (acc : Gau.Cfg Rec CErr × List Obs) (i : Nat) : Gau.Cfg Rec CErr × List Obs :=
  match progs[i]?, acc.2[i]? with
  | some p, some ob =>
    let (c', ob') := hstepAux p 8 acc.1 ob i
    (c', acc.2.set i ob')
  | _, _ => acc

def runConc (legacy : Bool) (init : Rec) (progs : List (List COp)) (sched : List Nat) : String :=
  let mk := if legacy then legacyCall else opCall
  let c0 : Gau.Cfg Rec CErr := ⟨init, 0, progs.map (fun p => Gau.Thread.ofCalls (p.map mk))⟩
  let acc1 := sched.foldl (hstep progs) (c0, progs.map (fun _ => ({} : Obs)))
  -- afterwards every thread, in index order, runs to completion
  let acc2 := (List.range progs.length).foldl (fun acc i =>
    (List.range (6 * ((progs[i]?.getD []).length + 1))).foldl (fun acc _ => hstep progs acc i) acc) acc1
  let amp (xs : List String) : String := if xs.isEmpty then "-" else "&".intercalate xs
  let showObs (ob : Obs) : String := amp ob.rets.reverse ++ "/" ++ amp ob.traces.reverse
  encRec acc2.1.store ++ "#" ++ ";".intercalate (acc2.2.map showObs)

def handleConc? (legacy : Bool) (init sched : String) (progs : List String) : Option String := do
  let init : Rec := if init = "~" then none else some (decList init)
  let progs ← progs.mapM (fun p => if p = "-" then some [] else (p.splitOn ";").mapM parseCOp?)
  let sched ← (if sched = "-" then some [] else (sched.splitOn ",").mapM parseNat?)
  pure (runConc legacy init progs sched)

def handle? (toks : List String) : Option String :=
  match toks with
  | ["par.union", has, more] => some (encList (traitUnion (decList has) (decList more)))
  | ["par.remove", has, rm] => some (encList (traitRemove (decList has) (decList rm)))
  | "par.seq" :: ops => do
    let ops ← ops.mapM parseOp?
    pure (runSeq ops)
  | "par.conc" :: init :: sched :: progs => handleConc? false init sched progs
  | "par.conc.legacy" :: init :: sched :: progs => handleConc? true init sched progs
  | _ => none

end ScVerif.C20.Parent
