import ScVerif.Base.Line
import ScVerif.C20.Parent
import ScVerif.C20.Esc
/-! Driver ops of the Parent model: `par.union`, `par.remove`, `par.seq`. -/
namespace ScVerif.C20.Parent
open ScVerif.Line

def decList (s : String) : List String :=
  if s = "-" || s = "" then [] else (s.splitOn ",").map unesc

def encList (xs : List String) : String :=
  if xs.isEmpty then "-" else ",".intercalate (xs.map esc)

def decName (s : String) : String := if s = "~" then "" else unesc s
def encName (s : String) : String := if s = "" then "~" else esc s

def parseOp? (tok : String) : Option Op :=
  match tok.splitOn ":" with
  | ["addchild", n, ts] => some (.addChild (decName n) (decList ts))
  | ["add", n, ts] => some (.addTrait (decName n) (decList ts))
  | ["rm", n, ts] => some (.removeTrait (decName n) (decList ts))
  | ["rmchild", n, _] => some (.removeChild (decName n))
  | _ => none

/-- `ListChildren`: sorted by child name. -/
def showState (s : Children) : String :=
  let sorted := s.mergeSort (fun a b => decide (a.1 ≤ b.1))
  if sorted.isEmpty then "-"
  else "|".intercalate (sorted.map (fun kv => encName kv.1 ++ "=" ++ encList kv.2))

def runSeq (ops : List Op) : String :=
  let (_, outs) := ops.foldl (fun (acc : Children × List String) o =>
    let (s', ret) := step acc.1 o
    (s', (ret ++ "#" ++ showState s') :: acc.2)) ([], [])
  ";".intercalate outs.reverse

def handle? (toks : List String) : Option String :=
  match toks with
  | ["par.union", has, more] => some (encList (traitUnion (decList has) (decList more)))
  | ["par.remove", has, rm] => some (encList (traitRemove (decList has) (decList rm)))
  | "par.seq" :: ops => do
    let ops ← ops.mapM parseOp?
    pure (runSeq ops)
  | _ => none

end ScVerif.C20.Parent
