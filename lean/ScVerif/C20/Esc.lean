/-! Name escaping of the C20 driver line protocol (I/O glue, mirrors `esc`/`unesc` in harness/cmd/c20/main.go):
names may contain spaces or be empty, so the harness sends `""` as `%e`, `%` as `%25`, ` ` as `%20`. -/
namespace ScVerif.C20

def unesc (s : String) : String :=
  if s = "%e" then "" else (s.replace "%20" " ").replace "%25" "%"

def esc (s : String) : String :=
  if s = "" then "%e" else (s.replace "%" "%25").replace " " "%20"

end ScVerif.C20
