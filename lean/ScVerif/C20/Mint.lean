import ScVerif.C20.Publication
/-!
# C20 / Mint — `mintVersion` as a sequence of operations on a digest, several callers at once

`mintVersion(p)` of `pkg/trait/publicationpb/model.go` takes a digest (`md5.New()`), writes five chunks into it
("v1", id, body, media type, audience name) and reads the sum.  It is called from the `InterceptAfter` of
`withComputedProperties`, i.e. in the change phase of `resource.GetAndUpdate`, which holds no lock: the calls of
different writers - on one model or on different models of the process - run at the same time.  The model below has
one atomic step per digest operation and a map `slot` from callers to digests: `own` (the code: every call has its
own digest) or `shared` (one package-level digest, reset at the start of each call).

The digest is modelled by the bytes written since the last reset; the sum is `Hc` of them, for an arbitrary `Hc`.
-/
namespace ScVerif.C20.Mint
open ScVerif.C20.Publication

/-- concatenation of the chunks (what the digest has seen) -/
def cat : List String → String
  | [] => ""
  | c :: l => c ++ cat l

/-- the five writes of `mintVersion` -/
def chunks (p : Pub) : List String :=
  ["v1", p.id, p.body, p.mediaType, (p.audience.map (·.name)).getD ""]

/-- the version function of `Publication.lean` that a byte-string hash `Hc` gives -/
def hashOf (Hc : String → String) : Hash := fun id body mt aud => Hc (cat ["v1", id, body, mt, aud])

/-- where a caller is inside `mintVersion` -/
inductive Phase where
  | start                          -- before `md5.New()` / `Reset()`
  | writing (left : List String)   -- chunks still to write; `[]`: about to call `Sum`
  | done
  deriving DecidableEq

structure St where
  phase : Nat → Phase          -- per caller
  digest : Nat → String        -- per digest slot: bytes written since its last reset
  out : Nat → Option String    -- per caller: the version it returned

/-- every caller has its own digest (`hash := md5.New()` inside the function) -/
def own : Nat → Nat := id
/-- one digest for the whole process (`var versionHash = md5.New()` ... `versionHash.Reset()`) -/
def shared : Nat → Nat := fun _ => 0

def upd {α : Type} (f : Nat → α) (i : Nat) (v : α) : Nat → α := fun j => if j = i then v else f j

/-- one atomic step of caller `t`, who mints the version of `pubs t` -/
def step (Hc : String → String) (slot : Nat → Nat) (pubs : Nat → Pub) (st : St) (t : Nat) : St :=
  match st.phase t with
  | .start => { st with phase := upd st.phase t (.writing (chunks (pubs t))), digest := upd st.digest (slot t) "" }
  | .writing (c :: l) =>
    { st with phase := upd st.phase t (.writing l), digest := upd st.digest (slot t) (st.digest (slot t) ++ c) }
  | .writing [] => { st with phase := upd st.phase t .done, out := upd st.out t (some (Hc (st.digest (slot t)))) }
  | .done => st

def init : St := ⟨fun _ => .start, fun _ => "", fun _ => none⟩

/-- a schedule: which caller takes the next step -/
def run (Hc : String → String) (slot : Nat → Nat) (pubs : Nat → Pub) (sched : List Nat) : St :=
  sched.foldl (step Hc slot pubs) init

/-- what holds of every caller at every moment when each has its own digest -/
def Inv (Hc : String → String) (pubs : Nat → Pub) (st : St) : Prop :=
  ∀ t, match st.phase t with
    | .start => st.out t = none
    | .writing l => st.digest t ++ cat l = cat (chunks (pubs t)) ∧ st.out t = none
    | .done => st.out t = some (Hc (cat (chunks (pubs t))))

theorem upd_self {α : Type} (f : Nat → α) (i : Nat) (v : α) : upd f i v i = v := by simp [upd]
theorem upd_other {α : Type} (f : Nat → α) (i j : Nat) (v : α) (h : j ≠ i) : upd f i v j = f j := by simp [upd, h]

theorem inv_step (Hc : String → String) (pubs : Nat → Pub) (st : St) (t : Nat) (h : Inv Hc pubs st) :
    Inv Hc pubs (step Hc own pubs st t) := by
  intro u
  have ht := h t
  have hu := h u
  unfold step
  cases hp : st.phase t with
  | start =>
    simp only [own, id]
    by_cases hut : u = t
    · subst hut
      simp only [upd_self]
      rw [hp] at ht
      exact ⟨by simp, ht⟩
    · simp only [upd_other _ _ _ _ hut]
      exact hu
  | writing l =>
    cases l with
    | nil =>
      simp only [own, id]
      by_cases hut : u = t
      · subst hut
        simp only [upd_self]
        rw [hp] at ht
        have := ht.1
        simp only [cat, String.append_empty] at this
        rw [this]
      · simp only [upd_other _ _ _ _ hut]
        exact hu
    | cons c l =>
      simp only [own, id]
      by_cases hut : u = t
      · subst hut
        simp only [upd_self]
        rw [hp] at ht
        refine ⟨?_, ht.2⟩
        rw [← ht.1, cat, String.append_assoc]
      · simp only [upd_other _ _ _ _ hut]
        exact hu
  | done => exact hu

theorem inv_run (Hc : String → String) (pubs : Nat → Pub) (sched : List Nat) :
    Inv Hc pubs (run Hc own pubs sched) := by
  unfold run
  suffices h : ∀ st, Inv Hc pubs st → Inv Hc pubs (sched.foldl (step Hc own pubs) st) from
    h init (fun t => by simp [init])
  induction sched with
  | nil => intro st h; exact h
  | cons t rest ih => intro st h; exact ih _ (inv_step Hc pubs st t h)

theorem cat_chunks (Hc : String → String) (p : Pub) : Hc (cat (chunks p)) = mint (hashOf Hc) p := rfl

/-- how a caller's own step moves its phase (whatever the digests are) -/
def next (p : Pub) : Phase → Phase
  | .start => .writing (chunks p)
  | .writing (_ :: l) => .writing l
  | .writing [] => .done
  | .done => .done

def iter (p : Pub) : Nat → Phase → Phase
  | 0, ph => ph
  | n + 1, ph => iter p n (next p ph)

theorem phase_step (Hc : String → String) (slot : Nat → Nat) (pubs : Nat → Pub) (st : St) (u t : Nat) :
    (step Hc slot pubs st u).phase t = if u = t then next (pubs t) (st.phase t) else st.phase t := by
  unfold step
  by_cases hut : u = t
  · subst hut
    cases hp : st.phase u with
    | start => simp [next, upd]
    | writing l => cases l <;> simp [next, upd]
    | done => simp [next, hp]
  · have htu : t ≠ u := fun h => hut h.symm
    cases hp : st.phase u with
    | start => simp [upd, hut, htu]
    | writing l => cases l <;> simp [upd, hut, htu]
    | done => simp [hut]

theorem phase_foldl (Hc : String → String) (slot : Nat → Nat) (pubs : Nat → Pub) (t : Nat) (sched : List Nat) :
    ∀ st, (sched.foldl (step Hc slot pubs) st).phase t = iter (pubs t) (sched.count t) (st.phase t) := by
  induction sched with
  | nil => intro st; rfl
  | cons u rest ih =>
    intro st
    rw [List.foldl_cons, ih, phase_step]
    by_cases hut : u = t
    · subst hut; simp [iter]
    · simp [hut]

theorem iter_done (p : Pub) : ∀ n, iter p n .done = .done
  | 0 => rfl
  | n + 1 => by simp [iter, next, iter_done p n]

/-! ## Several devices in one process

Every device (model instance) has its own store; an operation addressed to device `d` goes through `d`'s own
`GetAndUpdate`.  Generic in the state and the step function. -/

/-- one operation `e.2` on device `e.1` -/
def stepAt {σ α : Type} (f : σ → α → σ) (st : Nat → σ) (e : Nat × α) : Nat → σ :=
  upd st e.1 (f (st e.1) e.2)

/-- the operations addressed to device `d`, in order -/
def opsOf {α : Type} (d : Nat) (sched : List (Nat × α)) : List α :=
  (sched.filter (fun e => e.1 = d)).map (·.2)

theorem stepAt_foldl {σ α : Type} (f : σ → α → σ) (d : Nat) (sched : List (Nat × α)) :
    ∀ st : Nat → σ, (sched.foldl (stepAt f) st) d = (opsOf d sched).foldl f (st d) := by
  induction sched with
  | nil => intro st; rfl
  | cons e rest ih =>
    intro st
    rw [List.foldl_cons, ih]
    by_cases h : e.1 = d
    · simp [opsOf, stepAt, h, upd]
    · have h' : ¬ d = e.1 := fun x => h x.symm
      simp [opsOf, stepAt, h, h', upd]

end ScVerif.C20.Mint
