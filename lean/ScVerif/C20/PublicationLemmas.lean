import ScVerif.C20.Publication
namespace ScVerif.C20.Publication

theorem lookup_set_self (n : String) (v : Pub) (s : Store) : lookup n (set n v s) = some v := by
  induction s with
  | nil => simp [set, lookup]
  | cons kv rest ih =>
    obtain ⟨k, w⟩ := kv
    by_cases h : k = n <;> simp [set, lookup, h, ih]

theorem lookup_set_other {n m : String} (h : m ≠ n) (v : Pub) (s : Store) :
    lookup m (set n v s) = lookup m s := by
  induction s with
  | nil => simp [set, lookup, Ne.symm h]
  | cons kv rest ih =>
    obtain ⟨k, w⟩ := kv
    by_cases h1 : k = n
    · subst h1; simp [set, lookup, Ne.symm h]
    · by_cases h2 : k = m
      · subst h2; simp [set, lookup, h1]
      · simp [set, lookup, h1, h2, ih]

theorem lookup_erase_self (n : String) (s : Store) : lookup n (erase n s) = none := by
  induction s with
  | nil => simp [erase, lookup]
  | cons kv rest ih =>
    obtain ⟨k, w⟩ := kv
    by_cases h : k = n <;> simp [erase, lookup, h, ih]

theorem lookup_erase_other {n m : String} (h : m ≠ n) (s : Store) :
    lookup m (erase n s) = lookup m s := by
  induction s with
  | nil => simp [erase, lookup]
  | cons kv rest ih =>
    obtain ⟨k, w⟩ := kv
    by_cases h1 : k = n
    · subst h1; simp [erase, lookup, Ne.symm h, ih]
    · by_cases h2 : k = m
      · subst h2; simp [erase, lookup, h1]
      · simp [erase, lookup, h1, h2, ih]

/-- every stored publication's version is the hash of its own content and it has a publish time -/
def VersionInv (H : Hash) (s : Store) : Prop :=
  ∀ id p, lookup id s = some p → p.version = mint H p ∧ p.publishTime.isSome

theorem computed_version (H : Hash) (now : Int) (p : Pub) :
    (computed H now p).version = mint H (computed H now p) ∧ (computed H now p).publishTime = some now := by
  refine ⟨?_, rfl⟩
  unfold computed mint
  cases p.audience <;> rfl

theorem inv_set (H : Hash) (s : Store) (n : String) (v : Pub) (hs : VersionInv H s)
    (hv : v.version = mint H v ∧ v.publishTime.isSome) : VersionInv H (set n v s) := by
  intro id p hl
  by_cases h : id = n
  · subst h; rw [lookup_set_self] at hl; cases hl; exact hv
  · rw [lookup_set_other h] at hl; exact hs id p hl

theorem inv_erase (H : Hash) (s : Store) (n : String) (hs : VersionInv H s) : VersionInv H (erase n s) := by
  intro id p hl
  by_cases h : id = n
  · subst h; rw [lookup_erase_self] at hl; cases hl
  · rw [lookup_erase_other h] at hl; exact hs id p hl

theorem inv_step (H : Hash) (now : Int) (s : Store) (op : Op) (hs : VersionInv H s) :
    VersionInv H (step H now s op).1 := by
  cases op with
  | create p =>
    simp only [step]
    cases hl : lookup p.id s with
    | some _ => exact hs
    | none =>
      have := computed_version H now p
      exact inv_set H s _ _ hs ⟨this.1, by rw [this.2]; rfl⟩
  | createGen p g =>
    simp only [step]
    split
    · exact hs
    · have := computed_version H now { p with id := g }
      exact inv_set H s _ _ hs ⟨this.1, by rw [this.2]; rfl⟩
  | update p mask version =>
    simp only [step]
    split
    · exact hs
    · cases hl : lookup p.id s with
      | none => exact hs
      | some cur =>
        simp only
        split
        · exact hs
        · exact inv_set H s _ _ hs ⟨(computed_version H now _).1, by rw [(computed_version H now _).2]; rfl⟩
  | delete id version allowMissing =>
    simp only [step]
    split
    · exact hs
    · cases hl : lookup id s with
      | none => exact hs
      | some cur =>
        simp only
        split
        · exact hs
        · exact inv_erase H s id hs
  | ack id version receipt reason allowAck =>
    simp only [step]
    split
    · exact hs
    · cases hl : lookup id s with
      | none => exact hs
      | some cur =>
        simp only
        split
        · exact hs
        · split
          · exact hs
          · have hc := hs id cur hl
            apply inv_set H s _ _ hs
            refine ⟨?_, hc.2⟩
            show cur.version = _
            rw [hc.1]
            unfold mint
            cases cur.audience <;> rfl

end ScVerif.C20.Publication
