import ScVerif.C20.FanSpeed
namespace ScVerif.C20.FanSpeed

set_option linter.unusedSectionVars false
variable {α : Type} [DecidableEq α] (add : α → α → α)

theorem findIdx_some {p : Preset α → Bool} : ∀ {ps : List (Preset α)} {i : Nat}, findIdx p ps = some i →
    ∃ x, ps[i]? = some x ∧ p x = true
  | [], _, h => by simp [findIdx] at h
  | x :: xs, i, h => by
    unfold findIdx at h
    by_cases hx : p x = true
    · simp only [hx, if_true] at h; cases h; exact ⟨x, rfl, hx⟩
    · simp only [hx] at h
      cases hr : findIdx p xs with
      | none => simp [hr] at h
      | some j =>
        simp only [hr, Option.map_some] at h
        cases h
        obtain ⟨y, hy, hp⟩ := findIdx_some hr
        exact ⟨y, by simpa using hy, hp⟩

theorem findIdx_none {p : Preset α → Bool} : ∀ {ps : List (Preset α)}, findIdx p ps = none → ∀ x ∈ ps, p x = false
  | [], _, x, hx => by simp at hx
  | y :: ys, h, x, hx => by
    unfold findIdx at h
    by_cases hy : p y = true
    · simp [hy] at h
    · simp only [hy] at h
      have hr : findIdx p ys = none := by
        cases hr : findIdx p ys with
        | none => rfl
        | some j => simp [hr] at h
      rcases List.mem_cons.mp hx with rfl | hx
      · simpa using hy
      · exact findIdx_none hr x hx

theorem merged_preset (old : Fan α) (r : Request α) :
    (merged add old r).preset = old.preset ∨ (merged add old r).preset = r.src.preset := by
  unfold merged merge
  cases r.mask with
  | none => right; cases r.relative <;> rfl
  | some fs =>
    by_cases h : Field.preset ∈ fs
    · right; cases r.relative <;> simp [h]
    · left; simp [h]

end ScVerif.C20.FanSpeed
