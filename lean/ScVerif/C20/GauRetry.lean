import ScVerif.C20.Gau
/-!
# C20 — a thread whose calls are made again after a refused commit never sees `Aborted` (lemmas)

Thread-local: whatever the other threads do, a thread whose program consists of retrying calls only has
no `aborted` among its results, at any point of any schedule.
-/
namespace ScVerif.C20.Gau

variable {σ ε : Type}

structure Thread.Retrying (th : Thread σ ε) : Prop where
  cur : ∀ c p, th.cur = some (c, p) → c.retry = true
  todo : ∀ c ∈ th.todo, c.retry = true
  results : Res.aborted ∉ th.results

variable [DecidableEq σ]

theorem callStep_not_aborted (store : σ) (now : Int) (c : Call σ ε) (p : Phase σ) (h : c.retry = true) :
    (callStep store now c p).2.2 ≠ some .aborted := by
  cases p with
  | start => by_cases he : c.early = true <;> simp [callStep, he]
  | haveOld o => cases hck : c.check o <;> by_cases htm : c.timed = true <;> simp [callStep, hck, htm]
  | haveT t => simp [callStep]
  | both o t =>
    by_cases he : c.early = true
    · cases hck : c.check o <;> simp [callStep, he, hck]
    · simp [callStep, he]
  | ready o t => by_cases heq : store = o <;> simp [callStep, heq, h]

theorem threadGo_retrying (store : σ) (now : Int) (results : List (Res σ ε)) (c : Call σ ε) (p : Phase σ)
    (todo : List (Call σ ε)) (hc : c.retry = true) (ht : ∀ c' ∈ todo, c'.retry = true)
    (hr : Res.aborted ∉ results) : (threadGo store now results c p todo).2.Retrying := by
  have h := callStep_not_aborted store now c p hc
  unfold threadGo
  generalize callStep store now c p = out at h
  obtain ⟨s', p', r⟩ := out
  cases r with
  | none =>
    refine ⟨fun c2 p2 heq => ?_, ht, hr⟩
    simp only [Option.some.injEq, Prod.mk.injEq] at heq
    obtain ⟨rfl, _⟩ := heq
    exact hc
  | some r =>
    refine ⟨fun c2 p2 heq => by simp at heq, ht, fun hmem => ?_⟩
    rcases List.mem_cons.mp hmem with rfl | hmem
    · exact h rfl
    · exact hr hmem

theorem threadStep_retrying (store : σ) (now : Int) (th : Thread σ ε) (h : th.Retrying) :
    (threadStep store now th).2.Retrying := by
  obtain ⟨cur, todo, results⟩ := th
  cases cur with
  | some cp =>
    obtain ⟨c, p⟩ := cp
    exact threadGo_retrying store now results c p todo (h.cur c p rfl) h.todo h.results
  | none =>
    cases todo with
    | nil => exact h
    | cons c rest =>
      exact threadGo_retrying store now results c .start rest (h.todo c (List.mem_cons_self ..))
        (fun c' hc' => h.todo c' (List.mem_cons_of_mem _ hc')) h.results

/-- thread `i` stays `Retrying` along any schedule, whatever the other threads are -/
theorem run_retrying (sched : List Ev) : ∀ (c : Cfg σ ε) (i : Nat),
    (∀ th, c.threads[i]? = some th → th.Retrying) →
    ∀ th, (c.run sched).threads[i]? = some th → th.Retrying := by
  induction sched with
  | nil => intro c i h; exact h
  | cons ev rest ih =>
    intro c i h
    refine ih (c.step ev) i ?_
    cases ev with
    | tick d => exact h
    | step j =>
      simp only [Cfg.step]
      cases hth : c.threads[j]? with
      | none => exact h
      | some thj =>
        intro th hget
        simp only [List.getElem?_set] at hget
        split at hget
        · next hji =>
          subst hji
          split at hget
          · simp only [Option.some.injEq] at hget
            subst hget
            exact threadStep_retrying _ _ _ (h thj hth)
          · simp at hget
        · exact h th hget

end ScVerif.C20.Gau

namespace ScVerif.C20.Gau

variable {σ ε : Type} [DecidableEq σ]

/-- thread `th` takes `n` atomic steps in a row, nobody else runs, no time passes -/
def soloRun (now : Int) : Nat → σ × Thread σ ε → σ × Thread σ ε
  | 0, x => x
  | n + 1, x => soloRun now n (threadStep x.1 now x.2)

/-- the phases a call that reads no clock goes through -/
def Phase.untimed : Phase σ → Prop
  | .start | .haveOld _ | .ready _ _ => True
  | _ => False

/-- from `.start`, alone: read, check, (commit): the call ends within 3 steps -/
theorem solo_from_start (store : σ) (now : Int) (c : Call σ ε) (he : c.early = false) (ht : c.timed = false)
    (todo : List (Call σ ε)) (results : List (Res σ ε)) :
    ∃ k, k ≤ 3 ∧ ∃ r s', soloRun now k (store, ⟨some (c, .start), todo, results⟩) = (s', ⟨none, todo, r :: results⟩) := by
  cases hck : c.check store with
  | some e => exact ⟨2, by omega, .err e, store, by simp [soloRun, threadStep, threadGo, callStep, he, hck]⟩
  | none =>
    exact ⟨3, by omega, .ok (c.apply store now), c.apply store now, by
      simp [soloRun, threadStep, threadGo, callStep, he, ht, hck]⟩

/-- **a parked call finishes once the others stop**: a call that reads no clock, parked at any of its
park points, ends (with a result) within 5 of its own steps when no other thread runs in between —
also when its commit is refused first and it has to start over. -/
theorem solo_finishes (store : σ) (now : Int) (c : Call σ ε) (he : c.early = false) (ht : c.timed = false)
    (p : Phase σ) (hp : p.untimed) (todo : List (Call σ ε)) (results : List (Res σ ε)) :
    ∃ k, k ≤ 5 ∧ ∃ r s', soloRun now k (store, ⟨some (c, p), todo, results⟩) = (s', ⟨none, todo, r :: results⟩) := by
  cases p with
  | start =>
    obtain ⟨k, hk, h⟩ := solo_from_start store now c he ht todo results
    exact ⟨k, by omega, h⟩
  | haveOld o =>
    cases hck : c.check o with
    | some e => exact ⟨1, by omega, .err e, store, by simp [soloRun, threadStep, threadGo, callStep, hck]⟩
    | none =>
      by_cases heq : store = o
      · exact ⟨2, by omega, .ok (c.apply o now), c.apply o now, by
          simp [soloRun, threadStep, threadGo, callStep, ht, hck, heq]⟩
      · by_cases hr : c.retry = true
        · obtain ⟨k, hk, r, s', h⟩ := solo_from_start store now c he ht todo results
          refine ⟨k + 2, by omega, r, s', ?_⟩
          simpa [soloRun, threadStep, threadGo, callStep, ht, hck, heq, hr] using h
        · exact ⟨2, by omega, .aborted, store, by
            simp [soloRun, threadStep, threadGo, callStep, ht, hck, heq, hr]⟩
  | ready o t =>
    by_cases heq : store = o
    · exact ⟨1, by omega, .ok (c.apply o t), c.apply o t, by
        simp [soloRun, threadStep, threadGo, callStep, heq]⟩
    · by_cases hr : c.retry = true
      · obtain ⟨k, hk, r, s', h⟩ := solo_from_start store now c he ht todo results
        refine ⟨k + 1, by omega, r, s', ?_⟩
        simpa [soloRun, threadStep, threadGo, callStep, heq, hr] using h
      · exact ⟨1, by omega, .aborted, store, by simp [soloRun, threadStep, threadGo, callStep, heq, hr]⟩
  | haveT t => exact absurd hp (by simp [Phase.untimed])
  | both o t => exact absurd hp (by simp [Phase.untimed])

end ScVerif.C20.Gau
