import ScVerif.C20.ConfigLemmas
/-!
# C20 — models constructed with explicit configuration use it (option plumbing)

Theorems about `calcModelArgs` / `(*modelArgs).apply` / `resource.computeConfig` as modelled in `Config.lean`, for
EVERY list of package defaults, EVERY list of caller options (plain options shared by all resources, options
targeted at one resource, non-resource arguments, in any order and number) and EVERY resource of the model.
-/
namespace ScVerif.C20.Config

/-- Each resource is constructed from exactly the options meant for it, in the order given: every plain option and
the contents of every option targeted at it, package defaults first — and nothing else. -/
theorem C20_config_projection (defaults opts : List MOpt) (r : Nat) :
    (calcModelArgs defaults opts).res r = proj r (defaults ++ opts) := by
  simp [calcModelArgs, apply_res, proj_append]

/-- The non-resource argument (fan-speed presets) is the last one given, a caller's before the package default. -/
theorem C20_config_extra (defaults opts : List MOpt) :
    (calcModelArgs defaults opts).extra = (lastExtra opts).or (lastExtra defaults) := by
  simp [calcModelArgs, apply_extra]

/-- `WithPresets(k)` given by the caller and not followed by another one is what the model uses, whatever the
defaults and the other options are. -/
theorem C20_config_presets_used (defaults o₁ o₂ : List MOpt) (k : Nat) (h : lastExtra o₂ = none) :
    (calcModelArgs defaults (o₁ ++ .extra k :: o₂)).extra = some k := by
  rw [C20_config_extra, lastExtra_append]
  simp [lastExtra, h]

/-- An option targeted at another resource does not change what resource `r` is constructed from, wherever it
stands in the list and whatever it contains (the two resources of the vending model do not share options). -/
theorem C20_config_independent (defaults o₁ o₂ : List MOpt) (r r' : Nat) (os : List ROpt) (h : r ≠ r') :
    (calcModelArgs defaults (o₁ ++ .target r' os :: o₂)).res r = (calcModelArgs defaults (o₁ ++ o₂)).res r := by
  simp [C20_config_projection, proj_append, proj, h]

/-- Non-resource arguments do not reach any resource. -/
theorem C20_config_extra_frame (defaults o₁ o₂ : List MOpt) (r k : Nat) :
    (calcModelArgs defaults (o₁ ++ .extra k :: o₂)).res r = (calcModelArgs defaults (o₁ ++ o₂)).res r := by
  simp [C20_config_projection, proj_append, proj]

/-- A resource that is constructed (no panic) holds: the initial records meant for it, each once, in order; and the
last clock, random source, comparer and initial value meant for it (the resource package's defaults if none). -/
theorem C20_config_resource (defaults opts : List MOpt) (r : Nat) (c : RConfig)
    (h : computeConfig ((calcModelArgs defaults opts).res r) = some c) :
    c.records = recsOf (proj r (defaults ++ opts)) ∧ (c.records.map Prod.fst).Nodup ∧
    c.clock = lastClock 0 (proj r (defaults ++ opts)) ∧ c.rng = lastRng 0 (proj r (defaults ++ opts)) ∧
    c.equiv = lastEquiv 0 (proj r (defaults ++ opts)) ∧
    c.initialValue = lastValue none (proj r (defaults ++ opts)) := by
  rw [C20_config_projection] at h
  have hs := computeFrom_some h
  have hn : computeFrom {} (proj r (defaults ++ opts)) ≠ none := by
    intro hh; rw [computeConfig, hh] at h; cases h
  have hnd : ((recsOf (proj r (defaults ++ opts))).map Prod.fst).Nodup :=
    Classical.byContradiction fun hh =>
      hn ((computeFrom_none_iff {} (proj r (defaults ++ opts)) (by simp)).mpr (by simpa using hh))
  have hrec : c.records = recsOf (proj r (defaults ++ opts)) := by simpa using hs.1
  exact ⟨hrec, hrec ▸ hnd, hs.2.1, hs.2.2.1, hs.2.2.2.1, hs.2.2.2.2⟩

/-- Constructing a resource panics exactly when two initial records meant for it carry the same id (documented:
"creating a model with duplicate names will panic"). -/
theorem C20_config_panic_iff (os : List ROpt) :
    computeConfig os = none ↔ ¬ ((recsOf os).map Prod.fst).Nodup := by
  simpa [computeConfig] using computeFrom_none_iff {} os (by simp)

/-- `NewModel` of a model with `n` resources panics exactly when, for one of ITS resources, two initial records
meant for that resource share an id: records configured for different resources never collide. -/
theorem C20_config_newModel_panic_iff (n : Nat) (defaults opts : List MOpt) :
    newModel n defaults opts = none ↔
      ∃ r, r < n ∧ ¬ ((recsOf (proj r (defaults ++ opts))).map Prod.fst).Nodup := by
  simp only [newModel]
  split
  · rename_i hall
    simp only [reduceCtorEq, false_iff, not_exists, not_and]
    intro r hr
    have := List.all_eq_true.mp hall (computeConfig ((calcModelArgs defaults opts).res r))
      (List.mem_map.mpr ⟨r, List.mem_range.mpr hr, rfl⟩)
    intro hnd
    rw [C20_config_projection] at this
    rw [(C20_config_panic_iff _).mpr hnd] at this
    cases this
  · rename_i hall
    simp only [true_iff]
    apply Classical.byContradiction
    intro hne
    apply hall
    apply List.all_eq_true.mpr
    intro x hx
    obtain ⟨r, hr, rfl⟩ := List.mem_map.mp hx
    rw [C20_config_projection]
    cases hc : computeConfig (proj r (defaults ++ opts)) with
    | some c => rfl
    | none => exact absurd ⟨r, List.mem_range.mp hr, (C20_config_panic_iff _).mp hc⟩ hne

/-- The headline clause: `WithInitialX(recs...)` (an option targeted at resource `r` made of initial records) in
any position of any option list, on a model that is constructed: every one of those records is in resource `r`
with the configured value, and every OTHER resource holds exactly what it would hold without this option. -/
theorem C20_config_initial_records_used (defaults o₁ o₂ : List MOpt) (r : Nat) (recs : List (String × Nat))
    (c : RConfig)
    (h : computeConfig ((calcModelArgs defaults
      (o₁ ++ .target r (recs.map fun p => .initialRecord p.1 p.2) :: o₂)).res r) = some c) :
    (∀ p ∈ recs, p ∈ c.records) ∧
    ∀ r', r' ≠ r → (calcModelArgs defaults
        (o₁ ++ .target r (recs.map fun p => .initialRecord p.1 p.2) :: o₂)).res r' =
      (calcModelArgs defaults (o₁ ++ o₂)).res r' := by
  constructor
  · intro p hp
    have := (C20_config_resource _ _ _ _ h).1
    rw [this]
    simp only [← List.append_assoc, proj_append, proj, if_true, recsOf_append, List.mem_append,
      recsOf_map_initialRecord]
    exact Or.inl (Or.inr hp)
  · intro r' hr'
    exact C20_config_independent defaults o₁ o₂ r' r _ hr'

/-! ## Non-vacuity -/

/-- The vending shape that the shared-backing-array variant of `apply` breaks: three shared options, one initial
consumable (resource 0) and one initial stock (resource 1): each record is in its own collection only, both
resources use the third shared option's clock. -/
example : newModel 2 [] [.shared (.clock 1), .shared (.rng 1), .shared (.equiv 1),
      .target 0 [.initialRecord "cola" 7], .target 1 [.initialRecord "cola-stock" 8]] =
    some ([{ clock := 1, rng := 1, equiv := 1, records := [("cola", 7)] },
           { clock := 1, rng := 1, equiv := 1, records := [("cola-stock", 8)] }], none) := by decide

/-- The same id for a consumable and for its stock is fine (different resources) … -/
example : (newModel 2 [] [.target 0 [.initialRecord "a" 1], .target 1 [.initialRecord "a" 2]]).isSome = true := by
  decide
/-- … twice for the same resource is the documented panic, also when one comes from the package defaults. -/
example : newModel 2 [.target 1 [.initialRecord "a" 1]] [.target 1 [.initialRecord "a" 2]] = none := by decide

/-- A targeted clock given BEFORE a shared one is overridden by it (order of the list, as in the code). -/
example : ((newModel 1 [] [.target 0 [.clock 2], .shared (.clock 3)]).map (·.1.map (·.clock))) = some [3] := by
  decide

/-- Fan-speed defaults then a caller's presets. -/
example : (calcModelArgs [.target 0 [.initialValue 0], .target 0 [.equiv 1], .extra 0] [.extra 5]).extra = some 5 := by
  decide

end ScVerif.C20.Config
