import ScVerif.C20.EnterLeave
/-! Spec (two integer counters), refinement relation and helper lemmas for C20/EnterLeave. -/
namespace ScVerif.C20.EnterLeave

/-- Spec: two plain integer counters. -/
abbrev Counters := Int × Int

def specAdjust (val : Option Int) (cur : Int) (inc : Bool) : Int :=
  match val with
  | some v => if v ≠ cur then v else cur + (if inc then 1 else 0)
  | none => cur + (if inc then 1 else 0)

def specStep (c : Counters) : Op → Counters
  | .event ev => (specAdjust ev.enterTotal c.1 (ev.direction == 1), specAdjust ev.leaveTotal c.2 (ev.direction == 2))
  | .reset => (0, 0)

/-- the stored event carries the counters (an absent total counts as 0, as in the code) -/
def Refines (s : Event) (c : Counters) : Prop :=
  s.enterTotal.getD 0 = c.1 ∧ s.leaveTotal.getD 0 = c.2

/-- a counter that can still be incremented and is a valid int32 -/
def Safe (c : Counters) : Prop :=
  -2147483648 ≤ c.1 ∧ c.1 < 2147483647 ∧ -2147483648 ≤ c.2 ∧ c.2 < 2147483647

/-- every state the spec passes through (before each op) is safe -/
def SafeRun : Counters → List Op → Prop
  | _, [] => True
  | c, o :: rest => Safe c ∧ SafeRun (specStep c o) rest

theorem wrap32_succ (x : Int) (h1 : -2147483648 ≤ x) (h2 : x < 2147483647) : wrap32 (x + 1) = x + 1 := by
  unfold wrap32; omega

theorem adjust_refines (val cur : Option Int) (c : Int) (inc : Bool) (h : cur.getD 0 = c)
    (h1 : -2147483648 ≤ c) (h2 : c < 2147483647) :
    (adjustTotal val cur inc).getD 0 = specAdjust val c inc := by
  unfold adjustTotal specAdjust
  simp only [h]
  cases val with
  | none => cases inc <;> simp [wrap32_succ c h1 h2]
  | some v =>
    by_cases hv : v = c
    · subst hv; cases inc <;> simp [wrap32_succ _ h1 h2]
    · simp [hv]

end ScVerif.C20.EnterLeave
