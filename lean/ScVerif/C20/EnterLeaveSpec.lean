import ScVerif.C20.EnterLeave
/-! Specs (two integer counters, plain and saturating), refinement relation and helper lemmas for C20/EnterLeave. -/
namespace ScVerif.C20.EnterLeave

/-- Spec state: two integer counters. -/
abbrev Counters := Int × Int

/-- plain counter: an explicit different total replaces, otherwise add one when the direction matches -/
def specAdjust (val : Option Int) (cur : Int) (inc : Bool) : Int :=
  match val with
  | some v => if v ≠ cur then v else cur + (if inc then 1 else 0)
  | none => cur + (if inc then 1 else 0)

def specStep (c : Counters) : Op → Counters
  | .event ev => (specAdjust ev.enterTotal c.1 (ev.direction == 1), specAdjust ev.leaveTotal c.2 (ev.direction == 2))
  | .reset => (0, 0)

/-- saturating counter: the same, but a counter at the int32 maximum stays there -/
def satAdjust (val : Option Int) (cur : Int) (inc : Bool) : Int :=
  match val with
  | some v => if v ≠ cur then v else min (cur + (if inc then 1 else 0)) (max cur maxInt32)
  | none => min (cur + (if inc then 1 else 0)) (max cur maxInt32)

def satStep (c : Counters) : Op → Counters
  | .event ev => (satAdjust ev.enterTotal c.1 (ev.direction == 1), satAdjust ev.leaveTotal c.2 (ev.direction == 2))
  | .reset => (0, 0)

/-- the stored event carries the counters (an absent total counts as 0, as in the code) -/
def Refines (s : Event) (c : Counters) : Prop :=
  s.enterTotal.getD 0 = c.1 ∧ s.leaveTotal.getD 0 = c.2

/-- both counters can still be incremented -/
def Safe (c : Counters) : Prop := c.1 < maxInt32 ∧ c.2 < maxInt32

/-- every state the spec passes through (before each op) is safe -/
def SafeRun : Counters → List Op → Prop
  | _, [] => True
  | c, o :: rest => Safe c ∧ SafeRun (specStep c o) rest

theorem adjust_refines (val cur : Option Int) (c : Int) (inc : Bool) (h : cur.getD 0 = c)
    (h2 : c < maxInt32) :
    (adjustTotal val cur inc).getD 0 = specAdjust val c inc := by
  unfold adjustTotal specAdjust bump
  simp only [h]
  cases val with
  | none => cases inc <;> simp [h2]
  | some v =>
    by_cases hv : v = c
    · subst hv; cases inc <;> simp [h2]
    · simp [hv]

theorem bump_sat (c : Int) (inc : Bool) :
    bump c inc = min (c + (if inc then 1 else 0)) (max c maxInt32) := by
  unfold bump
  simp only [Int.min_def, Int.max_def]
  cases inc <;> simp <;> (repeat' split) <;> omega

theorem adjust_refines_sat (val cur : Option Int) (c : Int) (inc : Bool) (h : cur.getD 0 = c) :
    (adjustTotal val cur inc).getD 0 = satAdjust val c inc := by
  unfold adjustTotal satAdjust
  simp only [h]
  cases val with
  | none => simp [bump_sat]
  | some v =>
    by_cases hv : v = c
    · subst hv; simp [bump_sat]
    · simp [hv]

theorem adjust_nonneg (val cur : Option Int) (inc : Bool) (hc : 0 ≤ cur.getD 0) (hv : ∀ v, val = some v → 0 ≤ v) :
    0 ≤ (adjustTotal val cur inc).getD 0 := by
  unfold adjustTotal bump
  cases val with
  | none => simp only [Option.getD_some]; split <;> omega
  | some v =>
    have := hv v rfl
    simp only
    split
    · simpa using this
    · simp only [Option.getD_some]; split <;> omega

end ScVerif.C20.EnterLeave
