import ScVerif.Base.Line
import ScVerif.C20.FanSpeed
import ScVerif.C20.DrvVending
/-! Driver op of the FanSpeed model: `fan.seq <presets> <init> <op>…` -/
namespace ScVerif.C20.FanSpeed
open ScVerif.Line
open ScVerif.C20.Vending (parseRat? showRat)

def decStr (s : String) : String := if s = "~" then "" else unesc s
def encStr (s : String) : String := if s = "" then "~" else esc s

def parsePresets? (s : String) : Option (List Preset) :=
  if s = "-" then some []
  else (s.splitOn ",").mapM (fun part =>
    match part.splitOn ":" with
    | [n, p] => (parseRat? p).map (fun p => ⟨decStr n, p⟩)
    | _ => none)

def parseFan? (s : String) : Option Fan :=
  match s.splitOn "," with
  | [pct, preset, idx, dir] => do
    let pct ← parseRat? pct
    let idx ← parseInt? idx
    let dir ← parseInt? dir
    pure ⟨pct, decStr preset, idx, dir⟩
  | _ => none

def showFan (v : Fan) : String :=
  showRat v.pct ++ "," ++ encStr v.preset ++ "," ++ toString v.index ++ "," ++ toString v.direction

def parseField? (s : String) : Option Field :=
  if s = "percentage" then some .pct
  else if s = "preset" then some .preset
  else if s = "preset_index" then some .index
  else if s = "direction" then some .direction
  else none

def parseReq? (s : String) : Option Request :=
  match s.splitOn "|" with
  | [rel, mask, fan] => do
    let rel ← if rel = "rel" then some true else if rel = "abs" then some false else none
    let mask ← if mask = "none" then some none
      else if mask.startsWith "m:" then ((mask.drop 2).toString.splitOn "+").mapM parseField? |>.map some
      else none
    let fan ← parseFan? fan
    pure ⟨fan, rel, mask⟩
  | _ => none

def handle? (toks : List String) : Option String :=
  match toks with
  | "fan.seq" :: ps :: init :: reqs => do
    let ps ← parsePresets? ps
    let init ← parseFan? init
    let reqs ← reqs.mapM parseReq?
    let (_, outs) := reqs.foldl (fun (acc : Fan × List String) r =>
      let ret := match update ps acc.1 r with
        | .ok _ => "ok"
        | .invalidArgument => "err:InvalidArgument"
        | .panic => "panic"
      let s' := step ps acc.1 r
      (s', (ret ++ "#" ++ showFan s') :: acc.2)) (init, ["init#" ++ showFan init])
    pure (";".intercalate outs.reverse)
  | _ => none

end ScVerif.C20.FanSpeed
