import ScVerif.Base.Line
import ScVerif.C20.FanSpeed
import ScVerif.C20.DrvVending
import ScVerif.C20.ModeFanConc
/-! Driver ops of the FanSpeed model: `fan.seq <presets> <init> <op>…`, `fan.conc <presets> <init> <sched> <prog>…` -/
namespace ScVerif.C20.FanSpeed
open ScVerif.Line

/-- float32 addition on IEEE-754 bit patterns: the `add` of the generic model, as the code's `+=` -/
def addBits (a b : UInt32) : UInt32 := (Float32.ofBits a + Float32.ofBits b).toBits

/-- a percentage travels as the decimal bit pattern of its float32 -/
def parsePct? (s : String) : Option UInt32 :=
  (parseNat? s).bind (fun n => if n < 4294967296 then some n.toUInt32 else none)

def decStr (s : String) : String := if s = "~" then "" else unesc s
def encStr (s : String) : String := if s = "" then "~" else esc s

def parsePresets? (s : String) : Option (List (Preset UInt32)) :=
  if s = "-" then some []
  else (s.splitOn ",").mapM (fun part =>
    match part.splitOn ":" with
    | [n, p] => (parsePct? p).map (fun p => ⟨decStr n, p⟩)
    | _ => none)

def parseFan? (s : String) : Option (Fan UInt32) :=
  match s.splitOn "," with
  | [pct, preset, idx, dir] => do
    let pct ← parsePct? pct
    let idx ← parseInt? idx
    let dir ← parseInt? dir
    pure ⟨pct, decStr preset, idx, dir⟩
  | _ => none

def showFan (v : Fan UInt32) : String :=
  toString v.pct.toNat ++ "," ++ encStr v.preset ++ "," ++ toString v.index ++ "," ++ toString v.direction

def parseField? (s : String) : Option Field :=
  if s = "percentage" then some .pct
  else if s = "preset" then some .preset
  else if s = "preset_index" then some .index
  else if s = "direction" then some .direction
  else none

def parseReq? (s : String) : Option (Request UInt32) :=
  match s.splitOn "|" with
  | [rel, mask, fan] => do
    let rel ← if rel = "rel" then some true else if rel = "abs" then some false else none
    let mask ← if mask = "none" then some none
      else if mask.startsWith "m:" then ((mask.drop 2).toString.splitOn "+").mapM parseField? |>.map some
      else none
    let fan ← parseFan? fan
    pure ⟨fan, rel, mask⟩
  | _ => none

def handle? (toks : List String) : Option String :=
  match toks with
  | "fan.seq" :: ps :: init :: reqs => do
    let ps ← parsePresets? ps
    let init ← parseFan? init
    let reqs ← reqs.mapM parseReq?
    let (_, outs) := reqs.foldl (fun (acc : Fan UInt32 × List String) r =>
      let ret := match update addBits ps acc.1 r with
        | .ok _ => "ok"
        | .invalidArgument => "err:InvalidArgument"
        | .panic => "panic"
      let s' := step addBits ps acc.1 r
      (s', (ret ++ "#" ++ showFan s') :: acc.2)) (init, ["init#" ++ showFan init])
    pure (";".intercalate outs.reverse)
  | "fan.conc" :: ps :: init :: sched :: progs => do
    -- progs: one token per thread, requests separated by `;`; sched: `,`-separated thread steps; the
    -- interleaving model of `C20_fan_conc_is_sequential_run` (`requestCall`), then every thread finishes
    let ps ← parsePresets? ps
    let init ← parseFan? init
    let progs ← progs.mapM (fun p => if p = "-" then some [] else (p.splitOn ";").mapM parseReq?)
    let sched ← (if sched = "-" then some [] else (sched.splitOn ",").mapM (fun s => (parseNat? s).map Gau.Ev.step))
    let c0 : Gau.Cfg (Fan UInt32) FErr := ⟨init, 0, progs.map (fun p => Gau.Thread.ofCalls (p.map (requestCall addBits ps)))⟩
    let c1 := c0.run sched
    let c2 := c1.run (Gau.drainSched c1.threads)
    let showRes : Gau.Res (Fan UInt32) FErr → String
      | .ok v => "ok=" ++ showFan v
      | .err .invalidArgument => "err:InvalidArgument"
      | .err .panic => "panic"
      | .aborted => "Aborted"
    let showTrace : Gau.Res (Fan UInt32) FErr → String
      | .err _ => "r"
      | _ => "rl"
    let amp (xs : List String) : String := if xs.isEmpty then "-" else "&".intercalate xs
    let showTh (th : Gau.Thread (Fan UInt32) FErr) : String :=
      (if th.cur.isSome || !th.todo.isEmpty then "unfinished:" else "") ++
      amp (th.results.reverse.map showRes) ++ "::" ++ amp (th.results.reverse.map showTrace)
    pure (showFan c2.store ++ "#" ++ ";;".intercalate (c2.threads.map showTh))
  | _ => none

end ScVerif.C20.FanSpeed
