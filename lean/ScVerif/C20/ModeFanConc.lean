import ScVerif.C20.Mode
import ScVerif.C20.FanSpeed
import ScVerif.C20.Gau
/-!
# C20 / Mode, FanSpeed — concurrent `UpdateModeValues` / `UpdateFanSpeed` as calls of the generic model

Both write through `resource.Value.Set` = `GetAndUpdate`; the relative adjustments (`relativeAdjustment`,
the fan server's relative interceptor and `DeriveValues`) are `InterceptBefore` / `InterceptAfter` functions
that compute from the value READ INSIDE the transaction; neither reads the clock in its change function;
a refused commit is handed to the RPC's caller as `Aborted` (no retry).
-/
namespace ScVerif.C20.Mode

abbrev MoCall := Gau.Call Values Unit

def requestCall (modes : List ModeDef) (r : Request) : MoCall :=
  ⟨false, fun _ => none, fun old _ => update modes old r.vals r.rel r.mask, false, false⟩

theorem requestCall_apply (modes : List ModeDef) (r : Request) (old : Values) (t : Int) :
    (requestCall modes r).apply old t = (Model.step ⟨modes, old⟩ r).values := rfl

theorem run_values (modes : List ModeDef) : ∀ (rs : List Request) (v : Values),
    (Model.run ⟨modes, v⟩ rs).values = rs.foldl (fun v r => (Model.step ⟨modes, v⟩ r).values) v := by
  intro rs
  induction rs with
  | nil => intro v; rfl
  | cons r rest ih => intro v; exact ih _

end ScVerif.C20.Mode

namespace ScVerif.C20.FanSpeed

variable {α : Type} [DecidableEq α]

inductive FErr where
  | invalidArgument
  | panic
  deriving DecidableEq

/-- `ModelServer.UpdateFanSpeed`: an unknown preset name / a failing `DeriveValues` is an error of the
change function (nothing is written), otherwise the derived value is committed -/
def requestCall (add : α → α → α) (ps : List (Preset α)) (r : Request α) : Gau.Call (Fan α) FErr :=
  ⟨false,
   fun old => match update add ps old r with
     | .ok _ => none
     | .invalidArgument => some .invalidArgument
     | .panic => some .panic,
   fun old _ => step add ps old r, false, false⟩

end ScVerif.C20.FanSpeed
