import ScVerif.C20.PublicationLemmas
/-!
# C20 / Publication — the receipt belongs to the stored version (invariant lemmas)

`ReceiptOK now p`: the publication has a publish time `pt ≤ now`, and a recorded receipt time `t`
satisfies `pt ≤ t ≤ now`: an acknowledgement is never older than the version it is attached to.
This is what breaks when a create/update mints a new version (new publish time) but lets receipt
details of an earlier version — or client-supplied ones — through.
-/
namespace ScVerif.C20.Publication

def ReceiptOK (now : Int) (p : Pub) : Prop :=
  ∃ pt, p.publishTime = some pt ∧ pt ≤ now ∧
    ∀ a, p.audience = some a → ∀ t, a.receiptTime = some t → pt ≤ t ∧ t ≤ now

def RInv (now : Int) (s : Store) : Prop := ∀ id p, lookup id s = some p → ReceiptOK now p

theorem ReceiptOK.mono {now now' : Int} {p : Pub} (h : ReceiptOK now p) (hle : now ≤ now') : ReceiptOK now' p := by
  obtain ⟨pt, h1, h2, h3⟩ := h
  exact ⟨pt, h1, by omega, fun a ha t ht => ⟨(h3 a ha t ht).1, by have := (h3 a ha t ht).2; omega⟩⟩

theorem RInv.mono {now now' : Int} {s : Store} (h : RInv now s) (hle : now ≤ now') : RInv now' s :=
  fun id p hl => (h id p hl).mono hle

theorem computed_receiptOK (H : Hash) (now : Int) (p : Pub) : ReceiptOK now (computed H now p) := by
  refine ⟨now, rfl, Int.le_refl _, fun a ha t ht => ?_⟩
  unfold computed at ha
  cases hp : p.audience with
  | none => simp [hp] at ha
  | some a0 => simp [hp] at ha; subst ha; simp at ht

theorem rinv_set (now : Int) (s : Store) (n : String) (v : Pub) (hs : RInv now s) (hv : ReceiptOK now v) :
    RInv now (set n v s) := by
  intro id p hl
  by_cases h : id = n
  · subst h; rw [lookup_set_self] at hl; cases hl; exact hv
  · rw [lookup_set_other h] at hl; exact hs id p hl

theorem rinv_erase (now : Int) (s : Store) (n : String) (hs : RInv now s) : RInv now (erase n s) := by
  intro id p hl
  by_cases h : id = n
  · subst h; rw [lookup_erase_self] at hl; cases hl
  · rw [lookup_erase_other h] at hl; exact hs id p hl

/-- one operation at a clock value not before the invariant's -/
theorem rinv_step (H : Hash) (now t : Int) (s : Store) (op : Op) (hs0 : RInv now s) (hle : now ≤ t) :
    RInv t (step H t s op).1 := by
  have hs : RInv t s := hs0.mono hle
  cases op with
  | create p =>
    simp only [step]
    cases hl : lookup p.id s with
    | some _ => exact hs
    | none => exact rinv_set t s _ _ hs (computed_receiptOK H t p)
  | createGen p g =>
    simp only [step]
    split
    · exact hs
    · exact rinv_set t s _ _ hs (computed_receiptOK H t _)
  | update p mask version =>
    simp only [step]
    split
    · exact hs
    · cases hl : lookup p.id s with
      | none => exact hs
      | some cur =>
        simp only
        split
        · exact hs
        · exact rinv_set t s _ _ hs (computed_receiptOK H t _)
  | delete id version allowMissing =>
    simp only [step]
    split
    · exact hs
    · cases hl : lookup id s with
      | none => exact hs
      | some cur =>
        simp only
        split
        · exact hs
        · exact rinv_erase t s id hs
  | ack id version receipt reason allowAck =>
    simp only [step]
    split
    · exact hs
    · cases hl : lookup id s with
      | none => exact hs
      | some cur =>
        simp only
        split
        · exact hs
        · split
          · exact hs
          · obtain ⟨pt, h1, h2, _⟩ := hs id cur hl
            apply rinv_set t s _ _ hs
            refine ⟨pt, h1, h2, fun a ha t' ht' => ?_⟩
            simp only [Option.some.injEq] at ha
            subst ha
            simp only [Option.some.injEq] at ht'
            subst ht'
            exact ⟨h2, Int.le_refl _⟩

end ScVerif.C20.Publication
