import ScVerif.Base.Line
import ScVerif.C20.Publication
import ScVerif.C20.PubConc
import ScVerif.C20.Esc
/-! Driver op of the Publication model: `pub.seq <op>…`; the clock starts at 1000 and ticks once per op. -/
namespace ScVerif.C20.Publication
open ScVerif.Line

def decStr (s : String) : String := if s = "~" then "" else unesc s
def encStr (s : String) : String := if s = "" then "~" else esc s

/-- the driver's concrete instance of the abstract hash: an injective-enough rendering of its inputs -/
def Hc : Hash := fun id body mt aud => "H(" ++ id ++ "\x00" ++ body ++ "\x00" ++ mt ++ "\x00" ++ aud ++ ")"

def showOptInt : Option Int → String
  | none => "-"
  | some i => toString i

def showPub (p : Pub) : String :=
  let v := if p.version = mint Hc p then "H" else "X:" ++ p.version
  let (aud, receipt, reason, rt) := match p.audience with
    | some a => (encStr a.name, a.receipt, a.reason, showOptInt a.receiptTime)
    | none => ("-", 0, "", "-")
  "|".intercalate [encStr p.id, encStr p.body, encStr p.mediaType, aud, toString receipt, encStr reason, rt, v,
    showOptInt p.publishTime]

def showStore (s : Store) : String :=
  let sorted := s.mergeSort (fun a b => decide (a.1 ≤ b.1))
  if sorted.isEmpty then "-" else "/".intercalate (sorted.map (fun kv => showPub kv.2))

def showCode : Code → String
  | .ok => "ok"
  | .alreadyExists => "err:AlreadyExists"
  | .invalidArgument => "err:InvalidArgument"
  | .notFound => "err:NotFound"
  | .failedPrecondition => "err:FailedPrecondition"
  | .aborted => "err:Aborted"

def mkPub? (id body mt aud receipt reason : String) : Option Pub := do
  let receipt ← parseInt? receipt
  let audience := if aud = "-" then none else some (⟨decStr aud, receipt, decStr reason, none⟩ : Audience)
  pure ⟨decStr id, decStr body, decStr mt, audience, "client-supplied", none⟩

def parseMask? (s : String) : Option UMask :=
  if s = "none" then some .none
  else if s.startsWith "m:" then
    let fs := (s.drop 2).toString.splitOn "+"
    if fs.all (fun f => f = "body" || f = "media_type" || f = "audience" || f = "audience.name") then
      if fs.contains "audience" && fs.contains "audience.name" then none
      else some (.fields (fs.contains "body") (fs.contains "media_type")
        (if fs.contains "audience" then .whole else if fs.contains "audience.name" then .name else .none))
    else none
  else none

/-- symbolic version references are resolved against the model's own state -/
def resolve (s : Store) (prev : List (String × String)) (id vref : String) : String :=
  if vref = "cur" then (match lookup id s with | some p => p.version | none => "bogus")
  else if vref = "old" then (match prev.find? (·.1 = id) with | some kv => kv.2 | none => "bogus")
  else vref

/-- `$g` addresses the most recently generated id -/
def decId (lastGen : String) (s : String) : String :=
  let s := decStr s
  if s = "$g" then lastGen else s

def parseOp? (s : Store) (prev : List (String × String)) (lastGen : String) (tok : String) : Option Op :=
  let fixId (p : Pub) : Pub := { p with id := if p.id = "$g" then lastGen else p.id }
  match tok.splitOn "|" with
  | ["create", id, body, mt, aud, receipt, reason] => (mkPub? id body mt aud receipt reason).map (fun p => .create (fixId p))
  | ["creategen", g, body, mt, aud, receipt, reason, _] =>
    (mkPub? "~" body mt aud receipt reason).map (fun p => .createGen p (decStr g))
  | ["update", id, body, mt, aud, receipt, reason, mask, vref] => do
    let p ← (mkPub? id body mt aud receipt reason).map fixId
    let mask ← parseMask? mask
    pure (.update p mask (resolve s prev p.id (decStr vref)))
  | ["delete", id, vref, am] => do
    let am ← parseBool? am
    pure (.delete (decId lastGen id) (resolve s prev (decId lastGen id) (decStr vref)) am)
  | ["ack", id, vref, receipt, reason, aa] => do
    let receipt ← parseInt? receipt
    let aa ← parseBool? aa
    pure (.ack (decId lastGen id) (resolve s prev (decId lastGen id) (decStr vref)) receipt (decStr reason) aa)
  | _ => none

structure DrvState where
  store : Store := []
  prev : List (String × String) := []
  now : Int := 1000
  lastGen : String := "nogen"
  outs : List String := []
  bad : Bool := false

def handle? (toks : List String) : Option String :=
  match toks with
  | "pub.seq" :: ops =>
    let st := ops.foldl (fun (st : DrvState) tok =>
      let now := st.now + 1
      match parseOp? st.store st.prev st.lastGen tok with
      | none => { st with bad := true }
      | some op =>
        let (s', code) := step Hc now st.store op
        let prev' := match op, code with
          | .create p, .ok | .update p _ _, .ok =>
            (match lookup p.id st.store with
              | some old => (p.id, old.version) :: st.prev.filter (·.1 ≠ p.id)
              | none => st.prev)
          | _, _ => st.prev
        let lastGen' := match op, code with
          | .createGen _ g, .ok => g
          | _, _ => st.lastGen
        { store := s', prev := prev', now := now, lastGen := lastGen', outs := (showCode code ++ "#" ++ showStore s') :: st.outs, bad := st.bad }) {}
    if st.bad then none else some (";".intercalate st.outs.reverse)
  | "pub.conc" :: t0 :: init :: sched :: progs => do
    -- init: a `create|…` token executed at t0; sched: `,`-separated events (`<n>` thread step, `+<d>` clock);
    -- progs: one token per thread, calls separated by `;` (`update|…|mask|vref`, `ack|vref|receipt|reason|allow`);
    -- vref: `~` none, `init` the created version, `bogus`, `hb:<body>` the version of the created content with that body
    let t0 ← parseInt? t0
    let p0 ← match init.splitOn "|" with
      | ["create", id, body, mt, aud, receipt, reason] => (mkPub? id body mt aud receipt reason).map (computed Hc t0)
      | _ => none
    let vOf (vref : String) : String :=
      if vref = "init" then p0.version
      else if vref.startsWith "hb:" then mint Hc { p0 with body := decStr (vref.drop 3).toString }
      else decStr vref
    let parseCall? (tok : String) : Option PCall :=
      match tok.splitOn "|" with
      | ["update", id, body, mt, aud, receipt, reason, mask, vref] => do
        let p ← mkPub? id body mt aud receipt reason
        let mask ← parseMask? mask
        pure (updateCall Hc p mask (vOf vref))
      | ["ack", vref, receipt, reason, aa] => do
        let receipt ← parseInt? receipt
        let aa ← parseBool? aa
        pure (ackCall (vOf vref) receipt (decStr reason) aa)
      | _ => none
    let progs ← progs.mapM (fun p => if p = "-" then some [] else (p.splitOn ";").mapM parseCall?)
    let sched ← (if sched = "-" then some [] else (sched.splitOn ",").mapM (fun s =>
      if s.startsWith "+" then (parseNat? (s.drop 1).toString).map Gau.Ev.tick else (parseNat? s).map Gau.Ev.step))
    let c0 : Gau.Cfg Pub PErr := ⟨p0, t0, progs.map Gau.Thread.ofCalls⟩
    let c1 := c0.run sched
    let c2 := c1.run (Gau.drainSched c1.threads)
    let showRes : Gau.Res Pub PErr → String
      | .ok r => "ok=" ++ showPub r
      | .err (.already r) => "ok=" ++ showPub r
      | .err .failedPrecondition => "err:FailedPrecondition"
      | .err .aborted => "err:Aborted"
      | .aborted => "err:Aborted"
    let trace : Gau.Res Pub PErr → String
      | .err _ => "r"
      | _ => "rcl"
    let amp (xs : List String) : String := if xs.isEmpty then "-" else "&".intercalate xs
    let showTh (th : Gau.Thread Pub PErr) : String :=
      (if th.cur.isSome || !th.todo.isEmpty then "unfinished:" else "") ++
      amp (th.results.reverse.map showRes) ++ "::" ++ amp (th.results.reverse.map trace)
    pure (showPub c2.store ++ "#" ++ ";;".intercalate (c2.threads.map showTh))
  | _ => none

end ScVerif.C20.Publication
