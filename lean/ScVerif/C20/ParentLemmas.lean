import ScVerif.C20.Parent
/-! Lemmas for C20/Parent: binary search on a sorted list, set algebra of the two loop bodies. -/
namespace ScVerif.C20.Parent

/-- strictly ascending = sorted and duplicate free -/
def Sorted (l : List String) : Prop := l.Pairwise (· < ·)

instance (l : List String) : Decidable (Sorted l) := by unfold Sorted; infer_instance

theorem searchAux_spec (p : Nat → Bool) (n : Nat)
    (mono : ∀ i j, i ≤ j → p i = true → p j = true) :
    ∀ fuel lo hi, lo ≤ hi → hi ≤ n → hi - lo < fuel →
      (∀ i, i < lo → p i = false) → (∀ i, hi ≤ i → i < n → p i = true) →
      lo ≤ searchAux p fuel lo hi ∧ searchAux p fuel lo hi ≤ hi ∧
      (∀ i, i < searchAux p fuel lo hi → p i = false) ∧
      (∀ i, searchAux p fuel lo hi ≤ i → i < n → p i = true) := by
  intro fuel
  induction fuel with
  | zero => intro lo hi _ _ h; omega
  | succ f ih =>
    intro lo hi hle hn hf hlo hhi
    unfold searchAux
    by_cases hlt : lo < hi
    · simp only [hlt, if_true]
      by_cases hp : p ((lo + hi) / 2) = true
      · simp only [hp, if_true]
        have := ih lo ((lo + hi) / 2) (by omega) (by omega) (by omega) hlo
          (fun i h1 h2 => by
            by_cases h3 : hi ≤ i
            · exact hhi i h3 h2
            · exact mono _ _ h1 hp)
        refine ⟨this.1, by omega, this.2.2.1, this.2.2.2⟩
      · have hpf : p ((lo + hi) / 2) = false := by simpa using hp
        simp only [hpf, Bool.false_eq_true, if_false]
        have := ih ((lo + hi) / 2 + 1) hi (by omega) hn (by omega)
          (fun i h1 => by
            cases hpi : p i with
            | false => rfl
            | true => have := mono i ((lo + hi) / 2) (by omega) hpi; simp [hpf] at this)
          hhi
        refine ⟨by omega, this.2.1, this.2.2.1, this.2.2.2⟩
    · simp only [hlt, if_false]
      have : lo = hi := by omega
      subst this
      exact ⟨Nat.le_refl _, Nat.le_refl _, hlo, hhi⟩

theorem geAt_mono (has : List String) (t : String) (hs : Sorted has) :
    ∀ i j, i ≤ j → geAt has t i = true → geAt has t j = true := by
  intro i j hij hi
  unfold geAt at *
  cases hj : has[j]? with
  | none => rfl
  | some y =>
    have hjl : j < has.length := by
      rcases List.getElem?_eq_some_iff.mp hj with ⟨h, _⟩; exact h
    have hil : i < has.length := by omega
    have hy : has[j] = y := by
      rcases List.getElem?_eq_some_iff.mp hj with ⟨_, h⟩; exact h
    rw [List.getElem?_eq_getElem hil] at hi
    simp only [decide_eq_true_eq] at hi ⊢
    by_cases h : i = j
    · subst h; rw [← hy]; exact hi
    · have : has[i] < has[j] := (List.pairwise_iff_getElem.mp hs) i j hil hjl (by omega)
      rw [← hy]
      exact String.le_trans hi (Std.le_of_lt this)

/-- What `sort.Search` finds on a sorted slice: everything before is `< t`, everything from it on is `≥ t`. -/
theorem insertIndex_spec (has : List String) (t : String) (hs : Sorted has) :
    insertIndex has t ≤ has.length ∧
    (∀ x ∈ has.take (insertIndex has t), x < t) ∧
    (∀ x ∈ has.drop (insertIndex has t), t ≤ x) := by
  have h := searchAux_spec (geAt has t) has.length (geAt_mono has t hs) (has.length + 1) 0 has.length
    (Nat.zero_le _) (Nat.le_refl _) (by omega) (fun i hi => by omega) (fun i h1 h2 => by omega)
  have hk : insertIndex has t = searchAux (geAt has t) (has.length + 1) 0 has.length := rfl
  rw [← hk] at h
  refine ⟨h.2.1, ?_, ?_⟩
  · intro x hx
    rcases List.mem_iff_getElem.mp hx with ⟨i, hi, rfl⟩
    have hi' : i < insertIndex has t := by
      have := hi; simp only [List.length_take] at this; omega
    have hil : i < has.length := by omega
    have := h.2.2.1 i hi'
    unfold geAt at this
    rw [List.getElem?_eq_getElem hil] at this
    simp only [decide_eq_false_iff_not] at this
    rw [List.getElem_take]
    exact String.not_le.mp this
  · intro x hx
    rcases List.mem_iff_getElem.mp hx with ⟨i, hi, rfl⟩
    have hil : insertIndex has t + i < has.length := by
      have := hi; simp only [List.length_drop] at this; omega
    have := h.2.2.2 (insertIndex has t + i) (by omega) hil
    unfold geAt at this
    rw [List.getElem?_eq_getElem hil] at this
    simp only [decide_eq_true_eq] at this
    rw [List.getElem_drop]
    exact this

theorem sorted_append_cons {l r : List String} {t : String} (h : Sorted (l ++ r))
    (hl : ∀ x ∈ l, x < t) (hr : ∀ x ∈ r, t < x) : Sorted (l ++ t :: r) := by
  unfold Sorted at *
  rw [List.pairwise_append] at h ⊢
  refine ⟨h.1, ?_, ?_⟩
  · rw [List.pairwise_cons]; exact ⟨hr, h.2.1⟩
  · intro a ha b hb
    rcases List.mem_cons.mp hb with rfl | hb
    · exact hl a ha
    · exact h.2.2 a ha b hb

theorem head_of_drop {has : List String} {k : Nat} (hk : k < has.length) :
    has.drop k = has[k] :: has.drop (k + 1) := by
  rw [List.drop_eq_getElem_cons hk]

/-- `traitUnion`'s loop body on a sorted duplicate-free slice: result sorted duplicate-free, set = has ∪ {t}. -/
theorem unionStep_spec (has : List String) (t : String) (hs : Sorted has) :
    Sorted (unionStep has t) ∧ ∀ x, x ∈ unionStep has t ↔ x ∈ has ∨ x = t := by
  obtain ⟨hle, hlt, hge⟩ := insertIndex_spec has t hs
  unfold unionStep
  simp only
  by_cases h1 : insertIndex has t = has.length
  · simp only [h1, if_true]
    rw [h1, List.take_length] at hlt
    refine ⟨?_, by intro x; simp⟩
    have := @sorted_append_cons has [] t (by simpa using hs) hlt (by simp)
    simpa using this
  · simp only [h1, if_false]
    have hk : insertIndex has t < has.length := by omega
    by_cases h2 : has[insertIndex has t]? = some t
    · simp only [h2, if_true]
      refine ⟨hs, fun x => ⟨Or.inl, fun h => h.elim id (fun h => ?_)⟩⟩
      subst h; exact List.mem_of_getElem? h2
    · simp only [h2, if_false]
      have hne : has[insertIndex has t] ≠ t := by
        intro h; apply h2; rw [List.getElem?_eq_getElem hk, h]
      constructor
      · apply sorted_append_cons (by rw [List.take_append_drop]; exact hs) hlt
        intro x hx
        have hle' := hge x hx
        rcases Std.le_iff_lt_or_eq.mp hle' with h | h
        · exact h
        · exfalso
          -- x = t is in the drop part; by sortedness it must be its head has[k]
          subst h
          rw [head_of_drop hk] at hx
          rcases List.mem_cons.mp hx with h | h
          · exact hne h.symm
          · have hs' : Sorted (has.drop (insertIndex has t)) := List.Pairwise.sublist (List.drop_sublist _ _) hs
            rw [head_of_drop hk] at hs'
            have := (List.pairwise_cons.mp hs').1 t h
            have h3 := hge has[insertIndex has t] (by rw [head_of_drop hk]; exact List.mem_cons_self)
            exact String.lt_irrefl _ (Std.lt_of_lt_of_le this h3)
      · intro x
        rw [List.mem_append, List.mem_cons]
        have := @List.mem_append _ x (has.take (insertIndex has t)) (has.drop (insertIndex has t))
        rw [List.take_append_drop] at this
        rw [this]
        constructor
        · rintro (h | h | h)
          · exact Or.inl (Or.inl h)
          · exact Or.inr h
          · exact Or.inl (Or.inr h)
        · rintro ((h | h) | h)
          · exact Or.inl h
          · exact Or.inr (Or.inr h)
          · exact Or.inr (Or.inl h)

theorem mem_eraseIdx_of_sorted {has : List String} {k : Nat} (hs : Sorted has) (hk : k < has.length) (x : String) :
    x ∈ has.eraseIdx k ↔ x ∈ has ∧ x ≠ has[k] := by
  have hsplit : has = has.take k ++ has[k] :: has.drop (k + 1) := by
    conv => lhs; rw [← List.take_append_drop k has, head_of_drop hk]
  have hnd : Sorted (has.take k ++ has[k] :: has.drop (k + 1)) := by rw [← hsplit]; exact hs
  unfold Sorted at hnd
  rw [List.pairwise_append, List.pairwise_cons] at hnd
  rw [List.eraseIdx_eq_take_drop_succ]
  constructor
  · intro h
    rcases List.mem_append.mp h with h | h
    · refine ⟨List.mem_of_mem_take h, fun e => ?_⟩
      have := hnd.2.2 x h has[k] List.mem_cons_self
      rw [e] at this; exact String.lt_irrefl _ this
    · refine ⟨List.mem_of_mem_drop h, fun e => ?_⟩
      have := hnd.2.1.1 x h
      rw [e] at this; exact String.lt_irrefl _ this
  · rintro ⟨h, hne⟩
    rw [hsplit] at h
    rcases List.mem_append.mp h with h | h
    · exact List.mem_append.mpr (Or.inl h)
    · rcases List.mem_cons.mp h with h | h
      · exact absurd h hne
      · exact List.mem_append.mpr (Or.inr h)

/-- `traitRemove`'s loop body on a sorted duplicate-free slice: result sorted duplicate-free, set = has \ {t}. -/
theorem removeStep_spec (has : List String) (t : String) (hs : Sorted has) :
    Sorted (removeStep has t) ∧ ∀ x, x ∈ removeStep has t ↔ x ∈ has ∧ x ≠ t := by
  obtain ⟨hle, hlt, hge⟩ := insertIndex_spec has t hs
  unfold removeStep
  simp only
  by_cases h1 : insertIndex has t = has.length ∨ has[insertIndex has t]? ≠ some t
  · simp only [h1, if_true]
    refine ⟨hs, fun x => ⟨fun h => ⟨h, ?_⟩, fun h => h.1⟩⟩
    -- t is not in has
    rintro rfl
    have hx : x ∈ has.take (insertIndex has x) ++ has.drop (insertIndex has x) := by
      rw [List.take_append_drop]; exact h
    rcases List.mem_append.mp hx with h' | h'
    · exact String.lt_irrefl _ (hlt x h')
    · rcases h1 with h1 | h1
      · rw [h1, List.drop_length] at h'; simp at h'
      · have hk : insertIndex has x < has.length := by
          rcases Nat.lt_or_ge (insertIndex has x) has.length with h | h
          · exact h
          · rw [List.drop_eq_nil_of_le h] at h'; simp at h'
        rw [head_of_drop hk] at h'
        rcases List.mem_cons.mp h' with h'' | h''
        · apply h1; rw [List.getElem?_eq_getElem hk, ← h'']
        · have hs' : Sorted (has.drop (insertIndex has x)) := List.Pairwise.sublist (List.drop_sublist _ _) hs
          rw [head_of_drop hk] at hs'
          have := (List.pairwise_cons.mp hs').1 x h''
          have h3 := hge has[insertIndex has x] (by rw [head_of_drop hk]; exact List.mem_cons_self)
          exact String.lt_irrefl _ (Std.lt_of_lt_of_le this h3)
  · simp only [h1, if_false]
    have hk : insertIndex has t < has.length := by
      rcases Nat.lt_or_ge (insertIndex has t) has.length with h | h
      · exact h
      · exfalso; apply h1; left; omega
    have hkt : has[insertIndex has t] = t := by
      have : has[insertIndex has t]? = some t := by
        apply Classical.byContradiction; intro h; exact h1 (Or.inr h)
      rw [List.getElem?_eq_getElem hk] at this
      exact Option.some.inj this
    refine ⟨List.Pairwise.sublist (List.eraseIdx_sublist _ _) hs, fun x => ?_⟩
    rw [mem_eraseIdx_of_sorted hs hk, hkt]

theorem traitUnion_spec (more : List String) : ∀ (has : List String), Sorted has →
    Sorted (traitUnion has more) ∧ ∀ x, x ∈ traitUnion has more ↔ x ∈ has ∨ x ∈ more := by
  induction more with
  | nil => intro has hs; exact ⟨hs, by intro x; simp [traitUnion]⟩
  | cons t rest ih =>
    intro has hs
    obtain ⟨h1, h2⟩ := unionStep_spec has t hs
    obtain ⟨h3, h4⟩ := ih (unionStep has t) h1
    refine ⟨h3, fun x => ?_⟩
    show x ∈ traitUnion (unionStep has t) rest ↔ _
    rw [h4, h2, List.mem_cons]
    constructor
    · rintro ((h | h) | h)
      · exact Or.inl h
      · exact Or.inr (Or.inl h)
      · exact Or.inr (Or.inr h)
    · rintro (h | h | h)
      · exact Or.inl (Or.inl h)
      · exact Or.inl (Or.inr h)
      · exact Or.inr h

theorem traitRemove_spec (remove : List String) : ∀ (has : List String), Sorted has →
    Sorted (traitRemove has remove) ∧ ∀ x, x ∈ traitRemove has remove ↔ x ∈ has ∧ x ∉ remove := by
  induction remove with
  | nil => intro has hs; exact ⟨hs, by intro x; simp [traitRemove]⟩
  | cons t rest ih =>
    intro has hs
    obtain ⟨h1, h2⟩ := removeStep_spec has t hs
    obtain ⟨h3, h4⟩ := ih (removeStep has t) h1
    refine ⟨h3, fun x => ?_⟩
    show x ∈ traitRemove (removeStep has t) rest ↔ _
    rw [h4, h2, List.mem_cons]
    constructor
    · rintro ⟨⟨h, hne⟩, hr⟩
      exact ⟨h, fun h' => h'.elim hne hr⟩
    · rintro ⟨h, hn⟩
      exact ⟨⟨h, fun e => hn (Or.inl e)⟩, fun e => hn (Or.inr e)⟩

/-! ### the collection -/

theorem lookup_set_self (n : String) (v : List String) (s : Children) : lookup n (set n v s) = some v := by
  induction s with
  | nil => simp [set, lookup]
  | cons kv rest ih =>
    obtain ⟨k, w⟩ := kv
    by_cases h : k = n <;> simp [set, lookup, h, ih]

theorem lookup_set_other {n m : String} (h : m ≠ n) (v : List String) (s : Children) :
    lookup m (set n v s) = lookup m s := by
  induction s with
  | nil => simp [set, lookup, Ne.symm h]
  | cons kv rest ih =>
    obtain ⟨k, w⟩ := kv
    by_cases h1 : k = n
    · subst h1; simp [set, lookup, Ne.symm h]
    · by_cases h2 : k = m
      · subst h2; simp [set, lookup, h1]
      · simp [set, lookup, h1, h2, ih]

theorem lookup_erase_self (n : String) (s : Children) : lookup n (erase n s) = none := by
  induction s with
  | nil => simp [erase, lookup]
  | cons kv rest ih =>
    obtain ⟨k, w⟩ := kv
    by_cases h : k = n <;> simp [erase, lookup, h, ih]

theorem lookup_erase_other {n m : String} (h : m ≠ n) (s : Children) :
    lookup m (erase n s) = lookup m s := by
  induction s with
  | nil => simp [erase, lookup]
  | cons kv rest ih =>
    obtain ⟨k, w⟩ := kv
    by_cases h1 : k = n
    · subst h1; simp [erase, lookup, Ne.symm h, ih]
    · by_cases h2 : k = m
      · subst h2; simp [erase, lookup, h1]
      · simp [erase, lookup, h1, h2, ih]

theorem isSorted_of_sorted : ∀ (l : List String), Sorted l → isSorted l = true
  | [], _ => rfl
  | [_], _ => rfl
  | a :: b :: rest, h => by
    have h' := List.pairwise_cons.mp h
    have hab : a < b := h'.1 b List.mem_cons_self
    simp only [isSorted, Bool.and_eq_true, Bool.not_eq_true', decide_eq_false_iff_not]
    exact ⟨String.lt_asymm hab, isSorted_of_sorted (b :: rest) h'.2⟩

end ScVerif.C20.Parent
