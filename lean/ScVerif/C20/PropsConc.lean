import ScVerif.C20.GauCount
import ScVerif.C20.GauRetry
import ScVerif.C20.GauChecked
import ScVerif.C20.MeterConcLemmas
/-!
# C20 — property theorems, generic: trait-model writes under concurrent callers

Every write of every trait model goes through `resource.GetAndUpdate` (read · change function ·
compare-and-commit).  Six theorems about ALL such models, for any number of threads, any programs, any
interleaving, any passage of time:

* `C20_conc_linearizes`: the final stored value is a *sequential* run of calls taken from the threads'
  programs, each applied at its own clock reading — so every rule proved for all sequential operation
  sequences of a model (vending arithmetic, enter/leave counters, mode steps, fan-speed consistency,
  publication versions …) holds for the stored value after every interleaving, provided it does not
  rely on the operations' clock readings being ordered;
* `C20_conc_retrying_thread_never_refused`: a thread whose calls are made again after a refused commit
  never hands `Aborted` to its caller;
* `C20_conc_parked_call_finishes`: a parked call that reads no clock ends within 5 of its own steps once the
  other threads stop, a refused and re-made commit included;
* `C20_conc_linearizes_legal`: … and that sequential run is legal: every call in it passes its own checks
  on the value it is applied to;
* `C20_conc_commit_passes_check`: a write only ever lands on a stored value that passes the write's own
  checks (version preconditions, "not yet acknowledged", …), because the checks run inside the transaction
  on the value read and the commit is refused unless the stored value still equals it;
* `C20_conc_invariant`: rules that do involve the clock (meter period, publication receipt vs publish
  time) are preserved provided each call reads the clock inside the transaction (or overwrites
  everything the rule mentions).
-/
namespace ScVerif.C20.Gau

variable {σ ε : Type} [DecidableEq σ]

/-- **Every interleaving is a sequential run of exactly the successful calls**: there is a log of
(call, clock reading) pairs, every call taken from the threads' programs, whose sequential replay from
the initial value gives the final stored value, and which has exactly one entry per call that returned
a value (`Thread.oks` counts the `ok` results; refused and aborted calls are not in the log). -/
theorem C20_conc_linearizes (store : σ) (now : Int) (progs : List (List (Call σ ε))) (sched : List Ev) :
    ∃ log : List (Call σ ε × Int), (∀ p ∈ log, ∃ cs ∈ progs, p.1 ∈ cs) ∧
      (Cfg.run ⟨store, now, progs.map Thread.ofCalls⟩ sched).store = replay store log ∧
      (Cfg.run ⟨store, now, progs.map Thread.ofCalls⟩ sched).oks = log.length := by
  obtain ⟨log, hmem, h, hcnt⟩ := run_linearizes_counted sched (⟨store, now, progs.map Thread.ofCalls⟩ : Cfg σ ε)
  refine ⟨log, fun p hp => ?_, h, ?_⟩
  · obtain ⟨th, hth, hx⟩ := List.mem_flatMap.mp (hmem p hp)
    obtain ⟨cs, hcs, rfl⟩ := List.mem_map.mp hth
    exact ⟨cs, hcs, by simpa [Thread.calls, Thread.ofCalls] using hx⟩
  · have h0 : ∀ ps : List (List (Call σ ε)), ((ps.map Thread.ofCalls).map Thread.oks).sum = 0 := by
      intro ps
      induction ps with
      | nil => rfl
      | cons p rest ih => simpa [Thread.oks, Thread.ofCalls] using ih
    have h1 : (⟨store, now, progs.map Thread.ofCalls⟩ : Cfg σ ε).oks = 0 := h0 progs
    omega

/-- **Every interleaving is a LEGAL sequential run** (round 7; strengthens `C20_conc_linearizes`): the log of
committed calls whose sequential replay gives the final stored value can be chosen such that every call in it
passes its own checks on the very value it is applied to (`Legal`) — the interleaving is indistinguishable
from running exactly the successful calls one after the other, each of them succeeding.  So every rule of
the form "a request is only applied when its precondition holds" (version preconditions, acknowledge once,
…) carries over from the sequential model to every interleaving. -/
theorem C20_conc_linearizes_legal (store : σ) (now : Int) (progs : List (List (Call σ ε))) (sched : List Ev) :
    ∃ log : List (Call σ ε × Int), (∀ p ∈ log, ∃ cs ∈ progs, p.1 ∈ cs) ∧
      (Cfg.run ⟨store, now, progs.map Thread.ofCalls⟩ sched).store = replay store log ∧
      Legal store log ∧
      (Cfg.run ⟨store, now, progs.map Thread.ofCalls⟩ sched).oks = log.length :=
  linearizes_legal store now progs sched

/-- **Clock-dependent rules**: a time-indexed invariant that stays true as time passes is preserved by
every interleaving of calls that either read the clock inside the transaction and preserve it
sequentially at that instant, or establish it whatever they overwrite; and every returned value
satisfied it at some instant. -/
theorem C20_conc_invariant (I : σ → Int → Prop) (hmono : Mono I) (store : σ) (now : Int)
    (progs : List (List (Call σ ε))) (h0 : I store now) (hok : ∀ cs ∈ progs, ∀ c ∈ cs, c.OK I)
    (sched : List Ev) :
    let c := Cfg.run ⟨store, now, progs.map Thread.ofCalls⟩ sched
    I c.store c.now ∧ ∀ th ∈ c.threads, ∀ r, Res.ok r ∈ th.results → ∃ t, I r t := by
  have hg := run_inv hmono sched _ (init_inv I store now progs h0 hok)
  exact ⟨hg.store, fun th hth r hr => (hg.threads th hth).results _ hr⟩

/-- **Preconditions hold at the commit, not just at the read**: at every point of every interleaving, a
step of thread `i` either leaves the stored value alone, or it is the commit of that thread's current call
`cl` — and then the value stored at that very moment passes `cl`'s own checks and the new stored value is
`cl`'s effect on it.  So a request conditional on the state it names (an update that names a version, an
acknowledge of a not yet acknowledged version) is never applied to another state, whatever ran between its
read and its commit.  No hypothesis on the calls. -/
theorem C20_conc_commit_passes_check (store : σ) (now : Int) (progs : List (List (Call σ ε)))
    (sched : List Ev) (i : Nat) :
    let c := Cfg.run ⟨store, now, progs.map Thread.ofCalls⟩ sched
    (c.step (.step i)).store = c.store ∨
    ∃ th cl t, c.threads[i]? = some th ∧ th.cur = some (cl, .ready c.store t) ∧
      cl.check c.store = none ∧ (c.step (.step i)).store = cl.apply c.store t :=
  run_commit_checked store now progs sched i

/-- **A call that is made again after a refused commit is never refused**: a thread whose program consists
of retrying calls only (`Call.retry`: the trait model loops while `GetAndUpdate` answers `Aborted`) has no
`Aborted` among its results at any point of any schedule, whatever the other threads are and do. -/
theorem C20_conc_retrying_thread_never_refused (store : σ) (now : Int) (progs : List (List (Call σ ε)))
    (sched : List Ev) (i : Nat) (cs : List (Call σ ε)) (hcs : progs[i]? = some cs)
    (hr : ∀ c ∈ cs, c.retry = true) :
    ∀ th, (Cfg.run ⟨store, now, progs.map Thread.ofCalls⟩ sched).threads[i]? = some th →
      Res.aborted ∉ th.results := by
  intro th hth
  refine (run_retrying sched _ i (fun th0 h0 => ?_) th hth).results
  simp only [List.getElem?_map, hcs, Option.map_some, Option.some.injEq] at h0
  subst h0
  exact ⟨fun _ _ he => by simp [Thread.ofCalls] at he, hr, by simp [Thread.ofCalls]⟩

/-- **Progress (no caller is stuck by a lost race)**: a call that reads no clock, parked at any of its park
points (before its read, after it, before the lock) with any value read, ends with a result within 5 of its
own atomic steps once no other thread runs in between — also when its commit is refused first and it has
to be made again (`retry`); the thread is then ready for its next call. -/
theorem C20_conc_parked_call_finishes (store : σ) (now : Int) (c : Call σ ε) (he : c.early = false)
    (ht : c.timed = false) (p : Phase σ) (hp : p.untimed) (todo : List (Call σ ε)) (results : List (Res σ ε)) :
    ∃ k, k ≤ 5 ∧ ∃ r s', soloRun now k (store, ⟨some (c, p), todo, results⟩) = (s', ⟨none, todo, r :: results⟩) :=
  solo_finishes store now c he ht p hp todo results

end ScVerif.C20.Gau

namespace ScVerif.C20.Meter
open Gau

/-- **meter instance**: after every interleaving of `RecordReading` / `Reset` calls the stored reading
is `Meter.run` of a sequence of the threads' own operations, each stamped with a clock reading — so
`C20_meter_registers` (start = time of the last Reset, end/usage = those of the last op) describes it. -/
theorem C20_meter_conc_is_sequential_run (store : Reading) (now : Int)
    (progs : List (List (Option String))) (sched : List Ev) :
    ∃ ops : List Op, (Cfg.run ⟨store, now, (progs.map codeCalls).map Thread.ofCalls⟩ sched).store
      = Meter.run store ops := by
  obtain ⟨log, hmem, h, _⟩ := C20_conc_linearizes store now (progs.map codeCalls) sched
  rw [h]
  clear h ‹_ = log.length›
  induction log generalizing store with
  | nil => exact ⟨[], rfl⟩
  | cons p rest ih =>
    obtain ⟨cs, hcs, hp⟩ := hmem p (List.mem_cons_self ..)
    obtain ⟨prog, _, rfl⟩ := List.mem_map.mp hcs
    obtain ⟨o, _, ho⟩ := List.mem_map.mp hp
    obtain ⟨ops, hops⟩ := ih (p.1.apply store p.2) (fun q hq => hmem q (List.mem_cons_of_mem _ hq))
    cases o with
    | none =>
      refine ⟨.reset p.2 :: ops, ?_⟩
      simp only [replay, List.foldl_cons] at hops ⊢
      rw [hops, ← ho]; rfl
    | some v =>
      refine ⟨.record v p.2 :: ops, ?_⟩
      simp only [replay, List.foldl_cons] at hops ⊢
      rw [hops, ← ho]; rfl

end ScVerif.C20.Meter
