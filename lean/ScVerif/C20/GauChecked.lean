import ScVerif.C20.GauCount
/-!
# C20 — a call only ever commits on a value that passes its own checks (lemmas)

`Collection.Update` / `Value.Set` run the caller's checks (`resource.WithExpectedCheck`: version match, not
yet acknowledged, …) **inside** `GetAndUpdate`, on the value that was read; the compare-and-commit then only
writes when the stored value still equals that value.  So the value a write lands on is one the write's own
checks accepted — whatever the other threads did between the read and the commit.  (A check made by a
separate read *before* the write has no such link: see `C20_pub_conc_check_outside_fails`.)

`PhaseChecked c p`: a call that is past its change function (`ready o t`) — or, reading the clock inside it,
past its checks (`both o t`, late clock) — passed its checks on the value `o` it read.  It holds at `start`
and every atomic step keeps it, for every call, store and clock; no hypothesis on the calls.
-/
namespace ScVerif.C20.Gau

variable {σ ε : Type}

def PhaseChecked (c : Call σ ε) : Phase σ → Prop
  | .ready o _ => c.check o = none
  | .both o _ => c.early = false → c.check o = none
  | .haveT _ => c.early = true
  | _ => True

def ThreadChecked (th : Thread σ ε) : Prop := ∀ c p, th.cur = some (c, p) → PhaseChecked c p

def CfgChecked (c : Cfg σ ε) : Prop := ∀ th ∈ c.threads, ThreadChecked th

variable [DecidableEq σ]

theorem callStep_checked (store : σ) (now : Int) (c : Call σ ε) (p : Phase σ) (hp : PhaseChecked c p) :
    PhaseChecked c (callStep store now c p).2.1 := by
  cases p with
  | start =>
    simp only [callStep]
    split
    · next he => exact he
    · trivial
  | haveOld o =>
    simp only [callStep]
    cases hck : c.check o with
    | some e => trivial
    | none =>
      simp only
      split
      · exact fun _ => hck
      · exact hck
  | haveT t =>
    simp only [callStep]
    intro he
    have : c.early = true := hp
    simp [this] at he
  | both o t =>
    simp only [callStep]
    split
    · cases hck : c.check o with
      | some e => trivial
      | none => exact hck
    · next he => exact hp (by simpa using he)
  | ready o t =>
    simp only [callStep]
    split
    · trivial
    · split <;> trivial

theorem threadGo_checked (store : σ) (now : Int) (results : List (Res σ ε)) (c : Call σ ε) (p : Phase σ)
    (todo : List (Call σ ε)) (hp : PhaseChecked c p) : ThreadChecked (threadGo store now results c p todo).2 := by
  have h := callStep_checked store now c p hp
  unfold threadGo
  generalize callStep store now c p = out at h
  obtain ⟨s', p', r⟩ := out
  cases r with
  | none =>
    intro c2 p2 heq
    simp only [Option.some.injEq, Prod.mk.injEq] at heq
    obtain ⟨rfl, rfl⟩ := heq
    exact h
  | some r => intro c2 p2 heq; simp at heq

theorem threadStep_checked (store : σ) (now : Int) (th : Thread σ ε) (ht : ThreadChecked th) :
    ThreadChecked (threadStep store now th).2 := by
  obtain ⟨cur, todo, results⟩ := th
  cases cur with
  | some cp =>
    obtain ⟨c, p⟩ := cp
    exact threadGo_checked store now results c p todo (ht c p rfl)
  | none =>
    cases todo with
    | nil => exact ht
    | cons c rest => exact threadGo_checked store now results c .start rest trivial

theorem step_checked (c : Cfg σ ε) (ev : Ev) (h : CfgChecked c) : CfgChecked (c.step ev) := by
  cases ev with
  | tick d => exact h
  | step i =>
    simp only [Cfg.step]
    cases hth : c.threads[i]? with
    | none => exact h
    | some th =>
      have hmem : th ∈ c.threads := List.mem_of_getElem? hth
      intro th' hth'
      rcases List.mem_or_eq_of_mem_set hth' with h' | rfl
      · exact h th' h'
      · exact threadStep_checked c.store c.now th (h th hmem)

theorem run_checked (sched : List Ev) : ∀ c : Cfg σ ε, CfgChecked c → CfgChecked (c.run sched) := by
  induction sched with
  | nil => intro c h; exact h
  | cons ev rest ih => intro c h; exact ih _ (step_checked c ev h)

omit [DecidableEq σ] in
theorem init_checked (store : σ) (now : Int) (progs : List (List (Call σ ε))) :
    CfgChecked (⟨store, now, progs.map Thread.ofCalls⟩ : Cfg σ ε) := by
  intro th hth c p hc
  obtain ⟨cs, _, rfl⟩ := List.mem_map.mp hth
  simp [Thread.ofCalls] at hc

/-- a step of thread `i` after any schedule: the store is unchanged, or it is the commit of the thread's
current call, whose checks the store passes at that moment -/
theorem run_commit_checked (store : σ) (now : Int) (progs : List (List (Call σ ε)))
    (sched : List Ev) (i : Nat) :
    let c := Cfg.run ⟨store, now, progs.map Thread.ofCalls⟩ sched
    (c.step (.step i)).store = c.store ∨
    ∃ th cl t, c.threads[i]? = some th ∧ th.cur = some (cl, .ready c.store t) ∧
      cl.check c.store = none ∧ (c.step (.step i)).store = cl.apply c.store t := by
  intro c
  have hck : CfgChecked c := run_checked sched _ (init_checked store now progs)
  simp only [Cfg.step]
  cases hth : c.threads[i]? with
  | none => left; rfl
  | some th =>
    have hmem : th ∈ c.threads := List.mem_of_getElem? hth
    rcases threadStep_seq c.store c.now th with h | ⟨cl, t, hcur, h1, _⟩
    · left; exact h.1
    · right; exact ⟨th, cl, t, rfl, hcur, hck th hmem cl _ hcur, h1⟩

omit [DecidableEq σ] in
/-- a log is *legal* from `s`: every call in it passes its own checks on the value it is applied to -/
def Legal : σ → List (Call σ ε × Int) → Prop
  | _, [] => True
  | s, p :: rest => p.1.check s = none ∧ Legal (p.1.apply s p.2) rest

/-- one event of a checked configuration: store and number of successful results are unchanged, or one
call of the configuration, whose checks the store passes, is applied to the store and returns a value -/
theorem step_oks_checked (c : Cfg σ ε) (hck : CfgChecked c) (ev : Ev) :
    ((c.step ev).store = c.store ∧ (c.step ev).oks = c.oks) ∨
    ∃ cl ∈ c.calls, ∃ t, cl.check c.store = none ∧ (c.step ev).store = cl.apply c.store t ∧
      (c.step ev).oks = c.oks + 1 := by
  cases ev with
  | tick d => left; exact ⟨rfl, rfl⟩
  | step i =>
    simp only [Cfg.step]
    cases hth : c.threads[i]? with
    | none => left; exact ⟨rfl, rfl⟩
    | some th =>
      have hmem : th ∈ c.threads := List.mem_of_getElem? hth
      have hsum := sum_set Thread.oks c.threads i th (threadStep c.store c.now th).2 hth
      rcases threadStep_oks c.store c.now th with h | ⟨cl, t, hcur, h1, h2⟩
      · left
        refine ⟨h.1, ?_⟩
        simp only [Cfg.oks]
        omega
      · right
        refine ⟨cl, mem_calls_of_mem hmem (by simp [Thread.calls, hcur]), t, hck th hmem cl _ hcur, h1, ?_⟩
        simp only [Cfg.oks]
        omega

theorem run_linearizes_legal (sched : List Ev) : ∀ c : Cfg σ ε, CfgChecked c →
    ∃ log : List (Call σ ε × Int), (∀ p ∈ log, p.1 ∈ c.calls) ∧
      (c.run sched).store = replay c.store log ∧ Legal c.store log ∧
      (c.run sched).oks = c.oks + log.length := by
  induction sched with
  | nil => intro c _; exact ⟨[], by simp, rfl, trivial, rfl⟩
  | cons ev rest ih =>
    intro c hck
    obtain ⟨log, hmem, hlog, hleg, hcnt⟩ := ih (c.step ev) (step_checked c ev hck)
    have hmem' : ∀ p ∈ log, p.1 ∈ c.calls := fun p hp => step_calls c ev _ (hmem p hp)
    rcases step_oks_checked c hck ev with ⟨h, hk⟩ | ⟨cl, hcl, t, hchk, h, hk⟩
    · refine ⟨log, hmem', by rw [← h]; exact hlog, by rw [← h]; exact hleg, ?_⟩
      show (Cfg.run (c.step ev) rest).oks = _
      omega
    · refine ⟨(cl, t) :: log, ?_, ?_, ?_, ?_⟩
      · intro p hp
        rcases List.mem_cons.mp hp with rfl | hp
        · exact hcl
        · exact hmem' p hp
      · show (Cfg.run (c.step ev) rest).store = _
        rw [hlog, h]; rfl
      · exact ⟨hchk, by rw [← h]; exact hleg⟩
      · show (Cfg.run (c.step ev) rest).oks = _
        simp only [List.length_cons]
        omega

theorem linearizes_legal (store : σ) (now : Int) (progs : List (List (Call σ ε))) (sched : List Ev) :
    ∃ log : List (Call σ ε × Int), (∀ p ∈ log, ∃ cs ∈ progs, p.1 ∈ cs) ∧
      (Cfg.run ⟨store, now, progs.map Thread.ofCalls⟩ sched).store = replay store log ∧
      Legal store log ∧
      (Cfg.run ⟨store, now, progs.map Thread.ofCalls⟩ sched).oks = log.length := by
  obtain ⟨log, hmem, h, hleg, hcnt⟩ := run_linearizes_legal sched
    (⟨store, now, progs.map Thread.ofCalls⟩ : Cfg σ ε) (init_checked store now progs)
  refine ⟨log, fun p hp => init_calls store now progs p.1 (hmem p hp), h, hleg, ?_⟩
  have h0 : ∀ ps : List (List (Call σ ε)), ((ps.map Thread.ofCalls).map Thread.oks).sum = 0 := by
    intro ps
    induction ps with
    | nil => rfl
    | cons p rest ih => simpa [Thread.oks, Thread.ofCalls] using ih
  have h1 : (⟨store, now, progs.map Thread.ofCalls⟩ : Cfg σ ε).oks = 0 := h0 progs
  omega
end ScVerif.C20.Gau
