import ScVerif.C20.ElConc
import ScVerif.C20.GauCount
import ScVerif.C20.PropsEnterLeave
/-!
# C20 — property theorems, EnterLeave under concurrent callers

Property (fixed text, enter/leave clause): "enter/leave totals … stay mutually consistent": totals are
counters.  Under overlapping callers: **no increment is lost and none is counted twice** — after any
interleaving of any threads' `CreateEnterLeaveEvent` / `ResetTotals` calls the stored event is the
sequential run of exactly the calls that returned successfully (an `Aborted` call counted nothing), so
the totals are the counters of exactly those calls.
-/
namespace ScVerif.C20.EnterLeave
open Gau

/-- **the stored event is a sequential run of exactly the successful calls**: `ops` are operations of
the threads' programs, as many as calls returned ok, and the final event is `run init ops`. -/
theorem C20_enterleave_conc_is_sequential_run (init : Event) (now : Int) (progs : List (List Op))
    (sched : List Ev) :
    let c := Cfg.run ⟨init, now, (progs.map (·.map opCall)).map Thread.ofCalls⟩ sched
    ∃ ops : List Op, (∀ o ∈ ops, ∃ p ∈ progs, o ∈ p) ∧ ops.length = c.oks ∧ c.store = run init ops := by
  intro c
  obtain ⟨log, hmem, h, hcnt⟩ := run_linearizes_counted sched
    (⟨init, now, (progs.map (·.map opCall)).map Thread.ofCalls⟩ : Cfg Event Unit)
  have h0 : ∀ ps : List (List ECall), ((ps.map Thread.ofCalls).map Thread.oks).sum = 0 := by
    intro ps
    induction ps with
    | nil => rfl
    | cons p rest ih => simpa [Thread.oks, Thread.ofCalls] using ih
  have hc0 : (⟨init, now, (progs.map (·.map opCall)).map Thread.ofCalls⟩ : Cfg Event Unit).oks = 0 := h0 _
  have hlen : log.length = c.oks := by show log.length = (Cfg.run _ sched).oks; omega
  have hstore : c.store = replay init log := h
  rw [hstore, ← hlen]
  clear h hcnt hlen hstore hc0
  -- every log entry is `opCall o` for an operation of some program
  have hmem' : ∀ p ∈ log, ∃ o, (∃ pr ∈ progs, o ∈ pr) ∧ p.1 = opCall o := by
    intro p hp
    obtain ⟨th, hth, hx⟩ := List.mem_flatMap.mp (hmem p hp)
    obtain ⟨cs, hcs, rfl⟩ := List.mem_map.mp hth
    obtain ⟨pr, hpr, rfl⟩ := List.mem_map.mp hcs
    have : p.1 ∈ pr.map opCall := by simpa [Thread.calls, Thread.ofCalls] using hx
    obtain ⟨o, ho, heq⟩ := List.mem_map.mp this
    exact ⟨o, ⟨pr, hpr, ho⟩, heq.symm⟩
  clear hmem
  induction log generalizing init with
  | nil => exact ⟨[], by simp, rfl, rfl⟩
  | cons p rest ih =>
    obtain ⟨o, ho, hpo⟩ := hmem' p (List.mem_cons_self ..)
    obtain ⟨ops, hops, hl, hr⟩ := ih (p.1.apply init p.2) (fun q hq => hmem' q (List.mem_cons_of_mem _ hq))
    refine ⟨o :: ops, ?_, by simp [hl], ?_⟩
    · intro x hx
      rcases List.mem_cons.mp hx with rfl | hx
      · exact ho
      · exact hops x hx
    · simp only [replay, List.foldl_cons] at hr ⊢
      rw [hr, hpo, opCall_apply]; rfl

/-- **totals are counters of the successful calls, under every interleaving** (saturating at the int32
maximum): with `C20_enterleave_saturating`, the stored totals are the counter fold over exactly the
successful calls' operations. -/
theorem C20_enterleave_conc_counters (init : Event) (cnt : Counters) (now : Int) (progs : List (List Op))
    (sched : List Ev) (h0 : Refines init cnt) :
    let c := Cfg.run ⟨init, now, (progs.map (·.map opCall)).map Thread.ofCalls⟩ sched
    ∃ ops : List Op, (∀ o ∈ ops, ∃ p ∈ progs, o ∈ p) ∧ ops.length = c.oks ∧
      Refines c.store (ops.foldl satStep cnt) := by
  intro c
  obtain ⟨ops, h1, h2, h3⟩ := C20_enterleave_conc_is_sequential_run init now progs sched
  exact ⟨ops, h1, h2, by rw [h3]; exact C20_enterleave_saturating ops init cnt h0⟩

/-- two overlapping ENTER events: the second to reach the lock is refused (it read the total before
the first one's commit); exactly one increment is stored and exactly one call succeeded -/
example :
    let c := Cfg.run ⟨(⟨0, none, some 5, some 0⟩ : Event), 0,
      [[opCall (.event ⟨1, some "a", none, none⟩)], [opCall (.event ⟨1, some "b", none, none⟩)]].map Thread.ofCalls⟩
      [.step 0, .step 1, .step 0, .step 1, .step 0, .step 1]
    c.store = ⟨1, some "a", some 6, some 0⟩ ∧ c.oks = 1 ∧
      c.threads.map (·.results) = [[.ok ⟨1, some "a", some 6, some 0⟩], [.aborted]] := by
  decide

/-- **reading the totals outside the transaction loses increments**: a caller that took its snapshot with the
getter (total 5), was descheduled while another ENTER was counted (6), and then writes the event computed from its
snapshot: both calls return successfully, the compare-and-commit does not object (nothing changed since the
transaction's own read), and the stored total is 6 — not the 7 that two successful ENTER calls make.  So
`C20_enterleave_conc_counters` rests on the totals being computed from the value read INSIDE `Set`. -/
theorem C20_enterleave_conc_snapshot_variant_fails :
    ∃ (init : Event) (sched : List Ev),
      let c := Cfg.run ⟨init, 0, [[snapshotEventCall init ⟨1, some "a", none, none⟩],
        [opCall (.event ⟨1, some "b", none, none⟩)]].map Thread.ofCalls⟩ sched
      init.enterTotal = some 5 ∧ c.oks = 2 ∧ c.store.enterTotal = some 6 ∧
        ¬ ∃ ops : List Op, ops.length = c.oks ∧ (∀ o ∈ ops, ∃ ev, o = .event ev ∧ ev.direction = 1 ∧ ev.enterTotal = none) ∧
          c.store = run init ops :=
  ⟨⟨0, none, some 5, some 0⟩, [.step 1, .step 1, .step 1, .step 0, .step 0, .step 0], by
    refine ⟨rfl, by decide, by decide, ?_⟩
    rintro ⟨ops, hlen, hops, hrun⟩
    have h2 : ops.length = 2 := by rw [hlen]; decide
    match ops, h2 with
    | [o1, o2], _ =>
      obtain ⟨e1, rfl, hd1, hn1⟩ := hops o1 (by simp)
      obtain ⟨e2, rfl, hd2, hn2⟩ := hops o2 (by simp)
      have hst : (Cfg.run ⟨(⟨0, none, some 5, some 0⟩ : Event), 0, [[snapshotEventCall ⟨0, none, some 5, some 0⟩ ⟨1, some "a", none, none⟩],
        [opCall (.event ⟨1, some "b", none, none⟩)]].map Thread.ofCalls⟩
          [.step 1, .step 1, .step 1, .step 0, .step 0, .step 0]).store.enterTotal = some 6 := by decide
      rw [hrun] at hst
      obtain ⟨d1, o1, en1, l1⟩ := e1
      obtain ⟨d2, o2, en2, l2⟩ := e2
      simp only at hd1 hn1 hd2 hn2
      subst hd1 hn1 hd2 hn2
      revert hst
      simp [run, step, create, merge, adjustTotal, bump, maxInt32]⟩

end ScVerif.C20.EnterLeave
