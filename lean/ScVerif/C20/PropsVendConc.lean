import ScVerif.C20.VendConc
import ScVerif.C20.GauCount
/-!
# C20 — property theorems, Vending under concurrent callers

Property (fixed text, vending clause): "vending dispense adds the quantity to used and subtracts it
from remaining …".  Under overlapping callers **no dispense is lost and none is applied twice**: after
any interleaving of any threads' `DispenseInstantly` calls on a stock record, the record is the
sequential run (each dispense all-or-nothing, an erroring one changing nothing) of exactly the calls
that were not refused as concurrent updates.
-/
namespace ScVerif.C20.Vending
open Gau

/-- **the stock record is a sequential run of exactly the committed dispenses.** -/
theorem C20_vending_conc_is_sequential_run (init : Stock) (now : Int) (progs : List (List Qty))
    (sched : List Ev) :
    let c := Cfg.run ⟨init, now, (progs.map (·.map dispenseCall)).map Thread.ofCalls⟩ sched
    ∃ qs : List Qty, (∀ q ∈ qs, ∃ p ∈ progs, q ∈ p) ∧ qs.length = c.oks ∧
      c.store = qs.foldl dispenseOrKeep init := by
  intro c
  obtain ⟨log, hmem, h, hcnt⟩ := run_linearizes_counted sched
    (⟨init, now, (progs.map (·.map dispenseCall)).map Thread.ofCalls⟩ : Cfg Stock Unit)
  have h0 : ∀ ps : List (List VCall), ((ps.map Thread.ofCalls).map Thread.oks).sum = 0 := by
    intro ps
    induction ps with
    | nil => rfl
    | cons p rest ih => simpa [Thread.oks, Thread.ofCalls] using ih
  have hc0 : (⟨init, now, (progs.map (·.map dispenseCall)).map Thread.ofCalls⟩ : Cfg Stock Unit).oks = 0 := h0 _
  have hlen : log.length = c.oks := by show log.length = (Cfg.run _ sched).oks; omega
  have hstore : c.store = replay init log := h
  rw [hstore, ← hlen]
  clear h hcnt hlen hstore hc0
  have hmem' : ∀ p ∈ log, ∃ q, (∃ pr ∈ progs, q ∈ pr) ∧ p.1 = dispenseCall q := by
    intro p hp
    obtain ⟨th, hth, hx⟩ := List.mem_flatMap.mp (hmem p hp)
    obtain ⟨cs, hcs, rfl⟩ := List.mem_map.mp hth
    obtain ⟨pr, hpr, rfl⟩ := List.mem_map.mp hcs
    have : p.1 ∈ pr.map dispenseCall := by simpa [Thread.calls, Thread.ofCalls] using hx
    obtain ⟨q, hq, heq⟩ := List.mem_map.mp this
    exact ⟨q, ⟨pr, hpr, hq⟩, heq.symm⟩
  clear hmem
  induction log generalizing init with
  | nil => exact ⟨[], by simp, rfl, rfl⟩
  | cons p rest ih =>
    obtain ⟨q, hq, hpq⟩ := hmem' p (List.mem_cons_self ..)
    obtain ⟨qs, hqs, hl, hr⟩ := ih (p.1.apply init p.2) (fun x hx => hmem' x (List.mem_cons_of_mem _ hx))
    refine ⟨q :: qs, ?_, by simp [hl], ?_⟩
    · intro x hx
      rcases List.mem_cons.mp hx with rfl | hx
      · exact hq
      · exact hqs x hx
    · simp only [replay, List.foldl_cons] at hr ⊢
      rw [hr, hpq, dispenseCall_apply]

/-- sequential fact used below: dispenses in used's own unit add up -/
theorem used_adds_up (u : Int) : ∀ (qs : List Qty) (a : Rat) (ld : Option Qty) (d : Bool),
    (∀ q ∈ qs, q.unit = u) →
    (qs.foldl dispenseOrKeep { used := some ⟨u, a⟩, remaining := none, lastDispensed := ld, dispensing := d }).used
      = some ⟨u, a + (qs.map (·.amount)).sum⟩ := by
  intro qs
  induction qs with
  | nil => intro a ld d _; simp [Rat.add_zero]
  | cons q rest ih =>
    intro a ld d hu
    have hq : q.unit = u := hu q (List.mem_cons_self ..)
    have : dispenseOrKeep { used := some ⟨u, a⟩, remaining := none, lastDispensed := ld, dispensing := d } q
        = { used := some ⟨u, a + q.amount⟩, remaining := none, lastDispensed := some q, dispensing := false } := by
      simp [dispenseOrKeep, dispenseStock, convert, hq]
    simp only [List.foldl_cons, this]
    rw [ih (a + q.amount) (some q) false (fun x hx => hu x (List.mem_cons_of_mem _ hx))]
    simp [Rat.add_assoc]

/-- **no dispense is lost, none counted twice**: a record that tracks `used` in unit `u`, any threads
dispensing quantities given in `u`, any interleaving — `used` is the initial amount plus the sum of
exactly as many of the programs' quantities as calls were not refused. -/
theorem C20_vending_conc_used_adds_up (u : Int) (a : Rat) (now : Int) (progs : List (List Qty))
    (hu : ∀ p ∈ progs, ∀ q ∈ p, q.unit = u) (sched : List Ev) :
    let c := Cfg.run ⟨({ used := some ⟨u, a⟩, remaining := none } : Stock), now,
      (progs.map (·.map dispenseCall)).map Thread.ofCalls⟩ sched
    ∃ qs : List Qty, (∀ q ∈ qs, ∃ p ∈ progs, q ∈ p) ∧ qs.length = c.oks ∧
      c.store.used = some ⟨u, a + (qs.map (·.amount)).sum⟩ := by
  intro c
  obtain ⟨qs, h1, h2, h3⟩ := C20_vending_conc_is_sequential_run
    ({ used := some ⟨u, a⟩, remaining := none } : Stock) now progs sched
  refine ⟨qs, h1, h2, ?_⟩
  have h3' : c.store = qs.foldl dispenseOrKeep _ := h3
  rw [h3']
  exact used_adds_up u qs a none false (fun q hq => by
    obtain ⟨p, hp, hqp⟩ := h1 q hq
    exact hu p hp q hqp)

/-- two overlapping dispenses of 2 l and 3 l from used = 10 l: the one that reaches the lock second is
refused; used is 12 l, one call succeeded -/
example :
    let c := Cfg.run ⟨({ used := some ⟨3, 10⟩, remaining := none } : Stock), 0,
      [[dispenseCall ⟨3, 2⟩], [dispenseCall ⟨3, 3⟩]].map Thread.ofCalls⟩
      [.step 0, .step 1, .step 0, .step 1, .step 0, .step 1]
    c.store.used = some ⟨3, 12⟩ ∧ c.oks = 1 := by
  decide +kernel

end ScVerif.C20.Vending
