/-!
# C20 / Config — executable model of the option plumbing of the trait models

`pkg/trait/{vendingpb,parentpb,publicationpb,fanspeedpb,enterleavesensorpb}/model_opts.go` all follow one
pattern (and `meterpb.NewModel` its degenerate form without targeted options):

```go
func calcModelArgs(opts ...resource.Option) modelArgs {
    args := new(modelArgs)
    args.apply(DefaultModelOptions...)
    args.apply(opts...)
    return *args
}
func (a *modelArgs) apply(opts ...resource.Option) {
    for _, opt := range opts {
        if v, ok := opt.(ModelOption); ok { v.applyModel(a); continue }   // WithXOption / WithInitialX / WithPresets
        a.xOptions = append(a.xOptions, opt)                              // a plain option: to EVERY resource of the model
        a.yOptions = append(a.yOptions, opt)
    }
}
```

followed by `resource.NewCollection(args.xOptions...)` / `resource.NewValue(...)` per resource, whose
`computeConfig` folds the resource options over a `config` (last clock / rng / equivalence / initial value
wins; `WithInitialRecord` accumulates and panics on a repeated id).

Clocks, random sources, comparers, values and preset tables are opaque: they are numbered (0 = the
resource package's default).  Resources of a model are numbered from 0.
-/
namespace ScVerif.C20.Config

/-- A `resource.Option` as far as the construction of a resource is concerned. -/
inductive ROpt where
  | clock (c : Nat)                          -- resource.WithClock
  | rng (r : Nat)                            -- resource.WithRNG
  | equiv (e : Nat)                          -- resource.WithEquivalence / WithMessageEquivalence / WithNoDuplicates
  | initialValue (v : Nat)                   -- resource.WithInitialValue
  | initialRecord (id : String) (v : Nat)    -- resource.WithInitialRecord
  deriving DecidableEq, Repr

/-- `resource.config` (the fields a constructor reads). -/
structure RConfig where
  clock : Nat := 0
  rng : Nat := 0
  equiv : Nat := 0
  initialValue : Option Nat := none
  records : List (String × Nat) := []        -- in configuration order (the code keeps a map)
  deriving DecidableEq, Repr

/-- One `opt.apply(c)`; `none` is the panic of `WithInitialRecord` on an id configured before. -/
def RConfig.apply (c : RConfig) : ROpt → Option RConfig
  | .clock k => some { c with clock := k }
  | .rng k => some { c with rng := k }
  | .equiv k => some { c with equiv := k }
  | .initialValue v => some { c with initialValue := some v }
  | .initialRecord id v =>
    if id ∈ c.records.map Prod.fst then none else some { c with records := c.records ++ [(id, v)] }

/-- The loop of `resource.computeConfig` from a given `config`. -/
def computeFrom (c : RConfig) : List ROpt → Option RConfig
  | [] => some c
  | o :: os => match c.apply o with
    | none => none
    | some c' => computeFrom c' os

/-- `resource.computeConfig`. -/
def computeConfig (os : List ROpt) : Option RConfig := computeFrom {} os

/-- A model-level option: what `NewModel(opts...)` can be given. -/
inductive MOpt where
  | shared (o : ROpt)                        -- a plain resource.Option (not a ModelOption)
  | target (r : Nat) (os : List ROpt)        -- WithXOption(os...) of resource r; WithInitialX = target r [initialRecord/initialValue ...]
  | extra (k : Nat)                          -- a model argument that is not a resource option (fanspeedpb.WithPresets)
  deriving Repr

/-- `modelArgs`: one option list per resource, plus the non-resource argument. -/
structure Args where
  res : Nat → List ROpt := fun _ => []
  extra : Option Nat := none

/-- One iteration of the loop in `(*modelArgs).apply`. -/
def Args.applyOne (a : Args) : MOpt → Args
  | .shared o => { a with res := fun r => a.res r ++ [o] }
  | .target r os => { a with res := fun r' => if r' = r then a.res r' ++ os else a.res r' }
  | .extra k => { a with extra := some k }

/-- `(*modelArgs).apply`. -/
def Args.apply (a : Args) (opts : List MOpt) : Args := opts.foldl Args.applyOne a

/-- `calcModelArgs`: the package defaults first, then the caller's options. -/
def calcModelArgs (defaults opts : List MOpt) : Args := (({} : Args).apply defaults).apply opts

/-- `NewModel` of a model with `n` resources: every resource is constructed from its own list; `none` is a panic
(of any of the constructors). -/
def newModel (n : Nat) (defaults opts : List MOpt) : Option (List RConfig × Option Nat) :=
  let a := calcModelArgs defaults opts
  let cs := (List.range n).map (fun r => computeConfig (a.res r))
  if cs.all Option.isSome then some (cs.filterMap id, a.extra) else none

/-! ## Specification: what each resource is meant to be configured with -/

/-- The options meant for resource `r`, in the order given: every plain option and the contents of every option
targeted at `r`. -/
def proj (r : Nat) : List MOpt → List ROpt
  | [] => []
  | .shared o :: rest => o :: proj r rest
  | .target r' os :: rest => if r = r' then os ++ proj r rest else proj r rest
  | .extra _ :: rest => proj r rest

/-- The last non-resource argument given (defaults included), if any. -/
def lastExtra : List MOpt → Option Nat
  | [] => none
  | .extra k :: rest => (lastExtra rest).or (some k)
  | _ :: rest => lastExtra rest

/-- The initial records among resource options, in order. -/
def recsOf : List ROpt → List (String × Nat)
  | [] => []
  | .initialRecord id v :: rest => (id, v) :: recsOf rest
  | _ :: rest => recsOf rest

/-- Last-wins registers of a resource option list. -/
def lastClock (d : Nat) : List ROpt → Nat
  | [] => d
  | .clock k :: rest => lastClock k rest
  | _ :: rest => lastClock d rest

def lastRng (d : Nat) : List ROpt → Nat
  | [] => d
  | .rng k :: rest => lastRng k rest
  | _ :: rest => lastRng d rest

def lastEquiv (d : Nat) : List ROpt → Nat
  | [] => d
  | .equiv k :: rest => lastEquiv k rest
  | _ :: rest => lastEquiv d rest

def lastValue (d : Option Nat) : List ROpt → Option Nat
  | [] => d
  | .initialValue v :: rest => lastValue (some v) rest
  | _ :: rest => lastValue d rest

end ScVerif.C20.Config
