import ScVerif.C20.Meter
import ScVerif.C20.Gau
/-!
# C20 / Meter — concurrent `RecordReading` / `Reset` as calls of the generic `GetAndUpdate` model

`pkg/trait/meterpb/model.go`: `RecordReading` reads `Clock().Now()` inside its `InterceptBefore`, i.e.
inside the change function, after the stored value was read (`early = false`); `Reset` reads the clock
before it calls `Set` (`early = true`).  Neither has a check that can fail.
-/
namespace ScVerif.C20.Meter

abbrev MCall := Gau.Call Reading Unit
abbrev MThread := Gau.Thread Reading Unit
abbrev MCfg := Gau.Cfg Reading Unit

/-- `Model.RecordReading(v)` as written in /repo -/
def recordCall (v : String) : MCall := ⟨false, fun _ => none, fun o t => recordReading o v t, true, false⟩
/-- `Model.Reset()` as written in /repo -/
def resetCall : MCall := ⟨true, fun _ => none, fun o t => reset o t, true, false⟩
/-- NOT in /repo: a `RecordReading` that takes its timestamp before `Set` ("same shape as Reset") -/
def earlyRecordCall (v : String) : MCall := ⟨true, fun _ => none, fun o t => recordReading o v t, true, false⟩

/-- a program of the real model's calls: `some v` = `RecordReading(v)`, `none` = `Reset()` -/
def codeCalls (prog : List (Option String)) : List MCall :=
  prog.map (fun o => match o with | some v => recordCall v | none => resetCall)

end ScVerif.C20.Meter
