import ScVerif.C20.Meter
/-!
# C20 / Meter — interleaving model of concurrent `RecordReading` / `Reset` calls

Every write of the meter model goes through `resource.Value.Set` = `GetAndUpdate`
(`pkg/resource/atomic.go`): read the stored value under `RLock` (atomic step `readOld`), run the
change function on a clone outside any lock, take the write lock and **commit only if the stored value
is still `proto.Equal` to the one that was read** (atomic step `commit`; otherwise `Aborted`).

The two calls differ in *where the clock is read* (`pkg/trait/meterpb/model.go`):

* `RecordReading` reads `Clock().Now()` inside its `InterceptBefore`, i.e. inside the change function,
  after the stored value was read (shape `early = false`: `readOld ▸ readClock ▸ … ▸ commit`);
* `Reset` reads the clock before it calls `Set` (shape `early = true`: `readClock ▸ readOld ▸ … ▸ commit`).

The clock is a counter that never goes back (`tick d`, `d : Nat`); between any two atomic steps any
other thread may run and any amount of time may pass.  A thread is a list of calls (a program); a
schedule is a list of events.  The atomic steps are exactly the segments between the park points the
harness uses on the real code (`gau.afterRead`, the injected clock's `Now`, `gau.beforeLock`).
-/
namespace ScVerif.C20.Meter

inductive Effect where
  | record (v : String)
  | reset
  deriving DecidableEq

/-- a call = what it writes + where it reads the clock -/
structure Call where
  eff : Effect
  early : Bool
  deriving DecidableEq

/-- `Model.RecordReading(v)` as written in /repo: clock read inside the change function -/
def Call.recordReading (v : String) : Call := ⟨.record v, false⟩
/-- `Model.Reset()` as written in /repo: clock read before `Set` -/
def Call.resetCall : Call := ⟨.reset, true⟩

/-- the value the change function computes from the value it read (`old`) and its clock reading -/
def Effect.apply (e : Effect) (old : Reading) (t : Int) : Reading :=
  match e with
  | .record v => Meter.recordReading old v t
  | .reset => Meter.reset old t

/-- the sequential op a committed call amounts to -/
def Effect.op (e : Effect) (t : Int) : Op :=
  match e with
  | .record v => .record v t
  | .reset => .reset t

/-- progress of one call through `Set`/`GetAndUpdate` -/
inductive Phase where
  | start                               -- nothing read yet
  | haveOld (o : Reading)               -- late-clock shape: old value read, change function entered
  | haveT (t : Int)                     -- early-clock shape: clock read, `Set` not yet entered
  | both (o : Reading) (t : Int)        -- old value and clock read, change function still running
  | ready (o : Reading) (t : Int)       -- change function done, about to take the write lock
  deriving DecidableEq

inductive Res where
  | ok (r : Reading)
  | aborted
  deriving DecidableEq

structure Thread where
  cur : Option (Call × Phase)
  todo : List Call
  results : List Res          -- most recent first

def Thread.ofCalls (cs : List Call) : Thread := ⟨none, cs, []⟩

/-- one atomic step of a call in phase `p`; `none` in the third component = the call goes on -/
def callStep (store : Reading) (now : Int) (c : Call) : Phase → Reading × Phase × Option Res
  | .start => if c.early then (store, .haveT now, none) else (store, .haveOld store, none)
  | .haveOld o => (store, .both o now, none)
  | .haveT t => (store, .both store t, none)
  | .both o t => (store, .ready o t, none)
  | .ready o t =>
    -- under the write lock: `if !proto.Equal(oldValue, oldValueAgain) → Aborted`, else save(newValue)
    if store = o then (c.eff.apply o t, .start, some (.ok (c.eff.apply o t)))
    else (store, .start, some .aborted)

/-- one atomic step of a thread: continue the current call, or start the next one of its program -/
def threadStep (store : Reading) (now : Int) (th : Thread) : Reading × Thread :=
  let go (c : Call) (p : Phase) (todo : List Call) : Reading × Thread :=
    match callStep store now c p with
    | (s', p', none) => (s', ⟨some (c, p'), todo, th.results⟩)
    | (s', _, some r) => (s', ⟨none, todo, r :: th.results⟩)
  match th.cur, th.todo with
  | some (c, p), todo => go c p todo
  | none, c :: rest => go c .start rest
  | none, [] => (store, th)

structure Cfg where
  store : Reading
  now : Int
  threads : List Thread

inductive Ev where
  | step (i : Nat)      -- thread i takes its next atomic step (nothing happens if it has none)
  | tick (d : Nat)      -- the clock advances by d ≥ 0

def Cfg.step (c : Cfg) : Ev → Cfg
  | .tick d => { c with now := c.now + d }
  | .step i =>
    match c.threads[i]? with
    | none => c
    | some th =>
      let (s', th') := threadStep c.store c.now th
      { c with store := s', threads := c.threads.set i th' }

def Cfg.run (c : Cfg) (sched : List Ev) : Cfg := sched.foldl Cfg.step c

/-- the schedule that lets every thread, in index order, finish its program (4 steps per call) -/
def drainSched (ths : List Thread) : List Ev :=
  (List.range ths.length).flatMap (fun i =>
    match ths[i]? with
    | none => []
    | some th => List.replicate (4 * (th.todo.length + 1)) (Ev.step i))

end ScVerif.C20.Meter
