import ScVerif.Base.Line
import ScVerif.C20.Mode
import ScVerif.C20.EnterLeave
import ScVerif.C20.Meter
import ScVerif.C20.MeterConc
import ScVerif.C20.ElConc
import ScVerif.C20.ModeFanConc
import ScVerif.C20.Esc
/-! Driver ops of the Mode (`mode.seq`, `mode.conc`), EnterLeave (`el.seq`) and Meter (`meter.seq`) models. -/
namespace ScVerif.C20
open ScVerif.Line

def decListC (s : String) : List String :=
  if s = "-" || s = "" then [] else s.splitOn ","

namespace Mode

def parseModes? (s : String) : Option (List ModeDef) :=
  if s = "-" then some []
  else (s.splitOn "/").mapM (fun part =>
    match part.splitOn ":" with
    | [n, vs] => some ⟨unesc n, (decListC vs).map unesc⟩
    | _ => none)

def showModes (ms : List ModeDef) : String :=
  if ms.isEmpty then "-"
  else "/".intercalate (ms.map (fun m => esc m.name ++ ":" ++ (if m.values.isEmpty then "-" else ",".intercalate (m.values.map esc))))

def parseKV? (s : String) : Option (List (String × String)) :=
  (decListC s).mapM (fun kv =>
    match kv.splitOn "=" with
    | [k, v] => some (unesc k, unesc v)
    | _ => none)

def showValues (vs : Values) : String :=
  let sorted := vs.mergeSort (fun a b => decide (a.1 ≤ b.1))
  if sorted.isEmpty then "-" else ",".intercalate (sorted.map (fun kv => esc kv.1 ++ "=" ++ esc kv.2))

def parseReq? (s : String) : Option Request :=
  match s.splitOn "|" with
  | [mask, vals, rel] => do
    let mask ← if mask = "none" then some Mask.none else if mask = "values" then some Mask.values else none
    let vals ← parseKV? vals
    let rel ← (← parseKV? rel).mapM (fun kv => (parseInt? kv.2).map (fun k => (kv.1, k)))
    -- the request's map has unique keys; build it with `set` so the model sees a map
    pure ⟨vals.foldl (fun acc kv => set kv.1 kv.2 acc) [], rel, mask⟩
  | _ => none

def runSeq (modes : List ModeDef) (reqs : List Request) : String :=
  match newModelModes modes with
  | none => "new:panic"
  | some m =>
    let init := "init:" ++ showModes m.modes ++ "#" ++ showValues m.values
    let (_, outs) := reqs.foldl (fun (acc : Model × List String) r =>
      let m' := acc.1.step r
      (m', ("ok#" ++ showValues m'.values) :: acc.2)) (m, [init])
    ";".intercalate outs.reverse

def handle? (toks : List String) : Option String :=
  match toks with
  | "mode.seq" :: modes :: reqs => do
    let modes ← parseModes? modes
    let reqs ← reqs.mapM parseReq?
    pure (runSeq modes reqs)
  | "mode.conc" :: modes :: sched :: progs => do
    -- progs: one token per thread, requests separated by `;`; sched: `,`-separated thread steps
    let modes ← parseModes? modes
    let progs ← progs.mapM (fun p => if p = "-" then some [] else (p.splitOn ";").mapM parseReq?)
    let sched ← (if sched = "-" then some [] else (sched.splitOn ",").mapM (fun s => (parseNat? s).map Gau.Ev.step))
    match newModelModes modes with
    | none => pure "new:panic"
    | some m =>
      let c0 : Gau.Cfg Values Unit := ⟨m.values, 0, progs.map (fun p => Gau.Thread.ofCalls (p.map (requestCall modes)))⟩
      let c1 := c0.run sched
      let c2 := c1.run (Gau.drainSched c1.threads)
      let showRes : Gau.Res Values Unit → String
        | .ok _ => "ok"
        | .err _ => "err"
        | .aborted => "Aborted"
      let amp (xs : List String) : String := if xs.isEmpty then "-" else "&".intercalate xs
      let showTh (th : Gau.Thread Values Unit) : String :=
        (if th.cur.isSome || !th.todo.isEmpty then "unfinished:" else "") ++
        amp (th.results.reverse.map showRes) ++ ":" ++ amp (th.results.map (fun _ => "rl"))
      pure (showValues c2.store ++ "#" ++ ";".intercalate (c2.threads.map showTh))
  | _ => none

end Mode

namespace EnterLeave

def parseOptInt? (s : String) : Option (Option Int) :=
  if s = "-" then some none else (parseInt? s).map some

def showOptInt : Option Int → String
  | none => "-"
  | some i => toString i

def showEvent (e : Event) : String :=
  let occ := match e.occupant with
    | none => "-"
    | some n => if n = "" then "~" else n
  toString e.direction ++ "," ++ occ ++ "," ++ showOptInt e.enterTotal ++ "," ++ showOptInt e.leaveTotal

def parseOp? (s : String) : Option Op :=
  if s = "reset" then some .reset
  else match s.splitOn ":" with
    | ["ev", d, occ, e, l] => do
      let d ← parseInt? d
      let e ← parseOptInt? e
      let l ← parseOptInt? l
      pure (.event ⟨d, if occ = "-" then none else some occ, e, l⟩)
    | _ => none

def handle? (toks : List String) : Option String :=
  match toks with
  | "el.seq" :: init :: ops =>
    match init.splitOn "/" with
    | [e, l] => do
      let e ← parseOptInt? e
      let l ← parseOptInt? l
      let ops ← ops.mapM parseOp?
      let s0 : Event := ⟨0, none, e, l⟩
      let (_, outs) := ops.foldl (fun (acc : Event × List String) o =>
        let s' := step acc.1 o
        (s', ("ok#" ++ showEvent s') :: acc.2)) (s0, ["init#" ++ showEvent s0])
      pure (";".intercalate outs.reverse)
    | _ => none
  | "el.conc" :: init :: sched :: progs =>
    -- progs: one token per thread, ops separated by `;`; sched: `,`-separated events (`<n>` thread step)
    match init.splitOn "/" with
    | [e, l] => do
      let e ← parseOptInt? e
      let l ← parseOptInt? l
      let progs ← progs.mapM (fun p => if p = "-" then some [] else (p.splitOn ";").mapM parseOp?)
      let sched ← (if sched = "-" then some [] else (sched.splitOn ",").mapM (fun s =>
        if s.startsWith "+" then (parseNat? (s.drop 1).toString).map Gau.Ev.tick else (parseNat? s).map Gau.Ev.step))
      let c0 : Gau.Cfg Event Unit := ⟨⟨0, none, e, l⟩, 0, progs.map (fun p => Gau.Thread.ofCalls (p.map opCall))⟩
      let c1 := c0.run sched
      let c2 := c1.run (Gau.drainSched c1.threads)
      let showRes : Gau.Res Event Unit → String
        | .ok _ => "ok"
        | .err _ => "err"
        | .aborted => "Aborted"
      let amp (xs : List String) : String := if xs.isEmpty then "-" else "&".intercalate xs
      let showTh (th : Gau.Thread Event Unit) : String :=
        (if th.cur.isSome || !th.todo.isEmpty then "unfinished:" else "") ++
        amp (th.results.reverse.map showRes) ++ ":" ++ amp (th.results.map (fun _ => "rl"))
      pure (showEvent c2.store ++ "#" ++ ";".intercalate (c2.threads.map showTh))
    | _ => none
  | _ => none

end EnterLeave

namespace Meter

def parseOptInt? (s : String) : Option (Option Int) :=
  if s = "-" then some none else (parseInt? s).map some

def showOptInt : Option Int → String
  | none => "-"
  | some i => toString i

def showReading (r : Reading) : String :=
  r.usage ++ "," ++ showOptInt r.start ++ "," ++ showOptInt r.stop

/-- `rec:<usage>@<dt>` | `reset@<dt>`: dt is the clock advance before the op -/
def parseOp? (s : String) : Option (Option String × Int) :=
  match s.splitOn "@" with
  | [op, dt] => do
    let dt ← parseInt? dt
    if op = "reset" then pure (none, dt)
    else match op.splitOn ":" with
      | ["rec", u] => pure (some u, dt)
      | _ => none
  | _ => none

def parseInit? (init : String) : Option Reading :=
  if init = "-" then some (⟨"0", none, none⟩ : Reading)
  else match init.splitOn "," with
    | [u, s, e] => do
      let s ← parseOptInt? s
      let e ← parseOptInt? e
      pure ⟨u, s, e⟩
    | _ => none

def parseCall? (s : String) : Option MCall :=
  if s = "z" then some resetCall
  else if s.startsWith "r" && s.length > 1 then some (recordCall (s.drop 1).toString)
  else none

def parseEv? (s : String) : Option Gau.Ev :=
  if s.startsWith "+" then (parseNat? (s.drop 1).toString).map Gau.Ev.tick
  else (parseNat? s).map Gau.Ev.step

def showRes : Gau.Res Reading Unit → String
  | .ok r => "ok=" ++ showReading r
  | .err _ => "err"
  | .aborted => "Aborted"

def encAmp (xs : List String) : String := if xs.isEmpty then "-" else "&".intercalate xs

def handle? (toks : List String) : Option String :=
  match toks with
  | "meter.seq" :: t0 :: init :: ops => do
    let t0 ← parseInt? t0
    let init ← parseInit? init
    let ops ← ops.mapM parseOp?
    let r0 := newModel init t0
    let (_, _, outs) := ops.foldl (fun (acc : Reading × Int × List String) o =>
      let now := acc.2.1 + o.2
      let r' := match o.1 with
        | some u => step acc.1 (.record u now)
        | none => step acc.1 (.reset now)
      (r', now, ("ok#" ++ showReading r') :: acc.2.2)) (r0, t0, ["init#" ++ showReading r0])
    pure (";".intercalate outs.reverse)
  | ["meter.conc", t0, init, progs, sched] => do
    -- progs: threads separated by `|`, calls by `,` (`r<usage>` = RecordReading, `z` = Reset);
    -- sched: `,`-separated events (`<n>` = thread n takes one atomic step, `+<d>` = the clock advances);
    -- after the schedule every thread, in index order, runs to completion (`drainSched`).
    let t0 ← parseInt? t0
    let init ← parseInit? init
    let progs ← (progs.splitOn "|").mapM (fun p => (decListC p).mapM parseCall?)
    let sched ← (decListC sched).mapM parseEv?
    let c0 : MCfg := ⟨newModel init t0, t0, progs.map Gau.Thread.ofCalls⟩
    let c1 := c0.run sched
    let c2 := c1.run (Gau.drainSched c1.threads)
    let showTh (p : List MCall × MThread) : String :=
      (if p.2.cur.isSome || !p.2.todo.isEmpty then "unfinished:" else "") ++
      encAmp (p.2.results.reverse.map showRes) ++ ":" ++ encAmp (p.1.map (fun c => if c.early then "crl" else "rcl"))
    pure (showReading c2.store ++ "#" ++ ";".intercalate ((progs.zip c2.threads).map showTh))
  | _ => none

end Meter
end ScVerif.C20
