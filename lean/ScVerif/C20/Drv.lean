import ScVerif.Base.Line
/-! Driver handler for C20 (stub: replaced by the property's owner). -/
namespace ScVerif.C20

def handle (_toks : List String) : String := "!bad-op"

end ScVerif.C20
