import ScVerif.Base.Line
import ScVerif.C20.DrvParent
/-! Driver handler for C20: one op prefix per model (`par.`, `vend.`, `mode.`, `el.`, `meter.`, `fan.`, `pub.`). -/
namespace ScVerif.C20

def handle (toks : List String) : String :=
  let r : Option String :=
    match toks with
    | [] => none
    | op :: _ =>
      if op.startsWith "par." then Parent.handle? toks
      else none
  match r with
  | some s => s
  | none => "!bad-op"

end ScVerif.C20
