import ScVerif.Base.Line
import ScVerif.C20.DrvParent
import ScVerif.C20.DrvVending
import ScVerif.C20.DrvSmall
import ScVerif.C20.DrvFan
import ScVerif.C20.DrvPub
import ScVerif.C20.DrvConfig
/-! Driver handler for C20: one op prefix per model (`par.`, `vend.`, `mode.`, `el.`, `meter.`, `fan.`, `pub.`) plus `cfg.` (option plumbing of all of them). -/
namespace ScVerif.C20

def handle (toks : List String) : String :=
  let r : Option String :=
    match toks with
    | [] => none
    | op :: _ =>
      if op.startsWith "par." then Parent.handle? toks
      else if op.startsWith "vend." then Vending.handle? toks
      else if op.startsWith "mode." then Mode.handle? toks
      else if op.startsWith "el." then EnterLeave.handle? toks
      else if op.startsWith "meter." then Meter.handle? toks
      else if op.startsWith "fan." then FanSpeed.handle? toks
      else if op.startsWith "pub." then Publication.handle? toks
      else if op.startsWith "cfg." then Config.handle? toks
      else none
  match r with
  | some s => s
  | none => "!bad-op"

end ScVerif.C20
