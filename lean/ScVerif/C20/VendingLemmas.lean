import ScVerif.C20.Vending
namespace ScVerif.C20.Vending

theorem siUnit_factor_ne_zero {u : Int} {f : Rat} {c : Cat} (h : siUnit u = some (f, c)) : f ≠ 0 := by
  unfold siUnit at h
  split at h
  · cases h; decide +kernel
  · split at h
    · cases h; decide +kernel
    · split at h
      · cases h; decide +kernel
      · split at h
        · cases h; decide +kernel
        · split at h
          · cases h; decide +kernel
          · cases h

theorem lookup_set_self (n : String) (v : Stock) (s : Inventory) : lookup n (set n v s) = some v := by
  induction s with
  | nil => simp [set, lookup]
  | cons kv rest ih =>
    obtain ⟨k, w⟩ := kv
    by_cases h : k = n <;> simp [set, lookup, h, ih]

theorem lookup_set_other {n m : String} (h : m ≠ n) (v : Stock) (s : Inventory) :
    lookup m (set n v s) = lookup m s := by
  induction s with
  | nil => simp [set, lookup, Ne.symm h]
  | cons kv rest ih =>
    obtain ⟨k, w⟩ := kv
    by_cases h1 : k = n
    · subst h1; simp [set, lookup, Ne.symm h]
    · by_cases h2 : k = m
      · subst h2; simp [set, lookup, h1]
      · simp [set, lookup, h1, h2, ih]

end ScVerif.C20.Vending
