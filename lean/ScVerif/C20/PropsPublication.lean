import ScVerif.C20.PublicationLemmas
import ScVerif.C20.PublicationReceipt
/-!
# C20 — property theorems, Publication

Property (fixed text, publication clause): "publication version and acknowledgement state stay
mutually consistent": version = H(id, body, media_type, audience.name) for an abstract hash `H`
(every theorem quantifies over `H`), new publish time and receipt reset on create/update,
version-checked update/delete, acknowledge protocol (version match, once only unless allow_acknowledged).
-/
namespace ScVerif.C20.Publication

/-- **Version = hash of content, after every op sequence, for every hash function**: starting from a
store with the invariant (e.g. the empty one), every stored publication's version is
`H id body media_type audience.name` of its own current content, and it has a publish time. -/
theorem C20_pub_version (H : Hash) (ops : List (Int × Op)) : ∀ s, VersionInv H s → VersionInv H (run H s ops) := by
  induction ops with
  | nil => intro s h; exact h
  | cons o rest ih => intro s h; exact ih _ (inv_step H o.1 s o.2 h)

example (H : Hash) : VersionInv H [] := by intro id p h; simp [lookup] at h

/-- **Create / update mint fresh computed properties**: a successful create (new id) or update (known
id, version check passed) at time `now` stores a record with publish time `now`, version = hash of the
stored content, and the audience's receipt reset (NO_SIGNAL, no reason, no receipt time) whatever the
client sent. -/
theorem C20_pub_fresh (H : Hash) (now : Int) (s : Store) (op : Op) (id : String)
    (hop : (∃ p, op = .create p ∧ p.id = id) ∨ (∃ p m v, op = .update p m v ∧ p.id = id))
    (hok : (step H now s op).2 = .ok) :
    ∃ q, lookup id (step H now s op).1 = some q ∧ q.publishTime = some now ∧ q.version = mint H q ∧
      ∀ a, q.audience = some a → a.receipt = 1 ∧ a.reason = "" ∧ a.receiptTime = none := by
  have key : ∀ p : Pub, (computed H now p).publishTime = some now ∧
      (computed H now p).version = mint H (computed H now p) ∧
      ∀ a, (computed H now p).audience = some a → a.receipt = 1 ∧ a.reason = "" ∧ a.receiptTime = none := by
    intro p
    refine ⟨rfl, (computed_version H now p).1, ?_⟩
    intro a ha
    unfold computed at ha
    cases hp : p.audience with
    | none => simp [hp] at ha
    | some a0 => simp [hp] at ha; subst ha; exact ⟨rfl, rfl, rfl⟩
  rcases hop with ⟨p, rfl, rfl⟩ | ⟨p, m, v, rfl, rfl⟩
  · simp only [step] at hok ⊢
    cases hl : lookup p.id s with
    | some _ => simp [hl] at hok
    | none => exact ⟨_, lookup_set_self _ _ _, key p⟩
  · simp only [step] at hok ⊢
    by_cases hid : p.id = ""
    · simp [hid] at hok
    · simp only [hid, if_false] at hok ⊢
      cases hl : lookup p.id s with
      | none => simp [hl] at hok
      | some cur =>
        simp only [hl] at hok ⊢
        by_cases hv : v ≠ "" ∧ cur.version ≠ v
        · simp [hv] at hok
        · simp only [hv, if_false]
          exact ⟨_, lookup_set_self _ _ _, key _⟩

/-- the clock never goes back along an op sequence -/
def MonoFrom : Int → List (Int × Op) → Prop
  | _, [] => True
  | t, o :: rest => t ≤ o.1 ∧ MonoFrom o.1 rest

/-- **The receipt belongs to the stored version, after every op sequence, every route**: for every hash,
every sequence of create / create-with-generated-id / update (mask-less or any mask, audience paths
included) / delete / acknowledge (any receipt value, NO_SIGNAL and repeated ones included) under a clock
that never goes back, every stored publication has a publish time, and a recorded receipt time is
never before it (nor in the future): no version carries an acknowledgement older than itself. -/
theorem C20_pub_receipt_after_publish (H : Hash) (ops : List (Int × Op)) :
    ∀ (s : Store) (t : Int), RInv t s → MonoFrom t ops → ∃ t', RInv t' (run H s ops) := by
  induction ops with
  | nil => intro s t h _; exact ⟨t, h⟩
  | cons o rest ih =>
    intro s t h hm
    exact ih _ _ (rinv_step H t o.1 s o.2 h hm.1) hm.2

/-- the empty store satisfies the invariant; monotone sequences exist -/
example : RInv 0 [] ∧ MonoFrom 0 [(1, Op.create ⟨"p", "b", "", none, "", none⟩), (1, .ack "p" "v" 1 "late" false)] :=
  ⟨fun id p h => by simp [lookup] at h, by simp [MonoFrom]⟩

/-- **A new version never inherits receipt details — every route that mints one**: create, create with a
generated id, and update under EVERY mask (also masks that do not touch the audience, so that the stored
audience with the receipt of the previous version is what reaches the interceptor) store an audience
with receipt NO_SIGNAL, no reason and no receipt time — whatever receipt/time/reason the stored
publication or the request carried, `receipt = NO_SIGNAL` with leftover details included. -/
theorem C20_pub_new_version_resets_receipt (H : Hash) (now : Int) (s : Store) (op : Op) (id : String)
    (hop : (∃ p, op = .create p ∧ p.id = id) ∨ (∃ p, op = .createGen p id) ∨
           (∃ p m v, op = .update p m v ∧ p.id = id))
    (hok : (step H now s op).2 = .ok) :
    ∃ q, lookup id (step H now s op).1 = some q ∧ q.publishTime = some now ∧
      ∀ a, q.audience = some a → a.receipt = 1 ∧ a.reason = "" ∧ a.receiptTime = none := by
  have key : ∀ p : Pub, (computed H now p).publishTime = some now ∧
      ∀ a, (computed H now p).audience = some a → a.receipt = 1 ∧ a.reason = "" ∧ a.receiptTime = none := by
    intro p
    refine ⟨rfl, ?_⟩
    intro a ha
    unfold computed at ha
    cases hp : p.audience with
    | none => simp [hp] at ha
    | some a0 => simp [hp] at ha; subst ha; exact ⟨rfl, rfl, rfl⟩
  rcases hop with ⟨p, rfl, rfl⟩ | ⟨p, rfl⟩ | ⟨p, m, v, rfl, rfl⟩
  · obtain ⟨q, h1, h2, _, h4⟩ := C20_pub_fresh H now s (.create p) p.id (Or.inl ⟨p, rfl, rfl⟩) hok
    exact ⟨q, h1, h2, h4⟩
  · simp only [step] at hok ⊢
    split
    · next h => simp [h] at hok
    · exact ⟨_, lookup_set_self _ _ _, key _⟩
  · obtain ⟨q, h1, h2, _, h4⟩ := C20_pub_fresh H now s (.update p m v) p.id (Or.inr ⟨p, m, v, rfl, rfl⟩) hok
    exact ⟨q, h1, h2, h4⟩

/-- the case a guard `receipt ≠ NO_SIGNAL` would miss: acknowledge with NO_SIGNAL + a reason stamps a
receipt time; a body-only update then still resets all three fields -/
example : (run (fun a _ _ _ => a) [] [(1, .create ⟨"p", "b", "", some ⟨"n", 0, "", none⟩, "", none⟩),
      (2, .ack "p" "p" 1 "why" false), (3, .update ⟨"p", "b2", "", none, "", none⟩ (.fields true false .none) "")])
    = [("p", ⟨"p", "b2", "", some ⟨"n", 1, "", none⟩, "p", some 3⟩)] := by decide

/-- **Generated ids**: creating with an empty id stores the publication under the id `g` the collection
generated (non-empty and new — what `GenerateUniqueId` guarantees and the monitor checks): the record
carries `g`, its version hashes `g` with the content, its publish time is `now`, and no other
publication changes. -/
theorem C20_pub_create_generated (H : Hash) (now : Int) (s : Store) (p : Pub) (g : String)
    (hg : g ≠ "") (hfresh : lookup g s = none) :
    (step H now s (.createGen p g)).2 = .ok ∧
    (∃ q, lookup g (step H now s (.createGen p g)).1 = some q ∧ q.id = g ∧ q.body = p.body ∧
      q.mediaType = p.mediaType ∧ q.version = mint H q ∧ q.publishTime = some now) ∧
    (∀ m, m ≠ g → lookup m (step H now s (.createGen p g)).1 = lookup m s) := by
  have hc : ¬ (g = "" ∨ (lookup g s).isSome = true) := by simp [hg, hfresh]
  simp only [step, hc, if_false]
  refine ⟨?_, ⟨_, lookup_set_self _ _ _, rfl, rfl, rfl, (computed_version H now _).1, rfl⟩, ?_⟩
  · first | trivial | rfl
  intro m hm
  exact lookup_set_other hm _ _

/-- **Update mask `audience.name`**: a successful update under that mask with an audience in the request
stores the request's audience name (body and media type kept unless masked too) and the new version
hashes that name. -/
theorem C20_pub_update_audience_name (H : Hash) (now : Int) (s : Store) (p cur : Pub) (a : Audience)
    (b m : Bool) (v : String) (hid : p.id ≠ "") (hl : lookup p.id s = some cur)
    (hv : ¬ (v ≠ "" ∧ cur.version ≠ v)) (ha : p.audience = some a) :
    ∃ q, lookup p.id (step H now s (.update p (.fields b m .name) v)).1 = some q ∧
      q.audience.map (·.name) = some a.name ∧
      q.version = H cur.id (if b then p.body else cur.body) (if m then p.mediaType else cur.mediaType) a.name := by
  simp only [step, hid, if_false, hl, hv]
  refine ⟨_, lookup_set_self _ _ _, ?_, ?_⟩
  · simp [computed, mergeAudience, ha]
  · simp [computed, mint, mergeAudience, ha]

/-- **Version-checked update and delete**: with a non-empty version different from the stored one
both fail with FailedPrecondition and change nothing. -/
theorem C20_pub_version_check (H : Hash) (now : Int) (s : Store) (cur : Pub) (id v : String)
    (hid : id ≠ "") (hl : lookup id s = some cur) (hv : v ≠ "") (hne : cur.version ≠ v) :
    (∀ p m, p.id = id → step H now s (.update p m v) = (s, .failedPrecondition)) ∧
    (∀ am, step H now s (.delete id v am) = (s, .failedPrecondition)) := by
  constructor
  · intro p m hp
    subst hp
    simp [step, hid, hl, hv, hne]
  · intro am
    simp [step, hid, hl, hv, hne]

/-- **Acknowledge protocol** on a known publication: wrong version ⇒ Aborted, nothing changes;
already ACCEPTED/REJECTED ⇒ FailedPrecondition unless allow_acknowledged (then OK), nothing changes
either way; otherwise the receipt, reason and receipt time are recorded and nothing else changes. -/
theorem C20_pub_ack (H : Hash) (now : Int) (s : Store) (cur : Pub) (id v : String) (receipt : Int)
    (reason : String) (allow : Bool) (hid : id ≠ "") (hv : v ≠ "") (hl : lookup id s = some cur) :
    (cur.version ≠ v → step H now s (.ack id v receipt reason allow) = (s, .aborted)) ∧
    (cur.version = v → acked cur = true →
      step H now s (.ack id v receipt reason allow) = (s, if allow then .ok else .failedPrecondition)) ∧
    (cur.version = v → acked cur = false →
      (step H now s (.ack id v receipt reason allow)).2 = .ok ∧
      ∃ q, lookup id (step H now s (.ack id v receipt reason allow)).1 = some q ∧
        q.audience = some ⟨(cur.audience.map (·.name)).getD "", receipt, reason, some now⟩ ∧
        q.id = cur.id ∧ q.body = cur.body ∧ q.mediaType = cur.mediaType ∧ q.version = cur.version ∧
        q.publishTime = cur.publishTime) := by
  refine ⟨fun h => ?_, fun h ha => ?_, fun h ha => ?_⟩
  · simp [step, hid, hv, hl, h]
  · simp [step, hid, hv, hl, h, ha]
  · simp only [step, hid, hv, hl, h, ha, false_or, if_false, ne_eq, not_true_eq_false, Bool.false_eq_true]
    refine ⟨?_, _, lookup_set_self _ _ _, rfl, rfl, rfl, rfl, rfl, rfl⟩
    first | trivial | rfl

/-- **Acknowledged once**: after a publication has been ACCEPTED or REJECTED, no sequence of further
acknowledgements of that id (any versions, receipts, allow flags, times) changes its record. -/
theorem C20_pub_ack_once (H : Hash) (id : String) (cur : Pub) (hacked : acked cur = true) :
    ∀ (acks : List (Int × String × Int × String × Bool)) (s : Store), lookup id s = some cur →
      lookup id (run H s (acks.map (fun a => (a.1, Op.ack id a.2.1 a.2.2.1 a.2.2.2.1 a.2.2.2.2)))) = some cur := by
  intro acks
  induction acks with
  | nil => intro s h; exact h
  | cons a rest ih =>
    intro s h
    apply ih
    simp only [step]
    split
    · exact h
    · simp only [h]
      split
      · exact h
      · first | exact h | (rw [if_pos hacked]; exact h)

/-- the repaired defect: a second acknowledgement with allow_acknowledged succeeds and changes nothing -/
example : (step (fun a _ _ _ => a) 7 [("p", ⟨"p", "b", "", some ⟨"", 2, "", some 5⟩, "p", some 1⟩)]
    (.ack "p" "p" 2 "" true)).2 = .ok := by decide

end ScVerif.C20.Publication
