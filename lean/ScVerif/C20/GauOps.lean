import ScVerif.C20.GauCount
/-!
# C20 — linearization stated on a model's own operations (lemma)

When every call of the threads' programs is `f a` for an operation `a` of a trait model whose sequential
meaning is `stepF`, the store after any interleaving is `foldl stepF` over operations taken from the
programs, exactly as many as calls committed.
-/
namespace ScVerif.C20.Gau

variable {σ ε α : Type} [DecidableEq σ]

theorem run_linearizes_ops (f : α → Call σ ε) (stepF : σ → α → σ)
    (hf : ∀ a s t, (f a).apply s t = stepF s a) (init : σ) (now : Int) (progs : List (List α))
    (sched : List Ev) :
    let c := Cfg.run ⟨init, now, (progs.map (·.map f)).map Thread.ofCalls⟩ sched
    ∃ ops : List α, (∀ o ∈ ops, ∃ p ∈ progs, o ∈ p) ∧ ops.length = c.oks ∧ c.store = ops.foldl stepF init := by
  intro c
  obtain ⟨log, hmem, h, hcnt⟩ := run_linearizes_counted sched
    (⟨init, now, (progs.map (·.map f)).map Thread.ofCalls⟩ : Cfg σ ε)
  have h0 : ∀ ps : List (List (Call σ ε)), ((ps.map Thread.ofCalls).map Thread.oks).sum = 0 := by
    intro ps
    induction ps with
    | nil => rfl
    | cons p rest ih => simpa [Thread.oks, Thread.ofCalls] using ih
  have hc0 : (⟨init, now, (progs.map (·.map f)).map Thread.ofCalls⟩ : Cfg σ ε).oks = 0 := h0 _
  have hlen : log.length = c.oks := by show log.length = (Cfg.run _ sched).oks; omega
  have hstore : c.store = replay init log := h
  rw [hstore, ← hlen]
  clear h hcnt hlen hstore hc0
  have hmem' : ∀ p ∈ log, ∃ o, (∃ pr ∈ progs, o ∈ pr) ∧ p.1 = f o := by
    intro p hp
    obtain ⟨th, hth, hx⟩ := List.mem_flatMap.mp (hmem p hp)
    obtain ⟨cs, hcs, rfl⟩ := List.mem_map.mp hth
    obtain ⟨pr, hpr, rfl⟩ := List.mem_map.mp hcs
    have : p.1 ∈ pr.map f := by simpa [Thread.calls, Thread.ofCalls] using hx
    obtain ⟨o, ho, heq⟩ := List.mem_map.mp this
    exact ⟨o, ⟨pr, hpr, ho⟩, heq.symm⟩
  clear hmem
  induction log generalizing init with
  | nil => exact ⟨[], by simp, rfl, rfl⟩
  | cons p rest ih =>
    obtain ⟨o, ho, hpo⟩ := hmem' p (List.mem_cons_self ..)
    obtain ⟨ops, hops, hl, hr⟩ := ih (p.1.apply init p.2) (fun q hq => hmem' q (List.mem_cons_of_mem _ hq))
    refine ⟨o :: ops, ?_, by simp [hl], ?_⟩
    · intro x hx
      rcases List.mem_cons.mp hx with rfl | hx
      · exact ho
      · exact hops x hx
    · simp only [replay, List.foldl_cons] at hr ⊢
      rw [hr, hpo, hf]

end ScVerif.C20.Gau
