/-!
# C20 / EnterLeave — executable model of `pkg/trait/enterleavesensorpb/model.go`

`CreateEnterLeaveEvent` (mask-less write of the event after the totals interceptor) and `ResetTotals`
(write of two zero totals under the update mask `enter_total, leave_total`).  Totals are optional
int32; since the fix the increment saturates at the int32 maximum (`if inc && cv < math.MaxInt32 { cv++ }`).
-/
namespace ScVerif.C20.EnterLeave

def maxInt32 : Int := 2147483647

/-- `if inc && cv < math.MaxInt32 { cv++ }` -/
def bump (cv : Int) (inc : Bool) : Int := if inc ∧ cv < maxInt32 then cv + 1 else cv

structure Event where
  direction : Int            -- 0 DIRECTION_UNSPECIFIED, 1 ENTER, 2 LEAVE
  occupant : Option String
  enterTotal : Option Int
  leaveTotal : Option Int
  deriving DecidableEq

/-- the `adjustTotal` closure -/
def adjustTotal (val cur : Option Int) (inc : Bool) : Option Int :=
  let cv := cur.getD 0
  match val with
  | some v => if v ≠ cv then some v else some (bump cv inc)
  | none => some (bump cv inc)

inductive Field where
  | direction | occupant | enterTotal | leaveTotal
  deriving DecidableEq

/-- `FieldUpdater.Merge`: without a mask the stored message becomes `src`; with a mask exactly the
masked fields are taken from `src` (absent in `src` ⇒ cleared). -/
def merge (mask : Option (List Field)) (cur src : Event) : Event :=
  match mask with
  | none => src
  | some fs =>
    { direction := if Field.direction ∈ fs then src.direction else cur.direction
      occupant := if Field.occupant ∈ fs then src.occupant else cur.occupant
      enterTotal := if Field.enterTotal ∈ fs then src.enterTotal else cur.enterTotal
      leaveTotal := if Field.leaveTotal ∈ fs then src.leaveTotal else cur.leaveTotal }

/-- `CreateEnterLeaveEvent(event)` with no extra write options -/
def create (cur ev : Event) : Event :=
  let ev' := { ev with
    enterTotal := adjustTotal ev.enterTotal cur.enterTotal (ev.direction == 1)
    leaveTotal := adjustTotal ev.leaveTotal cur.leaveTotal (ev.direction == 2) }
  merge none cur ev'

/-- `ResetTotals` -/
def resetTotals (cur : Event) : Event :=
  merge (some [.enterTotal, .leaveTotal]) cur
    { direction := 0, occupant := none, enterTotal := some 0, leaveTotal := some 0 }

inductive Op where
  | event (ev : Event)
  | reset

def step (cur : Event) : Op → Event
  | .event ev => create cur ev
  | .reset => resetTotals cur

def run (cur : Event) (ops : List Op) : Event := ops.foldl step cur

end ScVerif.C20.EnterLeave
