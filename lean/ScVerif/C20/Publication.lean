/-!
# C20 / Publication — executable model of `pkg/trait/publicationpb/{model.go,model_server.go}`

`ModelServer` Create / Update / Delete / Acknowledge over the publications collection.  The version
hash is a parameter `H` (md5 is not modelled; the harness recomputes md5 independently).  Follows the
code after the fix: `allow_acknowledged` is honoured.  Receipt: 0 UNSPECIFIED, 1 NO_SIGNAL, 2 ACCEPTED,
3 REJECTED.  The clock is injected (`now`).
-/
namespace ScVerif.C20.Publication

structure Audience where
  name : String
  receipt : Int
  reason : String
  receiptTime : Option Int
  deriving DecidableEq

structure Pub where
  id : String
  body : String
  mediaType : String
  audience : Option Audience
  version : String
  publishTime : Option Int
  deriving DecidableEq

abbrev Hash := String → String → String → String → String

/-- `mintVersion` -/
def mint (H : Hash) (p : Pub) : String :=
  H p.id p.body p.mediaType ((p.audience.map (·.name)).getD "")

/-- `withComputedProperties` with WithResetReceipt, WithNewPublishTime, WithNewVersion (in that order) -/
def computed (H : Hash) (now : Int) (p : Pub) : Pub :=
  let p := { p with audience := p.audience.map (fun (a : Audience) => { a with receiptTime := none, receipt := 1, reason := "" }) }
  let p := { p with publishTime := some now }
  { p with version := mint H p }

abbrev Store := List (String × Pub)

def lookup (n : String) : Store → Option Pub
  | [] => none
  | (k, v) :: rest => if k = n then some v else lookup n rest

def set (n : String) (v : Pub) : Store → Store
  | [] => [(n, v)]
  | (k, w) :: rest => if k = n then (k, v) :: rest else (k, w) :: set n v rest

def erase (n : String) : Store → Store
  | [] => []
  | (k, w) :: rest => if k = n then erase n rest else (k, w) :: erase n rest

inductive Code where
  | ok | alreadyExists | invalidArgument | notFound | failedPrecondition | aborted
  deriving DecidableEq

/-- update mask: none, or a subset of the scalar paths body / media_type -/
inductive UMask where
  | none
  | fields (body mediaType : Bool)

inductive Op where
  | create (p : Pub)
  | update (p : Pub) (mask : UMask) (version : String)
  | delete (id version : String) (allowMissing : Bool)
  | ack (id version : String) (receipt : Int) (reason : String) (allowAcknowledged : Bool)

def acked (p : Pub) : Bool :=
  match p.audience with
  | some a => a.receipt == 2 || a.receipt == 3
  | none => false

def step (H : Hash) (now : Int) (s : Store) : Op → Store × Code
  | .create p =>
    match lookup p.id s with
    | some _ => (s, .alreadyExists)
    | none => (set p.id (computed H now p) s, .ok)
  | .update p mask version =>
    if p.id = "" then (s, .invalidArgument)
    else match lookup p.id s with
      | none => (s, .notFound)
      | some cur =>
        if version ≠ "" ∧ cur.version ≠ version then (s, .failedPrecondition)
        else
          let merged := match mask with
            | .none => p
            | .fields b m => { cur with body := if b then p.body else cur.body,
                                        mediaType := if m then p.mediaType else cur.mediaType }
          (set p.id (computed H now merged) s, .ok)
  | .delete id version allowMissing =>
    if id = "" then (s, .invalidArgument)
    else match lookup id s with
      | none => (s, if allowMissing then .ok else .notFound)
      | some cur =>
        if version ≠ "" ∧ cur.version ≠ version then (s, .failedPrecondition)
        else (erase id s, .ok)
  | .ack id version receipt reason allowAck =>
    if id = "" ∨ version = "" then (s, .invalidArgument)
    else match lookup id s with
      | none => (s, .notFound)
      | some cur =>
        if cur.version ≠ version then (s, .aborted)
        else if acked cur then (s, if allowAck then .ok else .failedPrecondition)
        else
          let name := (cur.audience.map (·.name)).getD ""
          (set id { cur with audience := some ⟨name, receipt, reason, some now⟩ } s, .ok)

/-- ops with their clock values -/
def run (H : Hash) (s : Store) (ops : List (Int × Op)) : Store :=
  ops.foldl (fun s o => (step H o.1 s o.2).1) s

end ScVerif.C20.Publication
