/-!
# C20 / Publication — executable model of `pkg/trait/publicationpb/{model.go,model_server.go}`

`ModelServer` Create / Update / Delete / Acknowledge over the publications collection.  The version
hash is a parameter `H` (md5 is not modelled; the harness recomputes md5 independently).  Follows the
code after the fix: `allow_acknowledged` is honoured.  Receipt: 0 UNSPECIFIED, 1 NO_SIGNAL, 2 ACCEPTED,
3 REJECTED.  The clock is injected (`now`).
-/
namespace ScVerif.C20.Publication

structure Audience where
  name : String
  receipt : Int
  reason : String
  receiptTime : Option Int
  deriving DecidableEq

structure Pub where
  id : String
  body : String
  mediaType : String
  audience : Option Audience
  version : String
  publishTime : Option Int
  deriving DecidableEq

abbrev Hash := String → String → String → String → String

/-- `mintVersion` -/
def mint (H : Hash) (p : Pub) : String :=
  H p.id p.body p.mediaType ((p.audience.map (·.name)).getD "")

/-- `withComputedProperties` with WithResetReceipt, WithNewPublishTime, WithNewVersion (in that order) -/
def computed (H : Hash) (now : Int) (p : Pub) : Pub :=
  let p := { p with audience := p.audience.map (fun (a : Audience) => { a with receiptTime := none, receipt := 1, reason := "" }) }
  let p := { p with publishTime := some now }
  { p with version := mint H p }

abbrev Store := List (String × Pub)

def lookup (n : String) : Store → Option Pub
  | [] => none
  | (k, v) :: rest => if k = n then some v else lookup n rest

def set (n : String) (v : Pub) : Store → Store
  | [] => [(n, v)]
  | (k, w) :: rest => if k = n then (k, v) :: rest else (k, w) :: set n v rest

def erase (n : String) : Store → Store
  | [] => []
  | (k, w) :: rest => if k = n then erase n rest else (k, w) :: erase n rest

inductive Code where
  | ok | alreadyExists | invalidArgument | notFound | failedPrecondition | aborted
  deriving DecidableEq

/-- the part of an update mask that goes through the audience: nothing, the path `audience`, or the
path `audience.name` -/
inductive AudMask where
  | none | whole | name

/-- update mask: none, or a subset of the paths body / media_type plus an audience path -/
inductive UMask where
  | none
  | fields (body mediaType : Bool) (aud : AudMask)

/-- `FieldUpdater.Merge` on the audience (C05's field-mask merge): `audience` merges the request's
audience into the stored one (absent ⇒ cleared; an empty name keeps the stored name); `audience.name`
takes the request's name, creating the audience when the request has one. -/
def mergeAudience (a : AudMask) (cur src : Option Audience) : Option Audience :=
  match a with
  | .none => cur
  | .whole =>
    match src with
    | none => none
    | some s =>
      let c : Audience := cur.getD ⟨"", 0, "", none⟩
      some { c with name := if s.name ≠ "" then s.name else c.name,
                    receipt := if s.receipt ≠ 0 then s.receipt else c.receipt,
                    reason := if s.reason ≠ "" then s.reason else c.reason }
  | .name =>
    match src, cur with
    | none, none => none
    | none, some c => some { c with name := "" }
    | some s, _ => some { (cur.getD ⟨"", 0, "", none⟩) with name := s.name }

inductive Op where
  | create (p : Pub)
  | createGen (p : Pub) (g : String)   -- create with an empty id; `g` is the id the collection generated
  | update (p : Pub) (mask : UMask) (version : String)
  | delete (id version : String) (allowMissing : Bool)
  | ack (id version : String) (receipt : Int) (reason : String) (allowAcknowledged : Bool)

def acked (p : Pub) : Bool :=
  match p.audience with
  | some a => a.receipt == 2 || a.receipt == 3
  | none => false

def step (H : Hash) (now : Int) (s : Store) : Op → Store × Code
  | .create p =>
    match lookup p.id s with
    | some _ => (s, .alreadyExists)
    | none => (set p.id (computed H now p) s, .ok)
  | .createGen p g =>
    -- `GenerateUniqueId` only returns a non-empty id that does not exist; the id callback writes it into
    -- the publication before it is stored
    if g = "" ∨ (lookup g s).isSome then (s, .aborted)
    else (set g (computed H now { p with id := g }) s, .ok)
  | .update p mask version =>
    if p.id = "" then (s, .invalidArgument)
    else match lookup p.id s with
      | none => (s, .notFound)
      | some cur =>
        if version ≠ "" ∧ cur.version ≠ version then (s, .failedPrecondition)
        else
          let merged := match mask with
            | .none => p
            | .fields b m a => { cur with body := if b then p.body else cur.body,
                                          mediaType := if m then p.mediaType else cur.mediaType,
                                          audience := mergeAudience a cur.audience p.audience }
          (set p.id (computed H now merged) s, .ok)
  | .delete id version allowMissing =>
    if id = "" then (s, .invalidArgument)
    else match lookup id s with
      | none => (s, if allowMissing then .ok else .notFound)
      | some cur =>
        if version ≠ "" ∧ cur.version ≠ version then (s, .failedPrecondition)
        else (erase id s, .ok)
  | .ack id version receipt reason allowAck =>
    if id = "" ∨ version = "" then (s, .invalidArgument)
    else match lookup id s with
      | none => (s, .notFound)
      | some cur =>
        if cur.version ≠ version then (s, .aborted)
        else if acked cur then (s, if allowAck then .ok else .failedPrecondition)
        else
          let name := (cur.audience.map (·.name)).getD ""
          (set id { cur with audience := some ⟨name, receipt, reason, some now⟩ } s, .ok)

/-- ops with their clock values -/
def run (H : Hash) (s : Store) (ops : List (Int × Op)) : Store :=
  ops.foldl (fun s o => (step H o.1 s o.2).1) s

end ScVerif.C20.Publication
