import ScVerif.C20.MeterConc
import ScVerif.C20.GauLemmas
/-!
# C20 / Meter — the meter's calls satisfy the generic interleaving theorem's conditions
-/
namespace ScVerif.C20.Meter
open Gau

/-- both times recorded, start ≤ end ≤ now -/
def Ordered (r : Reading) (now : Int) : Prop :=
  ∃ s e, r.start = some s ∧ r.stop = some e ∧ s ≤ e ∧ e ≤ now

theorem Ordered.mono : Gau.Mono Ordered := by
  intro r t t' hle h
  obtain ⟨s, e, hs, he, hse, hen⟩ := h
  exact ⟨s, e, hs, he, hse, by omega⟩

/-- `RecordReading` reads the clock inside the transaction and keeps the period ordered at that instant -/
theorem recordCall_ok (v : String) : (recordCall v).OK Ordered := by
  refine ⟨fun _ o t ho _ => ?_, fun he => by simp [recordCall] at he⟩
  obtain ⟨s, e, hs, _, hse, het⟩ := ho
  exact ⟨s, t, by simp [recordCall, recordReading, merge, hs], by simp [recordCall, recordReading, merge], by omega, Int.le_refl _⟩

/-- `Reset` reads the clock early but overwrites both times -/
theorem resetCall_ok : resetCall.OK Ordered := by
  refine ⟨fun he => by simp [resetCall] at he, fun _ o t => ?_⟩
  exact ⟨t, t, by simp [resetCall, reset, merge], by simp [resetCall, reset, merge], Int.le_refl _, Int.le_refl _⟩

theorem codeCalls_ok (prog : List (Option String)) : ∀ c ∈ codeCalls prog, c.OK Ordered := by
  intro c hc
  obtain ⟨o, _, rfl⟩ := List.mem_map.mp hc
  cases o with
  | none => exact resetCall_ok
  | some v => exact recordCall_ok v

end ScVerif.C20.Meter
