import ScVerif.C20.MeterConc
/-!
# C20 / Meter — invariant of the interleaving model (lemmas)

`GInv`: the stored reading is ordered (`start ≤ end ≤ now`, both recorded), and every thread's locals
are consistent with the clock: a value it read was ordered when read, a clock reading is not in the
future, and — for a call that reads the clock *inside* the transaction — the start time of the value
it read is not after its clock reading.  The last clause is what makes `RecordReading` safe, and it
is exactly what is lost when the clock is read before the transaction.
-/
namespace ScVerif.C20.Meter

/-- both times recorded, start ≤ end ≤ now -/
def Ordered (r : Reading) (now : Int) : Prop :=
  ∃ s e, r.start = some s ∧ r.stop = some e ∧ s ≤ e ∧ e ≤ now

/-- a call as the code makes them: only a call that overwrites start *and* end may read the clock
before the transaction -/
def Call.Shaped (c : Call) : Prop := ∀ v, c.eff = .record v → c.early = false

def PhaseInv (c : Call) (now : Int) : Phase → Prop
  | .start => True
  | .haveOld o => Ordered o now
  | .haveT t => t ≤ now ∧ c.early = true      -- only an early call reads the clock first
  | .both o t => Ordered o now ∧ t ≤ now ∧ (c.early = false → ∃ s, o.start = some s ∧ s ≤ t)
  | .ready o t => Ordered o now ∧ t ≤ now ∧ (c.early = false → ∃ s, o.start = some s ∧ s ≤ t)

/-- a returned reading has both times and start ≤ end -/
def ResOk : Res → Prop
  | .ok r => ∃ s e, r.start = some s ∧ r.stop = some e ∧ s ≤ e
  | .aborted => True

structure ThreadInv (now : Int) (th : Thread) : Prop where
  cur : ∀ c p, th.cur = some (c, p) → c.Shaped ∧ PhaseInv c now p
  todo : ∀ c ∈ th.todo, c.Shaped
  results : ∀ r ∈ th.results, ResOk r

structure GInv (c : Cfg) : Prop where
  store : Ordered c.store c.now
  threads : ∀ th ∈ c.threads, ThreadInv c.now th

theorem Ordered.mono {r : Reading} {now : Int} (h : Ordered r now) (d : Nat) : Ordered r (now + d) := by
  obtain ⟨s, e, hs, he, hse, hen⟩ := h
  exact ⟨s, e, hs, he, hse, by omega⟩

theorem PhaseInv.mono {c : Call} {now : Int} {p : Phase} (h : PhaseInv c now p) (d : Nat) :
    PhaseInv c (now + d) p := by
  cases p with
  | start => trivial
  | haveOld o => exact Ordered.mono h d
  | haveT t => exact ⟨by have := h.1; omega, h.2⟩
  | both o t => exact ⟨Ordered.mono h.1 d, by have := h.2.1; omega, h.2.2⟩
  | ready o t => exact ⟨Ordered.mono h.1 d, by have := h.2.1; omega, h.2.2⟩

theorem ThreadInv.mono {now : Int} {th : Thread} (h : ThreadInv now th) (d : Nat) :
    ThreadInv (now + d) th :=
  ⟨fun c p hc => ⟨(h.cur c p hc).1, PhaseInv.mono (h.cur c p hc).2 d⟩, h.todo, h.results⟩

/-- the value a shaped call computes from an ordered `old` and a consistent clock reading is ordered -/
theorem apply_ordered (c : Call) (hc : c.Shaped) (o : Reading) (t now : Int)
    (_ho : Ordered o now) (ht : t ≤ now) (hl : c.early = false → ∃ s, o.start = some s ∧ s ≤ t) :
    Ordered (c.eff.apply o t) now := by
  obtain ⟨eff, early⟩ := c
  cases eff with
  | reset => exact ⟨t, t, by simp [Effect.apply, reset, merge], by simp [Effect.apply, reset, merge], Int.le_refl _, ht⟩
  | record v =>
    have he : early = false := hc v rfl
    obtain ⟨s, hs, hst⟩ := hl he
    exact ⟨s, t, by simp [Effect.apply, recordReading, merge, hs], by simp [Effect.apply, recordReading, merge], hst, ht⟩

/-- one atomic step of a call keeps the store ordered, the call's locals consistent, and returns an
ordered reading (or `Aborted`) -/
theorem callStep_inv (store : Reading) (now : Int) (c : Call) (p : Phase) (hc : c.Shaped)
    (hs : Ordered store now) (hp : PhaseInv c now p) :
    Ordered (callStep store now c p).1 now ∧ PhaseInv c now (callStep store now c p).2.1 ∧
    ∀ r, (callStep store now c p).2.2 = some r → ResOk r := by
  cases p with
  | start =>
    simp only [callStep]
    split
    · next he => exact ⟨hs, ⟨Int.le_refl _, he⟩, by simp⟩
    · exact ⟨hs, hs, by simp⟩
  | haveOld o =>
    refine ⟨hs, ⟨hp, Int.le_refl _, fun _ => ?_⟩, by simp [callStep]⟩
    obtain ⟨s, e, h1, _, h3, h4⟩ := hp
    exact ⟨s, h1, by omega⟩
  | haveT t =>
    exact ⟨hs, ⟨hs, hp.1, fun he => by simp [hp.2] at he⟩, by simp [callStep]⟩
  | both o t => exact ⟨hs, hp, by simp [callStep]⟩
  | ready o t =>
    simp only [callStep]
    split
    · have := apply_ordered c hc o t now hp.1 hp.2.1 hp.2.2
      refine ⟨this, trivial, fun r hr => ?_⟩
      simp only [Option.some.injEq] at hr
      subst hr
      obtain ⟨s, e, h1, h2, h3, _⟩ := this
      exact ⟨s, e, h1, h2, h3⟩
    · exact ⟨hs, trivial, fun r hr => by simp only [Option.some.injEq] at hr; subst hr; trivial⟩

/-- one atomic step of a thread keeps the store ordered and the thread consistent -/
theorem threadStep_inv (store : Reading) (now : Int) (th : Thread)
    (hs : Ordered store now) (ht : ThreadInv now th) :
    Ordered (threadStep store now th).1 now ∧ ThreadInv now (threadStep store now th).2 := by
  have go : ∀ (c : Call) (p : Phase) (todo : List Call), c.Shaped → PhaseInv c now p →
      (∀ c' ∈ todo, c'.Shaped) →
      Ordered (match callStep store now c p with
        | (s', p', none) => ((s', ⟨some (c, p'), todo, th.results⟩) : Reading × Thread)
        | (s', _, some r) => (s', ⟨none, todo, r :: th.results⟩)).1 now ∧
      ThreadInv now (match callStep store now c p with
        | (s', p', none) => ((s', ⟨some (c, p'), todo, th.results⟩) : Reading × Thread)
        | (s', _, some r) => (s', ⟨none, todo, r :: th.results⟩)).2 := by
    intro c p todo hc hp htodo
    have h := callStep_inv store now c p hc hs hp
    generalize callStep store now c p = out at h
    obtain ⟨s', p', r⟩ := out
    cases r with
    | none =>
      refine ⟨h.1, ⟨fun c2 p2 heq => ?_, htodo, ht.results⟩⟩
      simp only [Option.some.injEq, Prod.mk.injEq] at heq
      obtain ⟨rfl, rfl⟩ := heq
      exact ⟨hc, h.2.1⟩
    | some r =>
      refine ⟨h.1, ⟨fun c2 p2 heq => by simp at heq, htodo, fun r' hr' => ?_⟩⟩
      rcases List.mem_cons.mp hr' with rfl | hr'
      · exact h.2.2 _ rfl
      · exact ht.results _ hr'
  obtain ⟨cur, todo, results⟩ := th
  cases cur with
  | some cp =>
    obtain ⟨c, p⟩ := cp
    have := ht.cur c p rfl
    exact go c p todo this.1 this.2 ht.todo
  | none =>
    cases todo with
    | nil => exact ⟨hs, ht⟩
    | cons c rest =>
      exact go c .start rest (ht.todo c (List.mem_cons_self ..)) trivial
        (fun c' hc' => ht.todo c' (List.mem_cons_of_mem _ hc'))

theorem step_inv (c : Cfg) (ev : Ev) (h : GInv c) : GInv (c.step ev) := by
  cases ev with
  | tick d => exact ⟨Ordered.mono h.store d, fun th hth => ThreadInv.mono (h.threads th hth) d⟩
  | step i =>
    simp only [Cfg.step]
    cases hth : c.threads[i]? with
    | none => exact h
    | some th =>
      have hmem : th ∈ c.threads := List.mem_of_getElem? hth
      have := threadStep_inv c.store c.now th h.store (h.threads th hmem)
      refine ⟨this.1, fun th' hth' => ?_⟩
      rcases List.mem_or_eq_of_mem_set hth' with h' | rfl
      · exact h.threads th' h'
      · exact this.2

theorem run_inv (sched : List Ev) : ∀ c : Cfg, GInv c → GInv (c.run sched) := by
  induction sched with
  | nil => intro c h; exact h
  | cons ev rest ih => intro c h; exact ih _ (step_inv c ev h)

/-- threads that have not started, with shaped programs, satisfy the thread invariant -/
theorem ofCalls_inv (now : Int) (cs : List Call) (h : ∀ c ∈ cs, c.Shaped) :
    ThreadInv now (Thread.ofCalls cs) :=
  ⟨fun _ _ he => by simp [Thread.ofCalls] at he, h, fun _ hr => by simp [Thread.ofCalls] at hr⟩

/-- a step either leaves the store alone or applies the sequential op of the committing call to it,
at a time the call read from the clock -/
theorem callStep_seq (store : Reading) (now : Int) (c : Call) (p : Phase) :
    (callStep store now c p).1 = store ∨
    ∃ o t, p = .ready o t ∧ store = o ∧ (callStep store now c p).1 = Meter.step store (c.eff.op t) := by
  cases p with
  | start => left; simp only [callStep]; split <;> rfl
  | haveOld o => left; rfl
  | haveT t => left; rfl
  | both o t => left; rfl
  | ready o t =>
    simp only [callStep]
    split
    · next heq =>
      right
      refine ⟨o, t, rfl, heq, ?_⟩
      subst heq
      cases h : c.eff <;> simp [Effect.apply, Effect.op, Meter.step]
    · left; rfl

theorem threadStep_seq (store : Reading) (now : Int) (th : Thread) :
    ((threadStep store now th).1 = store ∧
      ∀ r, (threadStep store now th).2.results = .ok r :: th.results → False) ∨
    ∃ cl o t, th.cur = some (cl, .ready o t) ∧ store = o ∧
      (threadStep store now th).1 = Meter.step store (cl.eff.op t) ∧
      (threadStep store now th).2.results = .ok (Meter.step store (cl.eff.op t)) :: th.results := by
  obtain ⟨cur, todo, results⟩ := th
  cases cur with
  | none =>
    cases todo with
    | nil =>
      left
      refine ⟨rfl, fun r hr => ?_⟩
      simp only [threadStep] at hr
      exact absurd (congrArg List.length hr) (by simp)
    | cons c rest =>
      left
      by_cases he : c.early = true
      · exact ⟨by simp [threadStep, callStep, he], fun r hr => absurd (congrArg List.length hr) (by simp [threadStep, callStep, he])⟩
      · exact ⟨by simp [threadStep, callStep, he], fun r hr => absurd (congrArg List.length hr) (by simp [threadStep, callStep, he])⟩
  | some cp =>
    obtain ⟨c, p⟩ := cp
    cases p with
    | start =>
      left
      by_cases he : c.early = true
      · exact ⟨by simp [threadStep, callStep, he], fun r hr => absurd (congrArg List.length hr) (by simp [threadStep, callStep, he])⟩
      · exact ⟨by simp [threadStep, callStep, he], fun r hr => absurd (congrArg List.length hr) (by simp [threadStep, callStep, he])⟩
    | haveOld o => left; exact ⟨rfl, fun r hr => absurd (congrArg List.length hr) (by simp [threadStep, callStep])⟩
    | haveT t => left; exact ⟨rfl, fun r hr => absurd (congrArg List.length hr) (by simp [threadStep, callStep])⟩
    | both o t => left; exact ⟨rfl, fun r hr => absurd (congrArg List.length hr) (by simp [threadStep, callStep])⟩
    | ready o t =>
      by_cases heq : store = o
      · right
        subst heq
        refine ⟨c, store, t, rfl, rfl, ?_⟩
        have : c.eff.apply store t = Meter.step store (c.eff.op t) := by
          cases h : c.eff <;> simp [Effect.apply, Effect.op, Meter.step]
        simp [threadStep, callStep, this]
      · left
        simp [threadStep, callStep, heq]

end ScVerif.C20.Meter
