import ScVerif.C20.MeterConcLemmas
import ScVerif.C20.PropsMeter
/-!
# C20 — property theorems, Meter under concurrent callers

Property (fixed text, meter clause): "meter start and end times … stay mutually consistent".
Full-strength statement for the code as written: for **any number of threads, any program of
`RecordReading` / `Reset` calls per thread and any interleaving of their atomic steps** (read the stored
value · read the clock · compare-and-commit, `resource.GetAndUpdate`) **with any amount of time passing
between any two steps**, the stored reading always has both times, `start ≤ end ≤ now`; every reading a
call returns is ordered; and every commit is exactly the sequential operation applied to the value
stored at that moment (an aborted call changes nothing).  The only assumption on time is that the
clock itself never goes back (`tick d`, `d : Nat`): the timestamps of the *committed* operations need
NOT be monotone (a `Reset` that read the clock early can commit after a later `RecordReading`), so
the sequential theorem `C20_meter_start_le_end` (hypothesis `Mono`) does not give this.
-/
namespace ScVerif.C20.Meter

/-- a program of the real model's calls: `some v` = `RecordReading(v)`, `none` = `Reset()` -/
def codeCalls (prog : List (Option String)) : List Call :=
  prog.map (fun o => match o with | some v => Call.recordReading v | none => Call.resetCall)

/-- **start ≤ end ≤ now after every interleaving**, for every program whose calls read the clock inside
the transaction unless they overwrite both times (`Call.Shaped`). -/
theorem C20_meter_conc_start_le_end (store : Reading) (now : Int) (progs : List (List Call))
    (h0 : Inv store now) (hshape : ∀ cs ∈ progs, ∀ c ∈ cs, c.Shaped) (sched : List Ev) :
    Inv (Cfg.run ⟨store, now, progs.map Thread.ofCalls⟩ sched).store
        (Cfg.run ⟨store, now, progs.map Thread.ofCalls⟩ sched).now := by
  have hg : GInv ⟨store, now, progs.map Thread.ofCalls⟩ :=
    ⟨h0, fun th hth => by
      obtain ⟨cs, hcs, rfl⟩ := List.mem_map.mp hth
      exact ofCalls_inv now cs (hshape cs hcs)⟩
  exact (run_inv sched _ hg).store

/-- **the code as written**: any threads × any programs of `RecordReading` / `Reset` × any schedule. -/
theorem C20_meter_conc_code (store : Reading) (now : Int) (progs : List (List (Option String)))
    (h0 : Inv store now) (sched : List Ev) :
    Inv (Cfg.run ⟨store, now, progs.map (fun p => Thread.ofCalls (codeCalls p))⟩ sched).store
        (Cfg.run ⟨store, now, progs.map (fun p => Thread.ofCalls (codeCalls p))⟩ sched).now := by
  have := C20_meter_conc_start_le_end store now (progs.map codeCalls) h0 (fun cs hcs c hc => by
    obtain ⟨p, _, rfl⟩ := List.mem_map.mp hcs
    obtain ⟨o, _, rfl⟩ := List.mem_map.mp hc
    cases o <;> intro v hv <;> simp_all [Call.recordReading, Call.resetCall]) sched
  simpa [List.map_map, Function.comp_def] using this

/-- **every reading a call returns is ordered** (both times, start ≤ end), under every interleaving. -/
theorem C20_meter_conc_results (store : Reading) (now : Int) (progs : List (List (Option String)))
    (h0 : Inv store now) (sched : List Ev) :
    ∀ th ∈ (Cfg.run ⟨store, now, progs.map (fun p => Thread.ofCalls (codeCalls p))⟩ sched).threads,
      ∀ r, Res.ok r ∈ th.results → ∃ s e, r.start = some s ∧ r.stop = some e ∧ s ≤ e := by
  have hg : GInv ⟨store, now, progs.map (fun p => Thread.ofCalls (codeCalls p))⟩ :=
    ⟨h0, fun th hth => by
      obtain ⟨p, _, rfl⟩ := List.mem_map.mp hth
      refine ofCalls_inv now _ (fun c hc => ?_)
      obtain ⟨o, _, rfl⟩ := List.mem_map.mp hc
      cases o <;> intro v hv <;> simp_all [Call.recordReading, Call.resetCall]⟩
  intro th hth r hr
  exact ((run_inv sched _ hg).threads th hth).results _ hr

/-- **every commit is the sequential operation on the value stored at that moment; anything else
(including an `Aborted` call) leaves the store alone.**  So `C20_meter_record` / `C20_meter_reset`
(keeps start, sets usage and end; sets all three) describe each committed concurrent call. -/
theorem C20_meter_conc_commit_is_sequential (c : Cfg) (ev : Ev) :
    (c.step ev).store = c.store ∨ ∃ op : Op, (c.step ev).store = Meter.step c.store op := by
  cases ev with
  | tick d => left; rfl
  | step i =>
    simp only [Cfg.step]
    cases hth : c.threads[i]? with
    | none => left; rfl
    | some th =>
      rcases threadStep_seq c.store c.now th with h | ⟨cl, o, t, _, _, h, _⟩
      · left; exact h.1
      · right; exact ⟨cl.eff.op t, h⟩

/-- **a call that returns a reading has committed exactly that reading**, and it is the sequential
operation applied to the store; a thread step that returns nothing new, or `Aborted`, does not write. -/
theorem C20_meter_conc_result_is_commit (store : Reading) (now : Int) (th : Thread) :
    ((threadStep store now th).1 = store ∧
      ∀ r, (threadStep store now th).2.results ≠ .ok r :: th.results) ∨
    ∃ op : Op, (threadStep store now th).1 = Meter.step store op ∧
      (threadStep store now th).2.results = .ok (Meter.step store op) :: th.results := by
  rcases threadStep_seq store now th with h | ⟨cl, o, t, _, _, h1, h2⟩
  · left; exact ⟨h.1, fun r hr => h.2 r hr⟩
  · right; exact ⟨cl.eff.op t, h1, h2⟩

/-- **why the clock must be read inside the transaction**: a `RecordReading` that takes its timestamp
before `Set` (shape `early = true`) admits a schedule that commits `end < start` — thread 0 reads the
clock (100) and is delayed, a complete `Reset` runs at 105, thread 0 carries on. -/
theorem C20_meter_conc_clock_outside_fails :
    ∃ (progs : List (List Call)) (sched : List Ev),
      Inv ⟨"0", some 100, some 100⟩ 100 ∧
      ¬ ∃ t', Inv (Cfg.run ⟨⟨"0", some 100, some 100⟩, 100, progs.map Thread.ofCalls⟩ sched).store t' := by
  refine ⟨[[⟨.record "5", true⟩], [Call.resetCall]],
    [.step 0, .tick 5, .step 1, .step 1, .step 1, .step 1, .step 0, .step 0, .step 0],
    ⟨100, 100, rfl, rfl, Int.le_refl _, Int.le_refl _⟩, ?_⟩
  have h : (Cfg.run ⟨⟨"0", some 100, some 100⟩, 100,
      [[(⟨.record "5", true⟩ : Call)], [Call.resetCall]].map Thread.ofCalls⟩
      [.step 0, .tick 5, .step 1, .step 1, .step 1, .step 1, .step 0, .step 0, .step 0]).store
      = ⟨"5", some 105, some 100⟩ := by decide
  rw [h]
  rintro ⟨t', s, e, hs, he, hse, _⟩
  simp only [Option.some.injEq] at hs he
  omega

/-- the same schedule on the code as written: the overlapping `RecordReading` is `Aborted`, the store
keeps the `Reset`'s reading -/
example : (Cfg.run ⟨⟨"0", some 100, some 100⟩, 100,
      [[Call.recordReading "5"], [Call.resetCall]].map Thread.ofCalls⟩
      [.step 0, .step 0, .tick 5, .step 1, .step 1, .step 1, .step 1, .step 0, .step 0]).store
      = ⟨"0", some 105, some 105⟩ := by decide
example : ((Cfg.run ⟨⟨"0", some 100, some 100⟩, 100,
      [[Call.recordReading "5"], [Call.resetCall]].map Thread.ofCalls⟩
      [.step 0, .step 0, .tick 5, .step 1, .step 1, .step 1, .step 1, .step 0, .step 0]).threads.map (·.results))
      = [[.aborted], [.ok ⟨"0", some 105, some 105⟩]] := by decide
/-- committed timestamps need not be monotone: a `Reset` that read the clock at 100 commits after a
`RecordReading` stamped 107 — the sequential hypothesis `Mono` fails, the invariant holds -/
example : (Cfg.run ⟨⟨"0", some 100, some 100⟩, 100,
      [[Call.resetCall], [Call.recordReading "5"]].map Thread.ofCalls⟩
      [.step 0, .tick 7, .step 1, .step 1, .step 1, .step 1, .step 0, .step 0, .step 0]).store
      = ⟨"0", some 100, some 100⟩ := by decide

end ScVerif.C20.Meter
