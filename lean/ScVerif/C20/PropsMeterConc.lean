import ScVerif.C20.MeterConcLemmas
import ScVerif.C20.PropsMeter
/-!
# C20 — property theorems, Meter under concurrent callers

Property (fixed text, meter clause): "meter start and end times … stay mutually consistent".
Full-strength statement for the code as written: for **any number of threads, any program of
`RecordReading` / `Reset` calls per thread and any interleaving of their atomic steps** (read the stored
value · read the clock · compare-and-commit, `resource.GetAndUpdate`) **with any amount of time passing
between any two steps**, the stored reading always has both times, `start ≤ end ≤ now`; every reading a
call returns is ordered; and every commit is exactly the sequential operation applied to the value
stored at that moment (an aborted call changes nothing).  The only assumption on time is that the
clock itself never goes back (`tick d`, `d : Nat`): the timestamps of the *committed* operations need
NOT be monotone (a `Reset` that read the clock early can commit after a later `RecordReading`), so
the sequential theorem `C20_meter_start_le_end` (hypothesis `Mono`) does not give this.
The proofs instantiate the generic interleaving theorem (`GauLemmas.run_inv`).
-/
namespace ScVerif.C20.Meter
open Gau

/-- **start ≤ end ≤ now after every interleaving**, for every program whose calls satisfy the generic
condition (`Call.OK`): a call that keeps part of the stored period reads the clock inside the
transaction; only a call that overwrites both times may read it before. -/
theorem C20_meter_conc_start_le_end (store : Reading) (now : Int) (progs : List (List MCall))
    (h0 : Inv store now) (hshape : ∀ cs ∈ progs, ∀ c ∈ cs, c.OK Ordered) (sched : List Ev) :
    Inv (Cfg.run ⟨store, now, progs.map Thread.ofCalls⟩ sched).store
        (Cfg.run ⟨store, now, progs.map Thread.ofCalls⟩ sched).now :=
  (run_inv Ordered.mono sched _ (init_inv Ordered store now progs h0 hshape)).store

/-- **the code as written**: any threads × any programs of `RecordReading` / `Reset` × any schedule. -/
theorem C20_meter_conc_code (store : Reading) (now : Int) (progs : List (List (Option String)))
    (h0 : Inv store now) (sched : List Ev) :
    Inv (Cfg.run ⟨store, now, (progs.map codeCalls).map Thread.ofCalls⟩ sched).store
        (Cfg.run ⟨store, now, (progs.map codeCalls).map Thread.ofCalls⟩ sched).now :=
  C20_meter_conc_start_le_end store now (progs.map codeCalls) h0 (fun cs hcs c hc => by
    obtain ⟨p, _, rfl⟩ := List.mem_map.mp hcs
    exact codeCalls_ok p c hc) sched

/-- **every reading a call returns is ordered** (both times, start ≤ end), under every interleaving. -/
theorem C20_meter_conc_results (store : Reading) (now : Int) (progs : List (List (Option String)))
    (h0 : Inv store now) (sched : List Ev) :
    ∀ th ∈ (Cfg.run ⟨store, now, (progs.map codeCalls).map Thread.ofCalls⟩ sched).threads,
      ∀ r, Res.ok r ∈ th.results → ∃ s e, r.start = some s ∧ r.stop = some e ∧ s ≤ e := by
  have hg := run_inv Ordered.mono sched _ (init_inv Ordered store now (progs.map codeCalls) h0
    (fun cs hcs c hc => by
      obtain ⟨p, _, rfl⟩ := List.mem_map.mp hcs
      exact codeCalls_ok p c hc))
  intro th hth r hr
  obtain ⟨t, s, e, h1, h2, h3, _⟩ := (hg.threads th hth).results _ hr
  exact ⟨s, e, h1, h2, h3⟩

/-- **every commit is the sequential operation on the value stored at that moment; anything else
(including an `Aborted` call) leaves the store alone and returns no reading.**  A thread step either
changes nothing, or its current call was at the lock having read exactly the stored value, and the
store becomes — and the call returns — that call's effect on the current store at the instant the call
read from the clock. -/
theorem C20_meter_conc_commit_is_sequential (store : Reading) (now : Int) (th : MThread) :
    ((threadStep store now th).1 = store ∧
      ∀ r, (threadStep store now th).2.results ≠ .ok r :: th.results) ∨
    ∃ cl t, th.cur = some (cl, .ready store t) ∧
      (threadStep store now th).1 = cl.apply store t ∧
      (threadStep store now th).2.results = .ok (cl.apply store t) :: th.results := by
  rcases threadStep_seq store now th with h | h
  · left; exact ⟨h.1, fun r hr => h.2 r hr⟩
  · right; exact h

/-- … and the effect of the code's two calls is the sequential model's `step`: so `C20_meter_record`
(keeps start, sets usage and end) and `C20_meter_reset` describe every committed concurrent call. -/
theorem C20_meter_conc_calls_are_ops (o : Reading) (v : String) (t : Int) :
    (recordCall v).apply o t = Meter.step o (.record v t) ∧ resetCall.apply o t = Meter.step o (.reset t) ∧
    (recordCall v).early = false ∧ resetCall.early = true :=
  ⟨rfl, rfl, rfl, rfl⟩

/-- **why the clock must be read inside the transaction**: a `RecordReading` that takes its timestamp
before `Set` admits a schedule that commits `end < start` — thread 0 reads the clock (100) and is
delayed, a complete `Reset` runs at 105, thread 0 carries on. -/
theorem C20_meter_conc_clock_outside_fails :
    ∃ (progs : List (List MCall)) (sched : List Ev),
      Inv ⟨"0", some 100, some 100⟩ 100 ∧
      ¬ ∃ t', Inv (Cfg.run ⟨⟨"0", some 100, some 100⟩, 100, progs.map Thread.ofCalls⟩ sched).store t' := by
  refine ⟨[[earlyRecordCall "5"], [resetCall]],
    [.step 0, .tick 5, .step 1, .step 1, .step 1, .step 1, .step 0, .step 0, .step 0],
    ⟨100, 100, rfl, rfl, Int.le_refl _, Int.le_refl _⟩, ?_⟩
  have h : (Cfg.run ⟨⟨"0", some 100, some 100⟩, 100,
      [[earlyRecordCall "5"], [resetCall]].map Thread.ofCalls⟩
      [.step 0, .tick 5, .step 1, .step 1, .step 1, .step 1, .step 0, .step 0, .step 0]).store
      = ⟨"5", some 105, some 100⟩ := by decide
  rw [h]
  rintro ⟨t', s, e, hs, he, hse, _⟩
  simp only [Option.some.injEq] at hs he
  omega

/-- the same overlap on the code as written: the overlapping `RecordReading` is `Aborted`, the store
keeps the `Reset`'s reading -/
example : (Cfg.run ⟨⟨"0", some 100, some 100⟩, 100,
      [[recordCall "5"], [resetCall]].map Thread.ofCalls⟩
      [.step 0, .step 0, .tick 5, .step 1, .step 1, .step 1, .step 1, .step 0, .step 0]).store
      = ⟨"0", some 105, some 105⟩ := by decide
example : ((Cfg.run ⟨⟨"0", some 100, some 100⟩, 100,
      [[recordCall "5"], [resetCall]].map Thread.ofCalls⟩
      [.step 0, .step 0, .tick 5, .step 1, .step 1, .step 1, .step 1, .step 0, .step 0]).threads.map (·.results))
      = [[.aborted], [.ok ⟨"0", some 105, some 105⟩]] := by decide
/-- committed timestamps need not be monotone: a `Reset` that read the clock at 100 commits after a
`RecordReading` stamped 107 — the sequential hypothesis `Mono` fails, the invariant holds -/
example : (Cfg.run ⟨⟨"0", some 100, some 100⟩, 100,
      [[resetCall], [recordCall "5"]].map Thread.ofCalls⟩
      [.step 0, .tick 7, .step 1, .step 1, .step 1, .step 1, .step 0, .step 0, .step 0]).store
      = ⟨"0", some 100, some 100⟩ := by decide

end ScVerif.C20.Meter
