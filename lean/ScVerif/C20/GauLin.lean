import ScVerif.C20.GauLemmas
/-!
# C20 — every interleaving is a sequential run of the committed calls (lemmas)

`replay s log` applies the calls of `log` one after the other, each at its own clock reading.
For every configuration and schedule there is a log — made of calls that occur in the threads'
programs — such that the final store is `replay` of the initial store along the log.  So whatever a
sequential theorem says about every sequence of a model's operations (with arbitrary, not necessarily
monotone, clock readings) holds for the store after every interleaving: nothing is lost, nothing is
applied twice, nothing is applied to a value other than the one stored at that moment.
-/
namespace ScVerif.C20.Gau

variable {σ ε : Type}

def replay (s : σ) (log : List (Call σ ε × Int)) : σ := log.foldl (fun s p => p.1.apply s p.2) s

/-- the calls a thread may still commit: the one in progress and the rest of its program -/
def Thread.calls (th : Thread σ ε) : List (Call σ ε) :=
  (match th.cur with | some (c, _) => [c] | none => []) ++ th.todo

def Cfg.calls (c : Cfg σ ε) : List (Call σ ε) := c.threads.flatMap Thread.calls

variable [DecidableEq σ]

theorem threadGo_calls (store : σ) (now : Int) (results : List (Res σ ε)) (c : Call σ ε) (p : Phase σ)
    (todo : List (Call σ ε)) :
    ∀ x ∈ (threadGo store now results c p todo).2.calls, x = c ∨ x ∈ todo := by
  intro x hx
  unfold threadGo at hx
  generalize callStep store now c p = out at hx
  obtain ⟨s', p', r⟩ := out
  cases r with
  | none => simpa [Thread.calls] using hx
  | some r => right; simpa [Thread.calls] using hx

theorem threadStep_calls (store : σ) (now : Int) (th : Thread σ ε) :
    ∀ x ∈ (threadStep store now th).2.calls, x ∈ th.calls := by
  obtain ⟨cur, todo, results⟩ := th
  cases cur with
  | some cp =>
    obtain ⟨c, p⟩ := cp
    intro x hx
    rcases threadGo_calls store now results c p todo x hx with rfl | h
    · simp [Thread.calls]
    · simp [Thread.calls, h]
  | none =>
    cases todo with
    | nil => intro x hx; exact hx
    | cons c rest =>
      intro x hx
      rcases threadGo_calls store now results c .start rest x hx with rfl | h
      · simp [Thread.calls]
      · simp [Thread.calls, h]

omit [DecidableEq σ] in
theorem mem_calls_of_mem {c : Cfg σ ε} {th : Thread σ ε} (hth : th ∈ c.threads) {x : Call σ ε}
    (hx : x ∈ th.calls) : x ∈ c.calls :=
  List.mem_flatMap.mpr ⟨th, hth, hx⟩

theorem step_calls (c : Cfg σ ε) (ev : Ev) : ∀ x ∈ (c.step ev).calls, x ∈ c.calls := by
  cases ev with
  | tick d => intro x hx; exact hx
  | step i =>
    simp only [Cfg.step]
    cases hth : c.threads[i]? with
    | none => intro x hx; exact hx
    | some th =>
      intro x hx
      obtain ⟨th', hth', hx'⟩ := List.mem_flatMap.mp hx
      have hmem : th ∈ c.threads := List.mem_of_getElem? hth
      rcases List.mem_or_eq_of_mem_set hth' with h' | rfl
      · exact mem_calls_of_mem h' hx'
      · exact mem_calls_of_mem hmem (threadStep_calls c.store c.now th x hx')

/-- one event: the store is unchanged, or it is one call of the configuration applied to the store at
an instant not after now -/
theorem step_store (c : Cfg σ ε) (ev : Ev) :
    (c.step ev).store = c.store ∨
    ∃ cl ∈ c.calls, ∃ t, (c.step ev).store = cl.apply c.store t := by
  cases ev with
  | tick d => left; rfl
  | step i =>
    simp only [Cfg.step]
    cases hth : c.threads[i]? with
    | none => left; rfl
    | some th =>
      have hmem : th ∈ c.threads := List.mem_of_getElem? hth
      rcases threadStep_seq c.store c.now th with h | ⟨cl, t, hcur, h, _⟩
      · left; exact h.1
      · right
        exact ⟨cl, mem_calls_of_mem hmem (by simp [Thread.calls, hcur]), t, h⟩

theorem run_linearizes (sched : List Ev) : ∀ c : Cfg σ ε,
    ∃ log : List (Call σ ε × Int), (∀ p ∈ log, p.1 ∈ c.calls) ∧ (c.run sched).store = replay c.store log := by
  induction sched with
  | nil => intro c; exact ⟨[], by simp, rfl⟩
  | cons ev rest ih =>
    intro c
    obtain ⟨log, hmem, hlog⟩ := ih (c.step ev)
    have hmem' : ∀ p ∈ log, p.1 ∈ c.calls := fun p hp => step_calls c ev _ (hmem p hp)
    rcases step_store c ev with h | ⟨cl, hcl, t, h⟩
    · exact ⟨log, hmem', by rw [← h]; exact hlog⟩
    · refine ⟨(cl, t) :: log, ?_, ?_⟩
      · intro p hp
        rcases List.mem_cons.mp hp with rfl | hp
        · exact hcl
        · exact hmem' p hp
      · show (Cfg.run (c.step ev) rest).store = _
        rw [hlog, h]; rfl

theorem run_calls (sched : List Ev) : ∀ c : Cfg σ ε, ∀ x ∈ (c.run sched).calls, x ∈ c.calls := by
  induction sched with
  | nil => intro c x hx; exact hx
  | cons ev rest ih => intro c x hx; exact step_calls c ev x (ih (c.step ev) x hx)

omit [DecidableEq σ] in
/-- the calls of an initial configuration are those of the programs -/
theorem init_calls (store : σ) (now : Int) (progs : List (List (Call σ ε))) :
    ∀ x ∈ (⟨store, now, progs.map Thread.ofCalls⟩ : Cfg σ ε).calls, ∃ cs ∈ progs, x ∈ cs := by
  intro x hx
  obtain ⟨th, hth, hx⟩ := List.mem_flatMap.mp hx
  obtain ⟨cs, hcs, rfl⟩ := List.mem_map.mp hth
  exact ⟨cs, hcs, by simpa [Thread.calls, Thread.ofCalls] using hx⟩

end ScVerif.C20.Gau
