import ScVerif.C20.ParentConcLemmas
import ScVerif.C20.GauCount
import ScVerif.C20.PropsConc
/-!
# C20 — property theorems, Parent under concurrent callers

Property (fixed text, parent clause): "For every update sequence a parent's child trait list is the
sorted duplicate-free set union and difference of what was added and removed … none of these operations
panics on a well-formed request."  Under overlapping callers of `AddChild` / `AddChildTrait` /
`RemoveChildTrait` on one child (any number of threads, any programs, any schedule of the atomic steps of
`GetAndUpdate`):

* the stored record is the sequential run of exactly the calls that committed, hence the set
  union/difference of exactly those calls in commit order, sorted and duplicate free — no added trait
  lost, no removed trait kept, nothing computed from a stale trait list;
* every child handed back to a caller is sorted and duplicate free;
* a trait call is never refused (`Aborted` was thrown as a panic before fix 1e16ef0): a lost
  compare-and-commit race is made again on the value stored now.
-/
namespace ScVerif.C20.Parent
open Gau

/-- **the stored record is a sequential run of exactly the committed calls**: `ops` are calls of the
threads' programs, as many as calls committed, and the final record is their sequential run. -/
theorem C20_parent_conc_is_sequential_run (init : Rec) (now : Int) (progs : List (List COp))
    (sched : List Ev) :
    let c := Cfg.run ⟨init, now, (progs.map (·.map opCall)).map Thread.ofCalls⟩ sched
    ∃ ops : List COp, (∀ o ∈ ops, ∃ p ∈ progs, o ∈ p) ∧ ops.length = c.oks ∧
      c.store = ops.foldl recStep init := by
  intro c
  obtain ⟨log, hmem, h, hcnt⟩ := run_linearizes_counted sched
    (⟨init, now, (progs.map (·.map opCall)).map Thread.ofCalls⟩ : Cfg Rec CErr)
  have h0 : ∀ ps : List (List PCall), ((ps.map Thread.ofCalls).map Thread.oks).sum = 0 := by
    intro ps
    induction ps with
    | nil => rfl
    | cons p rest ih => simpa [Thread.oks, Thread.ofCalls] using ih
  have hc0 : (⟨init, now, (progs.map (·.map opCall)).map Thread.ofCalls⟩ : Cfg Rec CErr).oks = 0 := h0 _
  have hlen : log.length = c.oks := by show log.length = (Cfg.run _ sched).oks; omega
  have hstore : c.store = replay init log := h
  rw [hstore, ← hlen]
  clear h hcnt hlen hstore hc0
  have hmem' : ∀ p ∈ log, ∃ o, (∃ pr ∈ progs, o ∈ pr) ∧ p.1 = opCall o := by
    intro p hp
    obtain ⟨th, hth, hx⟩ := List.mem_flatMap.mp (hmem p hp)
    obtain ⟨cs, hcs, rfl⟩ := List.mem_map.mp hth
    obtain ⟨pr, hpr, rfl⟩ := List.mem_map.mp hcs
    have : p.1 ∈ pr.map opCall := by simpa [Thread.calls, Thread.ofCalls] using hx
    obtain ⟨o, ho, heq⟩ := List.mem_map.mp this
    exact ⟨o, ⟨pr, hpr, ho⟩, heq.symm⟩
  clear hmem
  induction log generalizing init with
  | nil => exact ⟨[], by simp, rfl, rfl⟩
  | cons p rest ih =>
    obtain ⟨o, ho, hpo⟩ := hmem' p (List.mem_cons_self ..)
    obtain ⟨ops, hops, hl, hr⟩ := ih (p.1.apply init p.2) (fun q hq => hmem' q (List.mem_cons_of_mem _ hq))
    refine ⟨o :: ops, ?_, by simp [hl], ?_⟩
    · intro x hx
      rcases List.mem_cons.mp hx with rfl | hx
      · exact ho
      · exact hops x hx
    · simp only [replay, List.foldl_cons] at hr ⊢
      rw [hr, hpo, opCall_apply]

/-- **set algebra under every interleaving**: if the record starts as the set `σ₀` (absent, or sorted and
duplicate free with `σ₀`'s members), then after any interleaving it is — sorted, duplicate free — the set
obtained from `σ₀` by the union / difference / creation of exactly the committed calls, in commit order. -/
theorem C20_parent_conc_set_algebra (init : Rec) (σ₀ : SpecRec) (h0 : RefinesRec init σ₀) (now : Int)
    (progs : List (List COp)) (hwf : ∀ p ∈ progs, ∀ o ∈ p, o.WF) (sched : List Ev) :
    let c := Cfg.run ⟨init, now, (progs.map (·.map opCall)).map Thread.ofCalls⟩ sched
    ∃ ops : List COp, (∀ o ∈ ops, ∃ p ∈ progs, o ∈ p) ∧ ops.length = c.oks ∧
      RefinesRec c.store (ops.foldl specStep σ₀) := by
  intro c
  obtain ⟨ops, hops, hlen, hst⟩ := C20_parent_conc_is_sequential_run init now progs sched
  refine ⟨ops, hops, hlen, ?_⟩
  have hst' : c.store = ops.foldl recStep init := hst
  rw [hst']
  clear hst hst' hlen
  induction ops generalizing init σ₀ with
  | nil => exact h0
  | cons o rest ih =>
    have hw : o.WF := by
      obtain ⟨p, hp, hop⟩ := hops o (List.mem_cons_self ..)
      exact hwf p hp o hop
    exact ih (recStep init o) (specStep σ₀ o) (recStep_refines init σ₀ o h0 hw)
      (fun x hx => hops x (List.mem_cons_of_mem _ hx))

/-- **every child a caller gets back, and the stored one, is sorted and duplicate free** — after every
interleaving, for every thread and every returned value. -/
theorem C20_parent_conc_sorted (init : Rec) (h0 : ∀ ts, init = some ts → Sorted ts) (now : Int)
    (progs : List (List COp)) (hwf : ∀ p ∈ progs, ∀ o ∈ p, o.WF) (sched : List Ev) :
    let c := Cfg.run ⟨init, now, (progs.map (·.map opCall)).map Thread.ofCalls⟩ sched
    (∀ ts, c.store = some ts → Sorted ts) ∧
    ∀ th ∈ c.threads, ∀ ts, Res.ok (some ts) ∈ th.results → Sorted ts := by
  have hg := run_inv (I := RecSorted) (fun _ _ _ _ h => h) sched _
    (init_inv RecSorted init now (progs.map (·.map opCall)) h0 (fun cs hcs cl hcl => by
      obtain ⟨p, hp, rfl⟩ := List.mem_map.mp hcs
      obtain ⟨o, ho, rfl⟩ := List.mem_map.mp hcl
      exact opCall_ok o (hwf p hp o ho)))
  refine ⟨hg.store, fun th hth ts hr => ?_⟩
  obtain ⟨t, ht⟩ := (hg.threads th hth).results _ hr
  exact ht ts rfl

/-- **a trait call is never refused** (no panic): a thread that only makes `AddChildTrait` /
`RemoveChildTrait` calls has no `Aborted` among its results at any point of any schedule, whatever the
other threads do (`AddChild` calls included).  A lost race is made again, see `opRetry`. -/
theorem C20_parent_conc_trait_calls_never_refused (init : Rec) (now : Int) (progs : List (List COp))
    (sched : List Ev) (i : Nat) (p : List COp) (hp : progs[i]? = some p)
    (htrait : ∀ o ∈ p, ∀ ts, o ≠ .addChild ts) :
    ∀ th, (Cfg.run ⟨init, now, (progs.map (·.map opCall)).map Thread.ofCalls⟩ sched).threads[i]? = some th →
      Res.aborted ∉ th.results := by
  have hmap : (progs.map (·.map opCall))[i]? = some (p.map opCall) := by simp [hp]
  refine C20_conc_retrying_thread_never_refused init now (progs.map (·.map opCall)) sched i _ hmap (fun cl hcl => ?_)
  obtain ⟨o, ho, rfl⟩ := List.mem_map.mp hcl
  cases o with
  | addChild ts => exact absurd rfl (htrait _ ho ts)
  | addTrait ts => rfl
  | removeTrait ts => rfl

/-- **the repaired defect** (fix 1e16ef0): with one attempt per call, two `AddChildTrait` calls on a new
child that overlap — both read "absent", the first commits, the second reaches the lock — leave the
second refused with `Aborted`, which the method threw as a panic. -/
theorem C20_parent_conc_legacy_panics :
    ∃ (progs : List (List COp)) (sched : List Ev),
      let c := Cfg.run ⟨(none : Rec), 0, (progs.map (·.map legacyCall)).map Thread.ofCalls⟩ sched
      ∃ th ∈ c.threads, Res.aborted ∈ th.results :=
  ⟨[[.addTrait ["a"]], [.addTrait ["b"]]], [.step 0, .step 1, .step 1, .step 1, .step 0, .step 0], by
    decide +kernel⟩

/-- the same schedule on the code as it is: the second call is made again and both traits are stored -/
example :
    let c := Cfg.run ⟨(none : Rec), 0,
      ([[COp.addTrait ["a"]], [COp.addTrait ["b"]]].map (·.map opCall)).map Thread.ofCalls⟩
      [.step 0, .step 1, .step 1, .step 1, .step 0, .step 0, .step 0, .step 0, .step 0]
    c.store = some ["a", "b"] ∧ c.oks = 2 := by
  decide +kernel

/-- the hypotheses are satisfiable: an absent child refines the absent spec, a present one its member set -/
example : RefinesRec none none := trivial
example : RefinesRec (some ["a", "b"]) (some (· ∈ ["a", "b"])) := ⟨by decide, fun _ => Iff.rfl⟩
example : (COp.addChild ["a", "b"]).WF := by show Sorted ["a", "b"]; decide

end ScVerif.C20.Parent
