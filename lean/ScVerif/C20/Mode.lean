/-!
# C20 / Mode — executable model of `pkg/trait/modepb/{model.go,model_server.go}`

`ModelServer.UpdateModeValues` with relative adjustments (`relativeAdjustment`), the update-mask
merge of the `values` map, and `NewModelModes`.  Follows the code after the fixes: `NewModelModes`
keeps the modes it is given; the relative index is computed in 64 bits (so `i + adjustment` is exact
for every int32 adjustment) with Go's truncated `%` followed by the negative correction.
-/
namespace ScVerif.C20.Mode

structure ModeDef where
  name : String
  values : List String

abbrev Values := List (String × String)

def lookup (n : String) : Values → Option String
  | [] => none
  | (k, v) :: rest => if k = n then some v else lookup n rest

def set (n : String) (v : String) : Values → Values
  | [] => [(n, v)]
  | (k, w) :: rest => if k = n then (k, v) :: rest else (k, w) :: set n v rest

/-- `Model.AvailableValues`: the values of the first mode with that name, else nil. -/
def availableValues : List ModeDef → String → List String
  | [], _ => []
  | m :: rest, n => if m.name = n then m.values else availableValues rest n

/-- index of the first value equal to `v` (the `for i, value := range values` loop) -/
def indexOf : List String → String → Option Nat
  | [], _ => none
  | x :: xs, v => if x = v then some 0 else (indexOf xs v).map (· + 1)

/-- `newI := (int64(i) + int64(adjustment)) % int64(len(values)); if newI < 0 { newI = len + newI }`
(`%` is Go's truncated remainder = `Int.tmod`). -/
def wrapIndex (i : Nat) (adj : Int) (len : Nat) : Int :=
  let newI := ((i : Int) + adj).tmod (len : Int)
  if newI < 0 then (len : Int) + newI else newI

/-- one iteration of the `adjustments:` loop: writes into the request's values -/
def relativeOne (modes : List ModeDef) (old newVals : Values) (n : String) (adj : Int) : Values :=
  match availableValues modes n with
  | [] => newVals                                   -- len(values) == 0: continue
  | v0 :: vs =>
    match lookup n old with
    | none => set n v0 newVals                      -- no current value: first
    | some cur =>
      match indexOf (v0 :: vs) cur with
      | some i => set n ((v0 :: vs)[(wrapIndex i adj (vs.length + 1)).toNat]?.getD v0) newVals
      | none => set n v0 newVals                    -- current value unknown: first

inductive Mask where
  | none      -- no update mask: the stored message becomes the request's message
  | values    -- update mask ["values"]: proto map merge, cleared when the request's map is empty
  deriving DecidableEq

/-- `ModelServer.UpdateModeValues`: interceptor on the request's values, then the masked merge. -/
def update (modes : List ModeDef) (old vals : Values) (rel : List (String × Int)) (mask : Mask) : Values :=
  let src := rel.foldl (fun acc r => relativeOne modes old acc r.1 r.2) vals
  match mask with
  | .none => src
  | .values => if src.isEmpty then [] else src.foldl (fun acc kv => set kv.1 kv.2 acc) old

structure Model where
  modes : List ModeDef
  values : Values

def initialValues (modes : List ModeDef) : Values :=
  modes.foldl (fun acc m => set m.name (m.values.headD "") acc) []

/-- `NewModelModes`; `none` is the panic of `mode.Values[0]` on a mode without values. -/
def newModelModes (modes : List ModeDef) : Option Model :=
  if modes.any (fun m => m.values.isEmpty) then none
  else some ⟨modes, initialValues modes⟩

structure Request where
  vals : Values
  rel : List (String × Int)
  mask : Mask

def Model.step (m : Model) (r : Request) : Model :=
  { m with values := update m.modes m.values r.vals r.rel r.mask }

def Model.run (m : Model) (rs : List Request) : Model := rs.foldl Model.step m

end ScVerif.C20.Mode
