import ScVerif.C20.FanSpeedSpec
/-!
# C20 — property theorems, FanSpeed

Property (fixed text, fan clause): "fan-speed preset, index and percentage … stay mutually
consistent. Models constructed with explicit configuration (… presets …) use it, and none of these
operations panics on a well-formed request."

`Consistent ps v`: preset ≠ "" → presets[index] = (preset, percentage); preset = "" → index = −1 ∧ no
preset has that percentage.  The statement carries the explicit hypothesis `WriteOK` (the write does
not clear the preset of a fan that has one); the excluded point is exhibited below and the real code is
run there by the tie.
-/
namespace ScVerif.C20.FanSpeed

set_option linter.unusedSectionVars false
variable {α : Type} [DecidableEq α] (add : α → α → α)

/-- exact rational addition: the instance used by the driver and by the concrete examples -/
abbrev radd : Rat → Rat → Rat := (· + ·)

/-- every request of the run satisfies `WriteOK` at the state it is applied to -/
def OKRun (ps : List (Preset α)) : Fan α → List (Request α) → Prop
  | _, [] => True
  | s, r :: rest => WriteOK add s r ∧ OKRun ps (step add ps s r) rest

/-- **Consistency after every update sequence** (absolute or relative writes, any update mask, any
preset list with named presets, rejected requests included): from a consistent state, as long as no
write clears the preset of a fan that has one, preset, index and percentage stay mutually consistent. -/
theorem C20_fan_consistent (ps : List (Preset α)) (hwf : WF ps) (rs : List (Request α)) :
    ∀ s, Consistent ps s → OKRun add ps s rs → Consistent ps (run add ps s rs) := by
  induction rs with
  | nil => intro s h _; exact h
  | cons r rest ih =>
    intro s h hok
    apply ih _ _ hok.2
    unfold step
    cases hu : update add ps s r with
    | ok v => exact consistent_step add ps s v r hwf h hok.1 hu
    | invalidArgument => exact h
    | panic => exact h

/-- the default configuration: DefaultPresets are well-formed and the default initial fan speed
("off", index 0, 0%) is consistent; a relative index step under its mask satisfies `WriteOK` -/
example : WF ([⟨"off", 0⟩, ⟨"low", 15⟩, ⟨"med", 40⟩, ⟨"high", 75⟩, ⟨"full", 100⟩] : List (Preset Rat)) ∧
    Consistent ([⟨"off", 0⟩, ⟨"low", 15⟩, ⟨"med", 40⟩, ⟨"high", 75⟩, ⟨"full", 100⟩] : List (Preset Rat)) ⟨0, "off", 0, 1⟩ ∧
    WriteOK radd ⟨0, "off", 0, 1⟩ ⟨⟨0, "", 1, 0⟩, true, some [.index]⟩ := by
  refine ⟨⟨by simp, by simp⟩, ⟨fun _ => ⟨by decide, ⟨"off", 0⟩, by decide, rfl, rfl⟩, fun h => by simp at h⟩, by decide⟩

/-- **The excluded point is real** (why `WriteOK` is needed): a mask-less write of percentage 50 on a
fan at preset "low" leaves preset "" with index 0 — not consistent. -/
theorem C20_fan_consistent_fails :
    ∃ (ps : List (Preset Rat)) (s : Fan Rat) (r : Request Rat),
      WF ps ∧ Consistent ps s ∧ ¬ WriteOK radd s r ∧ ¬ Consistent ps (step radd ps s r) := by
  refine ⟨[⟨"off", 0⟩, ⟨"low", 15⟩], ⟨15, "low", 1, 1⟩, ⟨⟨50, "", 0, 0⟩, false, none⟩,
    ⟨by simp, by simp⟩, ⟨fun _ => ⟨by decide, ⟨"low", 15⟩, by decide, rfl, rfl⟩, fun h => by simp at h⟩,
    by decide, ?_⟩
  intro h
  have := (h.2 (by decide)).1
  revert this
  decide +kernel

/-- **Precedence, preset first**: when the merged write changes the preset (to a known one), the
result is that preset with its own index and percentage, whatever index and percentage were written. -/
theorem C20_fan_precedence_preset (ps : List (Preset α)) (old : Fan α) (r : Request α) (i : Nat)
    (h1 : old.preset ≠ (merged add old r).preset)
    (hf : findIdx (fun p => p.name == (merged add old r).preset) ps = some i) :
    ∃ p, ps[i]? = some p ∧ p.name = (merged add old r).preset ∧
      deriveValues ps old (merged add old r) =
        some { merged add old r with index := i, pct := p.pct } := by
  obtain ⟨x, hx, hp⟩ := findIdx_some hf
  refine ⟨x, hx, by simpa using hp, ?_⟩
  unfold deriveValues
  rw [if_pos h1]
  simp [hf, hx]

/-- **Precedence, index second, and the index is clamped**: preset unchanged and index changed ⇒ the
index is clamped into `[0, len)`, and preset and percentage are those of the preset at that index. -/
theorem C20_fan_index_clamped (ps : List (Preset α)) (hne : ps ≠ []) (old : Fan α) (r : Request α)
    (h1 : old.preset = (merged add old r).preset) (h2 : old.index ≠ (merged add old r).index) :
    ∃ v p, deriveValues ps old (merged add old r) = some v ∧
      0 ≤ v.index ∧ v.index < ps.length ∧
      v.index = max 0 (min (merged add old r).index ((ps.length : Int) - 1)) ∧
      ps[v.index.toNat]? = some p ∧ v.preset = p.name ∧ v.pct = p.pct ∧
      v.direction = (merged add old r).direction := by
  have hlen : 0 < ps.length := by
    cases ps with
    | nil => exact absurd rfl hne
    | cons _ _ => simp
  have hb := clamp_bounds ps.length hlen (merged add old r).index
  simp only at hb
  unfold deriveValues
  rw [if_neg (by simpa using h1), if_pos h2]
  generalize hnew : merged add old r = new at hb ⊢
  dsimp only
  have hce := clamp_eq ps.length hlen new.index
  generalize hidx : (if (if new.index ≥ ↑ps.length then (ps.length : Int) - 1 else new.index) < 0 then 0
      else if new.index ≥ ↑ps.length then (ps.length : Int) - 1 else new.index) = idx at hb hce ⊢
  rw [List.getElem?_eq_getElem hb.2]
  refine ⟨_, _, rfl, hb.1, ?_, hce, by simp [List.getElem?_eq_getElem hb.2], rfl, rfl, rfl⟩
  show idx < (ps.length : Int)
  omega

/-- **Precedence, percentage last**: preset and index unchanged and percentage changed ⇒ the first
preset with exactly that percentage is selected, or none (preset "", index −1). -/
theorem C20_fan_percentage (ps : List (Preset α)) (old : Fan α) (r : Request α)
    (h1 : old.preset = (merged add old r).preset) (h2 : old.index = (merged add old r).index)
    (h3 : old.pct ≠ (merged add old r).pct) :
    ∃ v, deriveValues ps old (merged add old r) = some v ∧ v.pct = (merged add old r).pct ∧
      ((∃ (i : Nat) (p : Preset α), ps[i]? = some p ∧ p.pct = v.pct ∧ v.index = (i : Int) ∧ v.preset = p.name) ∨
       (v.preset = "" ∧ v.index = -1 ∧ ∀ p ∈ ps, p.pct ≠ v.pct)) := by
  unfold deriveValues
  rw [if_neg (by simpa using h1), if_neg (by simpa using h2), if_pos h3]
  cases hf : findIdx (fun p => p.pct == (merged add old r).pct) ps with
  | some i =>
    obtain ⟨x, hx, hp⟩ := findIdx_some hf
    refine ⟨_, rfl, rfl, Or.inl ⟨i, x, hx, by simpa using hp, rfl, by simp [hx]⟩⟩
  | none =>
    refine ⟨_, rfl, rfl, Or.inr ⟨rfl, rfl, fun p hp => ?_⟩⟩
    have := findIdx_none hf p hp
    simpa using this

/-- **Relative index steps never wrap** (every int32 step `k`, including ±2³¹): on a fan at a named
preset, a relative `preset_index` write under its mask moves to the index `max 0 (min (index + k) (len − 1))`
of the TRUE integer sum — a huge step lands on the last/first preset — and preset and percentage
are those of that preset. (Before the fix the int32 sum wrapped to the other end.) -/
theorem C20_fan_relative_index (ps : List (Preset α)) (hwf : WF ps) (hlen : (ps.length : Int) ≤ 2147483647)
    (old : Fan α) (hc : Consistent ps old) (hp : old.preset ≠ "") (k : Int) (pct : α) (dir : Int) :
    ∃ v p, update add ps old ⟨⟨pct, "", k, dir⟩, true, some [.index]⟩ = .ok v ∧
      v.index = max 0 (min (old.index + k) ((ps.length : Int) - 1)) ∧
      ps[v.index.toNat]? = some p ∧ v.preset = p.name ∧ v.pct = p.pct ∧ v.direction = old.direction := by
  obtain ⟨h0, p0, hp0, hn0, hpc0⟩ := hc.1 hp
  have hlt : old.index.toNat < ps.length := by
    rcases List.getElem?_eq_some_iff.mp hp0 with ⟨h, _⟩; exact h
  have hm : merged add old ⟨⟨pct, "", k, dir⟩, true, some [.index]⟩ =
      ⟨old.pct, old.preset, sat32 (k + old.index), old.direction⟩ := by
    simp [merged, merge]
  have hupd : update add ps old ⟨⟨pct, "", k, dir⟩, true, some [.index]⟩ =
      match deriveValues ps old (merged add old ⟨⟨pct, "", k, dir⟩, true, some [.index]⟩) with
      | some v => .ok v
      | none => .panic := by
    unfold update
    rw [if_neg (by simp)]
    generalize deriveValues ps old _ = d
    cases d <;> rfl
  rw [hupd]
  by_cases h2 : old.index ≠ (merged add old ⟨⟨pct, "", k, dir⟩, true, some [.index]⟩).index
  · obtain ⟨v, p, hd, _, _, hidx, hget, hpre, hpct, hdir⟩ :=
      C20_fan_index_clamped add ps hwf.1 old _ (by rw [hm]) h2
    refine ⟨v, p, by rw [hd], ?_, hget, hpre, hpct, by rw [hdir, hm]⟩
    rw [hidx, hm]
    simp only [sat32, Int.max_def, Int.min_def]
    repeat' split
    all_goals omega
  · have h2' : old.index = sat32 (k + old.index) := by
      have : old.index = (merged add old ⟨⟨pct, "", k, dir⟩, true, some [.index]⟩).index := by
        apply Classical.byContradiction; intro h; exact h2 h
      rw [hm] at this; exact this
    have hd : deriveValues ps old (merged add old ⟨⟨pct, "", k, dir⟩, true, some [.index]⟩) =
        some (merged add old ⟨⟨pct, "", k, dir⟩, true, some [.index]⟩) := by
      rw [hm]
      unfold deriveValues
      simp [← h2']
    rw [hd, hm]
    refine ⟨_, p0, rfl, ?_, ?_, hn0.symm, hpc0.symm, rfl⟩
    · show sat32 (k + old.index) = _
      rw [← h2']
      have : (old.index.toNat : Int) = old.index := Int.toNat_of_nonneg h0
      revert h2'
      simp only [sat32, Int.max_def, Int.min_def]
      repeat' split
      all_goals omega
    · show ps[(sat32 (k + old.index)).toNat]? = some p0
      rw [← h2']; exact hp0

/-- **No panic with a non-empty preset list**, for every state and request. -/
theorem C20_fan_no_panic (ps : List (Preset α)) (hne : ps ≠ []) (old : Fan α) (r : Request α) :
    update add ps old r ≠ .panic := by
  unfold update
  split
  · simp
  · have hlen : 0 < ps.length := by
      cases ps with
      | nil => exact absurd rfl hne
      | cons _ _ => simp
    have hb := clamp_bounds ps.length hlen (merged add old r).index
    simp only at hb
    cases hd : deriveValues ps old (merged add old r) with
    | some v => simp
    | none =>
      exfalso
      unfold deriveValues at hd
      split at hd
      · split at hd <;> simp at hd
      · split at hd
        · dsimp only at hd; rw [List.getElem?_eq_getElem hb.2] at hd; simp at hd
        · split at hd
          · split at hd <;> simp at hd
          · simp at hd

/-- the panic exists without that hypothesis: an index write on a model configured with no presets -/
example : update radd ([] : List (Preset Rat)) ⟨0, "", -1, 0⟩ ⟨⟨0, "", 2, 0⟩, false, none⟩ = .panic := by decide +kernel

end ScVerif.C20.FanSpeed
