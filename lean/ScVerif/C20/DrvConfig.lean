import ScVerif.Base.Line
import ScVerif.C20.Config
/-! Driver op of the option plumbing model: `cfg.new <kinds> <defaults> <opts>`.

`kinds`: one letter per resource of the model, `c` (a Collection: prints its records) or `v` (a Value: prints its
initial value).  Option lists: `-` or `,`-separated; `s.<o>` a plain option, `t<r>.<o>+<o>…` an option targeted at
resource r (possibly empty), `x<k>` the non-resource argument.  Resource options `<o>`: `c<k>` clock, `g<k>` rng,
`e<k>` comparer, `v<k>` initial value, `i<id>=<k>` initial record (ids are alphanumeric in this tie). -/
namespace ScVerif.C20.Config
open ScVerif.Line

def parseROpt? (s : String) : Option ROpt :=
  let rest := (s.drop 1).toString
  match (s.take 1).toString with
  | "c" => (parseNat? rest).map .clock
  | "g" => (parseNat? rest).map .rng
  | "e" => (parseNat? rest).map .equiv
  | "v" => (parseNat? rest).map .initialValue
  | "i" => match rest.splitOn "=" with
    | [id, v] => if id = "" then none else (parseNat? v).map (.initialRecord id)
    | _ => none
  | _ => none

def parseMOpt? (s : String) : Option MOpt :=
  match (s.take 1).toString with
  | "x" => (parseNat? (s.drop 1).toString).map .extra
  | "s" => match s.splitOn "." with
    | ["s", o] => (parseROpt? o).map .shared
    | _ => none
  | "t" => match s.splitOn "." with
    | [t, os] => do
      let r ← parseNat? (t.drop 1).toString
      let os ← if os = "" then some [] else (os.splitOn "+").mapM parseROpt?
      pure (.target r os)
    | _ => none
  | _ => none

def parseMOpts? (s : String) : Option (List MOpt) :=
  if s = "-" then some [] else (s.splitOn ",").mapM parseMOpt?

def showONat : Option Nat → String
  | none => "-"
  | some k => toString k

def showRes (kind : Char) (c : RConfig) : String :=
  let base := "clock=" ++ toString c.clock ++ " rng=" ++ toString c.rng ++ " eq=" ++ toString c.equiv
  if kind = 'v' then base ++ " val=" ++ showONat c.initialValue
  else
    let sorted := c.records.mergeSort (fun a b => decide (a.1 ≤ b.1))
    base ++ " recs=" ++ (if sorted.isEmpty then "-" else ",".intercalate (sorted.map fun p => p.1 ++ "=" ++ toString p.2))

def handle? (toks : List String) : Option String :=
  match toks with
  | ["cfg.new", kinds, defaults, opts] => do
    let d ← parseMOpts? defaults
    let o ← parseMOpts? opts
    let ks := kinds.toList
    if !ks.all (fun k => k = 'c' || k = 'v') then none
    else match newModel ks.length d o with
      | none => pure "panic"
      | some (cs, x) => pure ("x=" ++ showONat x ++ " | " ++ " | ".intercalate ((ks.zip cs).map fun kc => showRes kc.1 kc.2))
  | _ => none

end ScVerif.C20.Config
