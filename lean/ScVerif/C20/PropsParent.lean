import ScVerif.C20.ParentLemmas
/-!
# C20 — property theorems, Parent

Property (fixed text, parent clause): "For every update sequence a parent's child trait list is the
sorted duplicate-free set union and difference of what was added and removed."

`Sorted l` is `l.Pairwise (· < ·)`: strictly ascending, i.e. sorted and duplicate free.  Sets are
given by membership.  Only property theorems and their non-vacuity examples live in this file.
-/
namespace ScVerif.C20.Parent

/-- `traitUnion` on a sorted duplicate-free slice: sorted duplicate-free, and exactly `has ∪ more`.
`more` is arbitrary (unsorted, with duplicates, overlapping `has`). -/
theorem C20_parent_union (has more : List String) (hs : Sorted has) :
    Sorted (traitUnion has more) ∧ ∀ x, x ∈ traitUnion has more ↔ x ∈ has ∨ x ∈ more :=
  traitUnion_spec more has hs

/-- `traitRemove` on a sorted duplicate-free slice: sorted duplicate-free, and exactly `has \ remove`.
`remove` is arbitrary; in particular names that are absent from `has` remove nothing. -/
theorem C20_parent_remove (has remove : List String) (hs : Sorted has) :
    Sorted (traitRemove has remove) ∧ ∀ x, x ∈ traitRemove has remove ↔ x ∈ has ∧ x ∉ remove :=
  traitRemove_spec remove has hs

/-- the witness of the repaired defect: removing the absent "a" from ["b"] keeps "b" -/
example : traitRemove ["b"] ["a"] = ["b"] := by decide

/-! ## every update sequence: the model refines a map of sets -/

/-- Spec state: child name ↦ set of trait names. -/
abbrev SpecState := String → Option (String → Prop)

def upd (σ : SpecState) (n : String) (v : Option (String → Prop)) : SpecState :=
  fun m => if m = n then v else σ m

/-- The specification: plain set algebra per child. -/
def specStep (σ : SpecState) : Op → SpecState
  | .addChild n ts => if n = "" then σ else
      match σ n with
      | some _ => σ
      | none => upd σ n (some (fun x => x ∈ ts))
  | .addTrait n ts =>
      upd σ n (some (fun x => (match σ n with | some S => S x | none => False) ∨ x ∈ ts))
  | .removeTrait n ts =>
      match σ n with
      | some S => upd σ n (some (fun x => S x ∧ x ∉ ts))
      | none => σ
  | .removeChild n => upd σ n none

def specRun (σ : SpecState) (ops : List Op) : SpecState := ops.foldl specStep σ

/-- The model's children are exactly the spec's children, each list sorted duplicate-free with the
spec's membership. -/
def Refines (s : Children) (σ : SpecState) : Prop :=
  ∀ n, match lookup n s, σ n with
    | none, none => True
    | some l, some S => Sorted l ∧ ∀ x, x ∈ l ↔ S x
    | _, _ => False

/-- Well-formed request: `AddChild` documents that the child's traits must be sorted; the property
is about sets, so the list must be strictly ascending.  Everything else is unrestricted. -/
def Op.WF : Op → Prop
  | .addChild _ ts => Sorted ts
  | _ => True

theorem C20_parent_step (s : Children) (σ : SpecState) (op : Op) (hr : Refines s σ) (hw : op.WF) :
    Refines (step s op).1 (specStep σ op) := by
  intro m
  cases op with
  | addChild n ts =>
    have hsort : isSorted ts = true := isSorted_of_sorted ts hw
    simp only [step, specStep, hsort]
    by_cases hn : n = ""
    · simp only [hn, true_or, if_true]; exact hr m
    · simp only [hn, false_or, if_false]
      have hrn := hr n
      cases hl : lookup n s with
      | some l =>
        rw [hl] at hrn
        cases hσ : σ n with
        | none => rw [hσ] at hrn; exact hrn.elim
        | some S => simp only [Bool.true_eq_false, if_false]; exact hr m
      | none =>
        rw [hl] at hrn
        cases hσ : σ n with
        | some S => rw [hσ] at hrn; exact hrn.elim
        | none =>
          simp only [Bool.true_eq_false, if_false]
          by_cases hm : m = n
          · subst hm; simp only [lookup_set_self, upd, if_true]; refine ⟨hw, fun x => ?_⟩; first | trivial | exact Iff.rfl
          · simp only [lookup_set_other hm, upd, hm, if_false]; exact hr m
  | addTrait n ts =>
    have hrn := hr n
    simp only [step, specStep]
    cases hl : lookup n s with
    | some l =>
      rw [hl] at hrn
      cases hσ : σ n with
      | none => rw [hσ] at hrn; exact hrn.elim
      | some S =>
        rw [hσ] at hrn
        by_cases hm : m = n
        · subst hm
          simp only [lookup_set_self, upd, if_true]
          obtain ⟨h1, h2⟩ := traitUnion_spec ts l hrn.1
          exact ⟨h1, fun x => by rw [h2, hrn.2]⟩
        · simp only [lookup_set_other hm, upd, hm, if_false]; exact hr m
    | none =>
      rw [hl] at hrn
      cases hσ : σ n with
      | some S => rw [hσ] at hrn; exact hrn.elim
      | none =>
        by_cases hm : m = n
        · subst hm
          simp only [lookup_set_self, upd, if_true]
          obtain ⟨h1, h2⟩ := traitUnion_spec ts [] List.Pairwise.nil
          exact ⟨h1, fun x => by rw [h2]; simp⟩
        · simp only [lookup_set_other hm, upd, hm, if_false]; exact hr m
  | removeTrait n ts =>
    have hrn := hr n
    simp only [step, specStep]
    cases hl : lookup n s with
    | some l =>
      rw [hl] at hrn
      cases hσ : σ n with
      | none => rw [hσ] at hrn; exact hrn.elim
      | some S =>
        rw [hσ] at hrn
        by_cases hm : m = n
        · subst hm
          simp only [lookup_set_self, upd, if_true]
          obtain ⟨h1, h2⟩ := traitRemove_spec ts l hrn.1
          exact ⟨h1, fun x => by rw [h2, hrn.2]⟩
        · simp only [lookup_set_other hm, upd, hm, if_false]; exact hr m
    | none =>
      rw [hl] at hrn
      cases hσ : σ n with
      | some S => rw [hσ] at hrn; exact hrn.elim
      | none => exact hr m
  | removeChild n =>
    have hrn := hr n
    simp only [step, specStep]
    cases hl : lookup n s with
    | some l =>
      by_cases hm : m = n
      · subst hm; simp only [lookup_erase_self, upd, if_true]
      · simp only [lookup_erase_other hm, upd, hm, if_false]; exact hr m
    | none =>
      rw [hl] at hrn
      cases hσ : σ n with
      | some S => rw [hσ] at hrn; exact hrn.elim
      | none =>
        by_cases hm : m = n
        · subst hm; simp only [upd, if_true, hl]
        · simp only [upd, hm, if_false]; exact hr m

/-- **Every update sequence** (any length, any interleaving of AddChild / AddChildTrait /
RemoveChildTrait / RemoveChildByName over any child names): starting from corresponding states, the
model's children stay exactly the spec's map of sets — each trait list sorted, duplicate free, and
equal as a set to the union and difference of what was added and removed. -/
theorem C20_parent_seq (ops : List Op) : ∀ (s : Children) (σ : SpecState), Refines s σ →
    (∀ o ∈ ops, o.WF) → Refines (run s ops) (specRun σ ops) := by
  induction ops with
  | nil => intro s σ h _; exact h
  | cons o rest ih =>
    intro s σ h hw
    exact ih _ _ (C20_parent_step s σ o h (hw o List.mem_cons_self))
      (fun o' ho' => hw o' (List.mem_cons_of_mem _ ho'))

/-- the empty model corresponds to the empty map (the hypothesis of `C20_parent_seq` is reachable) -/
example : Refines [] (fun _ => none) := fun _ => trivial

/-- `Op.WF` is satisfiable by real requests -/
example : (Op.addChild "c1" ["a", "b"]).WF := by show Sorted ["a", "b"]; decide

/-- **The excluded point of `Op.WF` is real, and what the code does there**: `AddChild` accepts a trait
list that is sorted but has a duplicate (`validateChild` only rejects descending neighbours); removing
that trait afterwards removes one copy, so a removed trait is still listed — the set-difference claim
needs the duplicate-free hypothesis.  (An unsorted list is rejected by the documented panic, see
`C20_parent_no_panic`.) -/
theorem C20_parent_seq_fails_without_WF :
    ∃ ts : List String, isSorted ts = true ∧ ¬ Sorted ts ∧
      "a" ∈ (lookup "c" (run [] [.addChild "c" ts, .removeTrait "c" ["a"]])).getD [] ∧
      (step [] (.addChild "c" ["b", "a"])).2 = "panic" :=
  ⟨["a", "a"], by decide, by decide, by decide, by decide⟩

/-- Well-formed requests never reach the panic outcome: the only panic is the documented one of
`AddChild` (empty name or traits not sorted). -/
theorem C20_parent_no_panic (s : Children) (op : Op) (h : (step s op).2 = "panic") :
    ∃ n ts, op = .addChild n ts ∧ (n = "" ∨ isSorted ts = false) := by
  cases op with
  | addChild n ts =>
    refine ⟨n, ts, rfl, ?_⟩
    by_cases hc : n = "" ∨ isSorted ts = false
    · exact hc
    · simp only [step, hc, if_false] at h
      cases hl : lookup n s <;> simp [hl] at h
  | addTrait n ts => simp only [step] at h; cases hl : lookup n s <;> simp [hl] at h
  | removeTrait n ts => simp only [step] at h; cases hl : lookup n s <;> simp [hl] at h
  | removeChild n => simp only [step] at h; cases hl : lookup n s <;> simp [hl] at h

end ScVerif.C20.Parent
