import ScVerif.C20.ParentConc
import ScVerif.C20.ParentLemmas
import ScVerif.C20.GauLemmas
/-! Lemmas for C20/Parent under concurrent callers: the set spec of one child's record, one call refines
it, and the calls keep "sorted and duplicate free" as an invariant of the interleaving model. -/
namespace ScVerif.C20.Parent
open Gau

/-- `AddChild` validates its list (panics on an unsorted one: excluded as a configuration error) -/
def COp.WF : COp → Prop
  | .addChild ts => Sorted ts
  | _ => True

/-- Spec of one child: absent, or a set of trait names. -/
abbrev SpecRec := Option (String → Prop)

def specStep (σ : SpecRec) : COp → SpecRec
  | .addChild ts => match σ with
    | some S => some S
    | none => some (· ∈ ts)
  | .addTrait ts => some (fun x => (σ.getD (fun _ => False)) x ∨ x ∈ ts)
  | .removeTrait ts => σ.map (fun S x => S x ∧ x ∉ ts)

/-- the record is absent exactly when the spec is, else sorted, duplicate free, with the spec's members -/
def RefinesRec : Rec → SpecRec → Prop
  | none, none => True
  | some ts, some S => Sorted ts ∧ ∀ x, x ∈ ts ↔ S x
  | _, _ => False

/-- one call, sequentially: the record follows the set spec -/
theorem recStep_refines (r : Rec) (σ : SpecRec) (o : COp) (h : RefinesRec r σ) (hw : o.WF) :
    RefinesRec (recStep r o) (specStep σ o) := by
  cases r with
  | none =>
    cases σ with
    | some S => exact absurd h (by simp [RefinesRec])
    | none =>
      cases o with
      | addChild ts => exact ⟨hw, fun x => Iff.rfl⟩
      | addTrait ts =>
        have := traitUnion_spec ts [] List.Pairwise.nil
        exact ⟨this.1, fun x => by simpa [Option.getD] using this.2 x⟩
      | removeTrait ts => trivial
  | some old =>
    cases σ with
    | none => exact absurd h (by simp [RefinesRec])
    | some S =>
      obtain ⟨hs, hm⟩ := h
      cases o with
      | addChild ts => exact ⟨hs, hm⟩
      | addTrait ts =>
        have := traitUnion_spec ts old hs
        exact ⟨this.1, fun x => by
          show x ∈ traitUnion old ts ↔ S x ∨ x ∈ ts
          rw [this.2 x, hm x]⟩
      | removeTrait ts =>
        have := traitRemove_spec ts old hs
        exact ⟨this.1, fun x => by
          show x ∈ traitRemove old ts ↔ S x ∧ x ∉ ts
          rw [this.2 x, hm x]⟩

/-- the rule "a trait list is sorted and duplicate free", as an invariant of the interleaving model -/
def RecSorted (r : Rec) (_ : Int) : Prop := ∀ ts, r = some ts → Sorted ts

theorem opCall_ok (o : COp) (hw : o.WF) : (opCall o).OK RecSorted := by
  refine ⟨fun _ r t hr _ => ?_, fun he => by simp [opCall] at he⟩
  intro ts hts
  cases o with
  | addChild l =>
    cases r with
    | none => simp only [opCall, recStep, Option.some.injEq] at hts; subst hts; exact hw
    | some old => simp only [opCall, recStep, Option.some.injEq] at hts; subst hts; exact hr old rfl
  | addTrait l =>
    simp only [opCall, recStep, Option.some.injEq] at hts
    subst hts
    cases r with
    | none => exact (traitUnion_spec l [] List.Pairwise.nil).1
    | some old => exact (traitUnion_spec l old (hr old rfl)).1
  | removeTrait l =>
    cases r with
    | none => simp [opCall, recStep] at hts
    | some old =>
      simp only [opCall, recStep, Option.map_some, Option.some.injEq] at hts
      subst hts
      exact (traitRemove_spec l old (hr old rfl)).1

end ScVerif.C20.Parent
