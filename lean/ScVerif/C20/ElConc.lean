import ScVerif.C20.EnterLeave
import ScVerif.C20.Gau
/-!
# C20 / EnterLeave — concurrent `CreateEnterLeaveEvent` / `ResetTotals` as calls of the generic model

Both write through `resource.Value.Set`; the totals are computed by an `InterceptBefore` from the value
read inside the transaction; neither reads the clock in its change function (`timed = false`) and
neither has a check that can fail.
-/
namespace ScVerif.C20.EnterLeave

abbrev ECall := Gau.Call Event Unit

def eventCall (ev : Event) : ECall := ⟨false, fun _ => none, fun cur _ => create cur ev, false, false⟩
def resetTotalsCall : ECall := ⟨false, fun _ => none, fun cur _ => resetTotals cur, false, false⟩

def opCall : Op → ECall
  | .event ev => eventCall ev
  | .reset => resetTotalsCall

/-- NOT the code: the variant of `CreateEnterLeaveEvent` that computes the totals from a snapshot `snap` it read with
the getter before entering `Set` (the transaction's own read is ignored).  Used only to show that the
linearization theorem is not vacuous about where the value is read (`C20_enterleave_conc_snapshot_variant_fails`);
on the real code the harness parks threads right after any `Value.Get` (yield point `value.get`). -/
def snapshotEventCall (snap ev : Event) : ECall := ⟨false, fun _ => none, fun _ _ => create snap ev, false, false⟩

theorem opCall_apply (o : Op) (cur : Event) (t : Int) : (opCall o).apply cur t = step cur o := by
  cases o <;> rfl

end ScVerif.C20.EnterLeave
