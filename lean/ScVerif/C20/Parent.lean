/-!
# C20 / Parent — executable model of `pkg/trait/parentpb/model.go`

`traitUnion` / `traitRemove` keep a child's trait slice sorted by binary search (`sort.Search`).
The model follows the code: the same binary search (so it also agrees with the code on unsorted
input), the same three-way switch in `traitUnion`, the same equality test in `traitRemove`
(present since the fix; before it the successor of an absent name was removed).
Trait names are strings; Go compares them bytewise, Lean by code point — the same order on UTF-8.
-/
namespace ScVerif.C20.Parent

/-- `sort.Search(n, f)`: `i, j := 0, n; for i < j { h := (i+j)/2; if !f(h) { i = h+1 } else { j = h } }`. -/
def searchAux (p : Nat → Bool) : Nat → Nat → Nat → Nat
  | 0, lo, _ => lo
  | fuel + 1, lo, hi =>
    if lo < hi then
      let h := (lo + hi) / 2
      if p h then searchAux p fuel lo h else searchAux p fuel (h + 1) hi
    else lo

def search (n : Nat) (p : Nat → Bool) : Nat := searchAux p (n + 1) 0 n

/-- `has[i].Name >= ts` (out of range never happens inside `sort.Search`; `true` there). -/
def geAt (has : List String) (t : String) (i : Nat) : Bool :=
  match has[i]? with
  | some x => decide (t ≤ x)
  | none => true

def insertIndex (has : List String) (t : String) : Nat := search has.length (geAt has t)

/-- one iteration of the loop in `traitUnion` -/
def unionStep (has : List String) (t : String) : List String :=
  let k := insertIndex has t
  if k = has.length then has ++ [t]
  else if has[k]? = some t then has
  else has.take k ++ t :: has.drop k

/-- one iteration of the loop in `traitRemove` (with the equality test) -/
def removeStep (has : List String) (t : String) : List String :=
  let k := insertIndex has t
  if k = has.length ∨ has[k]? ≠ some t then has
  else has.eraseIdx k

def traitUnion (has more : List String) : List String := more.foldl unionStep has
def traitRemove (has remove : List String) : List String := remove.foldl removeStep has

/-! ## The model: a collection of children keyed by name -/

abbrev Children := List (String × List String)

def lookup (n : String) : Children → Option (List String)
  | [] => none
  | (k, v) :: rest => if k = n then some v else lookup n rest

def set (n : String) (v : List String) : Children → Children
  | [] => [(n, v)]
  | (k, w) :: rest => if k = n then (k, v) :: rest else (k, w) :: set n v rest

def erase (n : String) : Children → Children
  | [] => []
  | (k, w) :: rest => if k = n then erase n rest else (k, w) :: erase n rest

inductive Op where
  | addChild (name : String) (traits : List String)
  | addTrait (name : String) (traits : List String)
  | removeTrait (name : String) (traits : List String)
  | removeChild (name : String)

/-- `sort.SliceIsSorted` with `less = <`: no adjacent descending pair. -/
def isSorted : List String → Bool
  | a :: b :: rest => !(decide (b < a)) && isSorted (b :: rest)
  | _ => true

/-- One operation: new state and the canonical return value printed by the driver. -/
def step (s : Children) : Op → Children × String
  | .addChild n ts =>
    if n = "" ∨ isSorted ts = false then (s, "panic")       -- validateChild → panic(err)
    else match lookup n s with
      | some _ => (s, "ok")                                    -- Add: AlreadyExists, ignored
      | none => (set n ts s, "ok")
  | .addTrait n ts =>
    match lookup n s with
    | some old => (set n (traitUnion old ts) s, "existing")
    | none => (set n (traitUnion [] ts) s, "created")
  | .removeTrait n ts =>
    match lookup n s with
    | some old => (set n (traitRemove old ts) s, "ok")
    | none => (s, "nil")
  | .removeChild n =>
    match lookup n s with
    | some _ => (erase n s, "ok")
    | none => (s, "NotFound")

def run (s : Children) (ops : List Op) : Children := ops.foldl (fun s o => (step s o).1) s

end ScVerif.C20.Parent
