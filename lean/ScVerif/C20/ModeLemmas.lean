import ScVerif.C20.Mode
namespace ScVerif.C20.Mode

theorem goWrap (x n : Int) (hn : 0 < n) :
    (if x.tmod n < 0 then n + x.tmod n else x.tmod n) = x % n := by
  have h1 := Int.emod_nonneg x (Int.ne_of_gt hn)
  have h2 := Int.emod_lt_of_pos x hn
  have h3 : (n.natAbs : Int) = n := Int.natAbs_of_nonneg (Int.le_of_lt hn)
  rw [Int.tmod_eq_emod]
  by_cases hc : 0 ≤ x ∨ n ∣ x
  · simp only [hc, if_true]; split <;> omega
  · simp only [hc, if_false]; split <;> omega

theorem wrapIndex_eq (i : Nat) (adj : Int) (len : Nat) (h : 0 < len) :
    wrapIndex i adj len = ((i : Int) + adj) % (len : Int) := by
  unfold wrapIndex
  exact goWrap _ _ (by omega)

theorem lookup_set_self (n v : String) (s : Values) : lookup n (set n v s) = some v := by
  induction s with
  | nil => simp [set, lookup]
  | cons kv rest ih =>
    obtain ⟨k, w⟩ := kv
    by_cases h : k = n <;> simp [set, lookup, h, ih]

theorem lookup_set_other {n m : String} (h : m ≠ n) (v : String) (s : Values) :
    lookup m (set n v s) = lookup m s := by
  induction s with
  | nil => simp [set, lookup, Ne.symm h]
  | cons kv rest ih =>
    obtain ⟨k, w⟩ := kv
    by_cases h1 : k = n
    · subst h1; simp [set, lookup, Ne.symm h]
    · by_cases h2 : k = m
      · subst h2; simp [set, lookup, h1]
      · simp [set, lookup, h1, h2, ih]

theorem indexOf_lt : ∀ (vs : List String) (v : String) (i : Nat), indexOf vs v = some i → i < vs.length
  | [], _, _, h => by simp [indexOf] at h
  | x :: xs, v, i, h => by
    unfold indexOf at h
    by_cases hx : x = v
    · simp only [hx, if_true] at h; cases h; simp
    · simp only [hx, if_false] at h
      cases hi : indexOf xs v with
      | none => simp [hi] at h
      | some j =>
        simp only [hi, Option.map_some] at h; cases h
        have := indexOf_lt xs v j hi
        simp; omega

/-- in a duplicate-free list the first index of the j-th element is j -/
theorem indexOf_getElem : ∀ (vs : List String), vs.Nodup → ∀ (j : Nat) (hj : j < vs.length),
    indexOf vs vs[j] = some j
  | [], _, j, hj => by simp at hj
  | x :: xs, hnd, j, hj => by
    have hnd' := List.nodup_cons.mp hnd
    cases j with
    | zero => simp [indexOf]
    | succ j =>
      have hj' : j < xs.length := by simpa using hj
      have hne : x ≠ xs[j] := fun e => hnd'.1 (e ▸ List.getElem_mem hj')
      simp only [List.getElem_cons_succ, indexOf, hne, if_false]
      rw [indexOf_getElem xs hnd'.2 j hj']
      rfl

theorem update_rel_single (modes : List ModeDef) (old : Values) (n : String) (k : Int) (mask : Mask) (x : String)
    (h : relativeOne modes old [] n k = [(n, x)]) :
    lookup n (update modes old [] [(n, k)] mask) = some x := by
  unfold update
  simp only [List.foldl_cons, List.foldl_nil, h]
  cases mask with
  | none => simp [lookup]
  | values => simp [lookup_set_self]

theorem initialValues_spec : ∀ (modes : List ModeDef) (acc : Values), (modes.map (·.name)).Nodup →
    (∀ md ∈ modes, lookup md.name (modes.foldl (fun acc m => set m.name (m.values.headD "") acc) acc)
        = some (md.values.headD "")) ∧
    (∀ n, n ∉ modes.map (·.name) →
        lookup n (modes.foldl (fun acc m => set m.name (m.values.headD "") acc) acc) = lookup n acc) := by
  intro modes
  induction modes with
  | nil => intro acc _; exact ⟨by simp, by simp⟩
  | cons m rest ih =>
    intro acc hnd
    simp only [List.map_cons, List.nodup_cons] at hnd
    obtain ⟨h1, h2⟩ := ih (set m.name (m.values.headD "") acc) hnd.2
    constructor
    · intro md hmd
      rcases List.mem_cons.mp hmd with rfl | hmd
      · simp only [List.foldl_cons]; rw [h2 _ hnd.1, lookup_set_self]
      · exact h1 md hmd
    · intro n hn
      simp only [List.map_cons, List.mem_cons, not_or] at hn
      simp only [List.foldl_cons]
      rw [h2 n hn.2, lookup_set_other hn.1]

/-- in a list of modes that all have values, `AvailableValues` is empty exactly for a name that is not a mode -/
theorem availableValues_nil_iff (modes : List ModeDef) (hne : ∀ md ∈ modes, md.values ≠ []) (n : String) :
    availableValues modes n = [] ↔ n ∉ modes.map (·.name) := by
  induction modes with
  | nil => simp [availableValues]
  | cons md rest ih =>
    have ih := ih (fun x hx => hne x (List.mem_cons_of_mem _ hx))
    unfold availableValues
    by_cases h : md.name = n
    · simp [h, hne md (List.mem_cons_self ..)]
    · have h' : ¬ n = md.name := fun e => h e.symm
      simp [h, h', ih]

end ScVerif.C20.Mode
