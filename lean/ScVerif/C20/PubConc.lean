import ScVerif.C20.Publication
import ScVerif.C20.Gau
/-!
# C20 / Publication — concurrent `UpdatePublication` / `AcknowledgePublication` on one publication

Both go through `Collection.Update` = `GetAndUpdate` on the stored item: the expected-check (version
match, not yet acknowledged) runs first inside the change function, then the field-mask merge, then the
`InterceptAfter` reads the clock (`publish_time` resp. `receipt_time`): calls of the generic model with
`early = false`.  The state is the stored publication (the compare-and-commit compares the item).
-/
namespace ScVerif.C20.Publication

inductive PErr where
  | failedPrecondition
  | aborted                 -- acknowledge: version mismatch (the code answers Aborted)
  | already (p : Pub)       -- acknowledge with allow_acknowledged on an acknowledged publication: it is returned
  deriving DecidableEq

abbrev PCall := Gau.Call Pub PErr

/-- the field-mask merge of `UpdatePublication` (the same expression as in `step`) -/
def mergeUpdate (mask : UMask) (cur p : Pub) : Pub :=
  match mask with
  | .none => p
  | .fields b m a => { cur with body := if b then p.body else cur.body,
                                mediaType := if m then p.mediaType else cur.mediaType,
                                audience := mergeAudience a cur.audience p.audience }

/-- `ModelServer.UpdatePublication` on an existing publication (`p.id` = its id, non-empty) -/
def updateCall (H : Hash) (p : Pub) (mask : UMask) (version : String) : PCall :=
  ⟨false,
   fun cur => if version ≠ "" ∧ cur.version ≠ version then some .failedPrecondition else none,
   fun cur t => computed H t (mergeUpdate mask cur p), true, false⟩

/-- `ModelServer.AcknowledgePublication` on an existing publication (id and version non-empty) -/
def ackCall (version : String) (receipt : Int) (reason : String) (allowAck : Bool) : PCall :=
  ⟨false,
   fun cur => if cur.version ≠ version then some .aborted
     else if acked cur then some (if allowAck then .already cur else .failedPrecondition)
     else none,
   fun cur t => { cur with audience := some ⟨(cur.audience.map (·.name)).getD "", receipt, reason, some t⟩ }, true, false⟩

end ScVerif.C20.Publication
