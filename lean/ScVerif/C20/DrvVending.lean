import ScVerif.Base.Line
import ScVerif.C20.Vending
import ScVerif.C20.VendingCode
import ScVerif.C20.VendConc
import ScVerif.C20.Esc
/-! Driver ops of the Vending model: `vend.conv`, `vend.seq`, `vend.opts`. -/
namespace ScVerif.C20.Vending
open ScVerif.Line

def parseRat? (s : String) : Option Rat :=
  match s.splitOn "/" with
  | [a] => (parseInt? a).map (fun n => (n : Rat))
  | [a, b] => do
    let n ← parseInt? a
    let d ← parseNat? b
    if d = 0 then none else pure (mkRat n d)
  | _ => none

def showRat (r : Rat) : String :=
  if r.den = 1 then toString r.num else toString r.num ++ "/" ++ toString r.den

/-- `-` or `unit:amount` -/
def parseQty? (s : String) : Option (Option Qty) :=
  if s = "-" then some none
  else match s.splitOn ":" with
    | [u, a] => do
      let u ← parseInt? u
      let a ← parseRat? a
      pure (some ⟨u, a⟩)
    | _ => none

def showQty : Option Qty → String
  | none => "-"
  | some q => toString q.unit ++ ":" ++ showRat q.amount

def decName (s : String) : String := if s = "~" then "" else unesc s
def encName (s : String) : String := if s = "" then "~" else esc s

/-- `name=used;remaining` -/
def parseStock? (s : String) : Option (String × Stock) :=
  match s.splitOn "=" with
  | [n, rest] =>
    match rest.splitOn ";" with
    | [u, r] => do
      let u ← parseQty? u
      let r ← parseQty? r
      pure (decName n, { used := u, remaining := r })
    | _ => none
  | _ => none

def parseInv? (s : String) : Option Inventory :=
  if s = "-" then some [] else (s.splitOn "|").mapM parseStock?

/-- `name@unit:amount` -/
def parseOp? (s : String) : Option (String × Option Qty) :=
  match s.splitOn "@" with
  | [n, q] => do
    let q ← parseQty? q
    pure (decName n, q)
  | _ => none

def showInv (inv : Inventory) : String :=
  let sorted := inv.mergeSort (fun a b => decide (a.1 ≤ b.1))
  if sorted.isEmpty then "-"
  else " | ".intercalate (sorted.map (fun kv =>
    encName kv.1 ++ " u=" ++ showQty kv.2.used ++ " r=" ++ showQty kv.2.remaining))

def showOutcome : Outcome → String
  | .ok st => "ok ld=" ++ showQty st.lastDispensed ++ " disp=" ++ showBool st.dispensing
  | .invalidArgument => "err:InvalidArgument"
  | .notFound => "err:NotFound"
  | .conversionError => "err:Unknown"

def runSeq (inv : Inventory) (ops : List (String × Option Qty)) : String :=
  let (_, outs) := ops.foldl (fun (acc : Inventory × List String) o =>
    let (inv', out) := dispenseReqCode acc.1 o.1 o.2
    (inv', (showOutcome out ++ " # " ++ showInv inv') :: acc.2)) (inv, [])
  " ; ".intercalate outs.reverse

def decList (s : String) : List String :=
  if s = "-" || s = "" then [] else (s.splitOn ",").map unesc

def encSorted (xs : List String) : String :=
  let sorted := xs.mergeSort (fun a b => decide (a ≤ b))
  if sorted.isEmpty then "-" else ",".intercalate (sorted.map esc)

def parseOpt? (s : String) : Option Opt :=
  match s.splitOn ":" with
  | ["stock", ns] => some (.initialStock (decList ns))
  | ["cons", ns] => some (.initialConsumable (decList ns))
  | _ => none

def handle? (toks : List String) : Option String :=
  match toks with
  | ["vend.conv", v, a, b] => do
    let v ← parseRat? v
    let a ← parseInt? a
    let b ← parseInt? b
    match convert v a b with
    | some r => pure ("ok:" ++ showRat r)
    | none => pure "err"
  | "vend.seq" :: inv :: ops => do
    let inv ← parseInv? inv
    let ops ← ops.mapM parseOp?
    pure (runSeq inv ops)
  | "vend.conc" :: stock :: sched :: progs => do
    -- stock: `used;remaining`; progs: one token per thread, quantities `unit:amount` separated by `,`;
    -- sched: `,`-separated thread indices; afterwards every thread finishes in index order
    let st ← match stock.splitOn ";" with
      | [u, r] => do
        let u ← parseQty? u
        let r ← parseQty? r
        pure ({ used := u, remaining := r } : Stock)
      | _ => none
    let progs ← progs.mapM (fun p => if p = "-" then some [] else (p.splitOn ",").mapM (fun q => do
      let q ← parseQty? q
      q))
    let sched ← (if sched = "-" then some [] else (sched.splitOn ",").mapM (fun s => (parseNat? s).map Gau.Ev.step))
    let c0 : Gau.Cfg Stock Unit := ⟨st, 0, progs.map (fun p => Gau.Thread.ofCalls (p.map dispenseCall))⟩
    let c1 := c0.run sched
    let c2 := c1.run (Gau.drainSched c1.threads)
    -- a committed call answers the conversion error when its quantity cannot be converted for the record it
    -- returned (which is then the unchanged record; presence and units never change)
    let showRes (q : Qty) : Gau.Res Stock Unit → String
      | .ok r => if (dispenseStock q r).isNone then "err:Unknown" else "ok"
      | .err _ => "err"
      | .aborted => "err:Aborted"
    let amp (xs : List String) : String := if xs.isEmpty then "-" else "&".intercalate xs
    let showTh (p : List Qty × Gau.Thread Stock Unit) : String :=
      (if p.2.cur.isSome || !p.2.todo.isEmpty then "unfinished:" else "") ++
      amp ((p.1.zip p.2.results.reverse).map (fun qr => showRes qr.1 qr.2)) ++ "/" ++ amp (p.2.results.map (fun _ => "rl"))
    pure ("u=" ++ showQty c2.store.used ++ " r=" ++ showQty c2.store.remaining ++ " ld=" ++ showQty c2.store.lastDispensed
      ++ " # " ++ " ; ".intercalate ((progs.zip c2.threads).map showTh))
  | "vend.opts" :: opts => do
    let opts ← opts.mapM parseOpt?
    let a := calcModelArgs opts
    pure ("inv=" ++ encSorted a.inventoryOptions ++ " cons=" ++ encSorted a.consumableOptions)
  | _ => none

end ScVerif.C20.Vending
