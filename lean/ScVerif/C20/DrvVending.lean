import ScVerif.Base.Line
import ScVerif.C20.Vending
import ScVerif.C20.VendingCode
import ScVerif.C20.Esc
/-! Driver ops of the Vending model: `vend.conv`, `vend.seq`, `vend.opts`. -/
namespace ScVerif.C20.Vending
open ScVerif.Line

def parseRat? (s : String) : Option Rat :=
  match s.splitOn "/" with
  | [a] => (parseInt? a).map (fun n => (n : Rat))
  | [a, b] => do
    let n ← parseInt? a
    let d ← parseNat? b
    if d = 0 then none else pure (mkRat n d)
  | _ => none

def showRat (r : Rat) : String :=
  if r.den = 1 then toString r.num else toString r.num ++ "/" ++ toString r.den

/-- `-` or `unit:amount` -/
def parseQty? (s : String) : Option (Option Qty) :=
  if s = "-" then some none
  else match s.splitOn ":" with
    | [u, a] => do
      let u ← parseInt? u
      let a ← parseRat? a
      pure (some ⟨u, a⟩)
    | _ => none

def showQty : Option Qty → String
  | none => "-"
  | some q => toString q.unit ++ ":" ++ showRat q.amount

def decName (s : String) : String := if s = "~" then "" else unesc s
def encName (s : String) : String := if s = "" then "~" else esc s

/-- `name=used;remaining` -/
def parseStock? (s : String) : Option (String × Stock) :=
  match s.splitOn "=" with
  | [n, rest] =>
    match rest.splitOn ";" with
    | [u, r] => do
      let u ← parseQty? u
      let r ← parseQty? r
      pure (decName n, { used := u, remaining := r })
    | _ => none
  | _ => none

def parseInv? (s : String) : Option Inventory :=
  if s = "-" then some [] else (s.splitOn "|").mapM parseStock?

/-- `name@unit:amount` -/
def parseOp? (s : String) : Option (String × Option Qty) :=
  match s.splitOn "@" with
  | [n, q] => do
    let q ← parseQty? q
    pure (decName n, q)
  | _ => none

def showInv (inv : Inventory) : String :=
  let sorted := inv.mergeSort (fun a b => decide (a.1 ≤ b.1))
  if sorted.isEmpty then "-"
  else " | ".intercalate (sorted.map (fun kv =>
    encName kv.1 ++ " u=" ++ showQty kv.2.used ++ " r=" ++ showQty kv.2.remaining))

def showOutcome : Outcome → String
  | .ok st => "ok ld=" ++ showQty st.lastDispensed ++ " disp=" ++ showBool st.dispensing
  | .invalidArgument => "err:InvalidArgument"
  | .notFound => "err:NotFound"
  | .conversionError => "err:Unknown"

def runSeq (inv : Inventory) (ops : List (String × Option Qty)) : String :=
  let (_, outs) := ops.foldl (fun (acc : Inventory × List String) o =>
    let (inv', out) := dispenseReqCode acc.1 o.1 o.2
    (inv', (showOutcome out ++ " # " ++ showInv inv') :: acc.2)) (inv, [])
  " ; ".intercalate outs.reverse

def decList (s : String) : List String :=
  if s = "-" || s = "" then [] else (s.splitOn ",").map unesc

def encSorted (xs : List String) : String :=
  let sorted := xs.mergeSort (fun a b => decide (a ≤ b))
  if sorted.isEmpty then "-" else ",".intercalate (sorted.map esc)

def parseOpt? (s : String) : Option Opt :=
  match s.splitOn ":" with
  | ["stock", ns] => some (.initialStock (decList ns))
  | ["cons", ns] => some (.initialConsumable (decList ns))
  | _ => none

def handle? (toks : List String) : Option String :=
  match toks with
  | ["vend.conv", v, a, b] => do
    let v ← parseRat? v
    let a ← parseInt? a
    let b ← parseInt? b
    match convert v a b with
    | some r => pure ("ok:" ++ showRat r)
    | none => pure "err"
  | "vend.seq" :: inv :: ops => do
    let inv ← parseInv? inv
    let ops ← ops.mapM parseOp?
    pure (runSeq inv ops)
  | "vend.opts" :: opts => do
    let opts ← opts.mapM parseOpt?
    let a := calcModelArgs opts
    pure ("inv=" ++ encSorted a.inventoryOptions ++ " cons=" ++ encSorted a.consumableOptions)
  | _ => none

end ScVerif.C20.Vending
