/-!
# C20 — generic interleaving model of calls that write through `resource.GetAndUpdate`

Every write of a trait model goes through `resource.Value.Set` / `Collection.Update` = `GetAndUpdate`
(`pkg/resource/atomic.go`): read the stored value under `RLock` (atomic step *readOld*, up to the yield
point `gau.afterRead`), run the change function on a clone outside any lock (its checks may fail: the
call returns the error and nothing is written), take the write lock and **commit only if the stored
value is still `proto.Equal` to the one that was read** (atomic step *commit* from the yield point
`gau.beforeLock`; otherwise `Aborted`).

A call is described by where it reads the clock (`early`: before the transaction, as `meterpb.Reset`
does; otherwise inside the change function, after its checks, as `meterpb.RecordReading`,
`publicationpb` create/update/acknowledge do), its checks on the value it read, and the value it
computes from the value read and its clock reading.  The clock is a counter that never goes back
(`tick d`, `d : Nat`); between any two atomic steps any other thread may run and any time may pass.
A thread is a list of calls; a schedule is a list of events.  The atomic steps are exactly the segments
between the park points the harness uses on the real code (`gau.afterRead`, the injected clock's `Now`,
`gau.beforeLock`).  A call with `retry` answers a refused commit by starting over (a loop around the
write in the trait model); all other calls hand `Aborted` to their caller.
-/
namespace ScVerif.C20.Gau

structure Call (σ ε : Type) where
  early : Bool
  check : σ → Option ε
  apply : σ → Int → σ
  /-- `false`: the change function does not read the clock at all (`apply` ignores its instant): the
  call goes from its checks straight to the lock -/
  timed : Bool := true
  /-- `true`: the caller makes the call again when the compare-and-commit refuses it (`Aborted`), as
  `parentpb.AddChildTrait` / `RemoveChildTrait` do since fix 1e16ef0 (they have nobody to hand the error
  to): the refused attempt ends without a result and the call starts over with a fresh read -/
  retry : Bool := false

inductive Phase (σ : Type) where
  | start                          -- nothing read yet
  | haveOld (o : σ)                -- late clock: old value read, change function entered
  | haveT (t : Int)                -- early clock: clock read, `Set` not yet entered
  | both (o : σ) (t : Int)         -- old value and clock read
  | ready (o : σ) (t : Int)        -- change function done, about to take the write lock

inductive Res (σ ε : Type) where
  | ok (r : σ)
  | err (e : ε)
  | aborted
  deriving DecidableEq

variable {σ ε : Type} [DecidableEq σ]

/-- one atomic step of a call in phase `p`; a result in the third component ends the call -/
def callStep (store : σ) (now : Int) (c : Call σ ε) : Phase σ → σ × Phase σ × Option (Res σ ε)
  | .start => if c.early then (store, .haveT now, none) else (store, .haveOld store, none)
  | .haveOld o =>
    -- the change function: checks first, then the interceptor reads the clock
    match c.check o with
    | some e => (store, .start, some (.err e))
    | none => if c.timed then (store, .both o now, none) else (store, .ready o now, none)
  | .haveT t => (store, .both store t, none)
  | .both o t =>
    if c.early then
      match c.check o with
      | some e => (store, .start, some (.err e))
      | none => (store, .ready o t, none)
    else (store, .ready o t, none)
  | .ready o t =>
    -- under the write lock: `if !proto.Equal(oldValue, oldValueAgain) → Aborted`, else save(newValue)
    if store = o then (c.apply o t, .start, some (.ok (c.apply o t)))
    else if c.retry then (store, .start, none)
    else (store, .start, some .aborted)

structure Thread (σ ε : Type) where
  cur : Option (Call σ ε × Phase σ)
  todo : List (Call σ ε)
  results : List (Res σ ε)          -- most recent first

def Thread.ofCalls (cs : List (Call σ ε)) : Thread σ ε := ⟨none, cs, []⟩

def threadGo (store : σ) (now : Int) (results : List (Res σ ε)) (c : Call σ ε) (p : Phase σ)
    (todo : List (Call σ ε)) : σ × Thread σ ε :=
  match callStep store now c p with
  | (s', p', none) => (s', ⟨some (c, p'), todo, results⟩)
  | (s', _, some r) => (s', ⟨none, todo, r :: results⟩)

/-- one atomic step of a thread: continue the current call, or start the next one of its program -/
def threadStep (store : σ) (now : Int) (th : Thread σ ε) : σ × Thread σ ε :=
  match th.cur, th.todo with
  | some (c, p), todo => threadGo store now th.results c p todo
  | none, c :: rest => threadGo store now th.results c .start rest
  | none, [] => (store, th)

structure Cfg (σ ε : Type) where
  store : σ
  now : Int
  threads : List (Thread σ ε)

inductive Ev where
  | step (i : Nat)      -- thread i takes its next atomic step (nothing happens if it has none)
  | tick (d : Nat)      -- the clock advances by d ≥ 0

def Cfg.step (c : Cfg σ ε) : Ev → Cfg σ ε
  | .tick d => { c with now := c.now + d }
  | .step i =>
    match c.threads[i]? with
    | none => c
    | some th =>
      let (s', th') := threadStep c.store c.now th
      { c with store := s', threads := c.threads.set i th' }

def Cfg.run (c : Cfg σ ε) (sched : List Ev) : Cfg σ ε := sched.foldl Cfg.step c

/-- the schedule that lets every thread, in index order, finish its program (≤ 4 steps per call) -/
def drainSched (ths : List (Thread σ ε)) : List Ev :=
  (List.range ths.length).flatMap (fun i =>
    match ths[i]? with
    | none => []
    | some th => List.replicate (4 * (th.todo.length + 1)) (Ev.step i))

end ScVerif.C20.Gau
