import ScVerif.C08.Include
/-!
C08 — model of `Collection.PullID` (pkg/resource/collection.go): the single-item subscription that
publicationpb, vendingpb, metadatapb and hailpb models forward their callers' read options to.

```go
func (c *Collection) PullID(ctx, id, opts ...ReadOption) <-chan *ValueChange {
    if c.idInterceptor != nil { id = c.idInterceptor(id) }
    changes := c.Pull(ctx, opts...)                 // the caller's options, WithInclude among them, untouched
    go func() {
        defer close(send); defer cancel()
        for change := range changes {
            if change.Id != id { continue }
            if change.ChangeType == REMOVE { return }
            if change.NewValue == nil { return }      // "not sure how this case could happen"
            send <- &ValueChange{Value: change.NewValue, SeedValue: change.SeedValue, …}
        }
    }()
}
```
`pullIdLoop i stream` is that goroutine over the stream the underlying `Pull` produces (seed ++ events
through include ▸ mask ▸ equivalence, `Include.lean`): the values sent (with their seed flag) and whether
the stream was closed by the loop itself.  The caller's include predicate therefore decides, through the
underlying Pull, what the single-item subscriber sees: the item leaving the FILTERED collection is a REMOVE
and ends the stream; an item outside it is never sent.

Spec side: `held` (the value a subscriber that keeps the last value holds) and `everLeft` (at some step of
the history the item goes from present to absent in the view).
-/
namespace ScVerif.C08
open ScVerif.C09

variable {ι μ : Type} [DecidableEq ι]

/-- the loop of `PullID`'s goroutine: (values sent with their SeedValue flag, closed by the loop) -/
def pullIdLoop (i : ι) : List (Change ι μ) → List (μ × Bool) × Bool
  | [] => ([], false)
  | c :: cs =>
    if c.id = i then
      if c.kind = .remove then ([], true)
      else match c.new with
        | none => ([], true)
        | some v => ((v, c.seed) :: (pullIdLoop i cs).1, (pullIdLoop i cs).2)
    else pullIdLoop i cs

/-- `PullID` on a collection with an id interceptor: the id is replaced first. -/
def pullId (canon : ι → ι) (i : ι) (stream : List (Change ι μ)) : List (μ × Bool) × Bool :=
  pullIdLoop (canon i) stream

/-- Spec: what a subscriber keeping the last value it was sent holds (`init` before anything is sent). -/
def held (init : Option μ) (sent : List (μ × Bool)) : Option μ :=
  sent.foldl (fun _ vb => some vb.1) init

/-- Spec: at some step of the history the item `i` leaves the view (present before, absent after). -/
def everLeft (i : ι) : View ι μ → List (Change ι μ) → Bool
  | _, [] => false
  | s, c :: cs => ((s i).isSome && (apply c s i).isNone) || everLeft i (apply c s) cs

theorem held_cons (init : Option μ) (vb : μ × Bool) (l : List (μ × Bool)) :
    held init (vb :: l) = held (some vb.1) l := rfl

theorem apply_other (c : Change ι μ) (s : View ι μ) (i : ι) (h : c.id ≠ i) : apply c s i = s i := by
  unfold apply View.set
  have : ¬ i = c.id := fun e => h e.symm
  simp [this]

theorem apply_self (c : Change ι μ) (s : View ι μ) :
    apply c s c.id = if c.kind = .remove then none else c.new := by
  unfold apply View.set; simp

/-- The loop over a well-formed history: while it has not closed the stream, the value last sent is the
view's entry for the id; it closes the stream iff the item ever leaves the view. -/
theorem pullIdLoop_wf (i : ι) : ∀ (cs : List (Change ι μ)) (s : View ι μ), WFHist s cs →
    ((pullIdLoop i cs).2 = false → held (s i) (pullIdLoop i cs).1 = fold cs s i) ∧
    (pullIdLoop i cs).2 = everLeft i s cs
  | [], s, _ => by simp [pullIdLoop, held, fold, everLeft]
  | c :: cs, s, hw => by
    obtain ⟨hc, hrest⟩ := hw
    have ih := pullIdLoop_wf i cs (apply c s) hrest
    have hfold : fold (c :: cs) s = fold cs (apply c s) := rfl
    by_cases hid : c.id = i
    · by_cases hk : c.kind = .remove
      · -- REMOVE of the item: the loop returns, the item leaves the view
        have hs : (s i).isSome = true := by
          have := hc; unfold WFChange at this; rw [hk] at this; rw [← hid]; exact this.1
        have ha : apply c s i = none := by rw [← hid, apply_self]; simp [hk]
        simp [pullIdLoop, hid, hk, everLeft, hs, ha]
      · -- any other kind carries a value
        have hnew : c.new.isSome = true := by
          have := hc; unfold WFChange at this
          cases hkind : c.kind <;> rw [hkind] at this
          · exact this.elim
          · exact this.2.2
          · exact this.2.2
          · exact absurd hkind hk
          · exact this.2.2
        obtain ⟨v, hv⟩ := Option.isSome_iff_exists.mp hnew
        have ha : apply c s i = some v := by rw [← hid, apply_self]; simp [hk, hv]
        have hloop : pullIdLoop i (c :: cs) = ((v, c.seed) :: (pullIdLoop i cs).1, (pullIdLoop i cs).2) := by
          simp [pullIdLoop, hid, hk, hv]
        rw [hloop, hfold]
        refine ⟨fun hopen => ?_, ?_⟩
        · rw [held_cons]; have := ih.1 hopen; rw [ha] at this; exact this
        · simp only [everLeft, ha]; simp [ih.2]
    · have ha : apply c s i = s i := apply_other c s i hid
      have hloop : pullIdLoop i (c :: cs) = pullIdLoop i cs := by simp [pullIdLoop, hid]
      rw [hloop, hfold]
      refine ⟨fun hopen => ?_, ?_⟩
      · have := ih.1 hopen; rw [ha] at this; exact this
      · simp only [everLeft, ha]
        cases h : (s i) <;> simp [ih.2]

/-- what satisfying the (optional) predicate means for a stored value -/
def Matches (p : Option (Pred ι μ)) (i : ι) (w : μ) : Prop :=
  match p with
  | none => True
  | some f => f i (some w) = true

/-- every value `PullID`'s loop sends is the new value of a non-REMOVE change of its id in the stream -/
theorem pullIdLoop_mem (i : ι) : ∀ (cs : List (Change ι μ)) (vb : μ × Bool), vb ∈ (pullIdLoop i cs).1 →
    ∃ c ∈ cs, c.id = i ∧ c.kind ≠ .remove ∧ c.new = some vb.1
  | [], vb, h => by simp [pullIdLoop] at h
  | c :: cs, vb, h => by
    by_cases hid : c.id = i
    · by_cases hk : c.kind = .remove
      · simp [pullIdLoop, hid, hk] at h
      · cases hv : c.new with
        | none => simp [pullIdLoop, hid, hk, hv] at h
        | some v =>
          simp only [pullIdLoop, hid, hk, hv, if_true, if_false, List.mem_cons] at h
          rcases h with rfl | h
          · exact ⟨c, List.mem_cons_self, hid, hk, hv⟩
          · obtain ⟨d, hd, h3⟩ := pullIdLoop_mem i cs vb h
            exact ⟨d, List.mem_cons_of_mem _ hd, h3⟩
    · simp only [pullIdLoop, hid, if_false] at h
      obtain ⟨d, hd, h3⟩ := pullIdLoop_mem i cs vb h
      exact ⟨d, List.mem_cons_of_mem _ hd, h3⟩

omit [DecidableEq ι] in
/-- what `include` forwards and is not a REMOVE carries a value satisfying the predicate -/
theorem includeChange_matches (p : Option (Pred ι μ)) (c d : Change ι μ) (h : includeChange p c = some d)
    (hk : d.kind ≠ .remove) (w : μ) (hw : d.new = some w) : Matches p d.id w := by
  cases p with
  | none => trivial
  | some f =>
    simp only [includeChange] at h
    simp only [Matches]
    split at h
    · split at h
      · rename_i hn
        cases h
        simp only [Bool.and_eq_true] at hn
        rw [hw] at hn; exact hn.2
      · cases h
    · split at h
      · rename_i hn
        cases h
        simp only [Bool.and_eq_true] at hn
        simp only at hw
        rw [hw] at hn; exact hn.2
      · cases h
        exact absurd rfl hk

omit [DecidableEq ι] in
theorem matches_of_not_exclude (p : Option (Pred ι μ)) (i : ι) (w : μ) (h : exclude p i w = false) :
    Matches p i w := by
  cases p with
  | none => trivial
  | some f => simpa [exclude, Matches] using h

end ScVerif.C08
