import ScVerif.C08.IncludeLemmas
import ScVerif.C08.DrvLemmas
import ScVerif.C09.Pipeline
/-!
# C08 — property theorems: include-filtered List/Pull behave as the filtered collection

Property (fixed text): "Listing or pulling a collection with an include predicate behaves as if the
collection contained only the items satisfying it: the seed is the filtered list, an update that
makes an item start or stop matching is reported as ADD or REMOVE, an update between two matching
versions is delivered as an update, and a change to an item that matches neither before nor after is
never delivered. Folding the filtered stream therefore always yields List with the same predicate."

Model: `ScVerif/C08/Include.lean` (`includeChange`, `exclude`, `itemSlice`, `seedFrom`, `stepOp/runOps`)
and the `mergeCollectionExcess` machine of `ScVerif/C09/Merge.lean`, over arbitrary id and message types.
Spec: the filtered collection `filterView p s` — an item is in it iff it is PRESENT and `p id (some v)`;
`fold` of events into a `View`.  Predicates are arbitrary functions `ι → Option μ → Bool`, including
ones that answer `true` for an absent value: `C08_absent_irrelevant` shows that what a predicate says
about `none` never matters (after the `fix:` commit that made `include` not consult it).

Only property theorems and their non-vacuity examples live in this file.
-/
namespace ScVerif.C08
open ScVerif.C09

variable {ι μ : Type} [DecidableEq ι]

/-- The decision table, for every predicate, every view and every change well formed at it, with
"matches" meaning "is in the filtered collection" before (`oldIn`) and after (`newIn`) the change:
(in,in) ⇒ delivered unchanged; (out,in) ⇒ ADD of the new value; (in,out) ⇒ REMOVE of the old value;
(out,out) ⇒ not delivered.  Without a predicate every change is delivered unchanged. -/
theorem C08_table (f : Pred ι μ) (s : View ι μ) (c : Change ι μ) (hc : WFChange s c) :
    let oldIn := (filterView (some f) s c.id).isSome
    let newIn := (filterView (some f) (apply c s) c.id).isSome
    (oldIn = true → newIn = true → includeChange (some f) c = some c) ∧
    (oldIn = false → newIn = true → ∃ d, includeChange (some f) c = some d ∧ d.id = c.id ∧
        d.kind = .add ∧ d.old = none ∧ d.new = c.new ∧ d.time = c.time) ∧
    (oldIn = true → newIn = false → ∃ d, includeChange (some f) c = some d ∧ d.id = c.id ∧
        d.kind = .remove ∧ d.old = c.old ∧ d.new = none ∧ d.time = c.time) ∧
    (oldIn = false → newIn = false → includeChange (some f) c = none) ∧
    includeChange (none : Option (Pred ι μ)) c = some c :=
  have h := include_table f hc
  ⟨h.1, h.2.1, h.2.2.1, h.2.2.2, rfl⟩

/-- Per change: what `include` forwards is well formed at the filtered view and has exactly the
filtered effect; when it forwards nothing the filtered collection did not change. -/
theorem C08_include_sound (p : Option (Pred ι μ)) (s : View ι μ) (c : Change ι μ) (hc : WFChange s c) :
    match includeChange p c with
    | some d => d.id = c.id ∧ WFChange (filterView p s) d ∧
        apply d (filterView p s) = filterView p (apply c s)
    | none => filterView p (apply c s) = filterView p s :=
  include_wf p hc

/-- Fold commutation, for EVERY predicate (also ones true on absent values), every view and every
well-formed history: the include-filtered stream is itself a well-formed history of the filtered
collection (no ADD of a listed id, no UPDATE/REMOVE of an unlisted one, old values chain) and folding
it from the filtered collection gives the filter of folding the unfiltered stream.  `cs` is arbitrary,
so this holds after every prefix. -/
theorem C08_fold_commutes (p : Option (Pred ι μ)) (s : View ι μ) (cs : List (Change ι μ))
    (h : WFHist s cs) :
    WFHist (filterView p s) (cs.filterMap (includeChange p)) ∧
    fold (cs.filterMap (includeChange p)) (filterView p s) = filterView p (fold cs s) :=
  include_hist p s cs h

omit [DecidableEq ι] in
/-- What a predicate answers for an absent value never matters: two predicates that agree on present
values make `include` behave identically on EVERY change (well formed or not). -/
theorem C08_absent_irrelevant (f g : Pred ι μ) (hfg : ∀ i v, f i (some v) = g i (some v))
    (c : Change ι μ) : includeChange (some f) c = includeChange (some g) c := by
  rcases c with ⟨ci, ck, ct, co, cn, cs, cl⟩
  cases co <;> cases cn <;> simp [includeChange, hfg]

/-- `List(WithInclude p)` is the filtered collection, and the seed of `Pull(WithInclude p)` — the listed
items as ADDs in ANY order (`Pull` sorts them by id) — is a well-formed history from the empty view
folding to it. -/
theorem C08_seed_is_filtered_list (p : Option (Pred ι μ)) (items : List (ι × μ)) (hn : NodupKeys items)
    (order : List (ι × μ)) (hperm : order.Perm (itemSlice p items)) (t : Nat) :
    viewOf (itemSlice p items) = filterView p (viewOf items) ∧
    WFHist View.empty (seedFrom t order) ∧
    fold (seedFrom t order) View.empty = filterView p (viewOf items) := by
  have hns : NodupKeys (itemSlice p items) := NodupKeys_filter _ hn
  have hno : NodupKeys order := by
    unfold NodupKeys at *
    exact ((hperm.map Prod.fst).nodup_iff).mpr hns
  have hsf := seed_fold t order (View.empty : View ι μ) hno (fun _ _ => rfl)
  refine ⟨viewOf_itemSlice p items hn, hsf.1, ?_⟩
  rw [← viewOf_itemSlice p items hn, ← viewOf_perm hns hperm]
  funext i
  rw [hsf.2 i]
  simp only [viewOf, View.empty]
  cases order.lookup i <;> rfl

/-- The whole of `Pull(WithInclude p, WithBackpressure(true))` against `List(WithInclude p)`: for every
predicate, every initial contents, every write history `ops` (Add / Update / Update+CreateIfAbsent /
Delete, failing writes included) — the seed followed by the include-filtered events is a well-formed
history from the empty view and folds to exactly `List(WithInclude p)` of the contents after the
writes, which is the filtered collection.  `ops` is arbitrary, so: after every write. -/
theorem C08_pull_matches_list (p : Option (Pred ι μ)) (items : List (ι × μ)) (hn : NodupKeys items)
    (order : List (ι × μ)) (hperm : order.Perm (itemSlice p items)) (t t' : Nat) (ops : List (Op ι μ)) :
    let r := runOps t items ops
    let stream := seedFrom t' order ++ r.2.filterMap (includeChange p)
    WFHist View.empty stream ∧
    fold stream View.empty = viewOf (itemSlice p r.1) ∧
    viewOf (itemSlice p r.1) = filterView p (viewOf r.1) := by
  have hseed := C08_seed_is_filtered_list p items hn order hperm t'
  have hops := runOps_spec t hn ops
  have hinc := include_hist p (viewOf items) (runOps t items ops).2 hops.2.1
  have hlist := viewOf_itemSlice p (runOps t items ops).1 hops.1
  refine ⟨?_, ?_, hlist⟩
  · rw [WFHist_append, hseed.2.2]
    exact ⟨hseed.2.1, hinc.1⟩
  · rw [fold_append, hseed.2.2, hinc.2, hops.2.2, hlist]

/-- Read mask: `Pull` applies the mask's projection to seeds and, for live events, AFTER `include` — so
the predicate always judges the stored, unmasked values, exactly as `List` and the seed do.  For
every projection `proj` (any function on messages), predicate, contents and write history: the
stream a `Pull(WithInclude p, WithReadMask m)` subscriber is sent is a well-formed history from the
empty view and folds to the projection of `List(WithInclude p)`'s view — the masked filtered
collection — after every write. -/
theorem C08_pull_masked_matches_list (p : Option (Pred ι μ)) (proj : μ → μ) (items : List (ι × μ))
    (hn : NodupKeys items) (order : List (ι × μ)) (hperm : order.Perm (itemSlice p items))
    (t t' : Nat) (ops : List (Op ι μ)) :
    let r := runOps t items ops
    let stream := (seedFrom t' order).map (maskChange proj) ++ r.2.filterMap (pullEvent p proj)
    WFHist View.empty stream ∧
    fold stream View.empty = projView proj (viewOf (itemSlice p r.1)) := by
  have h := C08_pull_matches_list p items hn order hperm t t' ops
  have hm := mask_hist proj View.empty _ h.1
  have he : projView proj (View.empty : View ι μ) = View.empty := by funext i; rfl
  rw [he] at hm
  simp only [filterMap_pullEvent, ← List.map_append]
  exact ⟨hm.1, by rw [hm.2, h.2.1]⟩

/-- The same through lossy delivery (`WithBackpressure(false)`): for every well-formed stream of
published events and EVERY recv/emit pattern of the `mergeCollectionExcess` goroutine, the
include-filtered emitted stream is a well-formed history of the filtered collection and folds to the
filter of what was emitted; once the subscriber has taken everything pending it folds to the filtered
collection of everything published. -/
theorem C08_fold_commutes_lossy (p : Option (Pred ι μ)) (s0 : View ι μ)
    (ms : List (Move (Change ι μ))) (hw : WFHist s0 (inputs ms)) :
    let c := run Cfg.init ms
    WFHist (filterView p s0) (c.emitted.filterMap (includeChange p)) ∧
    fold (c.emitted.filterMap (includeChange p)) (filterView p s0) = filterView p (fold c.emitted s0) ∧
    (c.st.pending = [] →
      fold (c.emitted.filterMap (includeChange p)) (filterView p s0) = filterView p (fold (inputs ms) s0)) := by
  have hinv := Inv_run (s0 := s0) ms (Inv_init s0) (by simpa [Cfg.init] using hw)
  have hE : WFHist s0 (run Cfg.init ms).emitted := (WFHist_append.mp hinv.wf).1
  have hinc := include_hist p s0 _ hE
  refine ⟨hinc.1, hinc.2, ?_⟩
  intro hd
  have hv := hinv.view
  rw [hd, List.append_nil] at hv
  rw [hinc.2, hv, run_received]
  simp [Cfg.init]

/-- The whole of `Pull(WithInclude p)` WITHOUT backpressure against `List(WithInclude p)`: for every
predicate, initial contents and write history, and every recv/emit pattern `ms` of the merging
goroutine fed with exactly the published events — the seed followed by the include-filtered emitted
stream is a well-formed history from the empty view at every moment, and once everything pending has
been taken it folds to `List(WithInclude p)` of the contents after the writes. -/
theorem C08_pull_lossy_matches_list (p : Option (Pred ι μ)) (items : List (ι × μ)) (hn : NodupKeys items)
    (order : List (ι × μ)) (hperm : order.Perm (itemSlice p items)) (t t' : Nat) (ops : List (Op ι μ))
    (ms : List (Move (Change ι μ))) (hms : inputs ms = (runOps t items ops).2) :
    let r := runOps t items ops
    let c := run Cfg.init ms
    let stream := seedFrom t' order ++ c.emitted.filterMap (includeChange p)
    WFHist View.empty stream ∧
    (c.st.pending = [] → fold stream View.empty = viewOf (itemSlice p r.1)) := by
  have hseed := C08_seed_is_filtered_list p items hn order hperm t'
  have hops := runOps_spec t hn ops
  have hl := C08_fold_commutes_lossy p (viewOf items) ms (by rw [hms]; exact hops.2.1)
  have hlist := viewOf_itemSlice p (runOps t items ops).1 hops.1
  refine ⟨?_, ?_⟩
  · rw [WFHist_append, hseed.2.2]
    exact ⟨hseed.2.1, hl.1⟩
  · intro hd
    rw [fold_append, hseed.2.2, hl.2.2 hd, hms, hops.2.2, hlist]

/-- The base a subscriber folds onto: the masked filtered collection at subscribe time.  It is what the
(masked) seed folds to from the empty view — and it is the view an updates-only subscriber
(`WithUpdatesOnly`: no seed) is assumed to hold already, e.g. from `List` with the same options. -/
theorem C08_seed_masked_is_base (p : Option (Pred ι μ)) (proj : μ → μ) (items : List (ι × μ))
    (hn : NodupKeys items) (order : List (ι × μ)) (hperm : order.Perm (itemSlice p items)) (t : Nat) :
    fold ((seedFrom t order).map (maskChange proj)) View.empty = projView proj (filterView p (viewOf items)) ∧
    projView proj (filterView p (viewOf items)) = projView proj (viewOf (itemSlice p items)) := by
  have hs := C08_seed_is_filtered_list p items hn order hperm t
  have hm := mask_hist proj View.empty _ hs.2.1
  have he : projView proj (View.empty : View ι μ) = View.empty := by funext i; rfl
  rw [he] at hm
  exact ⟨by rw [hm.2, hs.2.2], by rw [hs.1]⟩

/-- The full pipeline of `Collection.Pull` WITHOUT an equivalence, through the lossy machine and the
forwarder with its event in hand (`ScVerif/C09/Pipeline.lean`), for every predicate, read-mask
projection, view `s0` at subscribe time, well-formed stream of published events and EVERY interleaving
of recv / take / deliver: what was sent to the subscriber (delivered, then in hand) is a well-formed
history of the base `projView proj (filterView p s0)` and folds to the masked filtered collection of
everything the forwarder has taken; at quiescence, of everything published.  With backpressure there
is no machine: that is the interleaving in which every recv is followed at once by its take. -/
theorem C08_pull_pipeline_exact (p : Option (Pred ι μ)) (proj : μ → μ) (s0 : View ι μ)
    (ms : List (PMove (Change ι μ))) (hw : WFHist s0 (pinputs ms)) :
    let c := prun (pullStep p proj none) PCfg.init ms
    let base := projView proj (filterView p s0)
    let sent := c.delivered ++ c.inHand.toList
    WFHist base sent ∧
    fold sent base = projView proj (filterView p (fold c.taken s0)) ∧
    (c.inHand = none → c.st.pending = [] →
      fold c.delivered base = projView proj (filterView p (fold (pinputs ms) s0))) := by
  have h := PInv_run (T := pullStep p proj none) (s0 := s0) ms (PInv_init _ s0) (by simpa [PCfg.init] using hw)
  have hrec : (prun (pullStep p proj none) (PCfg.init : PCfg ι μ) ms).received = pinputs ms := by
    simp [prun_received, PCfg.init]
  have htaken : WFHist s0 (prun (pullStep p proj none) (PCfg.init : PCfg ι μ) ms).taken :=
    (WFHist_append.mp h.inv.wf).1
  have hp := pullEvent_hist p proj s0 _ htaken
  have hout := h.out
  rw [filterMap_pullStep_none] at hout
  refine ⟨by rw [hout]; exact hp.1, by rw [hout]; exact hp.2, ?_⟩
  intro hh hpend
  have hv := h.inv.view
  simp only at hv
  rw [hpend, List.append_nil] at hv
  rw [hh, Option.toList_none, List.append_nil] at hout
  rw [hout, hp.2, hv, hrec]

/-- `C08_pull_full_pipeline`: include ▸ read mask ▸ equivalence ▸ lossy machine ▸ forwarder ▸ consumer.
For every predicate, projection, view at subscribe time, well-formed stream of published events,
EVERY interleaving of recv / take / deliver, and every equivalence `E` on optional messages that is
reflexive and transitive (`E old new` = "suppress this change"): the view the subscriber folds from
the base (`C08_seed_masked_is_base`: its seed, or what an updates-only subscriber already holds) is,
ID BY ID, `E`-equivalent to the masked filtered collection — i.e. to the projection of
`List(WithInclude p)` — of everything the forwarder has taken, and at quiescence of everything
published.  "Modulo equivalence-suppressed changes" means exactly this: for each id the subscriber's
value and the listed value are related by `E` (equal when the last change of the id was delivered). -/
theorem C08_pull_full_pipeline (p : Option (Pred ι μ)) (proj : μ → μ)
    (E : Option μ → Option μ → Bool) (hrefl : ∀ a, E a a = true)
    (htrans : ∀ a b c, E a b = true → E b c = true → E a c = true)
    (s0 : View ι μ) (ms : List (PMove (Change ι μ))) (hw : WFHist s0 (pinputs ms)) :
    let c := prun (pullStep p proj (some E)) PCfg.init ms
    let base := projView proj (filterView p s0)
    let sent := c.delivered ++ c.inHand.toList
    (∀ i, E (fold sent base i) (projView proj (filterView p (fold c.taken s0)) i) = true) ∧
    (c.inHand = none → c.st.pending = [] →
      ∀ i, E (fold c.delivered base i) (projView proj (filterView p (fold (pinputs ms) s0)) i) = true) := by
  have h := PInv_run (T := pullStep p proj (some E)) (s0 := s0) ms (PInv_init _ s0)
    (by simpa [PCfg.init] using hw)
  have hrec : (prun (pullStep p proj (some E)) (PCfg.init : PCfg ι μ) ms).received = pinputs ms := by
    simp [prun_received, PCfg.init]
  have htaken : WFHist s0 (prun (pullStep p proj (some E)) (PCfg.init : PCfg ι μ) ms).taken :=
    (WFHist_append.mp h.inv.wf).1
  have hp := pullEvent_hist p proj s0 _ htaken
  have hout := h.out
  rw [filterMap_pullStep] at hout
  have heq := equiv_hist E hrefl htrans _ _ (fun i => hrefl _) _ hp.1
  rw [hp.2] at heq
  refine ⟨by intro i; rw [hout]; exact heq i, ?_⟩
  intro hh hpend i
  have hv := h.inv.view
  simp only at hv
  rw [hpend, List.append_nil] at hv
  rw [hh, Option.toList_none, List.append_nil] at hout
  rw [hout, ← hrec, ← hv]
  exact heq i

/-- The same against the real objects: the published events are those of a write history on a
collection, and the right-hand side is the (masked) view of `List(WithInclude p)` after the writes. -/
theorem C08_pull_full_pipeline_list (p : Option (Pred ι μ)) (proj : μ → μ)
    (E : Option μ → Option μ → Bool) (hrefl : ∀ a, E a a = true)
    (htrans : ∀ a b c, E a b = true → E b c = true → E a c = true)
    (items : List (ι × μ)) (hn : NodupKeys items) (t : Nat) (ops : List (Op ι μ))
    (ms : List (PMove (Change ι μ))) (hms : pinputs ms = (runOps t items ops).2) :
    let r := runOps t items ops
    let c := prun (pullStep p proj (some E)) PCfg.init ms
    let base := projView proj (viewOf (itemSlice p items))
    c.inHand = none → c.st.pending = [] →
      ∀ i, E (fold c.delivered base i) (projView proj (viewOf (itemSlice p r.1)) i) = true := by
  intro r c base hh hpend i
  have hops := runOps_spec t hn ops
  have h := (C08_pull_full_pipeline p proj E hrefl htrans (viewOf items) ms
    (by rw [hms]; exact hops.2.1)).2 hh hpend i
  rw [hms, hops.2.2, ← viewOf_itemSlice p _ hops.1, ← viewOf_itemSlice p items hn] at h
  exact h

/-! ### non-vacuity -/

section examples

/-- a predicate that is TRUE on absent values and on value 20 only -/
private def pAbsentTrue : Pred Nat Nat := fun _ v => v.isNone || v == some 20

private def items0 : List (Nat × Nat) := [(1, 10), (2, 20)]

example : NodupKeys items0 := by unfold NodupKeys items0; decide

/-- the hypotheses of `C08_pull_matches_list` are satisfiable, with a predicate true on absent values -/
example : ([(2, 20)] : List (Nat × Nat)).Perm (itemSlice (some pAbsentTrue) items0) := by
  decide

/-- all four cells occur on a concrete run: id 1 goes 10 → 20 (out,in ⇒ ADD), 20 → 20 (in,in ⇒ UPDATE
delivered), 20 → 10 (in,out ⇒ REMOVE), 10 → 10 (out,out ⇒ nothing), then is deleted while not
matching (nothing, although the predicate is true on the absent value). -/
example :
    ((runOps 0 items0 [.update 1 20, .update 1 20, .update 1 10, .update 1 10, .delete 1]).2.filterMap
        (includeChange (some pAbsentTrue))).map (fun c => (c.kind, c.old, c.new))
      = [(.add, none, some 20), (.update, some 20, some 20), (.remove, some 20, none)] := by
  decide

/-- the seed-order hypothesis of `C08_pull_matches_list`/`C08_seed_is_filtered_list` is met, for every
predicate and contents, by the order the code (and the driver) uses: the listed items sorted by id -/
example (p : Option (Pred String String)) (items : List (String × String)) :
    (sortById (itemSlice p items)).Perm (itemSlice p items) := sortById_perm _

/-- an equivalence satisfying the hypotheses of `C08_pull_full_pipeline`: equal modulo 10 (and absent
only equivalent to absent) — reflexive and transitive, not the identity -/
private def eMod10 : Option Nat → Option Nat → Bool
  | some a, some b => a % 10 == b % 10
  | none, none => true
  | _, _ => false

example : ∀ a, eMod10 a a = true := by intro a; cases a <;> simp [eMod10]
example : ∀ a b c, eMod10 a b = true → eMod10 b c = true → eMod10 a c = true := by
  intro a b c; cases a <;> cases b <;> cases c <;> simp [eMod10] <;> omega

/-- a run of the full pipeline in which the equivalence suppresses an update (10 → 20) that the
subscriber therefore never sees, while the forwarder holds an event in hand -/
example :
    ((prun (pullStep (none : Option (Pred Nat Nat)) id (some eMod10)) PCfg.init
        [.recv (mkChange 1 .add 0 none (some 10)), .take, .deliver,
         .recv (mkChange 1 .update 1 (some 10) (some 20)), .take,
         .recv (mkChange 1 .update 2 (some 20) (some 21)), .take]).delivered.map (·.new),
     (prun (pullStep (none : Option (Pred Nat Nat)) id (some eMod10)) PCfg.init
        [.recv (mkChange 1 .add 0 none (some 10)), .take, .deliver,
         .recv (mkChange 1 .update 1 (some 10) (some 20)), .take,
         .recv (mkChange 1 .update 2 (some 20) (some 21)), .take]).inHand.map (·.new))
      = ([some 10], some (some 21)) := by decide

end examples

end ScVerif.C08
