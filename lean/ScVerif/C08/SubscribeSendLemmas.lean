import ScVerif.C08.SubscribeSend
import ScVerif.C08.SubscribeManyLemmas
/-! The split-send system projects, subscriber by subscriber, onto the one-subscriber system. -/
namespace ScVerif.C08
open ScVerif.C09

variable {ι μ : Type}

theorem getD_oob {α : Type} (l : List α) (d : α) {j : Nat} (h : l.length ≤ j) : l.getD j d = d := by
  simp [List.getD, List.getElem?_eq_none h]

theorem mem_listeningIdx (subs : List (Sub ι μ)) (j : Nat) :
    j ∈ listeningIdx subs ↔ (subs.getD j .idle).isListening = true := by
  simp only [listeningIdx, List.mem_filter, List.mem_range]
  constructor
  · exact fun h => h.2
  · intro h
    refine ⟨?_, h⟩
    by_cases hj : j < subs.length
    · exact hj
    · rw [getD_oob _ _ (Nat.le_of_not_lt hj)] at h
      simp [Sub.isListening] at h

theorem nodup_listeningIdx (subs : List (Sub ι μ)) : (listeningIdx subs).Nodup :=
  List.Nodup.sublist List.filter_sublist List.nodup_range

theorem deliver_not_listening (sub : Sub ι μ) (evs : List (Change ι μ)) (h : sub.isListening = false) :
    sub.deliver evs = sub := by
  cases sub <;> simp_all [Sub.deliver, Sub.isListening]

theorem getD_updAt_deliver (subs : List (Sub ι μ)) (evs : List (Change ι μ)) (k : Nat) :
    (updAt (·.deliver evs) k subs).getD k .idle = (subs.getD k .idle).deliver evs := by
  by_cases hk : k < subs.length
  · exact getD_updAt_self _ _ _ hk
  · rw [updAt_oob _ _ (Nat.le_of_not_lt hk), getD_oob _ _ (Nat.le_of_not_lt hk)]
    rfl

/-- the copy of a `Send` in flight lists no subscriber twice -/
def FInv (s : FSys ι μ) : Prop := ∀ c ks, s.flight = some (c, ks) → ks.Nodup

variable [DecidableEq ι]

omit [DecidableEq ι] in
theorem FInv_init (items : List (ι × μ)) (n : Nat) : FInv (FSys.init items n) := by
  intro c ks h; simp [FSys.init] at h

/-- One step of the split-send system keeps the invariant and is, for subscriber `j`, at most one step of the
one-subscriber system with `j`'s predicate. -/
theorem fsysStep_proj (preds : List (Option (Pred ι μ))) (s : FSys ι μ) (step : FStep ι μ) (j : Nat)
    (hinv : FInv s) :
    FInv (fsysStep true preds s step) ∧
    ∃ steps' : List (Step ι μ),
      (fsysStep true preds s step).proj j = sysRun true (preds.getD j none) (s.proj j) steps' := by
  cases step with
  | commit op =>
    by_cases hany : s.subs.any Sub.isSnapping = true
    · exact ⟨by simpa [fsysStep, hany] using hinv, [], by simp [fsysStep, hany, sysRun]⟩
    · have hj : (s.subs.getD j .idle).isSnapping = false := by
        cases h : (s.subs.getD j .idle).isSnapping with
        | false => rfl
        | true => exact absurd (any_snapping_of_getD _ j h) hany
      have hany' : s.subs.any Sub.isSnapping = false := by simpa using hany
      refine ⟨?_, [.commit op], ?_⟩
      · intro c ks h
        simp only [fsysStep, hany', Bool.and_false, Bool.false_eq_true, if_false] at h
        exact hinv c ks h
      · simp only [fsysStep, hany', Bool.and_false, Bool.false_eq_true, if_false, sysRun, List.foldl_cons,
          List.foldl_nil, sysStep, FSys.proj, FSys.pendFor, hj, List.append_assoc]
  | sendStart =>
    cases hf : s.flight with
    | some cf => exact ⟨by simpa [fsysStep, hf] using hinv, [], by simp [fsysStep, hf, sysRun]⟩
    | none =>
      cases hp : s.pend with
      | nil => exact ⟨by simpa [fsysStep, hf, hp] using hinv, [], by simp [fsysStep, hf, hp, sysRun]⟩
      | cons c rest =>
        refine ⟨?_, ?_⟩
        · intro c' ks h
          simp only [fsysStep, hf, hp] at h
          by_cases he : (listeningIdx s.subs).isEmpty = true
          · simp [he] at h
          · simp only [he, Bool.false_eq_true, if_false, Option.some.injEq, Prod.mk.injEq] at h
            rw [← h.2]; exact nodup_listeningIdx _
        · by_cases hmem : j ∈ listeningIdx s.subs
          · refine ⟨[], ?_⟩
            have hne : (listeningIdx s.subs).isEmpty = false := by
              cases hl : listeningIdx s.subs with
              | nil => rw [hl] at hmem; simp at hmem
              | cons a as => rfl
            simp [fsysStep, hf, hp, sysRun, FSys.proj, FSys.pendFor, hne, hmem]
          · refine ⟨[.publish], ?_⟩
            have hnl : (s.subs.getD j .idle).isListening = false := by
              cases h : (s.subs.getD j .idle).isListening with
              | false => rfl
              | true => exact absurd ((mem_listeningIdx _ j).mpr h) hmem
            have hd := deliver_not_listening _ [c] hnl
            by_cases he : (listeningIdx s.subs).isEmpty = true
            · simp only [fsysStep, hf, hp, sysRun, List.foldl_cons, List.foldl_nil, sysStep, FSys.proj,
                FSys.pendFor, he, if_true, List.nil_append, hd]
            · simp only [fsysStep, hf, hp, sysRun, List.foldl_cons, List.foldl_nil, sysStep, FSys.proj,
                FSys.pendFor, he, Bool.false_eq_true, if_false, hmem, List.nil_append, hd]
  | sendNext =>
    cases hf : s.flight with
    | none => exact ⟨by simpa [fsysStep, hf] using hinv, [], by simp [fsysStep, hf, sysRun]⟩
    | some cf =>
      obtain ⟨c, l⟩ := cf
      cases l with
      | nil =>
        refine ⟨by intro c' ks h; simp [fsysStep, hf] at h, [], ?_⟩
        simp [fsysStep, hf, sysRun, FSys.proj, FSys.pendFor]
      | cons k ks =>
        have hnd : (k :: ks).Nodup := hinv c (k :: ks) hf
        have hk : k ∉ ks := (List.nodup_cons.mp hnd).1
        refine ⟨?_, ?_⟩
        · intro c' ks' h
          simp only [fsysStep, hf] at h
          by_cases he : ks.isEmpty = true
          · simp [he] at h
          · simp only [he, Bool.false_eq_true, if_false, Option.some.injEq, Prod.mk.injEq] at h
            rw [← h.2]; exact (List.nodup_cons.mp hnd).2
        · by_cases he : ks.isEmpty = true
          · have hks : ks = [] := by simpa using he
            subst hks
            by_cases hjk : j = k
            · subst hjk
              refine ⟨[.publish], ?_⟩
              simp [fsysStep, hf, sysRun, sysStep, FSys.proj, FSys.pendFor]
              simpa [List.getD_eq_getElem?_getD] using getD_updAt_deliver s.subs [c] j
            · refine ⟨[], ?_⟩
              simp [fsysStep, hf, sysRun, FSys.proj, FSys.pendFor, hjk]
              simpa [List.getD_eq_getElem?_getD] using
                getD_updAt_ne (fun x : Sub ι μ => x.deliver [c]) Sub.idle hjk s.subs
          · have he' : ks.isEmpty = false := by simpa using he
            by_cases hjk : j = k
            · subst hjk
              refine ⟨[.publish], ?_⟩
              simp [fsysStep, hf, sysRun, sysStep, FSys.proj, FSys.pendFor, he', hk]
              simpa [List.getD_eq_getElem?_getD] using getD_updAt_deliver s.subs [c] j
            · refine ⟨[], ?_⟩
              simp [fsysStep, hf, sysRun, FSys.proj, FSys.pendFor, he', hjk]
              simpa [List.getD_eq_getElem?_getD] using
                getD_updAt_ne (fun x : Sub ι μ => x.deliver [c]) Sub.idle hjk s.subs
  | deleteNow i =>
    by_cases hdis : (!s.pend.isEmpty || s.flight.isSome || s.subs.any Sub.isSnapping) = true
    · exact ⟨by simpa only [fsysStep, Bool.true_and, hdis, if_true] using hinv, [],
        by simp only [fsysStep, Bool.true_and, hdis, if_true, sysRun, List.foldl_nil]⟩
    · have hdis' : (!s.pend.isEmpty || s.flight.isSome || s.subs.any Sub.isSnapping) = false := by simpa using hdis
      have hpe : (!s.pend.isEmpty) = false := by
        cases h : (!s.pend.isEmpty) <;> simp_all
      have hfl : s.flight.isSome = false := by
        cases h : s.flight.isSome <;> simp_all
      have hany : s.subs.any Sub.isSnapping = false := by
        cases h : s.subs.any Sub.isSnapping <;> simp_all
      have hfn : s.flight = none := by
        cases hf : s.flight with
        | none => rfl
        | some x => rw [hf] at hfl; simp at hfl
      have hj : (s.subs.getD j .idle).isSnapping = false := by
        cases h : (s.subs.getD j .idle).isSnapping with
        | false => rfl
        | true => rw [any_snapping_of_getD _ j h] at hany; exact absurd hany (by simp)
      have hpn : s.pend = [] := by
        cases hp : s.pend with
        | nil => rfl
        | cons a as => rw [hp] at hpe; simp at hpe
      refine ⟨?_, [.deleteNow i], ?_⟩
      · intro c ks h
        simp only [fsysStep, Bool.true_and, hdis', Bool.false_eq_true, if_false] at h
        exact hinv c ks h
      · simp only [fsysStep, Bool.true_and, hfn, hpn, hany, Option.isSome_none, Bool.or_false, sysRun,
          List.foldl_cons, List.foldl_nil, sysStep, FSys.proj, FSys.pendFor, List.append_nil, List.isEmpty_nil,
          Bool.not_true, Bool.false_eq_true, if_false, hj, getD_map_deliver]
  | snapshot k =>
    refine ⟨fun c ks h => hinv c ks (by simpa [fsysStep] using h), ?_⟩
    by_cases hk : j = k
    · subst hk
      by_cases hlen : j < s.subs.length
      · refine ⟨[.snapshot], ?_⟩
        simp only [fsysStep, sysRun, List.foldl_cons, List.foldl_nil, sysStep, FSys.proj, FSys.pendFor,
          getD_updAt_self _ _ _ hlen]
        cases s.subs.getD j .idle <;> rfl
      · exact ⟨[], by simp only [fsysStep, updAt_oob _ _ (Nat.le_of_not_lt hlen), sysRun, List.foldl_nil]⟩
    · exact ⟨[], by simp only [fsysStep, sysRun, List.foldl_nil, FSys.proj, FSys.pendFor, getD_updAt_ne _ _ hk]⟩
  | listen k =>
    refine ⟨fun c ks h => hinv c ks (by simpa [fsysStep] using h), ?_⟩
    by_cases hk : j = k
    · subst hk
      by_cases hlen : j < s.subs.length
      · refine ⟨[.listen], ?_⟩
        simp only [fsysStep, sysRun, List.foldl_cons, List.foldl_nil, sysStep, FSys.proj, FSys.pendFor,
          getD_updAt_self _ _ _ hlen]
        cases s.subs.getD j .idle <;> rfl
      · exact ⟨[], by simp only [fsysStep, updAt_oob _ _ (Nat.le_of_not_lt hlen), sysRun, List.foldl_nil]⟩
    · exact ⟨[], by simp only [fsysStep, sysRun, List.foldl_nil, FSys.proj, FSys.pendFor, getD_updAt_ne _ _ hk]⟩

theorem fsysRun_proj (preds : List (Option (Pred ι μ))) (s : FSys ι μ) (sched : List (FStep ι μ)) (j : Nat)
    (hinv : FInv s) :
    ∃ sched' : List (Step ι μ),
      (fsysRun true preds s sched).proj j = sysRun true (preds.getD j none) (s.proj j) sched' := by
  induction sched generalizing s with
  | nil => exact ⟨[], rfl⟩
  | cons st sched ih =>
    obtain ⟨hinv', a, ha⟩ := fsysStep_proj preds s st j hinv
    obtain ⟨b, hb⟩ := ih (fsysStep true preds s st) hinv'
    refine ⟨a ++ b, ?_⟩
    have : fsysRun true preds s (st :: sched) = fsysRun true preds (fsysStep true preds s st) sched := rfl
    rw [this, hb, ha]
    simp [sysRun, List.foldl_append]

end ScVerif.C08

namespace ScVerif.C08
open ScVerif.C09

variable {ι μ : Type} [DecidableEq ι]

theorem fsysRun_FInv (preds : List (Option (Pred ι μ))) (s : FSys ι μ) (sched : List (FStep ι μ))
    (hinv : FInv s) : FInv (fsysRun true preds s sched) := by
  induction sched generalizing s with
  | nil => exact hinv
  | cons st sched ih => exact ih _ (fsysStep_proj preds s st 0 hinv).1

theorem fsysStep_length (preds : List (Option (Pred ι μ))) (s : FSys ι μ) (st : FStep ι μ) :
    (fsysStep true preds s st).subs.length = s.subs.length := by
  cases st with
  | commit op => simp only [fsysStep]; split <;> rfl
  | sendStart => simp only [fsysStep]; split <;> rfl
  | sendNext => simp only [fsysStep]; split <;> simp [length_updAt]
  | deleteNow i => simp only [fsysStep]; split <;> simp
  | snapshot j => simp [fsysStep, length_updAt]
  | listen j => simp [fsysStep, length_updAt]

theorem fsysRun_length (preds : List (Option (Pred ι μ))) (s : FSys ι μ) (sched : List (FStep ι μ)) :
    (fsysRun true preds s sched).subs.length = s.subs.length := by
  induction sched generalizing s with
  | nil => rfl
  | cons st sched ih =>
    have : fsysRun true preds s (st :: sched) = fsysRun true preds (fsysStep true preds s st) sched := rfl
    rw [this, ih, fsysStep_length]

/-- subscriber `j`'s own snapshot step is the one-subscriber system's snapshot step -/
theorem fsysStep_snapshot_proj (preds : List (Option (Pred ι μ))) (s : FSys ι μ) (j : Nat)
    (hj : j < s.subs.length) :
    (fsysStep true preds s (.snapshot j)).proj j = sysStep true (preds.getD j none) (s.proj j) .snapshot := by
  simp only [fsysStep, sysStep, FSys.proj, FSys.pendFor, getD_updAt_self _ _ _ hj]
  cases s.subs.getD j .idle <;> rfl

theorem fsysRun_append (preds : List (Option (Pred ι μ))) (s : FSys ι μ) (a b : List (FStep ι μ)) :
    fsysRun true preds s (a ++ b) = fsysRun true preds (fsysRun true preds s a) b := by
  simp [fsysRun, List.foldl_append]

end ScVerif.C08
