import ScVerif.C08.SubscribeSend
/-!
C08 — the split-send system with the bus's LISTENER SLICE, subscriber CANCELLATION and `Bus.collect`.

`minibus.Bus` (internal/minibus/bus.go) keeps `b.listeners`; `Listen` appends to it; a listener whose listen
context has been cancelled stays in it until some later `Send` notices:

```go
func (b *Bus) Send(ctx, event) {
    listeners := copy of b.listeners                 // sendStart
    needGc := false
    for _, l := range listeners {                    // sendNext, one listener per step
        ok, active := l.send(ctx, event)             //   a cancelled listener is not sent the event …
        if !active { needGc = true }                 //   … and is remembered
    }
    if needGc { b.collect() }                        // collect: its own step (it takes the bus's lock afresh)
}
func (b *Bus) collect() {                            // b.listeners = the entries of b.listeners that are alive
    for _, l := range b.listeners { if l.alive() { active = append(active, l) } }
    b.listeners = active
}
```
Between the copy and `collect` other threads move (`Update` publishes after releasing the collection's
lock): in particular a new subscriber can `Listen`.  It is in `b.listeners` but not in the copy; `collect`
re-scans `b.listeners`, so it stays registered.  `inPlace = true` is NOT the code: the variant whose `collect`
filters the Send's own copy and stores that (what `C08_gc_collect_copy_fails` shows to be wrong).

Steps: those of `SubscribeSend.lean` with the copy taken from `listeners`, plus `collect` and `cancel j`
(subscriber `j`'s Pull context ends: from now on its listener reports `active = false`).  One `Send` is in
progress at a time - `collect` is part of it - and they start in commit order (C03's `ordered` hypothesis).
-/
namespace ScVerif.C08
open ScVerif.C09

variable {ι μ : Type}

structure GSys (ι μ : Type) where
  items : List (ι × μ)
  pend : List (Change ι μ)
  /-- the `Send` in its loop: the event, the listeners of its copy still to serve, `needGc` so far -/
  flight : Option (Change ι μ × List Nat × Bool)
  /-- a `Send` has left its loop with `needGc` set and has not run `collect` yet -/
  gcDue : Bool
  /-- the copy of the listener slice the `Send` in progress took (kept until its `collect` is over) -/
  walked : List Nat
  /-- `b.listeners`, in registration order -/
  listeners : List Nat
  /-- the subscribers whose listen context has been cancelled -/
  dead : List Nat
  subs : List (Sub ι μ)
  t : Nat
  /-- how many times `collect` has run (observable through the yield point `bus.collect.scanned`) -/
  collects : Nat

inductive GStep (ι μ : Type) where
  | commit (op : Op ι μ)
  | sendStart
  | sendNext
  | collect
  | deleteNow (i : ι)
  | snapshot (j : Nat)
  | listen (j : Nat)
  | cancel (j : Nat)

/-- the listeners that are alive -/
def liveOf (dead : List Nat) (ls : List Nat) : List Nat := ls.filter (fun k => !decide (k ∈ dead))

/-- hand `evs` to each of the subscribers `ks`, in order -/
def deliverTo (evs : List (Change ι μ)) (ks : List Nat) (subs : List (Sub ι μ)) : List (Sub ι μ) :=
  ks.foldl (fun acc k => updAt (·.deliver evs) k acc) subs

variable [DecidableEq ι]

/-- `inPlace = false` is the code; `inPlace = true` is the variant whose `collect` filters the copy the Send
has just walked (`walked`) and stores that as `b.listeners`. -/
def gsysStep (inPlace : Bool) (preds : List (Option (Pred ι μ))) (s : GSys ι μ) : GStep ι μ → GSys ι μ
  | .commit op =>
    if s.subs.any Sub.isSnapping then s
    else
      let r := stepOp s.t s.items op
      { s with items := r.1, pend := s.pend ++ r.2.toList, t := s.t + 1 }
  | .sendStart =>
    match s.flight, s.gcDue, s.pend with
    | none, false, c :: rest =>
      { s with pend := rest, walked := s.listeners,
               flight := if s.listeners.isEmpty then none else some (c, s.listeners, false) }
    | _, _, _ => s
  | .sendNext =>
    match s.flight with
    | some (c, k :: ks, gc) =>
      let isDead := decide (k ∈ s.dead)
      let subs' := if isDead then s.subs else updAt (·.deliver [c]) k s.subs
      if ks.isEmpty then { s with flight := none, gcDue := gc || isDead, subs := subs' }
      else { s with flight := some (c, ks, gc || isDead), subs := subs' }
    | some (_, [], gc) => { s with flight := none, gcDue := gc }
    | none => s
  | .collect =>
    if s.gcDue then
      { s with listeners := liveOf s.dead (if inPlace then s.walked else s.listeners), gcDue := false,
               collects := s.collects + 1 }
    else s
  | .deleteNow i =>
    if !s.pend.isEmpty || s.flight.isSome || s.gcDue || s.subs.any Sub.isSnapping then s
    else
      -- `Delete` publishes under the collection's write lock: the whole `Send` (copy, deliveries, collect)
      -- is one step; nobody can `Listen` meanwhile (a Pull registers under the read lock)
      let r := stepOp s.t s.items (.delete i)
      match r.2 with
      | none => { s with items := r.1, t := s.t + 1 }     -- NotFound: nothing is sent
      | some c =>
        let live := liveOf s.dead s.listeners
        { s with items := r.1, subs := deliverTo [c] live s.subs, t := s.t + 1,
                 listeners := live,
                 collects := if live.length = s.listeners.length then s.collects else s.collects + 1 }
  | .snapshot j =>
    { s with subs := updAt (fun sub => match sub with
        | .idle => .snapping (itemSlice (preds.getD j none) s.items)
        | other => other) j s.subs }
  | .listen j =>
    match s.subs.getD j .idle with
    | .snapping seed =>
      { s with subs := updAt (fun _ => .listening seed []) j s.subs, listeners := s.listeners ++ [j] }
    | _ => s
  | .cancel j => if j ∈ s.dead then s else { s with dead := j :: s.dead }

def gsysRun (inPlace : Bool) (preds : List (Option (Pred ι μ))) (s : GSys ι μ) (sched : List (GStep ι μ)) :
    GSys ι μ :=
  sched.foldl (gsysStep inPlace preds) s

def GSys.init (items : List (ι × μ)) (n : Nat) : GSys ι μ :=
  ⟨items, [], none, false, [], [], [], List.replicate n .idle, 0, 0⟩

/-- what is still on its way to subscriber `j` -/
def GSys.pendFor (s : GSys ι μ) (j : Nat) : List (Change ι μ) :=
  (match s.flight with
   | some (c, ks, _) => if j ∈ ks then [c] else []
   | none => []) ++ s.pend

/-- the system as subscriber `j` sees it -/
def GSys.proj (s : GSys ι μ) (j : Nat) : Sys ι μ := ⟨s.items, s.pendFor j, s.subs.getD j .idle, s.t⟩

end ScVerif.C08
