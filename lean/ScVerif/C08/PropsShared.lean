import ScVerif.C08.SharedLemmas
import ScVerif.C08.IncludeLemmas
import ScVerif.C08.ReentrantLemmas
import ScVerif.C08.SubscribeManyLemmas
import ScVerif.C08.SubscribeSendLemmas
import ScVerif.C08.SubscribeLossyLemmas
import ScVerif.C08.PipeBusLemmas
import ScVerif.C08.Props
import ScVerif.C08.PropsConc
/-!
# C08 — several subscribers on one collection (the bus hands ONE event object to all of them)

"Listing or pulling a collection with an include predicate behaves as if the collection contained only
the items satisfying it" is claimed for EVERY subscriber of a collection, whatever other subscribers —
with other predicates, read masks, paces — are registered on the same bus before or after it and are
handed the very same `*CollectionChange` earlier in `Bus.Send`'s loop.

Model: `ScVerif/C08/Shared.lean` (`turnShared`, `deliver`, `busRun`); tie: `pull-shared-bus` (driver op
`mpull` runs `deliver` on 2-3 subscribers of the real collection).  Only property theorems and their
non-vacuity examples live in this file.
-/
namespace ScVerif.C08
open ScVerif.C09

variable {ι μ : Type}

/-- Non-interference.  For every equivalence, every run `pre` of the collection before subscriber `s`
joins (any number of other subscribers joining, any events), and every run `post` after it (events
published, further subscribers joining): `s` sits at position `joins pre` of the listener slice and has
been sent exactly what its own forwarding loop makes of the events published since it joined — what it
would have been sent as the only subscriber. -/
theorem C08_shared_bus_independent (E : Option (Option μ → Option μ → Bool)) (pre post : List (BusStep ι μ))
    (s : SubOpts ι μ) :
    (busRun E [] (pre ++ .join s :: post))[joins pre]? =
      some (s, (published post).filterMap (pullStep s.pred s.proj E)) := by
  have hlen : (busRun E ([] : List (SubOpts ι μ × List (Change ι μ))) pre).length = joins pre := by
    rw [busRun_length]; simp
  have h1 : busRun E (busRun E [] pre) (.join s :: post)
      = busRun E (busRun E [] pre ++ [(s, [])]) post := rfl
  rw [busRun_append, h1, busRun_split, List.map_append, List.append_assoc]
  rw [List.getElem?_append_right (by simp [hlen])]
  simp [hlen, advance]

variable [DecidableEq ι] [DecidableEq μ]

/-- Every subscriber of a shared collection, without an equivalence: subscriber `(p, proj)` joins when the
contents are `items` (its seed: the listed items in any order, masked); afterwards the write history `as`
(plain writes, re-entrant deletes and writes) is published while any number of other subscribers —
registered before it (`pre`) or joining meanwhile (the `join`s of `post`) — are handed the same event
objects before or after it.  What it has been sent is a well-formed history from the empty view and
folds to the projection of `List(WithInclude p)` after the writes. -/
theorem C08_shared_bus_matches_list (p : Option (Pred ι μ)) (proj : μ → μ) (items : List (ι × μ))
    (hn : NodupKeys items) (order : List (ι × μ)) (hperm : order.Perm (itemSlice p items))
    (t t' : Nat) (as : List (Act ι μ)) (pre post : List (BusStep ι μ))
    (hpub : published post = (runActs t items as).2) :
    ∃ out, (busRun none [] (pre ++ .join ⟨p, proj⟩ :: post))[joins pre]? = some (⟨p, proj⟩, out) ∧
      let stream := (seedFrom t' order).map (maskChange proj) ++ out
      WFHist View.empty stream ∧
      fold stream View.empty = projView proj (viewOf (itemSlice p (runActs t items as).1)) := by
  refine ⟨_, C08_shared_bus_independent none pre post ⟨p, proj⟩, ?_⟩
  simp only [hpub, filterMap_pullStep_none]
  have hseed : viewOf (itemSlice p items) = filterView p (viewOf items) := viewOf_itemSlice p items hn
  have hns : NodupKeys (itemSlice p items) := NodupKeys_filter _ hn
  have hno : NodupKeys order := by
    unfold NodupKeys at *
    exact ((hperm.map Prod.fst).nodup_iff).mpr hns
  have hsf := seed_fold t' order (View.empty : View ι μ) hno (fun _ _ => rfl)
  have hsfold : fold (seedFrom t' order) View.empty = filterView p (viewOf items) := by
    rw [← hseed, ← viewOf_perm hns hperm]
    funext i
    rw [hsf.2 i]
    simp only [viewOf, View.empty]
    cases order.lookup i <;> rfl
  have hops := runActs_spec t hn as
  have hinc := include_hist p (viewOf items) (runActs t items as).2 hops.2.1
  have hlist := viewOf_itemSlice p (runActs t items as).1 hops.1
  have hwf : WFHist View.empty (seedFrom t' order ++ (runActs t items as).2.filterMap (includeChange p)) := by
    rw [WFHist_append, hsfold]; exact ⟨hsf.1, hinc.1⟩
  have hfold : fold (seedFrom t' order ++ (runActs t items as).2.filterMap (includeChange p)) View.empty
      = viewOf (itemSlice p (runActs t items as).1) := by
    rw [fold_append, hsfold, hinc.2, hops.2.2, hlist]
  have hm := mask_hist proj View.empty _ hwf
  have he : projView proj (View.empty : View ι μ) = View.empty := by funext i; rfl
  rw [he] at hm
  simp only [filterMap_pullEvent, ← List.map_append]
  exact ⟨hm.1, by rw [hm.2, hfold]⟩

/-- The same on a collection configured with an equivalence `E` (reflexive, transitive): the view the
subscriber folds from its base — the masked filtered collection at the moment it joined (its seed, or what
an updates-only subscriber holds) — is, id by id, `E`-equivalent to the projection of
`List(WithInclude p)` after the writes, whatever the other subscribers of the collection. -/
theorem C08_shared_bus_matches_list_equiv (p : Option (Pred ι μ)) (proj : μ → μ)
    (E : Option μ → Option μ → Bool) (hrefl : ∀ a, E a a = true)
    (htrans : ∀ a b c, E a b = true → E b c = true → E a c = true)
    (items : List (ι × μ)) (hn : NodupKeys items) (t : Nat) (as : List (Act ι μ))
    (pre post : List (BusStep ι μ)) (hpub : published post = (runActs t items as).2) :
    ∃ out, (busRun (some E) [] (pre ++ .join ⟨p, proj⟩ :: post))[joins pre]? = some (⟨p, proj⟩, out) ∧
      ∀ i, E (fold out (projView proj (viewOf (itemSlice p items))) i)
             (projView proj (viewOf (itemSlice p (runActs t items as).1)) i) = true := by
  refine ⟨_, C08_shared_bus_independent (some E) pre post ⟨p, proj⟩, ?_⟩
  simp only [hpub, filterMap_pullStep]
  have hops := runActs_spec t hn as
  have hp := pullEvent_hist p proj (viewOf items) _ hops.2.1
  have heq := equiv_hist E hrefl htrans _ _ (fun i => hrefl _) _ hp.1
  rw [hp.2, hops.2.2, ← viewOf_itemSlice p _ hops.1, ← viewOf_itemSlice p items hn] at heq
  exact heq

/-- Every subscriber of a shared collection with its WHOLE pipeline, lossy or not
(`ScVerif/C08/PipeBus.lean`): the bus offers each published event object to every subscriber's merge machine
in subscription order, and all subscribers' forwarders and consumers move in ANY interleaving with the
publications (`move k take`, `move k deliver`; a backpressured subscriber is the interleaving in which its
`take` follows each publication at once).  For a collection with an equivalence `E` (reflexive, transitive),
subscriber `(p, proj)` joining when the contents are `items`, any subscribers before it (`pre`) or joining
meanwhile, and the write history `as` published afterwards: whenever its forwarder holds nothing and its
machine is drained, the view it has folded from its base is, id by id, `E`-equivalent to the projection of
`List(WithInclude p)` after the writes. -/
theorem C08_shared_bus_full_pipeline (p : Option (Pred ι μ)) (proj : μ → μ)
    (E : Option μ → Option μ → Bool) (hrefl : ∀ a, E a a = true)
    (htrans : ∀ a b c, E a b = true → E b c = true → E a c = true)
    (items : List (ι × μ)) (hn : NodupKeys items) (t : Nat) (as : List (Act ι μ))
    (pre post : List (PBusStep ι μ)) (hpub : publishedP post = (runActs t items as).2) :
    ∃ cfg, (pbusRun (some E) [] (pre ++ .join ⟨p, proj⟩ :: post))[joinsP pre]? = some (⟨p, proj⟩, cfg) ∧
      (cfg.inHand = none → cfg.st.pending = [] →
        ∀ i, E (fold cfg.delivered (projView proj (viewOf (itemSlice p items))) i)
               (projView proj (viewOf (itemSlice p (runActs t items as).1)) i) = true) := by
  obtain ⟨ms, hin, hres⟩ := pbusRun_joined (some E) pre post (⟨p, proj⟩ : SubOpts ι μ)
  exact ⟨_, hres, C08_pull_full_pipeline_list_reentrant p proj E hrefl htrans items hn t as ms (hin.trans hpub)⟩

/-- The same without an equivalence: exactly the projection of `List(WithInclude p)`, and what the subscriber
has been sent so far is at every moment a well-formed history of its base. -/
theorem C08_shared_bus_full_pipeline_exact (p : Option (Pred ι μ)) (proj : μ → μ)
    (items : List (ι × μ)) (hn : NodupKeys items) (t : Nat) (as : List (Act ι μ))
    (pre post : List (PBusStep ι μ)) (hpub : publishedP post = (runActs t items as).2) :
    ∃ cfg, (pbusRun none [] (pre ++ .join ⟨p, proj⟩ :: post))[joinsP pre]? = some (⟨p, proj⟩, cfg) ∧
      WFHist (projView proj (viewOf (itemSlice p items))) (cfg.delivered ++ cfg.inHand.toList) ∧
      (cfg.inHand = none → cfg.st.pending = [] →
        fold cfg.delivered (projView proj (viewOf (itemSlice p items)))
          = projView proj (viewOf (itemSlice p (runActs t items as).1))) := by
  obtain ⟨ms, hin, hres⟩ := pbusRun_joined none pre post (⟨p, proj⟩ : SubOpts ι μ)
  have hops := runActs_spec t hn as
  have h := C08_pull_pipeline_exact p proj (viewOf items) ms (by rw [hin, hpub]; exact hops.2.1)
  simp only at h
  rw [← viewOf_itemSlice p items hn] at h
  refine ⟨_, hres, h.1, ?_⟩
  intro hh hpend
  have := h.2.2 hh hpend
  rw [hin, hpub, hops.2.2, ← viewOf_itemSlice p _ hops.1] at this
  exact this

/-- Subscribing while writers run, with ANY NUMBER of subscribers (`ScVerif/C08/SubscribeMany.lean`): `n`
subscribers, subscriber `j` filtering with its own predicate `preds[j]`, each taking the read lock for its
seed and its `Listen` at a moment of its own (several may hold it together; commits and deletes are
disabled while any does), every `publish` handing the event to all that listen.  For EVERY schedule and
every subscriber `j` the statement of `C08_subscribe_atomic` holds with `j`'s predicate: its seed is its
filtered list while it holds the lock; its fold is id by id the filter of its snapshot or of the published
view; at every quiescent point seed ++ filtered events folds to `List(WithInclude preds[j])`.  (Proof: the
system projects, subscriber by subscriber, onto the one-subscriber system — `msysRun_proj`.) -/
theorem C08_subscribe_atomic_many (preds : List (Option (Pred ι μ))) (items : List (ι × μ))
    (hn : NodupKeys items) (n : Nat) (sched : List (MStep ι μ)) (j : Nat) :
    let s := msysRun true preds (MSys.init items n) sched
    let p := preds.getD j none
    match s.subs.getD j .idle with
    | .idle => True
    | .snapping seed => seed = itemSlice p s.items
    | .listening seed recv =>
      (∃ (T : View ι μ) (k : Nat), k ≤ s.pend.length ∧ WFHist T s.pend ∧
        fold s.pend T = viewOf s.items ∧
        (∀ i, subView p seed recv i = filterView p (fold (s.pend.take k) T) i ∨
              subView p seed recv i = filterView p T i) ∧
        (k = 0 → subView p seed recv = filterView p T)) ∧
      (s.pend = [] → ∀ (order : List (ι × μ)) (t : Nat), order.Perm seed →
        fold (seedFrom t order ++ recv.filterMap (includeChange p)) View.empty
          = viewOf (itemSlice p s.items) ∧
        viewOf (itemSlice p s.items) = filterView p (viewOf s.items)) := by
  obtain ⟨sched', h⟩ := msysRun_proj preds (MSys.init items n) sched j
  have hinit : (MSys.init items n : MSys ι μ).proj j = Sys.init items := by
    simp only [MSys.proj, MSys.init, Sys.init, Sys.mk.injEq, true_and, and_true]
    by_cases hj : j < n
    · simp [List.getD, hj]
    · simp [List.getD, hj]
  have this := C08_subscribe_atomic (preds.getD j none) items hn sched'
  rw [← hinit, ← h] at this
  exact this

/-- The same with `Bus.Send` taken apart (`ScVerif/C08/SubscribeSend.lean`): a publication first copies the
listener slice (`sendStart`: the event is in flight towards the subscribers listening at that moment) and is
then handed to them one by one (`sendNext`), while between any two of these steps other writers commit and
subscribers take their seed or register — a subscriber registering after the copy is not sent the event.
For EVERY schedule and every subscriber `j`, with `pendFor j` = what is still on its way to `j` (the event in
flight if `j` is in its copy and not served yet, then the pending commits), the statement of
`C08_subscribe_atomic` holds: seed = filtered list under the lock; fold = id by id the filter of the
snapshot or of the view published to `j`; and whenever nothing is on its way to `j`, seed ++ filtered events
folds to `List(WithInclude preds[j])`.  (One `Send` in flight at a time, started in commit order: C03's
`ordered` hypothesis, as in `C08_subscribe_atomic`.) -/
theorem C08_subscribe_atomic_split_send (preds : List (Option (Pred ι μ))) (items : List (ι × μ))
    (hn : NodupKeys items) (n : Nat) (sched : List (FStep ι μ)) (j : Nat) :
    let s := fsysRun true preds (FSys.init items n) sched
    let p := preds.getD j none
    let pend := s.pendFor j
    match s.subs.getD j .idle with
    | .idle => True
    | .snapping seed => seed = itemSlice p s.items
    | .listening seed recv =>
      (∃ (T : View ι μ) (k : Nat), k ≤ pend.length ∧ WFHist T pend ∧
        fold pend T = viewOf s.items ∧
        (∀ i, subView p seed recv i = filterView p (fold (pend.take k) T) i ∨
              subView p seed recv i = filterView p T i) ∧
        (k = 0 → subView p seed recv = filterView p T)) ∧
      (pend = [] → ∀ (order : List (ι × μ)) (t : Nat), order.Perm seed →
        fold (seedFrom t order ++ recv.filterMap (includeChange p)) View.empty
          = viewOf (itemSlice p s.items) ∧
        viewOf (itemSlice p s.items) = filterView p (viewOf s.items)) := by
  obtain ⟨sched', h⟩ := fsysRun_proj preds (FSys.init items n) sched j (FInv_init items n)
  have hinit : (FSys.init items n : FSys ι μ).proj j = Sys.init items := by
    simp only [FSys.proj, FSys.pendFor, FSys.init, Sys.init, Sys.mk.injEq, true_and, and_true, List.append_nil]
    by_cases hj : j < n
    · simp [List.getD, hj]
    · simp [List.getD, hj]
  have this := C08_subscribe_atomic (preds.getD j none) items hn sched'
  rw [← hinit, ← h] at this
  exact this

/-! ### subscribing while writers run, with LOSSY delivery (`WithBackpressure(false)`, the default)

`C08_subscribe_atomic` needs exact delivery: a subscriber that takes its seed between a commit and its
publication is sent the event of a commit its seed already contains, and only the NEXT event of the id
repairs what `include` may have made of it.  The lossy machine can merge the stale event with that next
event, and `include` then judges the merged change from the stale old value. -/

/-- KNOWN FINDING (`C08/sched/lossy/stale-event-merged/…`; root cause: `Collection.Update` publishes after
releasing the lock — C03's known finding).  Predicate "value 20", item 1 = 10.  A writer commits 10 → 20;
before the event is published a lossy subscriber takes its seed ([1 = 20]) and registers; the event
10 → 20 and a further update 20 → 30 are published and the merge machine, not yet read, merges them to
10 → 30: neither 10 nor 30 matches, `include` drops it.  Everything is published and drained, the
subscriber still holds item 1, `List(WithInclude)` is empty — until the item changes again. -/
theorem C08_subscribe_lossy_stale_fails :
    ∃ (items : List (Nat × Nat)) (p : Pred Nat Nat) (sched : List (Step Nat Nat)) (seed : List (Nat × Nat))
      (recv : List (Change Nat Nat)) (ms : List (Move (Change Nat Nat))),
      NodupKeys items ∧
      (sysRun true (some p) (Sys.init items) sched).sub = .listening seed recv ∧
      (sysRun true (some p) (Sys.init items) sched).pend = [] ∧
      inputs ms = recv ∧ (run Cfg.init ms).st.pending = [] ∧
      fold ((run Cfg.init ms).emitted.filterMap (includeChange (some p))) (viewOf seed) 1
        ≠ viewOf (itemSlice (some p) (sysRun true (some p) (Sys.init items) sched).items) 1 := by
  refine ⟨[(1, 10)], fun _ v => v == some 20,
    [.commit (.update 1 20), .snapshot, .listen, .publish, .commit (.update 1 30), .publish],
    [(1, 20)], [mkChange 1 .update 0 (some 10) (some 20), mkChange 1 .update 1 (some 20) (some 30)],
    [.recv (mkChange 1 .update 0 (some 10) (some 20)), .recv (mkChange 1 .update 1 (some 20) (some 30)), .emit],
    ?_, ?_, ?_, ?_, ?_, ?_⟩
  · unfold NodupKeys; decide
  · rfl
  · rfl
  · rfl
  · decide
  · decide

omit [DecidableEq μ] in
/-- What holds with lossy delivery: a subscriber that registered CLEANLY — nothing was pending when it took
its seed (`hclean`; e.g. no write was in progress, or the writers publish before they release the lock) —
is, for EVERY later schedule of writers and EVERY recv/emit pattern `ms` of its merge machine fed with
what it was sent, delivered a well-formed history of its seed's view, and once the machine is drained and
nothing is pending its fold is `List(WithInclude p)`. -/
theorem C08_subscribe_lossy_partial (p : Option (Pred ι μ)) (items : List (ι × μ)) (hn : NodupKeys items)
    (pre post : List (Step ι μ))
    (hidle : (sysRun true p (Sys.init items) pre).sub = .idle)
    (hclean : (sysRun true p (Sys.init items) pre).pend = []) :
    let s := sysRun true p (Sys.init items) (pre ++ .snapshot :: post)
    match s.sub with
    | .listening seed recv =>
      ∀ ms : List (Move (Change ι μ)), inputs ms = recv →
        let c := run Cfg.init ms
        WFHist (viewOf seed) (c.emitted.filterMap (includeChange p)) ∧
        (c.st.pending = [] → s.pend = [] →
          fold (c.emitted.filterMap (includeChange p)) (viewOf seed) = viewOf (itemSlice p s.items))
    | _ => True := by
  have h0 := sysRun_inv p (Sys.init items) pre (SubInv_init p items hn)
  generalize hs0 : sysRun true p (Sys.init items) pre = s0 at h0 hidle hclean
  rcases s0 with ⟨its, pend, sub, t⟩
  simp only at hidle hclean
  subst hidle hclean
  have hn0 : NodupKeys its := h0.1
  have hstart : CleanInv p (viewOf its) (sysStep true p ⟨its, [], .idle, t⟩ .snapshot) :=
    ⟨hn0, rfl, rfl, rfl⟩
  have hrun := sysRun_clean p (viewOf its) _ post hstart
  have heq : sysRun true p (Sys.init items) (pre ++ .snapshot :: post)
      = sysRun true p (sysStep true p ⟨its, [], .idle, t⟩ .snapshot) post := by
    rw [sysRun_append, hs0]; rfl
  simp only [heq]
  generalize sysRun true p (sysStep true p ⟨its, [], .idle, t⟩ .snapshot) post = s at hrun
  rcases s with ⟨its', pend', sub', t'⟩
  obtain ⟨hn', hsub⟩ := hrun
  cases sub' with
  | idle => trivial
  | snapping seed => trivial
  | listening seed recv =>
    obtain ⟨hseed, hwf, hfold⟩ := hsub
    have hwf : WFHist (viewOf its) (recv ++ pend') := hwf
    have hfold : fold (recv ++ pend') (viewOf its) = viewOf its' := hfold
    intro ms hms
    have hl := C08_fold_commutes_lossy p (viewOf its) ms (by rw [hms]; exact (WFHist_append.mp hwf).1)
    simp only at hl ⊢
    rw [hseed]
    refine ⟨hl.1, ?_⟩
    intro hpend hp
    subst hp
    rw [hl.2.2 hpend, hms]
    simp only [List.append_nil] at hfold
    rw [hfold, viewOf_itemSlice p its' hn']

omit [DecidableEq μ] in
/-- The lossy theorem for ANY NUMBER of subscribers and `Bus.Send` taken apart
(`ScVerif/C08/SubscribeSend.lean`): subscriber `j` of `n`, idle after `pre` with nothing on its way to it
(`pendFor j = []`: no commit unpublished, no `Send` in flight whose copy contains it), takes its seed; whatever
all writers, all other subscribers and the bus do afterwards (`post`), and under EVERY recv/emit pattern of
its merge machine fed with what it was sent: what it is delivered is a well-formed history of its seed's view,
and once the machine is drained and nothing is on its way to it, its fold is `List(WithInclude preds[j])`. -/
theorem C08_subscribe_lossy_partial_many (preds : List (Option (Pred ι μ))) (items : List (ι × μ))
    (hn : NodupKeys items) (n : Nat) (pre post : List (FStep ι μ)) (j : Nat) (hj : j < n)
    (hidle : (match (fsysRun true preds (FSys.init items n) pre).subs.getD j .idle with
      | .idle => true | _ => false) = true)
    (hclean : (fsysRun true preds (FSys.init items n) pre).pendFor j = []) :
    let s := fsysRun true preds (FSys.init items n) (pre ++ .snapshot j :: post)
    let p := preds.getD j none
    match s.subs.getD j .idle with
    | .listening seed recv =>
      ∀ ms : List (Move (Change ι μ)), inputs ms = recv →
        let c := run Cfg.init ms
        WFHist (viewOf seed) (c.emitted.filterMap (includeChange p)) ∧
        (c.st.pending = [] → s.pendFor j = [] →
          fold (c.emitted.filterMap (includeChange p)) (viewOf seed) = viewOf (itemSlice p s.items))
    | _ => True := by
  have hinit : (FSys.init items n : FSys ι μ).proj j = Sys.init items := by
    simp only [FSys.proj, FSys.pendFor, FSys.init, Sys.init, Sys.mk.injEq, true_and, and_true, List.append_nil]
    simp [List.getD, hj]
  obtain ⟨pre', hpre⟩ := fsysRun_proj preds (FSys.init items n) pre j (FInv_init items n)
  rw [hinit] at hpre
  have hinv0 := fsysRun_FInv preds (FSys.init items n) pre (FInv_init items n)
  have hlen0 : (fsysRun true preds (FSys.init items n) pre).subs.length = n := by
    rw [fsysRun_length]; simp [FSys.init]
  have hsnap := fsysStep_snapshot_proj preds (fsysRun true preds (FSys.init items n) pre) j (by omega)
  have hinv1 := (fsysStep_proj preds _ (.snapshot j) j hinv0).1
  obtain ⟨post', hpost⟩ := fsysRun_proj preds _ post j hinv1
  have hfinal : (fsysRun true preds (FSys.init items n) (pre ++ .snapshot j :: post)).proj j
      = sysRun true (preds.getD j none) (Sys.init items) (pre' ++ .snapshot :: post') := by
    have h1 : fsysRun true preds (FSys.init items n) (pre ++ .snapshot j :: post)
        = fsysRun true preds (fsysStep true preds (fsysRun true preds (FSys.init items n) pre) (.snapshot j)) post := by
      rw [fsysRun_append]; rfl
    rw [h1, hpost, hsnap, hpre, sysRun_append]
    rfl
  have hidle' : (sysRun true (preds.getD j none) (Sys.init items) pre').sub = .idle := by
    rw [← hpre]
    simp only [FSys.proj]
    cases hsub : (fsysRun true preds (FSys.init items n) pre).subs.getD j .idle with
    | idle => rfl
    | snapping seed => rw [hsub] at hidle; simp at hidle
    | listening seed recv => rw [hsub] at hidle; simp at hidle
  have hclean' : (sysRun true (preds.getD j none) (Sys.init items) pre').pend = [] := by
    rw [← hpre]; exact hclean
  have this := C08_subscribe_lossy_partial (preds.getD j none) items hn pre' post' hidle' hclean'
  rw [← hfinal] at this
  exact this

/-! ### what the theorems rest on: no turn writes to the object it was handed

Messages are pairs (title, room); subscriber 1 has no predicate and a read mask keeping the title (the room
reads 0), subscriber 2 lists the items of room 1 unmasked. -/

private def titles : SubOpts Nat (Nat × Nat) := ⟨none, fun m => (m.1, 0)⟩
private def room1 : SubOpts Nat (Nat × Nat) := ⟨some (fun _ v => v.map (·.2) == some 1), id⟩
/-- item 7 moves from room 1 to room 2 -/
private def moveOut : Change Nat (Nat × Nat) := mkChange 7 .update 3 (some (5, 1)) (some (5, 2))

/-- If `filter` stored the masked clones into the change it was handed (`deliverInPlace`, NOT the code),
an earlier subscriber's read mask would decide what a later subscriber's predicate sees: `room1` alone is
sent the REMOVE of item 7, behind `titles` on the same bus it is sent nothing — and keeps an item
`List(WithInclude)` no longer has.  With the code's `deliver` it is sent the REMOVE. -/
theorem C08_shared_inplace_fails :
    pullStep room1.pred room1.proj none moveOut = some (mkChange 7 .remove 3 (some (5, 1)) none) ∧
    (deliverInPlace none [(titles, []), (room1, [])] moveOut).map (·.2)
      = [[mkChange 7 .update 3 (some (5, 0)) (some (5, 0))], []] ∧
    (deliver none [(titles, []), (room1, [])] moveOut).map (·.2)
      = [[mkChange 7 .update 3 (some (5, 0)) (some (5, 0))], [mkChange 7 .remove 3 (some (5, 1)) none]] := by
  decide

/-! ### non-vacuity -/

section examples

/-- a run with three differently configured subscribers, one of them joining late: each is sent its own
filtered, masked edit script of the events published since it joined -/
example :
    (busRun none [] [.join titles, .join room1,
        .publish (mkChange 7 .add 1 none (some (5, 1))),
        .join ⟨some (fun _ v => v.map (·.2) == some 2), id⟩,
        .publish moveOut]).map (fun so => so.2.map (fun c => (c.kind, c.old, c.new)))
      = [[(.add, none, some (5, 0)), (.update, some (5, 0), some (5, 0))],
         [(.add, none, some (5, 1)), (.remove, some (5, 1), none)],
         [(.add, none, some (5, 2))]] := by decide

/-- the hypothesis `published post = (runActs …).2` of `C08_shared_bus_matches_list` is met by a run in
which another subscriber joins between two published writes -/
example :
    published ([.publish (mkChange 7 .add 0 none (some (5, 1))), .join titles,
        .publish (mkChange 7 .update 2 (some (5, 1)) (some (5, 2)))] : List (BusStep Nat (Nat × Nat)))
      = (runActs 0 [] [.op (.add 7 (5, 1)), .op (.update 7 (5, 2))]).2 := by decide

private def twoSubs : MSys Nat Nat :=
  msysRun true [some (fun _ v => v == some 20), some (fun _ v => v == some 10)] (MSys.init [(1, 10)] 2)
    [.snapshot 0, .listen 0, .commit (.update 1 20), .snapshot 1, .commit (.update 1 30), .listen 1, .publish]

/-- two subscribers with different predicates on one collection; the second snapshots between a commit and
its publication while the first already listens (a further commit is blocked by its lock): the first is
sent the update and folds to its list [20]; the second's seed is empty already and the stale update, which
it is sent as well, is none of its business -/
example :
    twoSubs.subs.map (fun (sub : ScVerif.C08.Sub Nat Nat) => match sub with
      | .listening seed _ => seed
      | _ => [(0, 0)]) = [[], []] ∧
    twoSubs.subs.map (fun (sub : ScVerif.C08.Sub Nat Nat) => match sub with
      | .listening _ recv => recv.map (fun (c : Change Nat Nat) => (c.old, c.new))
      | _ => []) = [[(some 10, some 20)], [(some 10, some 20)]] ∧
    twoSubs.items = [(1, 20)] ∧ twoSubs.pend = [] := by
  decide

/-- a lossy and a backpressured subscriber on one bus: two updates are published before the lossy one's
forwarder moves - its machine merges them (10 → 30), the other one is sent both -/
example :
    (pbusRun none [] [.join (⟨none, id⟩ : SubOpts Nat Nat), .join ⟨none, id⟩,
        .publish (mkChange 1 .update 0 (some 10) (some 20)), .move 1 .take, .move 1 .deliver,
        .publish (mkChange 1 .update 1 (some 20) (some 30)), .move 1 .take, .move 1 .deliver,
        .move 0 .take, .move 0 .deliver]).map (fun sc => sc.2.delivered.map (fun c => (c.old, c.new)))
      = [[(some 10, some 30)], [(some 10, some 20), (some 20, some 30)]] := by decide

private def lateListener : FSys Nat Nat :=
  fsysRun true [none, none] (FSys.init [(1, 10)] 2)
    [.snapshot 0, .listen 0, .commit (.update 1 20), .sendStart, .snapshot 1, .listen 1, .sendNext]

/-- a subscriber that registers between a `Send`'s copy of the listener slice and its deliveries: the event
(10 → 20) is in flight towards subscriber 0 only; subscriber 1's seed already holds 20, it is not in the copy
and is sent nothing; nothing is on its way to either at the end -/
example :
    lateListener.subs.map (fun (sub : ScVerif.C08.Sub Nat Nat) => match sub with
      | .listening seed _ => seed
      | _ => []) = [[(1, 10)], [(1, 20)]] ∧
    lateListener.subs.map (fun (sub : ScVerif.C08.Sub Nat Nat) => match sub with
      | .listening _ recv => recv.map (fun (c : Change Nat Nat) => (c.old, c.new))
      | _ => []) = [[(some 10, some 20)], []] ∧
    lateListener.pendFor 0 = [] ∧ lateListener.pendFor 1 = [] := by
  decide

/-- the hypotheses of `C08_subscribe_lossy_partial` are met by a run in which a write was committed AND
published before the subscriber took its seed -/
example :
    (sysRun true (none : Option (Pred Nat Nat)) (Sys.init [(1, 10)]) [.commit (.update 1 20), .publish]).pend = [] ∧
    (match (sysRun true (none : Option (Pred Nat Nat)) (Sys.init [(1, 10)]) [.commit (.update 1 20), .publish]).sub with
      | .idle => true | _ => false) = true := by decide

/-- the hypotheses of `C08_subscribe_lossy_partial_many` hold for subscriber 1 after a run in which a commit's
`Send` is IN FLIGHT towards subscriber 0 only: nothing is on its way to subscriber 1, which is still idle -/
example :
    (fsysRun true [none, none] (FSys.init [((1 : Nat), (10 : Nat))] 2)
      [.snapshot 0, .listen 0, .commit (.update 1 20), .sendStart]).pendFor 1 = [] ∧
    (fsysRun true [none, none] (FSys.init [((1 : Nat), (10 : Nat))] 2)
      [.snapshot 0, .listen 0, .commit (.update 1 20), .sendStart]).pendFor 0
        = [mkChange 1 .update 0 (some 10) (some 20)] ∧
    (match (fsysRun true [none, none] (FSys.init [((1 : Nat), (10 : Nat))] 2)
      [.snapshot 0, .listen 0, .commit (.update 1 20), .sendStart]).subs.getD 1 .idle with
      | .idle => true | _ => false) = true := by decide

end examples

end ScVerif.C08
