import ScVerif.C08.InterceptLemmas
import ScVerif.C08.PropsConc
/-!
C08 — include-filtered Pull/List of a collection with an ID INTERCEPTOR (`resource.WithIDInterceptor(f)`).

Writers may spell an id any way the interceptor accepts (`DESK-2` for `desk-2`); `Update`, `Add` and `Delete`
replace the id by `f id` first and use that id for the map and for the published change
(`ScVerif/C08/Intercept.lean`).  Predicates are over (id, value) and the stream is keyed by id, so the
property needs every published id to be the canonical one.
-/
namespace ScVerif.C08
open ScVerif.C09

variable {ι μ : Type} [DecidableEq ι] [DecidableEq μ]

/-- Whatever spellings the writers use - plain writes, deletes going round their retry loop, writes whose
callbacks write - on a collection whose keys are canonical: every published change carries a canonical id and
every stored key stays canonical, for EVERY interceptor `f` (no idempotence needed). -/
theorem C08_intercept_ids_canonical (f : ι → ι) (t : Nat) (items : List (ι × μ))
    (hk : ∀ iv ∈ items, Canonical f iv.1) (as : List (Act ι μ)) :
    let r := runActs t items (as.map (Act.canon f))
    (∀ c ∈ r.2, Canonical f c.id) ∧ (∀ iv ∈ r.1, Canonical f iv.1) := by
  apply runActs_ids (Canonical f) t
  · intro a ha
    obtain ⟨a0, _, rfl⟩ := List.mem_map.mp ha
    exact Act.canon_idsAll f a0
  · exact hk

/-- `Pull(WithInclude p, WithReadMask m)` against `List` on a collection with an id interceptor, over every
history of writes in the CALLERS' spellings (incl. re-entrant ones): the seed followed by the include-filtered,
masked events is a well-formed history from the empty view and folds to the projection of `List(WithInclude p)`
after the writes; and the subscriber's view holds nothing under a non-canonical id (no spelling a writer used
ever shows up as a second item). -/
theorem C08_pull_matches_list_intercepted (f : ι → ι) (p : Option (Pred ι μ)) (proj : μ → μ)
    (items : List (ι × μ)) (hn : NodupKeys items) (hk : ∀ iv ∈ items, Canonical f iv.1)
    (order : List (ι × μ)) (hperm : order.Perm (itemSlice p items)) (t t' : Nat) (as : List (Act ι μ)) :
    let r := runActs t items (as.map (Act.canon f))
    let stream := (seedFrom t' order).map (maskChange proj) ++ r.2.filterMap (pullEvent p proj)
    WFHist View.empty stream ∧
    fold stream View.empty = projView proj (viewOf (itemSlice p r.1)) ∧
    viewOf (itemSlice p r.1) = filterView p (viewOf r.1) ∧
    ∀ i, ¬ Canonical f i → fold stream View.empty i = none := by
  have h := C08_pull_matches_list_reentrant p proj items hn order hperm t t' (as.map (Act.canon f))
  have hc := C08_intercept_ids_canonical f t items hk as
  simp only at h hc ⊢
  refine ⟨h.1, h.2.1, h.2.2, ?_⟩
  intro i hi
  rw [h.2.1]
  have hkeys : ∀ iv ∈ itemSlice p (runActs t items (as.map (Act.canon f))).1, Canonical f iv.1 :=
    fun iv hiv => hc.2 iv (List.mem_filter.mp hiv).1
  simp only [projView, viewOf, lookup_none_of_keys (Canonical f) hkeys i hi, Option.map_none]

/-- What the interceptor's result must be used for: a `Delete` that removes the item stored under `f id` but
publishes the REMOVE under the caller's spelling (`stepOpRawDelete`, NOT the code).  Interceptor "last digit",
predicate "the item with id 2", item 2 = 5 stored; `Delete(12)` removes item 2, the REMOVE carries id 12,
which the predicate does not match before or after: `include` drops it, the subscriber keeps item 2 for ever
while `List(WithInclude)` is empty.  The code's Delete publishes under id 2 and the REMOVE is delivered. -/
theorem C08_intercept_raw_delete_fails :
    let f : Nat → Nat := (· % 10)
    let p : Option (Pred Nat Nat) := some (fun i _ => i == 2)
    let items : List (Nat × Nat) := [(2, 5)]
    (stepOpRawDelete f 0 items 12).1 = [] ∧
    ((stepOpRawDelete f 0 items 12).2.bind (includeChange p)).isNone = true ∧
    fold (seed p items ++ (stepOpRawDelete f 0 items 12).2.toList.filterMap (includeChange p)) View.empty 2
      = some 5 ∧
    viewOf (itemSlice p (stepOpRawDelete f 0 items 12).1) 2 = none ∧
    ((stepOp 0 items ((Op.delete 12 : Op Nat Nat).canon f)).2.bind (includeChange p)).map
      (fun c => (c.id, c.kind, c.old)) = some (2, .remove, some 5) := by
  decide

/-! ### non-vacuity -/

/-- two writers spelling one item differently: the update under `12` and the delete under `22` both act on,
and are published under, the canonical id 2 -/
example :
    ((runActs 0 [((2 : Nat), (5 : Nat))] ([.op (.update 12 6), .op (.delete 22)].map (Act.canon (· % 10)))).2.map
      (fun c => (c.id, c.kind, c.old, c.new))) = [(2, .update, some 5, some 6), (2, .remove, some 6, none)] := by
  decide

end ScVerif.C08
