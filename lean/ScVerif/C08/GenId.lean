import ScVerif.C08.Include
/-!
# C08 — generated ids: `Add(id = "", …, WithGenIDIfAbsent(), WithIDCallback(cb))`

`bookingpb.Model.CreateBooking` (the only way the booking server creates a booking) calls
`m.bookings.Add(booking.Id, booking, WithGenIDIfAbsent(), WithIDCallback(func(id){ booking.Id = id }))`.
For an empty id `Collection.Update`'s first read (under the read lock) runs `c.genID()`:

```go
id, err := GenerateUniqueId(c.rng, func(candidate string) bool {
    if c.idInterceptor != nil { candidate = c.idInterceptor(candidate) }
    _, exists := c.byId[candidate]; return exists })          // pkg/resource/id.go: ten candidates,
if c.idInterceptor != nil { id = c.idInterceptor(id) }           // `idCandidate != "" && !exists(idCandidate)`
```
then the id callback, and goes on exactly as an `Add` of that id (`writeRetry … create expectAbsent`): the
re-validation under the write lock refuses the write if somebody stored the id meanwhile.
-/
namespace ScVerif.C08
open ScVerif.C09

variable {ι μ : Type} [DecidableEq ι]

/-- `GenerateUniqueId` composed with the interceptor, over the candidates the rng yields in order (`valid` =
non-empty): the first valid candidate whose canonical form is not taken, in canonical form; `none` = Aborted
("id generation attempts exhausted"). -/
def genUniqueId (canon : ι → ι) (valid taken : ι → Bool) : List ι → Option ι
  | [] => none
  | c :: cs => if valid c && !taken (canon c) then some (canon c) else genUniqueId canon valid taken cs

/-- `Add("", msg, WithGenIDIfAbsent, WithIDCallback)`: `v i` is the message once the callback has written the
id `i` into it; `intf` are the writes landing between the first read and the write lock. -/
def addGen [DecidableEq μ] (empty : μ) (t : Nat) (items : List (ι × μ)) (canon : ι → ι) (valid : ι → Bool)
    (cands : List ι) (v : ι → μ) (intf : List (Op ι μ)) : List (ι × μ) × List (Change ι μ) :=
  match genUniqueId canon valid (fun i => (items.lookup i).isSome) cands with
  | none => (items, [])
  | some i => writeRetry empty t items i (v i) true true intf

theorem genUniqueId_spec (canon : ι → ι) (valid taken : ι → Bool) (cands : List ι) (i : ι)
    (h : genUniqueId canon valid taken cands = some i) :
    taken i = false ∧ ∃ c, c ∈ cands ∧ valid c = true ∧ i = canon c := by
  induction cands with
  | nil => simp [genUniqueId] at h
  | cons c cs ih =>
    simp only [genUniqueId] at h
    split at h
    · rename_i hc
      simp only [Bool.and_eq_true, Bool.not_eq_true'] at hc
      cases h
      exact ⟨hc.2, c, List.mem_cons_self, hc.1, rfl⟩
    · obtain ⟨h1, c', hc', hv, he⟩ := ih h
      exact ⟨h1, c', List.mem_cons_of_mem _ hc', hv, he⟩

end ScVerif.C08
