import ScVerif.Base.Line
/-! Driver handler for C08 (stub: replaced by the property's owner). -/
namespace ScVerif.C08

def handle (_toks : List String) : String := "!bad-op"

end ScVerif.C08
