import ScVerif.C09.Codec
import ScVerif.C08.Include
import ScVerif.C08.Intercept
import ScVerif.C08.Subscribe
import ScVerif.C08.Shared
import ScVerif.C08.SubscribeMany
import ScVerif.C08.SubscribeSend
import ScVerif.C08.SubscribeGc
import ScVerif.C08.PipeBus
import ScVerif.C08.Booking
import ScVerif.C08.GenId
import ScVerif.C08.PullId
/-! Driver handler for C08.

Predicates are the closed family shared with the Go harness: `nil` (no include option) or a truth
table `T:<id.id…>:<val.val…>:<mask>` over (id, value ∈ {absent} ∪ vals): bit `idIdx*(nvals+1)+valIdx`
of `mask` (valIdx 0 = absent) is the answer; unknown ids/values answer false; the reserved fence id
`~` answers `present`.

* `include <pred> <change>`            → `includeChange` (`drop` when `ok == false`)
* `pull <pred> <nBefore> <op>*`        run the first `nBefore` writes on an empty collection, subscribe
                                       (`Pull(WithInclude pred, WithBackpressure(true))`), run the rest →
                                       `seed=<events>` then per later write ` <event|drop|fail>@<List(WithInclude)>`
* `burst <pred> <nBefore> <op>*`       lossy pull: the writes after `nBefore` reach `mergeCollectionExcess`
                                       under every recv/emit pattern (then drain) → the set of streams the
                                       subscriber can be sent, `|`-separated, sorted
ops: `add:i:v` `upd:i:v` `ups:i:v` `del:i`; times are dropped from `pull`/`burst` answers (`0`).
`delc:i:v:k` is `Delete(i, WithExpectedCheck(cb))` whose callback, on its first `k` invocations, writes
to the collection itself: `Update(i, v)`, or `Delete(i)` when `v` is `-` (`Act.deleteRetry`); `delv:i:w` is
`Delete(i, WithExpectedValue(w))`, `dela:i` is `Delete(i, WithAllowMissing(true))`; `addc/updc/upsc:i:v:w`
is `Add` / `Update` / `Update(WithCreateIfAbsent)` of `i` to `v` whose check callback first upserts `i`
to `w` (`Act.writeRetry`; the token `e`, resp. `__`, is the empty message).  A write
that publishes several events answers them `;`-separated.
`pull:keep1` / `pull:keep2` (and `burst:…`) add a read mask: messages are two-field tokens `ab`, the
mask keeps the first resp. second field and the stripped one reads `_`.
`pull:<mask>:<equiv>:<0|1>` additionally configures an equivalence (`none`/`same`/`first`, applied to the
masked old/new after include) and `WithUpdatesOnly` (no seed).
`pull:<mask>:<equiv>:<0|1>:<none|lower>` additionally an id interceptor on the collection (`lower` =
`strings.ToLower`): the ops carry the ids as the callers spell them, every write goes through `Act.canon`
(`ScVerif/C08/Intercept.lean`); `mpull` takes it as `<equiv>+lower`.
* `mpull <equiv> <n> (<pred> <mask> <updatesOnly 0|1> <at>){n} <op>*`
                                       the fan-out model (`ScVerif/C08/Shared.lean`): `n` subscribers on ONE
                                       collection, subscriber k joining (seed, `Listen`) just before the write
                                       number `at_k` (`at` non-decreasing: subscription order); every published event
                                       goes through `deliver` (one object, the subscribers' turns in order) →
                                       per subscriber `seed=<events>` then per later write
                                       ` <events|drop|fail>@<List with its options>`, subscribers separated by ` # `
* `sched <pred> <nBefore> <op>* <step>*`   the concurrent subscribe model (`ScVerif/C08/Subscribe.lean`, code as
                                       it is: `locked = true`): the first `nBefore` tokens are writes building the
                                       initial contents, the rest is a schedule of steps `c=<op>` (commit),
                                       `p` (publish), `d=<id>` (deleteNow), `s` (snapshot), `l` (listen) →
                                       `seed=<seed events> recv=<include-filtered received events> list=<List(WithInclude)> pend=<number pending> sub=<idle|snap|listen>`
* `msched <n> <pred>{n} <nBefore> <op>* <step>*`   the same with `n` subscribers (`ScVerif/C08/SubscribeMany.lean`),
                                       subscriber `j` filtering with the `j`-th predicate; steps `c=<op>` `p` `d=<id>`
                                       `s=<j>` (snapshot of subscriber j) `l=<j>` (listen) → per subscriber
                                       `seed=… recv=… list=… sub=…`, separated by ` # `, then ` | pend=<number pending>`
* `fsched <n> <pred>{n} <nBefore> <op>* <step>*`   the same with `Bus.Send` taken apart (`ScVerif/C08/SubscribeSend.lean`):
                                       steps `ps` (sendStart: the oldest pending commit's Send copies the listener
                                       slice) and `pn` (sendNext: the event in flight is handed to the next listener
                                       of the copy) instead of `p` → as `msched`, then ` | pend=<n> flight=<0|1>`
* `gsched <n> <pred>{n} <nBefore> <op>* <step>*`   `fsched` with the bus's listener slice, cancelled listeners and
                                       `Bus.collect` (`ScVerif/C08/SubscribeGc.lean`): further steps `gc` (collect),
                                       `x=<j>` (subscriber j's context is cancelled), `g=<j>` (slot j >= n: a ghost
                                       pulls, registers and is cancelled at once) → as `fsched`, then
                                       ` collects=<times collect ran> listeners=<b.listeners, `.`-separated>`
* `lsched <n> <pred>{n} <nBefore> <op>* <step>*`   `msched` with LOSSY subscribers (`WithBackpressure(false)`) that read
                                       nothing before the end: what a subscriber is sent goes through the
                                       `mergeCollectionExcess` machine under every recv/emit pattern → per subscriber
                                       `seed=… list=… sub=… streams=<s1>|<s2>|…` (the include-filtered streams it can be
                                       delivered), separated by ` # `, then ` | pend=<number pending>`
* `bpull <q> <nBefore> <op>*`          as `pull`, with the booking server's include option (`bookingInclude`,
                                       `ScVerif/C08/Booking.lean`): message tokens are booked periods `s/e`
                                       (`-` = unbounded side, seconds) or `nil` (no booked period); `<q>` is the
                                       request's `booking_intersects` period or `absent`
* `genid <none|lower|ns> <cands|-> <taken|->`  `Collection.genID` (`ScVerif/C08/GenId.lean`): the id chosen from the
                                       candidates the rng yields (comma separated, in order), given the stored ids,
                                       on a collection without / with the lower-casing id interceptor; `Aborted`
* `pullid[:<mask>:<equiv>:<0|1>[:<none|lower>]] <pred> <id> <nBefore> <op>*`  `Collection.PullID(id, WithInclude pred, …)`
                                       with backpressure (`ScVerif/C08/PullId.lean`: `pullIdLoop` over the underlying
                                       Pull's stream; the id goes through the interceptor) → `seed=<values sent as
                                       seed> <values sent for each later write> … end=<open|closed> list=<List(WithInclude)
                                       at the end>`; a value reads `<token>/<SeedValue 0|1>`, `-` = nothing sent
* `bpullx <q> <u 0|1> <mask> <nBefore> <op>*`  the same with `updates_only` (no seed) and a read mask (`none`, or
                                       `id`: the booked period is stripped, every delivered / listed value reads `nil`;
                                       include still judges the stored period)
-/
namespace ScVerif.C08
open ScVerif.Line ScVerif.C09

def indexOf? (x : String) : List String → Option Nat
  | [] => none
  | y :: ys => if x = y then some 0 else (indexOf? x ys).map (· + 1)

def tablePred (ids vals : List String) (mask : Nat) : Pred String String := fun i v =>
  if i = "~" then v.isSome
  else match indexOf? i ids with
    | none => false
    | some ii =>
      match v with
      | none => mask.testBit (ii * (vals.length + 1))
      | some x =>
        match indexOf? x vals with
        | none => false
        | some vi => mask.testBit (ii * (vals.length + 1) + vi + 1)

def parsePred? (s : String) : Option (Option (Pred String String)) :=
  if s = "nil" then some none
  else match s.splitOn ":" with
    | ["T", ids, vals, mask] => do
      let m ← parseNat? mask
      pure (some (tablePred (ids.splitOn ".") (vals.splitOn ".") m))
    | _ => none

def parseOp? (s : String) : Option (Op String String) :=
  match s.splitOn ":" with
  | ["add", i, v] => if i = "" ∨ v = "" then none else some (.add i v)
  | ["upd", i, v] => if i = "" ∨ v = "" then none else some (.update i v)
  | ["ups", i, v] => if i = "" ∨ v = "" then none else some (.upsert i v)
  | ["del", i] => if i = "" then none else some (.delete i)
  | _ => none

def parseAct? (s : String) : Option (Act String String) :=
  match s.splitOn ":" with
  | ["delc", i, v, k] =>
    if i = "" ∨ v = "" then none else do
      let k ← parseNat? k
      pure (.deleteRetry i (List.replicate k [if v = "-" then Op.delete i else Op.update i v]) (fun _ _ => true))
  | [k, i, v, w] =>
    -- `addc/updc/upsc:i:v:w`: Add / Update / Update(WithCreateIfAbsent) of `i` to `v` whose check callback
    -- first upserts `i` itself to `w`; the empty message is the token `e` (`__` for two-field messages)
    if i = "" ∨ v = "" ∨ w = "" then none else
    let empty := if v.length = 2 then "__" else "e"
    if k = "addc" then some (.writeRetry i v true true [.upsert i w] empty)
    else if k = "updc" then some (.writeRetry i v false false [.upsert i w] empty)
    else if k = "upsc" then some (.writeRetry i v true false [.upsert i w] empty)
    else none
  | ["delv", i, w] =>
    -- `Delete(i, WithExpectedValue(w))`
    if i = "" ∨ w = "" then none else some (.deleteRetry i [] (fun _ o => o == w))
  | ["dela", i] =>
    -- `Delete(i, WithAllowMissing(true))`: same events as a plain delete (a missing item is not an error)
    if i = "" then none else some (.deleteRetry i [] (fun _ _ => true))
  | _ => (parseOp? s).map Act.op

/-- insertion sort by id: `sort.Slice(currentValues, id <)` (ids are distinct) -/
def insertById (x : String × String) : List (String × String) → List (String × String)
  | [] => [x]
  | y :: ys => if x.1 < y.1 then x :: y :: ys else y :: insertById x ys

def sortById (l : List (String × String)) : List (String × String) := l.foldr insertById []

def showItems (l : List (String × String)) : String :=
  if l.isEmpty then "-" else ",".intercalate (l.map (fun iv => iv.1 ++ "=" ++ iv.2))

/-- `List(WithInclude p)` with ids attached (the harness re-attaches them through the values). -/
def listOf (p : Option (Pred String String)) (proj : String → String) (items : List (String × String)) : String :=
  showItems ((sortById (itemSlice p items)).map (fun iv => (iv.1, proj iv.2)))

def zeroTime (c : SChange) : SChange := { c with time := 0 }

/-- The projections of the read masks the harness uses on two-field message tokens. -/
def maskProj (m : String) : Option (String → String) :=
  if m = "none" then some id
  else if m = "keep1" then some (fun s => match s.toList with | [a, _] => String.ofList [a, '_'] | _ => s)
  else if m = "keep2" then some (fun s => match s.toList with | [_, b] => String.ofList ['_', b] | _ => s)
  else none

/-- The equivalences the harness configures (`WithEquivalence`), on optional message tokens; both are
reflexive and transitive. `same`: equal; `first`: both present with the same first field, or both absent. -/
def equivOf (e : String) : Option (Option (Option String → Option String → Bool)) :=
  if e = "none" then some none
  else if e = "same" then some (some (fun a b => a == b))
  else if e = "first" then some (some (fun a b =>
    match a, b with
    | some x, some y => x.toList.head? == y.toList.head?
    | none, none => true
    | _, _ => false))
  else none

/-- The id interceptors the harness configures (`WithIDInterceptor`): `none`, or `lower` = `strings.ToLower`
(ids are ASCII). -/
def icptOf (s : String) : Option (String → String) :=
  if s = "none" then some id
  else if s = "lower" then some String.toLower
  else none

structure PullOpts where
  proj : String → String
  equiv : Option (Option String → Option String → Bool)
  updatesOnly : Bool
  canon : String → String := id

/-- `pull` / `pull:<mask>` / `pull:<mask>:<equiv>:<updatesOnly 0|1>` -/
def parseOpName? (name : String) (s : String) : Option PullOpts :=
  if s = name then some ⟨id, none, false, id⟩
  else match s.splitOn ":" with
    | [n, m] => if n = name then (maskProj m).map (fun pr => ⟨pr, none, false, id⟩) else none
    | [n, m, e, u] =>
      if n = name then do
        let pr ← maskProj m
        let eq ← equivOf e
        let uo ← parseFlag? u
        pure ⟨pr, eq, uo, id⟩
      else none
    | [n, m, e, u, ic] =>
      if n = name then do
        let pr ← maskProj m
        let eq ← equivOf e
        let uo ← parseFlag? u
        let cn ← icptOf ic
        pure ⟨pr, eq, uo, cn⟩
      else none
    | _ => none

def pullAfter (p : Option (Pred String String)) (o : PullOpts) (items : List (String × String)) :
    List (Act String String) → List String
  | [] => []
  | a :: as =>
    let r := stepAct 0 items a
    let ev := match r.2 with
      | [] => (match a with | .op _ => "fail" | _ => "drop")  -- a re-entrant delete's result is not part of the answer
      | evs =>
        match evs.filterMap (fun c => (pullStep p o.proj o.equiv c).map zeroTime) with
        | [] => "drop"
        | ds => ";".intercalate (ds.map showChange)
    (ev ++ "@" ++ listOf p o.proj r.1) :: pullAfter p o r.1 as

/-- Every stream `mergeCollectionExcess` can emit for the inputs `ins`, over all recv/emit patterns,
draining at the end. -/
def allEmits : (fuel : Nat) → MState String String → List SChange → List (List SChange)
  | 0, _, _ => []
  | fuel + 1, st, ins =>
    let viaEmit := match emit st with
      | some (o, st') => (allEmits fuel st' ins).map (o :: ·)
      | none => []
    match ins with
    | [] => if st.pending.isEmpty then [[]] else viaEmit
    | e :: rest => allEmits fuel (recv st e) rest ++ viaEmit

/-- a period token `s/e` with `-` for an unbounded side; anything else (`nil`) is "no period" -/
def periodOfTok (s : String) : Option ScVerif.C18.Period :=
  match s.splitOn "/" with
  | [a, b] =>
    let bound (x : String) : Option (Option ScVerif.C18.Ts) :=
      if x = "-" then some none else (parseNat? x).map (fun n => some ⟨n, 0⟩)
    match bound a, bound b with
    | some lo, some hi => some ⟨lo, hi⟩
    | _, _ => none
  | _ => none

/-- the read masks the booking family uses: `none` (all fields) and `id` (`booked` is stripped: every value
reads `nil`) -/
def bookingMaskProj (m : String) : Option (String → String) :=
  if m = "none" then some id
  else if m = "id" then some (fun _ => "nil")
  else none

/-- `bpull` (no mask, with seed) and `bpullx <q> <updatesOnly 0|1> <mask none|id> <nBefore> <op>*`: PullBookings
passes `WithReadMask`, `WithUpdatesOnly` and - when the request has a period - `WithInclude` to `Collection.Pull`;
ListBookings the same mask and include to `Collection.List`. -/
def handleBPullX? (q : String) (uo : Bool) (proj : String → String) (n : String) (ops : List String) :
    Option String := do
  let qp ← if q = "absent" then some none else (periodOfTok q).map some
  let p : Option (Pred String String) := bookingInclude periodOfTok qp
  let n ← parseNat? n
  let ops ← ops.mapM parseAct?
  if n > ops.length then none
  let before := runActs 0 [] (ops.take n)
  let o : PullOpts := ⟨proj, none, uo, id⟩
  let seedEvs := if uo then [] else (seedFrom 0 (sortById (itemSlice p before.1))).map (maskChange proj)
  pure (" ".intercalate (("seed=" ++ showChanges seedEvs) :: pullAfter p o before.1 (ops.drop n)))

def handleBPull? (q n : String) (ops : List String) : Option String :=
  handleBPullX? q false id n ops

structure MSubCfg where
  sub : SubOpts String String
  updatesOnly : Bool
  joinAt : Nat

def parseMSubs? : Nat → List String → Option (List MSubCfg × List String)
  | 0, rest => some ([], rest)
  | n + 1, p :: m :: u :: a :: rest => do
    let p ← parsePred? p
    let pr ← maskProj m
    let uo ← parseFlag? u
    let a ← parseNat? a
    let (cfgs, rest') ← parseMSubs? n rest
    pure (⟨⟨p, pr⟩, uo, a⟩ :: cfgs, rest')
  | _, _ => none

def nondecreasing : List Nat → Bool
  | a :: b :: rest => a ≤ b && nondecreasing (b :: rest)
  | _ => true

/-- The `mpull` loop: before write number `j` the subscribers with `joinAt = j` join the bus (their seed is
taken from the contents at that moment); the write's events go, one object each, through BOTH fan-out models:
`deliver` (forwarding turns on the shared object, `Shared.lean`) and `pbusStep` (`PipeBus.lean`: offered to every
subscriber's machine, then - backpressure - each forwarder takes and the consumer receives at once).  The
answer is `!models-differ` should the two ever disagree. -/
def mpullLoop (E : Option (Option String → Option String → Bool)) (cfgs : List MSubCfg) :
    Nat → List (String × String) → List (SubOpts String String × PCfg String String) → List (List String) →
    List (Act String String) → List (List String)
  | j, items, bus, acc, acts =>
    let joining := cfgs.filter (fun c => c.joinAt = j)
    let bus := joining.foldl (fun b c => pbusStep E b (.join c.sub)) bus
    let acc := acc ++ joining.map (fun c =>
      ["seed=" ++ showChanges (if c.updatesOnly then [] else
        (seedFrom 0 (sortById (itemSlice c.sub.pred items))).map (maskChange c.sub.proj))])
    match acts with
    | [] => acc
    | a :: as =>
      let r := stepAct 0 items a
      let before := bus.map (fun sc => sc.2.delivered.length)
      let ks := List.range bus.length
      let bus' := r.2.foldl (fun b c =>
        ks.foldl (fun b k => pbusStep E (pbusStep E b (.move k .take)) (.move k .deliver)) (pbusStep E b (.publish c))) bus
      let viaTurns := r.2.foldl (deliver E) (bus.map (fun sc => (sc.1, [])))
      let sent := List.zipWith (fun sc n => sc.2.delivered.drop n) bus' before
      let agree := sent == viaTurns.map (·.2)
      let toks := List.zipWith (fun sc ds =>
        let ev := match r.2 with
          | [] => (match a with | .op _ => "fail" | _ => "drop")
          | _ => match ds.map zeroTime with
            | [] => "drop"
            | ds => ";".intercalate (ds.map showChange)
        (if agree then ev else "!models-differ") ++ "@" ++ listOf sc.1.pred sc.1.proj r.1) bus' sent
      mpullLoop E cfgs (j + 1) r.1 bus' (List.zipWith (fun l t => l ++ [t]) acc toks) as

def handleMPull? (e n : String) (rest : List String) : Option String := do
  -- `<equiv>` or `<equiv>+<interceptor>`
  let (e, cn) ← match e.splitOn "+" with
    | [e] => some (e, id)
    | [e, ic] => (icptOf ic).map (fun cn => (e, cn))
    | _ => none
  let eq ← equivOf e
  let n ← parseNat? n
  let (cfgs, ops) ← parseMSubs? n rest
  let acts ← ops.mapM parseAct?
  let acts := acts.map (Act.canon cn)
  if !nondecreasing (cfgs.map (·.joinAt)) then none
  if cfgs.any (fun c => c.joinAt > acts.length) then none
  pure (" # ".intercalate ((mpullLoop eq cfgs 0 [] [] [] acts).map (" ".intercalate ·)))

def parseStep? (s : String) : Option (Step String String) :=
  if s = "p" then some .publish
  else if s = "s" then some .snapshot
  else if s = "l" then some .listen
  else match s.splitOn "=" with
    | ["c", op] => (parseOp? op).map Step.commit
    | ["d", i] => if i = "" then none else some (.deleteNow i)
    | _ => none

def handleSched? (p n : String) (toks : List String) : Option String := do
  let p ← parsePred? p
  let n ← parseNat? n
  if n > toks.length then none
  let ops ← (toks.take n).mapM parseOp?
  let steps ← (toks.drop n).mapM parseStep?
  let s := sysRun true p (Sys.init (runOps 0 [] ops).1) steps
  let (sub, seed, recv) := match s.sub with
    | .idle => ("idle", [], [])
    | .snapping seed => ("snap", seed, [])
    | .listening seed recv => ("listen", seed, recv)
  pure (" ".intercalate [
    "seed=" ++ showChanges (seedFrom 0 (sortById seed)),
    "recv=" ++ showChanges ((recv.filterMap (includeChange p)).map zeroTime),
    "list=" ++ listOf p id s.items,
    "pend=" ++ toString s.pend.length,
    "sub=" ++ sub])

def parseMStep? (s : String) : Option (MStep String String) :=
  if s = "p" then some .publish
  else match s.splitOn "=" with
    | ["c", op] => (parseOp? op).map MStep.commit
    | ["d", i] => if i = "" then none else some (.deleteNow i)
    | ["s", j] => (parseNat? j).map MStep.snapshot
    | ["l", j] => (parseNat? j).map MStep.listen
    | _ => none

def handleMSched? (n : String) (rest : List String) : Option String := do
  let n ← parseNat? n
  if n + 1 > rest.length then none
  let preds ← (rest.take n).mapM parsePred?
  let nb ← parseNat? ((rest.drop n).headD "")
  let toks := rest.drop (n + 1)
  if nb > toks.length then none
  let ops ← (toks.take nb).mapM parseOp?
  let steps ← (toks.drop nb).mapM parseMStep?
  let s := msysRun true preds (MSys.init (runOps 0 [] ops).1 n) steps
  let showSub := fun (ps : Option (Pred String String) × ScVerif.C08.Sub String String) =>
    let (sub, seed, recv) := match ps.2 with
      | .idle => ("idle", [], [])
      | .snapping seed => ("snap", seed, [])
      | .listening seed recv => ("listen", seed, recv)
    " ".intercalate [
      "seed=" ++ showChanges (seedFrom 0 (sortById seed)),
      "recv=" ++ showChanges ((recv.filterMap (includeChange ps.1)).map zeroTime),
      "list=" ++ listOf ps.1 id s.items,
      "sub=" ++ sub]
  pure (" # ".intercalate ((preds.zip s.subs).map showSub) ++ " | pend=" ++ toString s.pend.length)

def parseFStep? (s : String) : Option (FStep String String) :=
  if s = "ps" then some .sendStart
  else if s = "pn" then some .sendNext
  else match s.splitOn "=" with
    | ["c", op] => (parseOp? op).map FStep.commit
    | ["d", i] => if i = "" then none else some (.deleteNow i)
    | ["s", j] => (parseNat? j).map FStep.snapshot
    | ["l", j] => (parseNat? j).map FStep.listen
    | _ => none

def showSubOf (items : List (String × String)) (ps : Option (Pred String String) × ScVerif.C08.Sub String String) : String :=
  let (sub, seed, recv) := match ps.2 with
    | .idle => ("idle", [], [])
    | .snapping seed => ("snap", seed, [])
    | .listening seed recv => ("listen", seed, recv)
  " ".intercalate [
    "seed=" ++ showChanges (seedFrom 0 (sortById seed)),
    "recv=" ++ showChanges ((recv.filterMap (includeChange ps.1)).map zeroTime),
    "list=" ++ listOf ps.1 id items,
    "sub=" ++ sub]

def handleFSched? (n : String) (rest : List String) : Option String := do
  let n ← parseNat? n
  if n + 1 > rest.length then none
  let preds ← (rest.take n).mapM parsePred?
  let nb ← parseNat? ((rest.drop n).headD "")
  let toks := rest.drop (n + 1)
  if nb > toks.length then none
  let ops ← (toks.take nb).mapM parseOp?
  let steps ← (toks.drop nb).mapM parseFStep?
  let s := fsysRun true preds (FSys.init (runOps 0 [] ops).1 n) steps
  pure (" # ".intercalate ((preds.zip s.subs).map (showSubOf s.items)) ++ " | pend=" ++ toString s.pend.length
    ++ " flight=" ++ (if s.flight.isSome then "1" else "0"))

/-- `g=<j>` (a ghost: subscriber slot `j` pulls - seed and `Listen` under the read lock - and its context is
cancelled at once) is the three steps snapshot, listen, cancel -/
def parseGSteps? (s : String) : Option (List (GStep String String)) :=
  if s = "ps" then some [.sendStart]
  else if s = "pn" then some [.sendNext]
  else if s = "gc" then some [.collect]
  else match s.splitOn "=" with
    | ["c", op] => (parseOp? op).map (fun o => [GStep.commit o])
    | ["d", i] => if i = "" then none else some [.deleteNow i]
    | ["s", j] => (parseNat? j).map (fun j => [GStep.snapshot j])
    | ["l", j] => (parseNat? j).map (fun j => [GStep.listen j])
    | ["x", j] => (parseNat? j).map (fun j => [GStep.cancel j])
    | ["g", j] => (parseNat? j).map (fun j => [GStep.snapshot j, .listen j, .cancel j])
    | _ => none

def handleGSched? (inPlace : Bool) (n : String) (rest : List String) : Option String := do
  let n ← parseNat? n
  if n + 1 > rest.length then none
  let preds ← (rest.take n).mapM parsePred?
  let nb ← parseNat? ((rest.drop n).headD "")
  let toks := rest.drop (n + 1)
  if nb > toks.length then none
  let ops ← (toks.take nb).mapM parseOp?
  let steps ← (toks.drop nb).mapM parseGSteps?
  -- the slots `n …` are ghosts (subscribers without options that are cancelled as soon as they have registered)
  let s := gsysRun inPlace preds (GSys.init (runOps 0 [] ops).1 (n + 16)) steps.flatten
  pure (" # ".intercalate ((preds.zip s.subs).map (showSubOf s.items)) ++ " | pend=" ++ toString s.pend.length
    ++ " flight=" ++ (if s.flight.isSome || s.gcDue then "1" else "0")
    ++ " collects=" ++ toString s.collects
    ++ " listeners=" ++ ".".intercalate (s.listeners.map toString))

def handleLSched? (n : String) (rest : List String) : Option String := do
  let n ← parseNat? n
  if n + 1 > rest.length then none
  let preds ← (rest.take n).mapM parsePred?
  let nb ← parseNat? ((rest.drop n).headD "")
  let toks := rest.drop (n + 1)
  if nb > toks.length then none
  let ops ← (toks.take nb).mapM parseOp?
  let steps ← (toks.drop nb).mapM parseMStep?
  let s := msysRun true preds (MSys.init (runOps 0 [] ops).1 n) steps
  let showSub := fun (ps : Option (Pred String String) × ScVerif.C08.Sub String String) =>
    let (sub, seed, recv) := match ps.2 with
      | .idle => ("idle", [], [])
      | .snapping seed => ("snap", seed, [])
      | .listening seed recv => ("listen", seed, recv)
    let ins := recv.map zeroTime
    let streams := (allEmits (2 * ins.length + 2) MState.init ins).map
      (fun em => showChanges (em.filterMap (includeChange ps.1)))
    " ".intercalate [
      "seed=" ++ showChanges (seedFrom 0 (sortById seed)),
      "list=" ++ listOf ps.1 id s.items,
      "sub=" ++ sub,
      "streams=" ++ "|".intercalate streams.eraseDups]
  pure (" # ".intercalate ((preds.zip s.subs).map showSub) ++ " | pend=" ++ toString s.pend.length)

/-- `pull…` / `burst…` -/
def handlePullLike? (op p n : String) (ops : List String) : Option String := do
  if let some o := parseOpName? "pull" op then
  let p ← parsePred? p
  let n ← parseNat? n
  let ops ← ops.mapM parseAct?
  let ops := ops.map (Act.canon o.canon)   -- `id = c.idInterceptor(id)` at the top of every write
  if n > ops.length then none
  let before := runActs 0 [] (ops.take n)
  let seedEvs := if o.updatesOnly then [] else (seedFrom 0 (sortById (itemSlice p before.1))).map (maskChange o.proj)
  pure (" ".intercalate (("seed=" ++ showChanges seedEvs) :: pullAfter p o before.1 (ops.drop n)))
  else
  let o ← parseOpName? "burst" op
  let p ← parsePred? p
  let n ← parseNat? n
  let ops ← ops.mapM parseAct?
  let ops := ops.map (Act.canon o.canon)
  if n > ops.length then none
  let before := runActs 0 [] (ops.take n)
  let after := runActs 0 before.1 (ops.drop n)
  let ins := after.2.map zeroTime
  let streams := (allEmits (2 * ins.length + 2) MState.init ins).map
    (fun em => showChanges (em.filterMap (pullStep p o.proj o.equiv)))
  pure ("|".intercalate streams.eraseDups)

def showSent (l : List (String × Bool)) : String :=
  if l.isEmpty then "-" else ",".intercalate (l.map (fun vb => vb.1 ++ "/" ++ (if vb.2 then "1" else "0")))

/-- what `PullID`'s loop sends for each later write (nothing any more once it has closed the stream) -/
def pullIdAfter (p : Option (Pred String String)) (o : PullOpts) (i : String) :
    Bool → List (String × String) → List (Act String String) → List String × Bool
  | closed, _, [] => ([], closed)
  | closed, items, a :: as =>
    let r := stepAct 0 items a
    let out := if closed then ([], true) else pullIdLoop i (r.2.filterMap (pullStep p o.proj o.equiv))
    let rest := pullIdAfter p o i out.2 r.1 as
    (showSent out.1 :: rest.1, rest.2)

/-- `pullid[:<mask>:<equiv>:<u>[:<icpt>]] <pred> <id> <nBefore> <op>*`: `Collection.PullID(id, WithInclude pred, …)`
(`ScVerif/C08/PullId.lean`) → `seed=<values sent as seed> <values sent for write 1> … end=<open|closed>
list=<List(WithInclude) at the end>`; a value reads `<token>/<SeedValue 0|1>`, `-` = nothing sent. -/
def handlePullId? (o : PullOpts) (p i n : String) (ops : List String) : Option String := do
  let p ← parsePred? p
  let n ← parseNat? n
  let ops ← ops.mapM parseAct?
  let ops := ops.map (Act.canon o.canon)
  if n > ops.length then none
  let before := runActs 0 [] (ops.take n)
  let seedEvs := if o.updatesOnly then [] else (seedFrom 0 (sortById (itemSlice p before.1))).map (maskChange o.proj)
  let s := pullId o.canon i seedEvs
  let rest := pullIdAfter p o (o.canon i) s.2 before.1 (ops.drop n)
  let final := runActs 0 before.1 (ops.drop n)
  pure (" ".intercalate (("seed=" ++ showSent s.1) :: rest.1) ++ " end=" ++ (if rest.2 then "closed" else "open")
    ++ " list=" ++ listOf p o.proj final.1)

def handle? (toks : List String) : Option String :=
  match toks with
  | ["include", p, c] => do
    let p ← parsePred? p
    let c ← parseChange? c
    pure (showOptChange (includeChange p c))
  | "sched" :: p :: n :: rest => handleSched? p n rest
  | "mpull" :: e :: n :: rest => handleMPull? e n rest
  | "msched" :: n :: rest => handleMSched? n rest
  | "fsched" :: n :: rest => handleFSched? n rest
  | "lsched" :: n :: rest => handleLSched? n rest
  | "gsched" :: n :: rest => handleGSched? false n rest
  | "bpull" :: q :: n :: rest => handleBPull? q n rest
  | ["genid", canon, cs, tk] => do
    -- `genid <none|lower> <candidates,…|-> <taken ids,…|->`: Collection.genID over the candidates the rng yields
    let f ← if canon = "none" then some (id : String → String) else if canon = "lower" then some String.toLower
      else if canon = "ns" then some (fun s => if s.startsWith "ns/" then s else "ns/" ++ s) else none
    let cands := if cs = "-" then [] else cs.splitOn ","
    let taken := if tk = "-" then [] else tk.splitOn ","
    pure (match genUniqueId f (fun c => c ≠ "") (fun i => taken.contains i) cands with
      | some i => i
      | none => "Aborted")
  | "bpullx" :: q :: u :: m :: n :: rest => do
    let uo ← parseFlag? u
    let proj ← bookingMaskProj m
    handleBPullX? q uo proj n rest
  | op :: p :: n :: ops =>
    match parseOpName? "pullid" op, ops with
    | some o, nb :: rest => handlePullId? o p n nb rest
    | some _, [] => none
    | none, _ => handlePullLike? op p n ops
  | _ => none

def handle (toks : List String) : String :=
  match handle? toks with
  | some r => r
  | none => "!bad-op"

end ScVerif.C08
