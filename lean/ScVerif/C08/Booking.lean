import ScVerif.C08.Include
import ScVerif.C18.Time
/-
C08 — the booking trait server's include option (pkg/trait/bookingpb/model_server.go, `ListBookings` and
`PullBookings` build the same one):

```go
if request.BookingIntersects != nil {
    opts = append(opts, resource.WithInclude(func(_ string, item proto.Message) bool {
        if item == nil { return false }
        itemVal := item.(*traits.Booking)
        return timepb.PeriodsIntersect(itemVal.Booked, request.BookingIntersects)
    }))
}
```
`PeriodsIntersect` is C18's model (`ScVerif/C18/Time.lean`, tied to pkg/time by C18's check and here again
through the real server).  A booking is any message type `μ` with its `booked` period.
-/
namespace ScVerif.C08
open ScVerif.C18 (Period periodsIntersect)

/-- the include option built from `request.BookingIntersects` (`none` = field not set: no `WithInclude`) -/
def bookingInclude {ι μ : Type} (booked : μ → Option Period) (q : Option Period) : Option (Pred ι μ) :=
  match q with
  | none => none
  | some qp => some (fun _ item =>
      match item with
      | none => false
      | some b => periodsIntersect (booked b) (some qp))

/-- "is listed": what the property's reading of the request is — every booking without a request
period, else exactly the bookings whose booked period intersects it. -/
def bookingListed {μ : Type} (booked : μ → Option Period) (q : Option Period) (b : μ) : Bool :=
  match q with
  | none => true
  | some qp => periodsIntersect (booked b) (some qp)

end ScVerif.C08
