import ScVerif.C08.Include
import ScVerif.C18.Time
/-
C08 — the booking trait server's include option (pkg/trait/bookingpb/model_server.go, `ListBookings` and
`PullBookings` build the same one):

```go
if request.BookingIntersects != nil {
    opts = append(opts, resource.WithInclude(func(_ string, item proto.Message) bool {
        if item == nil { return false }
        itemVal := item.(*traits.Booking)
        return timepb.PeriodsIntersect(itemVal.Booked, request.BookingIntersects)
    }))
}
```
`PeriodsIntersect` is C18's model (`ScVerif/C18/Time.lean`, tied to pkg/time by C18's check and here again
through the real server).  A booking is any message type `μ` with its `booked` period.
-/
namespace ScVerif.C08
open ScVerif.C09
open ScVerif.C18 (Period periodsIntersect)

/-- the include option built from `request.BookingIntersects` (`none` = field not set: no `WithInclude`) -/
def bookingInclude {ι μ : Type} (booked : μ → Option Period) (q : Option Period) : Option (Pred ι μ) :=
  match q with
  | none => none
  | some qp => some (fun _ item =>
      match item with
      | none => false
      | some b => periodsIntersect (booked b) (some qp))

/-- "is listed": what the property's reading of the request is — every booking without a request
period, else exactly the bookings whose booked period intersects it. -/
def bookingListed {μ : Type} (booked : μ → Option Period) (q : Option Period) (b : μ) : Bool :=
  match q with
  | none => true
  | some qp => periodsIntersect (booked b) (some qp)

/-- A `ListBookingsRequest` as far as `ListBookings` / `PullBookings` read it: `booking_intersects`, `read_mask`
(as the projection it stands for) and `updates_only`.  Both handlers start from
`WithReadMask(request.ReadMask)`, `PullBookings` adds `WithUpdatesOnly(request.UpdatesOnly)`, and both append
the same `WithInclude` when the request has a period. -/
structure BookingReq (μ : Type) where
  intersects : Option Period
  proj : μ → μ
  updatesOnly : Bool

/-- What `PullBookings` sends for a request, given the seed order and the changes the collection publishes
after the subscription: `Collection.Pull`'s seed through the read mask (nothing with `updates_only`), then
every published change through include ▸ read mask; the handler's `for change := range ...` loop forwards
each one unchanged. -/
def bookingPullStream {ι μ : Type} [DecidableEq ι] (booked : μ → Option Period) (req : BookingReq μ) (t' : Nat)
    (order : List (ι × μ)) (published : List (Change ι μ)) : List (Change ι μ) :=
  (if req.updatesOnly then [] else (seedFrom t' order).map (maskChange req.proj)) ++
    published.filterMap (pullEvent (bookingInclude booked req.intersects) req.proj)

/-- What the client holds before the first live event: nothing - the seed builds it - or, with
`updates_only`, `ListBookings` with the same request taken at the moment of subscription. -/
def bookingBase {ι μ : Type} [DecidableEq ι] (booked : μ → Option Period) (req : BookingReq μ)
    (items : List (ι × μ)) : View ι μ :=
  if req.updatesOnly then projView req.proj (viewOf (itemSlice (bookingInclude booked req.intersects) items))
  else View.empty

end ScVerif.C08
