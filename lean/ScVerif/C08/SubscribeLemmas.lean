import ScVerif.C08.Subscribe
import ScVerif.C08.IncludeLemmas
/-! Lemmas for the concurrent subscribe model (helpers; no property theorems). -/
namespace ScVerif.C08
open ScVerif.C09

variable {ι μ : Type} [DecidableEq ι]

/-- The kind agrees with the presence of a new value (true of every event a write publishes). -/
def Shaped (c : Change ι μ) : Prop := c.kind = .remove ↔ c.new = none

omit [DecidableEq ι] in
theorem mkChange_shaped_some (i : ι) (k : Kind) (t : Nat) (o : Option μ) (v : μ) (hk : k ≠ .remove) :
    Shaped (mkChange i k t o (some v)) := by
  simp [Shaped, mkChange, hk]

theorem stepOp_shaped (t : Nat) (items : List (ι × μ)) (op : Op ι μ) (c : Change ι μ)
    (h : (stepOp t items op).2 = some c) : Shaped c := by
  cases op with
  | add i v =>
    simp only [stepOp] at h
    cases hl : items.lookup i with
    | some o => rw [hl] at h; simp at h
    | none => rw [hl] at h; simp at h; subst h; exact mkChange_shaped_some _ _ _ _ _ (by decide)
  | update i v =>
    simp only [stepOp] at h
    cases hl : items.lookup i with
    | none => rw [hl] at h; simp at h
    | some o => rw [hl] at h; simp at h; subst h; exact mkChange_shaped_some _ _ _ _ _ (by decide)
  | upsert i v =>
    simp only [stepOp] at h
    cases hl : items.lookup i with
    | none => rw [hl] at h; simp at h; subst h; exact mkChange_shaped_some _ _ _ _ _ (by decide)
    | some o => rw [hl] at h; simp at h; subst h; exact mkChange_shaped_some _ _ _ _ _ (by decide)
  | delete i =>
    simp only [stepOp] at h
    cases hl : items.lookup i with
    | none => rw [hl] at h; simp at h
    | some o => rw [hl] at h; simp at h; subst h; simp [Shaped, mkChange]

theorem apply_idem (c : Change ι μ) (V : View ι μ) : apply c (apply c V) = apply c V := by
  funext j
  by_cases h : j = c.id
  · subst h; simp [apply_same]
  · simp [apply_other _ _ h]

/-- A STALE event — one whose effect the view already contains (`apply c V = V`), as happens when a
subscriber snapshots between a commit and its publication — is harmless after `include`: whatever
`include` forwards leaves the filtered view as it is. -/
theorem include_stale (p : Option (Pred ι μ)) (V : View ι μ) (c : Change ι μ) (hs : Shaped c)
    (hst : apply c V = V) :
    match includeChange p c with
    | some d => apply d (filterView p V) = filterView p V
    | none => True := by
  cases p with
  | none => simpa [includeChange, filterView_none] using hst
  | some f =>
    have hV : V c.id = if c.kind = .remove then none else c.new := by
      rw [← apply_same c V, hst]
    have hf := filterView_apply (some f) V c.id
    rw [hV] at hf
    rcases c with ⟨ci, ck, ct, co, cn, cs, cl⟩
    simp only [Shaped] at hs
    simp only at hf hV
    cases cn with
    | none =>
      have hk : ck = .remove := hs.mpr rfl
      subst hk
      simp only [if_true, filt] at hf
      simp only [includeChange, Option.isSome_none, Bool.false_and]
      cases hoi : (co.isSome && f ci co) with
      | false => simp
      | true =>
        simp only [Bool.true_eq_false, if_false]
        exact set_eq_self (by simpa using hf)
    | some n =>
      have hk : ck ≠ .remove := fun h => by simpa using hs.mp h
      simp only [hk, if_false, filt, exclude] at hf
      simp only [includeChange, Option.isSome_some, Bool.true_and]
      cases hoi : (co.isSome && f ci co) <;> cases hni : f ci (some n) <;>
        simp only [hni, Bool.not_true, Bool.not_false, if_true, if_false, Bool.false_eq_true] at hf <;>
        simp <;> (try exact set_eq_self (by simp [hk, hf])) <;> (try exact set_eq_self (by simpa using hf))

theorem subView_snoc (p : Option (Pred ι μ)) (seed : List (ι × μ)) (recv : List (Change ι μ))
    (c : Change ι μ) :
    subView p seed (recv ++ [c]) =
      match includeChange p c with
      | some d => apply d (subView p seed recv)
      | none => subView p seed recv := by
  simp only [subView, List.filterMap_append, fold_append]
  cases hi : includeChange p c <;> simp [hi]

/-- The invariant of the concurrent system (code as it is: `locked = true`). -/
def SubInv (p : Option (Pred ι μ)) (s : Sys ι μ) : Prop :=
  NodupKeys s.items ∧
  (∀ c, s.pend = some c → Shaped c ∧ apply c (viewOf s.items) = viewOf s.items) ∧
  match s.sub with
  | .idle => True
  | .snapping seed => seed = itemSlice p s.items
  | .listening seed recv =>
    NodupKeys seed ∧
    ∃ V, subView p seed recv = filterView p V ∧
      match s.pend with
      | none => V = viewOf s.items
      | some c => apply c V = viewOf s.items ∧ (WFChange V c ∨ apply c V = V)

theorem SubInv_init (p : Option (Pred ι μ)) (items : List (ι × μ)) (hn : NodupKeys items) :
    SubInv p (Sys.init items) :=
  ⟨hn, fun c h => by simp [Sys.init] at h, trivial⟩

/-- delivering one event to a registered subscriber whose view is the filter of `V`, when the event is
well formed at `V` or stale at `V`: the view becomes the filter of `apply c V` -/
theorem deliver_step (p : Option (Pred ι μ)) (seed : List (ι × μ)) (recv : List (Change ι μ))
    (V : View ι μ) (c : Change ι μ) (hv : subView p seed recv = filterView p V) (hs : Shaped c)
    (hc : WFChange V c ∨ apply c V = V) :
    subView p seed (recv ++ [c]) = filterView p (apply c V) := by
  rw [subView_snoc]
  rcases hc with hwf | hst
  · have h := include_wf p hwf
    cases hi : includeChange p c with
    | none => rw [hi] at h; simp only; rw [hv, h]
    | some d => rw [hi] at h; simp only; rw [hv, h.2.2]
  · have h := include_stale p V c hs hst
    rw [hst]
    cases hi : includeChange p c with
    | none => simp only; exact hv
    | some d => rw [hi] at h; simp only; rw [hv, h]

theorem sysStep_inv (p : Option (Pred ι μ)) (s : Sys ι μ) (st : Step ι μ) (h : SubInv p s) :
    SubInv p (sysStep true p s st) := by
  rcases s with ⟨items, pend, sub, t⟩
  obtain ⟨hn, hG, hsub⟩ := h
  simp only at hn hG hsub
  cases st with
  | commit op =>
    cases pend with
    | some c => exact ⟨hn, hG, hsub⟩
    | none =>
      have hs := stepOp_spec t hn op
      have hG' : ∀ c, (stepOp t items op).2 = some c →
          Shaped c ∧ apply c (viewOf (stepOp t items op).1) = viewOf (stepOp t items op).1 := by
        intro c hc
        rw [hc] at hs
        refine ⟨stepOp_shaped t items op c hc, ?_⟩
        rw [← hs.2.2, apply_idem]
      cases sub with
      | idle => exact ⟨hs.1, hG', trivial⟩
      | snapping seed => exact ⟨hn, hG, hsub⟩
      | listening seed recv =>
        obtain ⟨hns, V, hv, hV⟩ := hsub
        simp only at hV
        subst hV
        refine ⟨hs.1, hG', hns, viewOf items, hv, ?_⟩
        simp only [sysStep, Option.isSome_none, Sub.isSnapping, Bool.and_false, Bool.or_false,
          Bool.false_eq_true, if_false]
        cases hev : (stepOp t items op).2 with
        | none => rw [hev] at hs; simp only; rw [hs.2]
        | some c => rw [hev] at hs; exact ⟨hs.2.2, Or.inl hs.2.1⟩
  | publish =>
    cases pend with
    | none => exact ⟨hn, hG, hsub⟩
    | some c =>
      refine ⟨hn, fun c' h' => by simp [sysStep] at h', ?_⟩
      cases sub with
      | idle => trivial
      | snapping seed => exact hsub
      | listening seed recv =>
        obtain ⟨hns, V, hv, hap, hc⟩ := hsub
        refine ⟨hns, apply c V, ?_, hap⟩
        exact deliver_step p seed recv V c hv (hG c rfl).1 hc
  | deleteNow i =>
    cases pend with
    | some c => exact ⟨hn, hG, hsub⟩
    | none =>
      have hs := stepOp_spec t hn (.delete i)
      cases sub with
      | idle => exact ⟨hs.1, fun c h' => by simp [sysStep, Sub.isSnapping] at h', trivial⟩
      | snapping seed => exact ⟨hn, hG, hsub⟩
      | listening seed recv =>
        obtain ⟨hns, V, hv, hV⟩ := hsub
        simp only at hV
        subst hV
        refine ⟨hs.1, fun c h' => by simp [sysStep, Sub.isSnapping] at h', hns, ?_⟩
        simp only [sysStep, Option.isSome_none, Sub.isSnapping, Bool.and_false, Bool.or_false,
          Bool.false_eq_true, if_false, Sub.deliver]
        cases hev : (stepOp t items (.delete i)).2 with
        | none =>
          rw [hev] at hs
          refine ⟨viewOf items, by simpa using hv, ?_⟩
          rw [hs.2]
        | some c =>
          rw [hev] at hs
          refine ⟨apply c (viewOf items), ?_, hs.2.2⟩
          simp only [Option.toList_some]
          exact deliver_step p seed recv _ c hv (stepOp_shaped t items _ c hev) (Or.inl hs.2.1)
  | snapshot =>
    cases sub with
    | idle => exact ⟨hn, hG, rfl⟩
    | snapping seed => exact ⟨hn, hG, hsub⟩
    | listening seed recv => exact ⟨hn, hG, hsub⟩
  | listen =>
    cases sub with
    | idle => exact ⟨hn, hG, hsub⟩
    | listening seed recv => exact ⟨hn, hG, hsub⟩
    | snapping seed =>
      simp only at hsub
      subst hsub
      refine ⟨hn, hG, NodupKeys_filter _ hn, viewOf items, ?_, ?_⟩
      · simp only [subView, List.filterMap_nil, fold_nil]
        exact viewOf_itemSlice p items hn
      · cases pend with
        | none => rfl
        | some c => exact ⟨(hG c rfl).2, Or.inr (hG c rfl).2⟩

theorem sysRun_inv (p : Option (Pred ι μ)) (s : Sys ι μ) (sched : List (Step ι μ)) (h : SubInv p s) :
    SubInv p (sysRun true p s sched) := by
  induction sched generalizing s with
  | nil => exact h
  | cons st rest ih => exact ih _ (sysStep_inv p s st h)

end ScVerif.C08
