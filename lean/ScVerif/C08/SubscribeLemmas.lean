import ScVerif.C08.Subscribe
import ScVerif.C08.IncludeLemmas
/-! Lemmas for the concurrent subscribe model (helpers; no property theorems). -/
namespace ScVerif.C08
open ScVerif.C09

variable {ι μ : Type} [DecidableEq ι]

theorem subView_snoc (p : Option (Pred ι μ)) (seed : List (ι × μ)) (recv : List (Change ι μ))
    (c : Change ι μ) :
    subView p seed (recv ++ [c]) =
      match includeChange p c with
      | some d => apply d (subView p seed recv)
      | none => subView p seed recv := by
  simp only [subView, List.filterMap_append, fold_append]
  cases hi : includeChange p c <;> simp [hi]

/-- `S` is, id by id, the filter of `V0` or the filter of `T`. -/
def Near (p : Option (Pred ι μ)) (S V0 T : View ι μ) : Prop :=
  ∀ i, S i = filterView p V0 i ∨ S i = filterView p T i

omit [DecidableEq ι] in
theorem Near_self {p : Option (Pred ι μ)} {S T : View ι μ} (h : Near p S T T) : S = filterView p T := by
  funext i; rcases h i with h | h <;> exact h

/-- one delivered event `c`, well formed at the published view `T`: `Near` is kept towards `apply c T` -/
theorem Near_step (p : Option (Pred ι μ)) (S V0 T : View ι μ) (c : Change ι μ) (hc : WFChange T c)
    (h : Near p S V0 T) :
    Near p (match includeChange p c with | some d => apply d S | none => S) V0 (apply c T) := by
  have hw := include_wf p hc
  intro i
  cases hi : includeChange p c with
  | none =>
    rw [hi] at hw
    simp only at hw ⊢
    rcases h i with h | h
    · exact Or.inl h
    · right; rw [h, hw]
  | some d =>
    rw [hi] at hw
    simp only at hw ⊢
    by_cases hid : i = c.id
    · right
      have := congrFun hw.2.2 d.id
      rw [apply_same] at this
      subst hid
      rw [← hw.1, apply_same, this]
    · have hid' : i ≠ d.id := by rw [hw.1]; exact hid
      rw [apply_other d S hid']
      rcases h i with h | h
      · exact Or.inl h
      · right; rw [h, filterView_apply, filterView_apply, apply_other c T hid]

theorem deliver_wf (p : Option (Pred ι μ)) (S T : View ι μ) (c : Change ι μ) (hS : S = filterView p T)
    (hc : WFChange T c) :
    (match includeChange p c with | some d => apply d S | none => S) = filterView p (apply c T) := by
  have hw := include_wf p hc
  subst hS
  cases hi : includeChange p c with
  | none => rw [hi] at hw; simp only at hw ⊢; exact hw.symm
  | some d => rw [hi] at hw; simp only at hw ⊢; exact hw.2.2

/-- the events of one write: a well-formed history from the contents before to the contents after -/
theorem stepOp_toList_spec (t : Nat) {items : List (ι × μ)} (hn : NodupKeys items) (op : Op ι μ) :
    NodupKeys (stepOp t items op).1 ∧ WFHist (viewOf items) (stepOp t items op).2.toList ∧
    fold (stepOp t items op).2.toList (viewOf items) = viewOf (stepOp t items op).1 := by
  have hs := stepOp_spec t hn op
  cases hev : (stepOp t items op).2 with
  | none => rw [hev] at hs; exact ⟨hs.1, trivial, by rw [hs.2]; rfl⟩
  | some c => rw [hev] at hs; exact ⟨hs.1, ⟨hs.2.1, trivial⟩, by simpa [fold] using hs.2.2⟩

/-- The invariant of the concurrent system (code as it is: `locked = true`).  `T` is the PUBLISHED view:
the contents as of the last published commit; the pending events lead from it to the contents.  For a
registered subscriber `k` counts the pending events that were committed before it took its snapshot
(they are in its seed and will reach it all the same): its view is, id by id, the filter of the
snapshot `fold (pend.take k) T` or of the published view, and exactly the latter once `k = 0`. -/
def SubInv (p : Option (Pred ι μ)) (s : Sys ι μ) : Prop :=
  NodupKeys s.items ∧
  ∃ T : View ι μ, WFHist T s.pend ∧ fold s.pend T = viewOf s.items ∧
    match s.sub with
    | .idle => True
    | .snapping seed => seed = itemSlice p s.items
    | .listening seed recv =>
      NodupKeys seed ∧ ∃ k, k ≤ s.pend.length ∧
        Near p (subView p seed recv) (fold (s.pend.take k) T) T

theorem SubInv_init (p : Option (Pred ι μ)) (items : List (ι × μ)) (hn : NodupKeys items) :
    SubInv p (Sys.init items) :=
  ⟨hn, viewOf items, trivial, rfl, trivial⟩

theorem sysStep_inv (p : Option (Pred ι μ)) (s : Sys ι μ) (st : Step ι μ) (h : SubInv p s) :
    SubInv p (sysStep true p s st) := by
  rcases s with ⟨items, pend, sub, t⟩
  obtain ⟨hn, T, hwf, hfold, hsub⟩ := h
  simp only at hn hwf hfold hsub
  cases st with
  | commit op =>
    have hs := stepOp_toList_spec t hn op
    have hwf' : WFHist T (pend ++ (stepOp t items op).2.toList) := by
      rw [WFHist_append, hfold]; exact ⟨hwf, hs.2.1⟩
    have hfold' : fold (pend ++ (stepOp t items op).2.toList) T = viewOf (stepOp t items op).1 := by
      rw [fold_append, hfold]; exact hs.2.2
    cases sub with
    | idle => exact ⟨hs.1, T, hwf', hfold', trivial⟩
    | snapping seed => exact ⟨hn, T, hwf, hfold, hsub⟩
    | listening seed recv =>
      obtain ⟨hns, k, hk, hnear⟩ := hsub
      show SubInv p ⟨(stepOp t items op).1, pend ++ (stepOp t items op).2.toList, .listening seed recv, t + 1⟩
      refine ⟨hs.1, T, hwf', hfold', hns, k, ?_, ?_⟩
      · simp only [List.length_append]; omega
      · simp only
        rw [List.take_append_of_le_length hk]
        exact hnear
  | publish =>
    cases pend with
    | nil => exact ⟨hn, T, hwf, hfold, hsub⟩
    | cons c rest =>
      obtain ⟨hc, hrest⟩ := hwf
      refine ⟨hn, apply c T, hrest, hfold, ?_⟩
      cases sub with
      | idle => trivial
      | snapping seed => exact hsub
      | listening seed recv =>
        obtain ⟨hns, k, hk, hnear⟩ := hsub
        simp only [sysStep, Sub.deliver]
        refine ⟨hns, ?_⟩
        cases k with
        | zero =>
          refine ⟨0, Nat.zero_le _, ?_⟩
          have hS := Near_self (by simpa using hnear : Near p (subView p seed recv) T T)
          have := deliver_wf p _ T c hS hc
          rw [subView_snoc, this]
          intro i; exact Or.inr rfl
        | succ k' =>
          refine ⟨k', by simpa using hk, ?_⟩
          rw [subView_snoc]
          have := Near_step p _ _ T c hc hnear
          simpa [List.take_succ_cons] using this
  | deleteNow i =>
    cases pend with
    | cons c rest => exact ⟨hn, T, hwf, hfold, hsub⟩
    | nil =>
      have hT : T = viewOf items := hfold
      subst hT
      have hs := stepOp_toList_spec t hn (.delete i)
      cases sub with
      | idle => exact ⟨hs.1, _, trivial, rfl, trivial⟩
      | snapping seed => exact ⟨hn, _, hwf, hfold, hsub⟩
      | listening seed recv =>
        obtain ⟨hns, k, hk, hnear⟩ := hsub
        have hk0 : k = 0 := by simpa using hk
        subst hk0
        have hS := Near_self (by simpa using hnear : Near p (subView p seed recv) (viewOf items) (viewOf items))
        refine ⟨hs.1, viewOf (stepOp t items (.delete i)).1, trivial, rfl, hns, 0, Nat.le_refl _, ?_⟩
        simp only [sysStep, List.isEmpty_nil, Bool.not_true, Sub.isSnapping, Bool.and_false, Bool.or_false,
          Bool.false_eq_true, if_false, Sub.deliver, List.take_nil, fold_nil]
        have hsp := stepOp_spec t hn (.delete i)
        cases hev : (stepOp t items (.delete i)).2 with
        | none =>
          rw [hev] at hsp
          simp only [Option.toList_none, List.append_nil]
          rw [hsp.2, hS]
          intro j; exact Or.inr rfl
        | some c =>
          rw [hev] at hsp
          simp only [Option.toList_some]
          rw [subView_snoc, deliver_wf p _ _ c hS hsp.2.1, hsp.2.2]
          intro j; exact Or.inr rfl
  | snapshot =>
    cases sub with
    | idle => exact ⟨hn, T, hwf, hfold, rfl⟩
    | snapping seed => exact ⟨hn, T, hwf, hfold, hsub⟩
    | listening seed recv => exact ⟨hn, T, hwf, hfold, hsub⟩
  | listen =>
    cases sub with
    | idle => exact ⟨hn, T, hwf, hfold, hsub⟩
    | listening seed recv => exact ⟨hn, T, hwf, hfold, hsub⟩
    | snapping seed =>
      simp only at hsub
      subst hsub
      show SubInv p ⟨items, pend, .listening (itemSlice p items) [], t⟩
      refine ⟨hn, T, hwf, hfold, NodupKeys_filter _ hn, pend.length, Nat.le_refl _, ?_⟩
      intro i
      left
      simp only [subView, List.filterMap_nil, fold_nil, List.take_length, hfold]
      rw [viewOf_itemSlice p items hn]

theorem sysRun_inv (p : Option (Pred ι μ)) (s : Sys ι μ) (sched : List (Step ι μ)) (h : SubInv p s) :
    SubInv p (sysRun true p s sched) := by
  induction sched generalizing s with
  | nil => exact h
  | cons st rest ih => exact ih _ (sysStep_inv p s st h)

end ScVerif.C08
