import ScVerif.C08.PullId
import ScVerif.C08.PropsIntercept
/-!
C08 — the single-item subscription `Collection.PullID(ctx, id, opts...)` with the caller's include predicate
(`ScVerif/C08/PullId.lean`).  PullID forwards the caller's read options to `Collection.Pull` unchanged and
selects the changes of its id from that stream, so "pulling with an include predicate behaves as if the
collection contained only the items satisfying it" holds for the one item too: the subscriber holds exactly
the entry `List(WithInclude p)` has for the id, an item outside the filtered collection is never sent, and
the item leaving the FILTERED collection (a delete, or an update to a version that stops matching) ends the
stream as a delete does.

Only property theorems and their non-vacuity examples live in this file.
-/
namespace ScVerif.C08
open ScVerif.C09

variable {ι μ : Type} [DecidableEq ι] [DecidableEq μ]

/-- `PullID(id, WithInclude p, WithReadMask m)` against `List(WithInclude p, WithReadMask m)`: for every
predicate, projection, initial contents, history of writes (plain, re-entrant, deletes going round their retry
loop) and id, with `stream` what the underlying Pull produces: as long as PullID's loop has not closed the
stream, the value last sent (nothing, if nothing was sent) is exactly the entry the projected
`List(WithInclude p)` has for the id — in particular an item that is stored but does not satisfy `p` is not
sent — and the loop closes the stream iff at some step the item LEFT the subscriber's view of the filtered
collection (`everLeft`: present before the change, absent after). -/
theorem C08_pullid_matches_list (p : Option (Pred ι μ)) (proj : μ → μ) (items : List (ι × μ))
    (hn : NodupKeys items) (order : List (ι × μ)) (hperm : order.Perm (itemSlice p items))
    (t t' : Nat) (as : List (Act ι μ)) (i : ι) :
    let r := runActs t items as
    let stream := (seedFrom t' order).map (maskChange proj) ++ r.2.filterMap (pullEvent p proj)
    let out := pullIdLoop i stream
    (out.2 = false → held none out.1 = projView proj (viewOf (itemSlice p r.1)) i) ∧
    (out.2 = false → (out.1 = [] ↔ projView proj (viewOf (itemSlice p r.1)) i = none)) ∧
    out.2 = everLeft i View.empty stream := by
  have h := C08_pull_matches_list_reentrant p proj items hn order hperm t t' as
  simp only at h ⊢
  have hl := pullIdLoop_wf i _ View.empty h.1
  refine ⟨fun ho => ?_, fun ho => ?_, hl.2⟩
  · have := hl.1 ho; rw [h.2.1] at this; exact this
  · have := hl.1 ho; rw [h.2.1] at this
    rw [← this]
    generalize (pullIdLoop i _).1 = l
    cases l with
    | nil => simp [held, View.empty]
    | cons x xs =>
      simp only [held_cons, reduceCtorEq, false_iff]
      -- a non-empty list of sent values leaves a value held
      suffices ∀ (ys : List (μ × Bool)) (v : μ), held (some v) ys ≠ none from this xs x.1
      intro ys
      induction ys with
      | nil => intro v; simp [held]
      | cons y ys ih => intro v; rw [held_cons]; exact ih y.1

/-- An item outside the filtered collection is never sent: every value `PullID(id, WithInclude p, WithReadMask m)`
sends - as seed or later - is the projection of a stored version of THAT item that satisfies the caller's
predicate (`Matches`), for every predicate, projection, contents, history and id. -/
theorem C08_pullid_values_match (p : Option (Pred ι μ)) (proj : μ → μ) (items : List (ι × μ))
    (order : List (ι × μ)) (hperm : order.Perm (itemSlice p items))
    (t t' : Nat) (as : List (Act ι μ)) (i : ι) :
    let r := runActs t items as
    let stream := (seedFrom t' order).map (maskChange proj) ++ r.2.filterMap (pullEvent p proj)
    ∀ vb ∈ (pullIdLoop i stream).1, ∃ w, vb.1 = proj w ∧ Matches p i w := by
  intro r stream vb hvb
  obtain ⟨c, hc, hid, hk, hnew⟩ := pullIdLoop_mem i stream vb hvb
  rcases List.mem_append.mp hc with hs | he
  · obtain ⟨d, hd, rfl⟩ := List.mem_map.mp hs
    have hpair : (d.id, d.new) ∈ (seedFrom t' order).map (fun c => (c.id, c.new)) :=
      List.mem_map.mpr ⟨d, hd, rfl⟩
    rw [seedFrom_ids] at hpair
    obtain ⟨iv, hiv, heq⟩ := List.mem_map.mp hpair
    have hiv' : iv ∈ itemSlice p items := hperm.subset hiv
    have hex : exclude p iv.1 iv.2 = false := by
      have := (List.mem_filter.mp hiv').2
      simpa using this
    have h1 : iv.1 = d.id := (Prod.mk.inj heq).1
    have h2 : some iv.2 = d.new := (Prod.mk.inj heq).2
    refine ⟨iv.2, ?_, ?_⟩
    · simp only [maskChange, ← h2, Option.map_some] at hnew
      exact (Option.some.inj hnew).symm
    · have : (maskChange proj d).id = d.id := rfl
      rw [← hid, this, ← h1]
      exact matches_of_not_exclude p iv.1 iv.2 hex
  · obtain ⟨e, _, hpe⟩ := List.mem_filterMap.mp he
    simp only [pullEvent, Option.map_eq_some_iff] at hpe
    obtain ⟨d, hd, rfl⟩ := hpe
    have hk' : d.kind ≠ .remove := hk
    simp only [maskChange, Option.map_eq_some_iff] at hnew
    obtain ⟨w, hw, hpw⟩ := hnew
    refine ⟨w, hpw.symm, ?_⟩
    have : (maskChange proj d).id = d.id := rfl
    rw [← hid, this]
    exact includeChange_matches p e d hd hk' w hw

/-- The same on a collection with an id interceptor, the writers and the subscriber spelling ids as they like:
`PullID("DESK-2")` watches the item stored under `f "DESK-2"`; while the stream is open the subscriber holds
the projected `List(WithInclude p)` entry of THAT id. -/
theorem C08_pullid_matches_list_intercepted (f : ι → ι) (p : Option (Pred ι μ)) (proj : μ → μ)
    (items : List (ι × μ)) (hn : NodupKeys items) (hk : ∀ iv ∈ items, Canonical f iv.1)
    (order : List (ι × μ)) (hperm : order.Perm (itemSlice p items)) (t t' : Nat) (as : List (Act ι μ)) (i : ι) :
    let r := runActs t items (as.map (Act.canon f))
    let stream := (seedFrom t' order).map (maskChange proj) ++ r.2.filterMap (pullEvent p proj)
    let out := pullId f i stream
    (out.2 = false → held none out.1 = projView proj (viewOf (itemSlice p r.1)) (f i)) ∧
    out.2 = everLeft (f i) View.empty stream := by
  have h := C08_pull_matches_list_intercepted f p proj items hn hk order hperm t t' as
  simp only at h ⊢
  have hl := pullIdLoop_wf (f i) _ View.empty h.1
  refine ⟨fun ho => ?_, hl.2⟩
  have := hl.1 ho; rw [h.2.1] at this; exact this

/-- `PullID(id, WithInclude p)` WITHOUT backpressure (the default): the underlying Pull's stream goes through the
`mergeCollectionExcess` goroutine first.  For every predicate, contents, write history and EVERY recv/emit
pattern `ms` of that goroutine fed with exactly the published events: at every moment, while PullID's loop has
not closed the stream, the value last sent is the entry of the id in the fold of what the underlying Pull has
delivered so far; once everything pending has been taken that is the entry `List(WithInclude p)` has for the id
after the writes; and the loop closes the stream iff in the DELIVERED (merged) history the item left the
filtered collection at some step.  (Which of the item's intermediate versions are sent, and whether a
remove-and-re-add is seen as leaving, depends on the pattern: the merged stream is set-valued.) -/
theorem C08_pullid_lossy_matches_list (p : Option (Pred ι μ)) (items : List (ι × μ)) (hn : NodupKeys items)
    (order : List (ι × μ)) (hperm : order.Perm (itemSlice p items)) (t t' : Nat) (ops : List (Op ι μ))
    (ms : List (Move (Change ι μ))) (hms : inputs ms = (runOps t items ops).2) (i : ι) :
    let r := runOps t items ops
    let c := run Cfg.init ms
    let stream := seedFrom t' order ++ c.emitted.filterMap (includeChange p)
    let out := pullIdLoop i stream
    (out.2 = false → held none out.1 = fold stream View.empty i) ∧
    (out.2 = false → c.st.pending = [] → held none out.1 = viewOf (itemSlice p r.1) i) ∧
    out.2 = everLeft i View.empty stream := by
  have h := C08_pull_lossy_matches_list p items hn order hperm t t' ops ms hms
  simp only at h ⊢
  have hl := pullIdLoop_wf i _ View.empty h.1
  refine ⟨fun ho => hl.1 ho, fun ho hd => ?_, hl.2⟩
  have := hl.1 ho; rw [h.2 hd] at this; exact this

/-- What forwarding the caller's predicate is needed for (NOT the code: a PullID that narrows the underlying
Pull to its id by an include option of its own, which takes the single include slot the caller's predicate
was in).  Item 1 = 7 stored, the caller's predicate "values below 5": `List(WithInclude p)` does not list the
item, the narrowed PullID seeds it. -/
theorem C08_pullid_own_include_fails :
    let items : List (Nat × Nat) := [(1, 7)]
    let p : Pred Nat Nat := fun _ v => match v with | some x => decide (x < 5) | none => false
    let own : Pred Nat Nat := fun i _ => decide (i = 1)
    itemSlice (some p) items = [] ∧
    (pullIdLoop 1 (seed (some p) items)).1 = [] ∧
    (pullIdLoop 1 (seed (some own) items)).1 = [(7, true)] := by
  decide

-- non-vacuity: a stream that is sent a value, an update between matching versions, and is closed by the
-- update to a version that stops matching
example :
    let p : Pred Nat Nat := fun _ v => match v with | some x => decide (x < 5) | none => false
    let r := runActs 0 [(1, 2)] [Act.op (.update 1 3), Act.op (.update 2 1), Act.op (.update 1 9), Act.op (.update 1 4)]
    pullIdLoop 1 (seed (some p) [(1, 2)] ++ r.2.filterMap (pullEvent (some p) id)) = ([(2, true), (3, false)], true) := by
  decide

end ScVerif.C08
