import ScVerif.C08.Include
/-
C08 — concurrent model of subscribing with an include predicate while a writer is running.

Threads and their atomic steps (pkg/resource/collection.go):

* writers, any number of them:
  - `commit op`   `Update`/`Add`: `GetAndUpdate` saves under `c.mu.Lock()` and releases the lock; the
                  event exists but `c.bus.Send` has not run yet: it joins the queue `pend`
  - `publish`     a writer's `c.bus.Send(change)` AFTER the lock was released: every listener registered
                  at that moment receives the event.  Publications happen in commit order (`pend` is
                  FIFO): this is C03's `ordered` hypothesis — with several writers the real code can
                  publish out of commit order, which is C03's known finding, not this property's subject.
                  A single writer thread satisfies it by construction.
  - `deleteNow i` `Delete`: `delete(c.byId, id)` and `c.bus.Send(REMOVE)` both under `c.mu.Lock()`; enabled
                  only when nothing is pending (otherwise it would overtake a pending publication)
* the subscriber (`Collection.onUpdate`, called by `Pull`):
  - `snapshot`    `c.mu.RLock(); res = c.itemSlice(config)` — the include predicate is evaluated on every
                  stored item with the read lock held
  - `listen`      `c.bus.Listen(ctx)` and then the deferred `c.mu.RUnlock()`

Lock semantics: between `snapshot` and `listen` the subscriber holds the read lock, so the writer's
`commit` and `deleteNow` (which need the write lock) are DISABLED (`locked = true`, the code as it is); a
`publish` needs no collection lock and stays enabled.  A disabled step leaves the state unchanged (the
thread is blocked / the scheduler picked a thread that cannot move).  `locked = false` is the
hypothetical code that drops the lock before the predicate runs and before `Listen` (what
`C08_subscribe_needs_lock` shows to be wrong).
-/
namespace ScVerif.C08
open ScVerif.C09

variable {ι μ : Type}

inductive Sub (ι μ : Type) where
  | idle
  | snapping (seed : List (ι × μ))
  | listening (seed : List (ι × μ)) (recv : List (Change ι μ))

structure Sys (ι μ : Type) where
  items : List (ι × μ)
  pend : List (Change ι μ)
  sub : Sub ι μ
  t : Nat

inductive Step (ι μ : Type) where
  | commit (op : Op ι μ)
  | publish
  | deleteNow (i : ι)
  | snapshot
  | listen

def Sub.isSnapping : Sub ι μ → Bool
  | .snapping _ => true
  | _ => false

def Sub.deliver (s : Sub ι μ) (evs : List (Change ι μ)) : Sub ι μ :=
  match s with
  | .listening seed recv => .listening seed (recv ++ evs)
  | other => other

variable [DecidableEq ι]

def sysStep (locked : Bool) (p : Option (Pred ι μ)) (s : Sys ι μ) : Step ι μ → Sys ι μ
  | .commit op =>
    if locked && s.sub.isSnapping then s
    else
      let r := stepOp s.t s.items op
      { s with items := r.1, pend := s.pend ++ r.2.toList, t := s.t + 1 }
  | .publish =>
    match s.pend with
    | [] => s
    | c :: rest => { s with pend := rest, sub := s.sub.deliver [c] }
  | .deleteNow i =>
    if !s.pend.isEmpty || (locked && s.sub.isSnapping) then s
    else
      let r := stepOp s.t s.items (.delete i)
      { s with items := r.1, sub := s.sub.deliver r.2.toList, t := s.t + 1 }
  | .snapshot =>
    match s.sub with
    | .idle => { s with sub := .snapping (itemSlice p s.items) }
    | _ => s
  | .listen =>
    match s.sub with
    | .snapping seed => { s with sub := .listening seed [] }
    | _ => s

def sysRun (locked : Bool) (p : Option (Pred ι μ)) (s : Sys ι μ) (sched : List (Step ι μ)) : Sys ι μ :=
  sched.foldl (sysStep locked p) s

def Sys.init (items : List (ι × μ)) : Sys ι μ := ⟨items, [], .idle, 0⟩

def subView (p : Option (Pred ι μ)) (seed : List (ι × μ)) (recv : List (Change ι μ)) : View ι μ :=
  fold (recv.filterMap (includeChange p)) (viewOf seed)

end ScVerif.C08
