import ScVerif.C09.MachineLemmas
import ScVerif.C08.Include
/-! Lemmas for C08 (helpers; no property theorems). -/
namespace ScVerif.C08
open ScVerif.C09

variable {ι μ : Type} [DecidableEq ι]

/-- The filtered value: what the filtered collection holds at `i` when the collection holds `v`. -/
def filt (p : Option (Pred ι μ)) (i : ι) (v : Option μ) : Option μ :=
  match v with
  | some x => if exclude p i x then none else some x
  | none => none

omit [DecidableEq ι] in
theorem filterView_apply (p : Option (Pred ι μ)) (s : View ι μ) (i : ι) :
    filterView p s i = filt p i (s i) := by
  unfold filterView filt
  cases s i <;> rfl

theorem filterView_set (p : Option (Pred ι μ)) (s : View ι μ) (i : ι) (v : Option μ) :
    filterView p (s.set i v) = (filterView p s).set i (filt p i v) := by
  funext j
  by_cases h : j = i
  · subst h; simp [filterView_apply]
  · simp [filterView_apply, View.set, h]

omit [DecidableEq ι] in
theorem filterView_none (s : View ι μ) : filterView (none : Option (Pred ι μ)) s = s := by
  funext j
  simp only [filterView, exclude]
  cases s j <;> simp

omit [DecidableEq ι] in
theorem filterView_empty (p : Option (Pred ι μ)) : filterView p (View.empty : View ι μ) = View.empty := by
  funext j; simp [filterView, View.empty]

theorem set_eq_self {s : View ι μ} {i : ι} {v : Option μ} (h : s i = v) : s.set i v = s := by
  rw [← h]; exact set_self s i

/-- The per-change heart of C08: `include` maps a change that is well formed at a view to a change that
is well formed at the filtered view and has the filtered effect; when it forwards nothing the
filtered view does not change. -/
theorem include_wf (p : Option (Pred ι μ)) {s : View ι μ} {c : Change ι μ} (hc : WFChange s c) :
    match includeChange p c with
    | some d => d.id = c.id ∧ WFChange (filterView p s) d ∧
        apply d (filterView p s) = filterView p (apply c s)
    | none => filterView p (apply c s) = filterView p s := by
  cases p with
  | none =>
    simp [includeChange, filterView_none, hc]
  | some f =>
    rcases c with ⟨ci, ck, ct, co, cn, cs, cl⟩
    have hset := filterView_set (some f) s ci
    have hfv := filterView_apply (some f) s ci
    cases ck <;> simp only [WFChange] at hc
    · -- add
      obtain ⟨hs, h2, h3⟩ := hc
      subst h2
      cases cn with
      | none => simp at h3
      | some v =>
        cases hf : f ci (some v) <;>
          simp [includeChange, hf, WFChange, apply, hset, filt, exclude, hfv, hs] <;>
          exact set_eq_self (by simp [hfv, hs, filt])
    · -- update
      obtain ⟨h1, h2, h3⟩ := hc
      cases hs : s ci with
      | none => simp [hs] at h1
      | some o =>
        rw [hs] at h2; subst h2
        cases cn with
        | none => simp at h3
        | some v =>
          cases hf : f ci (some v) <;> cases hg : f ci (some o) <;>
            simp [includeChange, hf, hg, WFChange, apply, hset, filt, exclude, hfv, hs] <;>
            exact set_eq_self (by simp [hfv, hs, filt, exclude, hg])
    · -- remove
      obtain ⟨h1, h2, h3⟩ := hc
      subst h3
      cases hs : s ci with
      | none => simp [hs] at h1
      | some o =>
        rw [hs] at h2; subst h2
        cases hg : f ci (some o) <;>
          simp [includeChange, hg, WFChange, apply, hset, filt, exclude, hfv, hs] <;>
          exact set_eq_self (by simp [hfv, hs, filt, exclude, hg])
    · -- replace
      obtain ⟨h1, h2, h3⟩ := hc
      cases hs : s ci with
      | none => simp [hs] at h1
      | some o =>
        rw [hs] at h2; subst h2
        cases cn with
        | none => simp at h3
        | some v =>
          cases hf : f ci (some v) <;> cases hg : f ci (some o) <;>
            simp [includeChange, hf, hg, WFChange, apply, hset, filt, exclude, hfv, hs] <;>
            exact set_eq_self (by simp [hfv, hs, filt, exclude, hg])

/-- The filtered stream of a well-formed history is a well-formed history of the filtered view, and
folds to the filter of the fold. -/
theorem include_hist (p : Option (Pred ι μ)) (s : View ι μ) (cs : List (Change ι μ)) (h : WFHist s cs) :
    WFHist (filterView p s) (cs.filterMap (includeChange p)) ∧
    fold (cs.filterMap (includeChange p)) (filterView p s) = filterView p (fold cs s) := by
  induction cs generalizing s with
  | nil => exact ⟨trivial, rfl⟩
  | cons c cs ih =>
    obtain ⟨hc, hcs⟩ := h
    have hi := include_wf p hc
    have := ih (apply c s) hcs
    cases hinc : includeChange p c with
    | none =>
      rw [hinc] at hi
      simp only [List.filterMap_cons, hinc, fold_cons]
      rw [← hi]; exact this
    | some d =>
      rw [hinc] at hi
      obtain ⟨_, hd, hap⟩ := hi
      simp only [List.filterMap_cons, hinc, fold_cons, WFHist]
      rw [hap]
      exact ⟨⟨hd, this.1⟩, this.2⟩

/-! ### the collection as a list of (id, value) pairs -/

theorem lookup_filter_ne (l : List (ι × μ)) (i j : ι) :
    (l.filter (fun jv => jv.1 ≠ i)).lookup j = if j = i then none else l.lookup j := by
  induction l with
  | nil => simp
  | cons kv l ih =>
    obtain ⟨k, v⟩ := kv
    by_cases hk : k = i
    · subst hk
      by_cases hj : j = k
      · subst hj; simpa using ih
      · simp only [ne_eq, not_true_eq_false, decide_false, Bool.false_eq_true, not_false_eq_true,
          List.filter_cons_of_neg, List.lookup_cons]
        have : (j == k) = false := by simpa using hj
        rw [ih, this]
    · simp only [ne_eq, hk, not_false_eq_true, decide_true, List.filter_cons_of_pos, List.lookup_cons]
      by_cases hj : j = k
      · subst hj; simp [hk]
      · have : (j == k) = false := by simpa using hj
        rw [this, ih]

theorem viewOf_eraseKey (i : ι) (items : List (ι × μ)) :
    viewOf (eraseKey i items) = (viewOf items).set i none := by
  funext j
  simp only [viewOf, eraseKey, View.set, lookup_filter_ne]

theorem viewOf_setKey (i : ι) (v : μ) (items : List (ι × μ)) :
    viewOf (setKey i v items) = (viewOf items).set i (some v) := by
  funext j
  simp only [viewOf, setKey, eraseKey, View.set, List.lookup_cons, lookup_filter_ne]
  by_cases hj : j = i
  · subst hj; simp
  · have : (j == i) = false := by simpa using hj
    simp [this, hj]

theorem NodupKeys_eraseKey (i : ι) {items : List (ι × μ)} (h : NodupKeys items) :
    NodupKeys (eraseKey i items) := by
  unfold NodupKeys eraseKey at *
  exact (List.Sublist.map _ List.filter_sublist).nodup h

omit [DecidableEq ι] in
theorem NodupKeys_filter (q : ι × μ → Bool) {items : List (ι × μ)} (h : NodupKeys items) :
    NodupKeys (items.filter q) := by
  unfold NodupKeys at *
  exact (List.Sublist.map _ List.filter_sublist).nodup h

theorem NodupKeys_setKey (i : ι) (v : μ) {items : List (ι × μ)} (h : NodupKeys items) :
    NodupKeys (setKey i v items) := by
  have h' := NodupKeys_eraseKey i h
  unfold NodupKeys setKey at *
  simp only [List.map_cons, List.nodup_cons]
  refine ⟨?_, h'⟩
  simp [eraseKey]

/-- One write: keys stay distinct, the published event (if any) is well formed at the old contents and
leads to the new contents; a failed write changes nothing. -/
theorem stepOp_spec (t : Nat) {items : List (ι × μ)} (hn : NodupKeys items) (op : Op ι μ) :
    NodupKeys (stepOp t items op).1 ∧
    match (stepOp t items op).2 with
    | some c => WFChange (viewOf items) c ∧ apply c (viewOf items) = viewOf (stepOp t items op).1
    | none => (stepOp t items op).1 = items := by
  cases op with
  | add i v =>
    simp only [stepOp]
    cases hl : items.lookup i with
    | some o => exact ⟨hn, rfl⟩
    | none =>
      refine ⟨NodupKeys_setKey i v hn, ?_, ?_⟩
      · simp [WFChange, mkChange, viewOf, hl]
      · simp [apply, mkChange, viewOf_setKey]
  | update i v =>
    simp only [stepOp]
    cases hl : items.lookup i with
    | none => exact ⟨hn, rfl⟩
    | some o =>
      refine ⟨NodupKeys_setKey i v hn, ?_, ?_⟩
      · simp [WFChange, mkChange, viewOf, hl]
      · simp [apply, mkChange, viewOf_setKey]
  | upsert i v =>
    simp only [stepOp]
    cases hl : items.lookup i with
    | none =>
      refine ⟨NodupKeys_setKey i v hn, ?_, ?_⟩
      · simp [WFChange, mkChange, viewOf, hl]
      · simp [apply, mkChange, viewOf_setKey]
    | some o =>
      refine ⟨NodupKeys_setKey i v hn, ?_, ?_⟩
      · simp [WFChange, mkChange, viewOf, hl]
      · simp [apply, mkChange, viewOf_setKey]
  | delete i =>
    simp only [stepOp]
    cases hl : items.lookup i with
    | none => exact ⟨hn, rfl⟩
    | some o =>
      refine ⟨NodupKeys_eraseKey i hn, ?_, ?_⟩
      · simp [WFChange, mkChange, viewOf, hl]
      · simp [apply, mkChange, viewOf_eraseKey]

/-- A write history publishes a well-formed history from the initial contents to the final contents. -/
theorem runOps_spec (t : Nat) {items : List (ι × μ)} (hn : NodupKeys items) (ops : List (Op ι μ)) :
    NodupKeys (runOps t items ops).1 ∧ WFHist (viewOf items) (runOps t items ops).2 ∧
    fold (runOps t items ops).2 (viewOf items) = viewOf (runOps t items ops).1 := by
  induction ops generalizing t items with
  | nil => exact ⟨hn, trivial, rfl⟩
  | cons op ops ih =>
    have hs := stepOp_spec t hn op
    have hr := ih (t + 1) hs.1
    simp only [runOps]
    cases hev : (stepOp t items op).2 with
    | none =>
      rw [hev] at hs
      simp only [Option.toList_none, List.nil_append]
      rw [hs.2] at hr
      rw [hs.2]
      exact hr
    | some c =>
      rw [hev] at hs
      obtain ⟨hn', hwf, hap⟩ := hs
      simp only [Option.toList_some, List.singleton_append, WFHist, fold_cons]
      rw [hap]
      exact ⟨hr.1, ⟨hwf, hr.2.1⟩, hr.2.2⟩

/-! ### seeds and List -/

omit [DecidableEq ι] in
theorem seedFrom_ids (t : Nat) (l : List (ι × μ)) :
    (seedFrom t l).map (fun c => (c.id, c.new)) = l.map (fun iv => (iv.1, some iv.2)) := by
  induction l with
  | nil => rfl
  | cons iv l ih =>
    cases l with
    | nil => simp [seedFrom]
    | cons jv l => simp only [seedFrom, List.map_cons] at ih ⊢; rw [ih]

omit [DecidableEq ι] in
theorem seedFrom_shape (t : Nat) (l : List (ι × μ)) :
    ∀ c ∈ seedFrom t l, c.kind = .add ∧ c.old = none ∧ c.new.isSome = true ∧ c.seed = true := by
  induction l with
  | nil => simp [seedFrom]
  | cons iv l ih =>
    cases l with
    | nil => simp [seedFrom]
    | cons jv l =>
      intro c hc
      simp only [seedFrom, List.mem_cons] at hc ih
      rcases hc with rfl | hc
      · simp
      · exact ih c hc

/-- Folding seed ADDs of distinct ids into a view that holds none of them. -/
theorem seed_fold (t : Nat) (l : List (ι × μ)) (s : View ι μ) (hn : NodupKeys l)
    (hs : ∀ iv ∈ l, s iv.1 = none) :
    WFHist s (seedFrom t l) ∧ ∀ i, fold (seedFrom t l) s i = (match l.lookup i with | some v => some v | none => s i) := by
  induction l generalizing s with
  | nil => exact ⟨trivial, fun i => rfl⟩
  | cons iv l ih =>
    obtain ⟨k, v⟩ := iv
    have hn' : NodupKeys l := by
      unfold NodupKeys at *; simp only [List.map_cons, List.nodup_cons] at hn; exact hn.2
    have hk : ∀ jv ∈ l, jv.1 ≠ k := by
      intro jv hj he
      unfold NodupKeys at hn
      simp only [List.map_cons, List.nodup_cons] at hn
      exact hn.1 (by rw [← he]; exact List.mem_map_of_mem hj)
    -- the head event, whichever of the two `seedFrom` equations applies
    have hhead : ∃ ls, seedFrom t ((k, v) :: l) =
        ({ id := k, kind := .add, time := t, old := none, new := some v, seed := true, lastSeed := ls } : Change ι μ)
          :: seedFrom t l := by
      cases l with
      | nil => exact ⟨true, rfl⟩
      | cons jv l => exact ⟨false, rfl⟩
    obtain ⟨ls, hh⟩ := hhead
    rw [hh]
    have hsk : s k = none := hs (k, v) (by simp)
    have hs' : ∀ jv ∈ l, (apply ({ id := k, kind := .add, time := t, old := none, new := some v, seed := true, lastSeed := ls } : Change ι μ) s) jv.1 = none := by
      intro jv hj
      rw [apply_other _ _ (hk jv hj)]
      exact hs jv (by simp [hj])
    obtain ⟨hw, hf⟩ := ih _ hn' hs'
    refine ⟨⟨by simp [WFChange, hsk], hw⟩, ?_⟩
    intro i
    rw [fold_cons, hf i]
    simp only [List.lookup_cons]
    by_cases hi : i = k
    · subst hi
      have hl : l.lookup i = none := by
        cases hl : l.lookup i with
        | none => rfl
        | some w =>
          exfalso
          have hm : (i, w) ∈ l := by
            clear ih hf hw hs' hh hn' hn hs hsk
            induction l with
            | nil => simp at hl
            | cons jv l ih2 =>
              obtain ⟨j, u⟩ := jv
              simp only [List.lookup_cons] at hl
              by_cases hji : i = j
              · subst hji; simp at hl; simp [hl]
              · have : (i == j) = false := by simpa using hji
                rw [this] at hl
                exact List.mem_cons_of_mem _ (ih2 (fun jv hj => hk jv (List.mem_cons_of_mem _ hj)) hl)
          exact hk (i, w) hm rfl
      simp [hl, apply]
    · have : (i == k) = false := by simpa using hi
      rw [this]
      cases l.lookup i with
      | some w => rfl
      | none => simp [apply, View.set, hi]

/-- With distinct keys, looking up in the filtered list is filtering the lookup. -/
theorem lookup_filter (q : ι → μ → Bool) (l : List (ι × μ)) (hn : NodupKeys l) (i : ι) :
    (l.filter (fun iv => q iv.1 iv.2)).lookup i =
      (match l.lookup i with | some v => if q i v then some v else none | none => none) := by
  induction l with
  | nil => simp
  | cons kv l ih =>
    obtain ⟨k, v⟩ := kv
    have hn' : NodupKeys l := by
      unfold NodupKeys at *; simp only [List.map_cons, List.nodup_cons] at hn; exact hn.2
    have hk : ∀ jv ∈ l, jv.1 ≠ k := by
      intro jv hj he
      unfold NodupKeys at hn
      simp only [List.map_cons, List.nodup_cons] at hn
      exact hn.1 (by rw [← he]; exact List.mem_map_of_mem hj)
    by_cases hi : i = k
    · subst hi
      have hnone : (l.filter (fun iv => q iv.1 iv.2)).lookup i = none := by
        cases hl : (l.filter (fun iv => q iv.1 iv.2)).lookup i with
        | none => rfl
        | some w =>
          exfalso
          have : ∀ (l' : List (ι × μ)), (∀ jv ∈ l', jv.1 ≠ i) → l'.lookup i = some w → False := by
            intro l' hl' h
            induction l' with
            | nil => simp at h
            | cons jv l' ih2 =>
              obtain ⟨j, u⟩ := jv
              have hji : i ≠ j := fun e => hl' (j, u) (by simp) e.symm
              have hb : (i == j) = false := by simpa using hji
              simp only [List.lookup_cons, hb] at h
              exact ih2 (fun jv hj => hl' jv (List.mem_cons_of_mem _ hj)) h
          exact this _ (fun jv hj => hk jv ((List.mem_filter.mp hj).1)) hl
      by_cases hq : q i v
      · simp [hq]
      · simp [hq, hnone]
    · have hb : (i == k) = false := by simpa using hi
      by_cases hq : q k v
      · simp only [List.filter_cons, hq, if_true, List.lookup_cons, hb]
        exact ih hn'
      · simp only [List.filter_cons, hq, Bool.false_eq_true, if_false, List.lookup_cons, hb]
        exact ih hn'

/-- `List(WithInclude p)` shows exactly the filtered collection. -/
theorem viewOf_itemSlice (p : Option (Pred ι μ)) (items : List (ι × μ)) (hn : NodupKeys items) :
    viewOf (itemSlice p items) = filterView p (viewOf items) := by
  funext i
  simp only [viewOf, itemSlice, filterView]
  rw [lookup_filter (fun i v => !exclude p i v) items hn i]
  cases items.lookup i with
  | none => rfl
  | some v => cases hex : exclude p i v <;> simp [hex]

theorem lookup_eq_some_iff_mem (l : List (ι × μ)) (hn : NodupKeys l) (i : ι) (v : μ) :
    l.lookup i = some v ↔ (i, v) ∈ l := by
  induction l with
  | nil => simp
  | cons kv l ih =>
    obtain ⟨k, w⟩ := kv
    have hn' : NodupKeys l := by
      unfold NodupKeys at *; simp only [List.map_cons, List.nodup_cons] at hn; exact hn.2
    have hk : ∀ jv ∈ l, jv.1 ≠ k := by
      intro jv hj he
      unfold NodupKeys at hn
      simp only [List.map_cons, List.nodup_cons] at hn
      exact hn.1 (by rw [← he]; exact List.mem_map_of_mem hj)
    simp only [List.lookup_cons, List.mem_cons, Prod.mk.injEq]
    by_cases hi : i = k
    · subst hi
      simp only [beq_self_eq_true, Option.some.injEq, true_and]
      constructor
      · intro h; exact Or.inl h.symm
      · rintro (h | h)
        · exact h.symm
        · exact absurd rfl (hk (i, v) h)
    · have hb : (i == k) = false := by simpa using hi
      simp only [hb, hi, false_and, false_or]
      exact ih hn'

theorem viewOf_perm {l l' : List (ι × μ)} (hn : NodupKeys l) (hp : l'.Perm l) : viewOf l' = viewOf l := by
  have hn' : NodupKeys l' := by
    unfold NodupKeys at *
    exact ((hp.map Prod.fst).nodup_iff).mpr hn
  funext i
  simp only [viewOf]
  cases h : l.lookup i with
  | some v =>
    exact (lookup_eq_some_iff_mem l' hn' i v).mpr (hp.mem_iff.mpr ((lookup_eq_some_iff_mem l hn i v).mp h))
  | none =>
    cases h' : l'.lookup i with
    | none => rfl
    | some v =>
      have := (lookup_eq_some_iff_mem l hn i v).mpr (hp.mem_iff.mp ((lookup_eq_some_iff_mem l' hn' i v).mp h'))
      rw [h] at this; cases this

/-- The decision table of `include` in the property's own terms: matching before/after = the id is in
the filtered collection before/after the change. -/
theorem include_table (f : Pred ι μ) {s : View ι μ} {c : Change ι μ} (hc : WFChange s c) :
    let oldIn := (filterView (some f) s c.id).isSome
    let newIn := (filterView (some f) (apply c s) c.id).isSome
    (oldIn = true → newIn = true → includeChange (some f) c = some c) ∧
    (oldIn = false → newIn = true → ∃ d, includeChange (some f) c = some d ∧ d.id = c.id ∧
        d.kind = .add ∧ d.old = none ∧ d.new = c.new ∧ d.time = c.time) ∧
    (oldIn = true → newIn = false → ∃ d, includeChange (some f) c = some d ∧ d.id = c.id ∧
        d.kind = .remove ∧ d.old = c.old ∧ d.new = none ∧ d.time = c.time) ∧
    (oldIn = false → newIn = false → includeChange (some f) c = none) := by
  rcases c with ⟨ci, ck, ct, co, cn, cs, cl⟩
  simp only [filterView_apply]
  cases ck <;> simp only [WFChange] at hc
  · obtain ⟨hs, h2, h3⟩ := hc
    subst h2
    cases cn with
    | none => simp at h3
    | some v => cases hf : f ci (some v) <;> simp [includeChange, hf, filt, exclude, hs, apply, View.set]
  · obtain ⟨h1, h2, h3⟩ := hc
    cases hs : s ci with
    | none => simp [hs] at h1
    | some o =>
      rw [hs] at h2; subst h2
      cases cn with
      | none => simp at h3
      | some v =>
        cases hf : f ci (some v) <;> cases hg : f ci (some o) <;>
          simp [includeChange, hf, hg, filt, exclude, hs, apply, View.set]
  · obtain ⟨h1, h2, h3⟩ := hc
    subst h3
    cases hs : s ci with
    | none => simp [hs] at h1
    | some o =>
      rw [hs] at h2; subst h2
      cases hg : f ci (some o) <;> simp [includeChange, hg, filt, exclude, hs, apply, View.set]
  · obtain ⟨h1, h2, h3⟩ := hc
    cases hs : s ci with
    | none => simp [hs] at h1
    | some o =>
      rw [hs] at h2; subst h2
      cases cn with
      | none => simp at h3
      | some v =>
        cases hf : f ci (some v) <;> cases hg : f ci (some o) <;>
          simp [includeChange, hf, hg, filt, exclude, hs, apply, View.set]

/-! ### read mask: projection after include -/

theorem projView_set (proj : μ → μ) (s : View ι μ) (i : ι) (v : Option μ) :
    projView proj (s.set i v) = (projView proj s).set i (v.map proj) := by
  funext j
  by_cases h : j = i
  · subst h; simp [projView]
  · simp [projView, View.set, h]

theorem mask_wf (proj : μ → μ) {s : View ι μ} {c : Change ι μ} (hc : WFChange s c) :
    WFChange (projView proj s) (maskChange proj c) ∧
    apply (maskChange proj c) (projView proj s) = projView proj (apply c s) := by
  rcases c with ⟨ci, ck, ct, co, cn, cs, cl⟩
  refine ⟨?_, ?_⟩
  · cases ck <;> simp only [WFChange] at hc <;> simp only [WFChange, maskChange, projView]
    · obtain ⟨h1, h2, h3⟩ := hc
      simp [h1, h2, h3]
    · obtain ⟨h1, h2, h3⟩ := hc
      simp [h1, h2, h3]
    · obtain ⟨h1, h2, h3⟩ := hc
      simp [h1, h2, h3]
    · obtain ⟨h1, h2, h3⟩ := hc
      simp [h1, h2, h3]
  · simp only [apply, maskChange, projView_set]
    cases ck <;> simp

theorem mask_hist (proj : μ → μ) (s : View ι μ) (cs : List (Change ι μ)) (h : WFHist s cs) :
    WFHist (projView proj s) (cs.map (maskChange proj)) ∧
    fold (cs.map (maskChange proj)) (projView proj s) = projView proj (fold cs s) := by
  induction cs generalizing s with
  | nil => exact ⟨trivial, rfl⟩
  | cons c cs ih =>
    obtain ⟨hc, hcs⟩ := h
    have hm := mask_wf proj hc
    have := ih (apply c s) hcs
    simp only [List.map_cons, WFHist, fold_cons]
    rw [hm.2]
    exact ⟨⟨hm.1, this.1⟩, this.2⟩

omit [DecidableEq ι] in
theorem filterMap_pullEvent (p : Option (Pred ι μ)) (proj : μ → μ) (cs : List (Change ι μ)) :
    cs.filterMap (pullEvent p proj) = (cs.filterMap (includeChange p)).map (maskChange proj) := by
  induction cs with
  | nil => rfl
  | cons c cs ih =>
    simp only [List.filterMap_cons, pullEvent]
    cases includeChange p c with
    | none => simpa [pullEvent] using ih
    | some d => simpa [pullEvent] using ih

/-! ### equivalence after include and mask -/

theorem wf_old_new {V : View ι μ} {c : Change ι μ} (h : WFChange V c) :
    c.old = V c.id ∧ apply c V c.id = c.new := by
  rcases c with ⟨ci, ck, ct, co, cn, cs, cl⟩
  cases ck <;> simp only [WFChange] at h <;> simp [apply, h]
  all_goals simp_all

/-- Suppressing the changes whose old and new value the equivalence equates keeps the subscriber's view
`E`-related, id by id, to the true view — for a reflexive and transitive `E`. -/
theorem equiv_hist (E : Option μ → Option μ → Bool) (hrefl : ∀ a, E a a = true)
    (htrans : ∀ a b c, E a b = true → E b c = true → E a c = true)
    (U V : View ι μ) (hUV : ∀ i, E (U i) (V i) = true) (cs : List (Change ι μ)) (h : WFHist V cs) :
    ∀ i, E (fold (cs.filter (fun d => !E d.old d.new)) U i) (fold cs V i) = true := by
  induction cs generalizing U V with
  | nil => exact hUV
  | cons c cs ih =>
    obtain ⟨hc, hcs⟩ := h
    obtain ⟨hold, hnew⟩ := wf_old_new hc
    by_cases hE : E c.old c.new = true
    · simp only [List.filter_cons, hE, Bool.not_true, Bool.false_eq_true, if_false, fold_cons]
      apply ih U (apply c V) _ hcs
      intro i
      by_cases hi : i = c.id
      · subst hi
        rw [hnew]
        exact htrans _ _ _ (hUV c.id) (by rw [← hold]; exact hE)
      · rw [apply_other c V hi]; exact hUV i
    · have hE' : E c.old c.new = false := by simpa using hE
      simp only [List.filter_cons, hE', Bool.not_false, if_true, fold_cons]
      apply ih (apply c U) (apply c V) _ hcs
      intro i
      by_cases hi : i = c.id
      · subst hi
        rw [apply_same, apply_same]
        exact hrefl _
      · rw [apply_other c U hi, apply_other c V hi]; exact hUV i

omit [DecidableEq ι] in
theorem filterMap_pullStep (p : Option (Pred ι μ)) (proj : μ → μ) (E : Option μ → Option μ → Bool)
    (cs : List (Change ι μ)) :
    cs.filterMap (pullStep p proj (some E)) =
      (cs.filterMap (pullEvent p proj)).filter (fun d => !E d.old d.new) := by
  induction cs with
  | nil => rfl
  | cons c cs ih =>
    simp only [List.filterMap_cons, pullStep]
    cases hp : pullEvent p proj c with
    | none => simpa [pullStep] using ih
    | some d =>
      simp only [List.filter_cons]
      by_cases hE : E d.old d.new = true
      · simp only [hE, if_true, Bool.not_true, Bool.false_eq_true, if_false]
        simpa [pullStep] using ih
      · have hE' : E d.old d.new = false := by simpa using hE
        simp only [hE', Bool.false_eq_true, if_false, Bool.not_false, if_true]
        rw [← ih]

omit [DecidableEq ι] in
theorem filterMap_pullStep_none (p : Option (Pred ι μ)) (proj : μ → μ) (cs : List (Change ι μ)) :
    cs.filterMap (pullStep p proj none) = cs.filterMap (pullEvent p proj) := by
  induction cs with
  | nil => rfl
  | cons c cs ih =>
    simp only [List.filterMap_cons, pullStep]
    cases hp : pullEvent p proj c with
    | none => simpa [pullStep] using ih
    | some d => simp only; rw [← ih]

/-- include ▸ mask on a well-formed history: well formed on the masked filtered view, folding to the
masked filter of the fold. -/
theorem pullEvent_hist (p : Option (Pred ι μ)) (proj : μ → μ) (s : View ι μ) (cs : List (Change ι μ))
    (h : WFHist s cs) :
    WFHist (projView proj (filterView p s)) (cs.filterMap (pullEvent p proj)) ∧
    fold (cs.filterMap (pullEvent p proj)) (projView proj (filterView p s)) =
      projView proj (filterView p (fold cs s)) := by
  have hi := include_hist p s cs h
  have hm := mask_hist proj (filterView p s) _ hi.1
  rw [filterMap_pullEvent]
  exact ⟨hm.1, by rw [hm.2, hi.2]⟩

end ScVerif.C08
