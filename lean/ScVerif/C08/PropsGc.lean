import ScVerif.C08.SubscribeGcLemmas
import ScVerif.C08.PropsConc
/-!
C08 — subscribing with an include predicate on a bus that holds CANCELLED, not yet collected listeners.

`ScVerif/C08/SubscribeGc.lean`: the many-subscriber system with `Bus.Send` taken apart, the bus's listener slice
`b.listeners`, cancellation of subscribers (at any moment) and `Bus.collect` as a step of its own.  A filtered
Pull must go on being sent every published change however many other subscribers have come and gone, and
whenever they are garbage collected.
-/
namespace ScVerif.C08
open ScVerif.C09

variable {ι μ : Type} [DecidableEq ι]

/-- The bus's bookkeeping, for EVERY schedule of writers, subscribers (registering, being cancelled) and Sends
(copy, deliveries, collect, with anything in between): `b.listeners` lists nobody twice, lists only subscribers
that have registered, and lists every registered subscriber whose context is live - `collect` never drops a
live listener, whenever it registered. -/
theorem C08_bus_keeps_live_listeners (preds : List (Option (Pred ι μ))) (items : List (ι × μ)) (n : Nat)
    (sched : List (GStep ι μ)) :
    let s := gsysRun false preds (GSys.init items n) sched
    s.listeners.Nodup ∧
    (∀ k ∈ s.listeners, (s.subs.getD k .idle).isListening = true) ∧
    (∀ k, (s.subs.getD k .idle).isListening = true → k ∉ s.dead → k ∈ s.listeners) := by
  have h := gsysRun_inv preds (GSys.init items n) sched (GInv_init items n)
  exact ⟨h.nodup, h.listening, h.registered⟩

/-- `C08_subscribe_atomic_split_send` on a bus with cancelled listeners and garbage collection: any number of
writers (commits under the lock, publications after it in commit order), any number of subscribers taking seed
and `Listen` under the shared read lock, ANY of them cancelled at ANY moment, `Bus.Send` taken apart into the
copy of `b.listeners`, one delivery per step (a cancelled listener is skipped and remembered) and the final
`collect`, other threads moving between any two of these steps.  For EVERY schedule and every subscriber `j`
that has not been cancelled: its seed is its filtered list under the lock; its fold is id by id the filter of
the snapshot or of the view published to it; and whenever nothing is on its way to it, seed ++ filtered events
folds to `List(WithInclude preds[j])`. -/
theorem C08_subscribe_atomic_gc [DecidableEq μ] (preds : List (Option (Pred ι μ))) (items : List (ι × μ))
    (hn : NodupKeys items) (n : Nat) (sched : List (GStep ι μ)) (j : Nat)
    (hlive : j ∉ (gsysRun false preds (GSys.init items n) sched).dead) :
    let s := gsysRun false preds (GSys.init items n) sched
    let p := preds.getD j none
    let pend := s.pendFor j
    match s.subs.getD j .idle with
    | .idle => True
    | .snapping seed => seed = itemSlice p s.items
    | .listening seed recv =>
      (∃ (T : View ι μ) (k : Nat), k ≤ pend.length ∧ WFHist T pend ∧
        fold pend T = viewOf s.items ∧
        (∀ i, subView p seed recv i = filterView p (fold (pend.take k) T) i ∨
              subView p seed recv i = filterView p T i) ∧
        (k = 0 → subView p seed recv = filterView p T)) ∧
      (pend = [] → ∀ (order : List (ι × μ)) (t : Nat), order.Perm seed →
        fold (seedFrom t order ++ recv.filterMap (includeChange p)) View.empty
          = viewOf (itemSlice p s.items) ∧
        viewOf (itemSlice p s.items) = filterView p (viewOf s.items)) := by
  obtain ⟨sched', h⟩ := gsysRun_proj preds (GSys.init items n) sched j (GInv_init items n) hlive
  have hinit : (GSys.init items n : GSys ι μ).proj j = Sys.init items := by
    simp only [GSys.proj, GSys.pendFor, GSys.init, Sys.init, Sys.mk.injEq, true_and, and_true, List.append_nil]
    by_cases hj : j < n
    · simp [List.getD, hj]
    · simp [List.getD, hj]
  have this := C08_subscribe_atomic (preds.getD j none) items hn sched'
  rw [← hinit, ← h] at this
  exact this

/-- slot 2 is a ghost (registers, is cancelled at once); subscriber 0 registers; a commit's Send copies the
listener slice [2, 0]; subscriber 1 takes its seed and registers; the Send skips the ghost, serves subscriber 0
and collects; a second commit is sent -/
private def lateJoinerSched : List (GStep Nat Nat) :=
  [.snapshot 2, .listen 2, .cancel 2, .snapshot 0, .listen 0, .commit (.update 1 20), .sendStart,
   .snapshot 1, .listen 1, .sendNext, .sendNext, .collect,
   .commit (.update 1 30), .sendStart, .sendNext, .sendNext]

/-- What `collect` must scan: a `collect` that filters the copy the Send has just walked and stores THAT as
`b.listeners` (`inPlace = true`, NOT the code) unsubscribes whoever registered since the copy was taken.
Subscriber 1 registered during the Send: afterwards it is live and registered but no longer in `b.listeners`;
the next update (20 → 30) is published and nothing is on its way to it, yet it was sent nothing: it holds
item 1 = 20 for ever while the collection has 30.  With the code's `collect` it stays listed and is sent it. -/
theorem C08_gc_collect_copy_fails :
    let bad := gsysRun true [none, none] (GSys.init [((1 : Nat), (10 : Nat))] 3) lateJoinerSched
    let good := gsysRun false [none, none] (GSys.init [((1 : Nat), (10 : Nat))] 3) lateJoinerSched
    bad.listeners = [0] ∧ 1 ∉ bad.dead ∧ bad.pendFor 1 = [] ∧ bad.items = [(1, 30)] ∧
    (match bad.subs.getD 1 .idle with
      | .listening seed recv => (seed, recv.map (fun (c : Change Nat Nat) => (c.old, c.new)))
      | _ => ([], [])) = ([(1, 20)], []) ∧
    good.listeners = [0, 1] ∧ good.pendFor 1 = [] ∧ good.collects = 1 ∧
    (match good.subs.getD 1 .idle with
      | .listening seed recv => (seed, recv.map (fun (c : Change Nat Nat) => (c.old, c.new)))
      | _ => ([], [])) = ([(1, 20)], [(some 20, some 30)]) := by
  decide

/-! ### non-vacuity -/

/-- the hypothesis `j ∉ dead` of `C08_subscribe_atomic_gc` holds for subscribers 0 and 1 of the run above while
the ghost is dead, found by the Send and collected -/
example :
    (gsysRun false [none, none] (GSys.init [((1 : Nat), (10 : Nat))] 3) lateJoinerSched).dead = [2] ∧
    (gsysRun false [none, none] (GSys.init [((1 : Nat), (10 : Nat))] 3) (lateJoinerSched.take 11)).gcDue = true ∧
    (gsysRun false [none, none] (GSys.init [((1 : Nat), (10 : Nat))] 3) (lateJoinerSched.take 11)).listeners
      = [2, 0, 1] := by
  decide

/-- a subscriber cancelled WHILE an event is in flight towards it is skipped, and a `Delete` (which sends under
the write lock) collects it in the same step -/
example :
    let s := gsysRun false [none, none] (GSys.init [((1 : Nat), (10 : Nat))] 2)
      [.snapshot 0, .listen 0, .snapshot 1, .listen 1, .commit (.update 1 20), .sendStart, .cancel 0,
       .sendNext, .sendNext, .collect, .snapshot 0, .listen 0, .cancel 1, .deleteNow 1]
    s.listeners = [] ∧ s.collects = 2 ∧ s.dead = [1, 0] ∧
    (match s.subs.getD 1 .idle with
      | .listening _ recv => recv.map (fun (c : Change Nat Nat) => (c.old, c.new))
      | _ => []) = [(some 10, some 20)] := by
  decide

end ScVerif.C08
