import ScVerif.C08.Include
/-!
C08 — several `Pull` subscribers on ONE collection: the bus hands out ONE event object.

`minibus.Bus.Send` copies the listener slice and then, for each listener in subscription order,
`l.send(ctx, event)` — the SAME `*CollectionChange` pointer for all of them (internal/minibus/bus.go).
With `WithBackpressure(true)` `onUpdate` returns the bus channel itself, so the forwarding loop of
`Collection.Pull` works on that very object:

```go
for event := range emit {
    change := event.(*CollectionChange)
    change, ok := change.include(readConfig.Include)   // returns `c` itself, or a NEW ADD / REMOVE change
    if !ok { continue }
    change = change.filter(filter)                      // returns `c` itself, or a NEW change carrying masked clones
    if c.equivalence != nil && c.equivalence.Compare(change.OldValue, change.NewValue) { continue }
    send <- change
}
```

* `turnShared`   one turn of that loop on the shared object: what the object looks like afterwards (the code
                 never writes to it: `include` and `filter` build new changes) and what is sent on
* `deliver`      `Bus.Send`: the object goes through the subscribers' turns in subscription order
* `BusStep/busRun`  a collection's life as the subscribers see it: events are published, subscribers join
* `turnInPlace/deliverInPlace`  NOT the code: the variant in which `filter` stores the masked clones in
                 the change it was given (it was given the shared object exactly when `include` returned
                 `c` itself) — kept to show what the theorems of `PropsShared.lean` rest on
-/
namespace ScVerif.C08
open ScVerif.C09

variable {ι μ : Type}

/-- The options of one `Pull` subscriber: `WithInclude` and the read mask's projection. -/
structure SubOpts (ι μ : Type) where
  pred : Option (Pred ι μ)
  proj : μ → μ

/-- One turn of a subscriber's forwarding loop on the event object `cell` handed out by the bus:
(the object as the turn leaves it, what is sent to the subscriber's channel). -/
def turnShared (E : Option (Option μ → Option μ → Bool)) (s : SubOpts ι μ) (cell : Change ι μ) :
    Change ι μ × Option (Change ι μ) :=
  (cell, pullStep s.pred s.proj E cell)

/-- `Bus.Send(event)` to the listeners in subscription order, each paired with what it has been sent so far. -/
def deliver (E : Option (Option μ → Option μ → Bool)) :
    List (SubOpts ι μ × List (Change ι μ)) → Change ι μ → List (SubOpts ι μ × List (Change ι μ))
  | [], _ => []
  | (s, out) :: rest, cell =>
    let r := turnShared E s cell
    (s, out ++ r.2.toList) :: deliver E rest r.1

/-- What happens on a collection, as far as its subscribers are concerned. -/
inductive BusStep (ι μ : Type) where
  | publish (c : Change ι μ)     -- a write's `c.bus.Send`
  | join (s : SubOpts ι μ)           -- `c.bus.Listen` of a new `Pull` (appended to the listener slice)

def busStep (E : Option (Option μ → Option μ → Bool)) (st : List (SubOpts ι μ × List (Change ι μ))) :
    BusStep ι μ → List (SubOpts ι μ × List (Change ι μ))
  | .publish c => deliver E st c
  | .join s => st ++ [(s, [])]

def busRun (E : Option (Option μ → Option μ → Bool)) (st : List (SubOpts ι μ × List (Change ι μ)))
    (steps : List (BusStep ι μ)) : List (SubOpts ι μ × List (Change ι μ)) :=
  steps.foldl (busStep E) st

/-- The events published in a run, in order. -/
def published : List (BusStep ι μ) → List (Change ι μ)
  | [] => []
  | .publish c :: rest => c :: published rest
  | .join _ :: rest => published rest

/-! ### the variant that writes to the object it was handed (not the code) -/

/-- `include` returned the change it was given (no predicate, or old and new both included). -/
def includeKeeps (p : Option (Pred ι μ)) (c : Change ι μ) : Bool :=
  match p with
  | none => true
  | some f => (c.old.isSome && f c.id c.old) && (c.new.isSome && f c.id c.new)

/-- A turn whose `filter` stores the masked clones into the change it was given. -/
def turnInPlace (E : Option (Option μ → Option μ → Bool)) (s : SubOpts ι μ) (cell : Change ι μ) :
    Change ι μ × Option (Change ι μ) :=
  (if includeKeeps s.pred cell then maskChange s.proj cell else cell, pullStep s.pred s.proj E cell)

def deliverInPlace (E : Option (Option μ → Option μ → Bool)) :
    List (SubOpts ι μ × List (Change ι μ)) → Change ι μ → List (SubOpts ι μ × List (Change ι μ))
  | [], _ => []
  | (s, out) :: rest, cell =>
    let r := turnInPlace E s cell
    (s, out ++ r.2.toList) :: deliverInPlace E rest r.1

end ScVerif.C08
