import ScVerif.C08.SubscribeLemmas
/-!
A subscriber that registered CLEANLY — nothing was pending when it took its seed — receives, from then on,
a well-formed history of its snapshot view: what the lossy machine needs (`C08_fold_commutes_lossy`).
-/
namespace ScVerif.C08
open ScVerif.C09

variable {ι μ : Type} [DecidableEq ι]

/-- `V0` = the contents when the subscriber took its seed, with nothing pending at that moment -/
def CleanInv (p : Option (Pred ι μ)) (V0 : View ι μ) (s : Sys ι μ) : Prop :=
  NodupKeys s.items ∧
  match s.sub with
  | .idle => False
  | .snapping seed => s.pend = [] ∧ viewOf s.items = V0 ∧ seed = itemSlice p s.items
  | .listening seed recv =>
    viewOf seed = filterView p V0 ∧ WFHist V0 (recv ++ s.pend) ∧ fold (recv ++ s.pend) V0 = viewOf s.items

theorem sysStep_clean (p : Option (Pred ι μ)) (V0 : View ι μ) (s : Sys ι μ) (st : Step ι μ)
    (h : CleanInv p V0 s) : CleanInv p V0 (sysStep true p s st) := by
  rcases s with ⟨items, pend, sub, t⟩
  obtain ⟨hn, hsub⟩ := h
  simp only at hn hsub
  cases sub with
  | idle => exact absurd hsub (by simp)
  | snapping seed =>
    obtain ⟨hp, hv, hs⟩ := hsub
    have hp' : pend = [] := hp
    subst hp'
    cases st with
    | commit op => exact ⟨hn, rfl, hv, hs⟩
    | publish => exact ⟨hn, rfl, hv, hs⟩
    | deleteNow i => exact ⟨hn, rfl, hv, hs⟩
    | snapshot => exact ⟨hn, rfl, hv, hs⟩
    | listen =>
      show CleanInv p V0 ⟨items, [], .listening seed [], t⟩
      refine ⟨hn, ?_, trivial, ?_⟩
      · rw [hs, viewOf_itemSlice p items hn, hv]
      · simpa using hv.symm
  | listening seed recv =>
    obtain ⟨hseed, hwf, hfold⟩ := hsub
    have hwf : WFHist V0 (recv ++ pend) := hwf
    have hfold : fold (recv ++ pend) V0 = viewOf items := hfold
    cases st with
    | commit op =>
      have hs := stepOp_toList_spec t hn op
      show CleanInv p V0 ⟨(stepOp t items op).1, pend ++ (stepOp t items op).2.toList, .listening seed recv, t + 1⟩
      refine ⟨hs.1, hseed, ?_, ?_⟩
      · simp only
        rw [← List.append_assoc, WFHist_append, hfold]; exact ⟨hwf, hs.2.1⟩
      · simp only
        rw [← List.append_assoc, fold_append, hfold]; exact hs.2.2
    | publish =>
      cases pend with
      | nil => exact ⟨hn, hseed, hwf, hfold⟩
      | cons c rest =>
        show CleanInv p V0 ⟨items, rest, .listening seed (recv ++ [c]), t⟩
        refine ⟨hn, hseed, ?_, ?_⟩
        · simpa [List.append_assoc] using hwf
        · simpa [List.append_assoc] using hfold
    | deleteNow i =>
      cases pend with
      | cons c rest => exact ⟨hn, hseed, hwf, hfold⟩
      | nil =>
        have hs := stepOp_toList_spec t hn (.delete i)
        show CleanInv p V0 ⟨(stepOp t items (.delete i)).1, [], .listening seed (recv ++ (stepOp t items (.delete i)).2.toList), t + 1⟩
        simp only [List.append_nil] at hwf hfold
        refine ⟨hs.1, hseed, ?_, ?_⟩
        · simp only [List.append_nil]
          rw [WFHist_append, hfold]; exact ⟨hwf, hs.2.1⟩
        · simp only [List.append_nil]
          rw [fold_append, hfold]; exact hs.2.2
    | snapshot => exact ⟨hn, hseed, hwf, hfold⟩
    | listen => exact ⟨hn, hseed, hwf, hfold⟩

theorem sysRun_clean (p : Option (Pred ι μ)) (V0 : View ι μ) (s : Sys ι μ) (sched : List (Step ι μ))
    (h : CleanInv p V0 s) : CleanInv p V0 (sysRun true p s sched) := by
  induction sched generalizing s with
  | nil => exact h
  | cons st rest ih => exact ih _ (sysStep_clean p V0 s st h)

theorem sysRun_append (locked : Bool) (p : Option (Pred ι μ)) (s : Sys ι μ) (a b : List (Step ι μ)) :
    sysRun locked p s (a ++ b) = sysRun locked p (sysRun locked p s a) b := by
  simp [sysRun, List.foldl_append]

end ScVerif.C08
