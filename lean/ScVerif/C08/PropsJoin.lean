import ScVerif.C08.JoinLemmas
import ScVerif.C08.PropsConc
/-!
C08 — a subscription that happens INSIDE a write: `Collection.Update` reads the item, runs the caller's change
function with no lock held (`WithExpectedCheck`, interceptors), re-checks by value under the write lock, saves
and announces.  Another writer can overtake it in between, and a `Pull(WithInclude p)` can subscribe after
that writer and before the first one's lock: its seed carries the overtaking write, and the overtaken write's
change - saved, stamped and published after the subscription - must reach it like any other.

Only property theorems and their non-vacuity examples live in this file.
-/
namespace ScVerif.C08
open ScVerif.C09

variable {ι μ : Type} [DecidableEq ι] [DecidableEq μ]

/-- For every predicate, read mask, contents, write `Update(i, v, …)` whose first read succeeds, interference
`intf` between its read and its write lock, and later history `as`: a subscriber that takes its seed AFTER the
interference and BEFORE the write's lock (`mid`), and is then sent what the write publishes from there on
(`tail`: its own event, or nothing when the re-check aborts it) and everything later - is sent a well-formed
history from the empty view that folds to the projection of `List(WithInclude p)` at the end.  In particular the
write's own event is never "older than the seed": it is judged by include from the value the seed carried. -/
theorem C08_pull_joins_inside_write (p : Option (Pred ι μ)) (proj : μ → μ) (empty : μ)
    (items : List (ι × μ)) (hn : NodupKeys items) (i : ι) (v : μ) (create expectAbsent : Bool)
    (intf : List (Op ι μ))
    (hread : (getForUpdate empty create expectAbsent (items.lookup i)).isSome = true)
    (t t' t2 : Nat) (as : List (Act ι μ))
    (order : List (ι × μ)) (hperm : order.Perm (itemSlice p (runOps t items intf).1)) :
    let mid := runOps t items intf
    let w := writeRetry empty t items i v create expectAbsent intf
    let tail := w.2.drop mid.2.length
    let r := runActs t2 w.1 as
    let stream := (seedFrom t' order).map (maskChange proj) ++ (tail ++ r.2).filterMap (pullEvent p proj)
    w.2 = mid.2 ++ tail ∧ tail.length ≤ 1 ∧
    WFHist View.empty stream ∧
    fold stream View.empty = projView proj (viewOf (itemSlice p r.1)) := by
  intro mid w tail r stream
  have hmid := runOps_spec t hn intf
  have hw := writeRetry_spec empty t hn i v create expectAbsent intf
  have hsplit : w.2 = mid.2 ++ tail := writeRetry_split empty t items i v create expectAbsent intf hread
  have hr := runActs_spec t2 hw.1 as
  -- the tail is a well-formed history from the contents the subscriber saw, to the write's final contents
  have hwf2 := hw.2.1
  have hfold2 := hw.2.2
  change WFHist (viewOf items) w.2 at hwf2
  change fold w.2 (viewOf items) = viewOf w.1 at hfold2
  rw [hsplit, WFHist_append, hmid.2.2] at hwf2
  rw [hsplit, fold_append, hmid.2.2] at hfold2
  have hcs : WFHist (viewOf mid.1) (tail ++ r.2) := by
    rw [WFHist_append, hfold2]; exact ⟨hwf2.2, hr.2.1⟩
  have hfc : fold (tail ++ r.2) (viewOf mid.1) = viewOf r.1 := by
    rw [fold_append, hfold2]; exact hr.2.2
  have hp := pull_from p proj mid.1 hmid.1 order hperm t' (tail ++ r.2) hcs
  refine ⟨hsplit, ?_, hp.1, ?_⟩
  · -- at most the write's own event
    have hlen : w.2.length ≤ mid.2.length + 1 := writeRetry_length empty t items i v create expectAbsent intf
    show (w.2.drop mid.2.length).length ≤ 1
    rw [List.length_drop]; omega
  · rw [hp.2, hfc, viewOf_itemSlice p r.1 hr.1]

-- non-vacuity: item 1 = 3 stored, predicate "below 5"; `Update(1, 9)` is overtaken by a write of the same value 3
-- (its by-value re-check passes); the subscriber joins in between, is seeded with 3 and then sent the REMOVE
example :
    let p : Pred Nat Nat := fun _ v => match v with | some x => decide (x < 5) | none => false
    let w := writeRetry 0 0 [(1, 3)] 1 9 false false [.update 1 3]
    w.2.drop 1 = [mkChange 1 .update 1 (some 3) (some 9)] ∧
    (w.2.drop 1).filterMap (pullEvent (some p) id) = [mkChange 1 .remove 1 (some 3) none] := by
  decide

end ScVerif.C08
