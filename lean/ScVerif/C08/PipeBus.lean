import ScVerif.C08.Shared
import ScVerif.C08.SubscribeMany
import ScVerif.C09.Pipeline
/-!
C08 — several subscribers on one collection, each with its WHOLE pipeline: merge machine ▸ forwarder ▸ consumer.

`Collection.onUpdate` puts a `mergeCollectionExcess` goroutine between the bus and the forwarding loop of every
`Pull` without backpressure; with backpressure the forwarding loop reads the bus channel itself.  Either way the
bus hands the one event object to the subscriber's first stage, which reads it (`newMessage := *(…)` copies
it into the machine; `include`/`filter` build new changes) and never writes to it.

* `deliverP`     `Bus.Send`: the object is offered (`recv`) to every subscriber's pipeline, in subscription order
* `PBusStep`     `publish c` | `join s` | `move k m` — subscriber `k`'s own goroutines move (`take`: the forwarder
                 takes the next change out of the machine and runs include ▸ mask ▸ equivalence on it; `deliver`:
                 the consumer receives what the forwarder holds); any interleaving of all subscribers' moves
                 with the publications.  A subscriber with backpressure is the special case in which every
                 `publish` is followed at once by its `take`.
-/
namespace ScVerif.C08
open ScVerif.C09

variable {ι μ : Type} [DecidableEq ι]

/-- the forwarding loop's transform of subscriber `s` -/
def SubOpts.turn (E : Option (Option μ → Option μ → Bool)) (s : SubOpts ι μ) : Change ι μ → Option (Change ι μ) :=
  pullStep s.pred s.proj E

/-- `Bus.Send`: the shared object `cell` is offered to every subscriber's pipeline; no stage writes to it. -/
def deliverP (E : Option (Option μ → Option μ → Bool)) :
    List (SubOpts ι μ × PCfg ι μ) → Change ι μ → List (SubOpts ι μ × PCfg ι μ)
  | [], _ => []
  | (s, cfg) :: rest, cell => (s, pstep (s.turn E) cfg (.recv cell)) :: deliverP E rest cell

inductive PBusStep (ι μ : Type) where
  | publish (c : Change ι μ)
  | join (s : SubOpts ι μ)
  | move (k : Nat) (m : PMove (Change ι μ))   -- `take` / `deliver` of subscriber `k` (a `recv` here does nothing)

def pbusStep (E : Option (Option μ → Option μ → Bool)) (st : List (SubOpts ι μ × PCfg ι μ)) :
    PBusStep ι μ → List (SubOpts ι μ × PCfg ι μ)
  | .publish c => deliverP E st c
  | .join s => st ++ [(s, PCfg.init)]
  | .move _ (.recv _) => st
  | .move k m => updAt (fun sc => (sc.1, pstep (sc.1.turn E) sc.2 m)) k st

def pbusRun (E : Option (Option μ → Option μ → Bool)) (st : List (SubOpts ι μ × PCfg ι μ))
    (steps : List (PBusStep ι μ)) : List (SubOpts ι μ × PCfg ι μ) :=
  steps.foldl (pbusStep E) st

def publishedP : List (PBusStep ι μ) → List (Change ι μ)
  | [] => []
  | .publish c :: rest => c :: publishedP rest
  | _ :: rest => publishedP rest

def joinsP : List (PBusStep ι μ) → Nat
  | [] => 0
  | .join _ :: rest => joinsP rest + 1
  | _ :: rest => joinsP rest

end ScVerif.C08
