import ScVerif.C08.SubscribeGc
import ScVerif.C08.SubscribeSendLemmas
/-! The system with listener slice, cancellation and `collect`: invariant and projection onto the
one-subscriber system (helpers). -/
namespace ScVerif.C08
open ScVerif.C09

variable {ι μ : Type}

theorem isListening_deliver (sub : Sub ι μ) (evs : List (Change ι μ)) :
    (sub.deliver evs).isListening = sub.isListening := by
  cases sub <;> rfl

theorem isListening_getD_updAt_deliver (subs : List (Sub ι μ)) (evs : List (Change ι μ)) (k m : Nat) :
    ((updAt (·.deliver evs) k subs).getD m .idle).isListening = (subs.getD m .idle).isListening := by
  by_cases h : m = k
  · subst h; rw [getD_updAt_deliver, isListening_deliver]
  · rw [getD_updAt_ne _ _ h]

theorem isListening_getD_deliverTo (evs : List (Change ι μ)) (ks : List Nat) (subs : List (Sub ι μ)) (m : Nat) :
    ((deliverTo evs ks subs).getD m .idle).isListening = (subs.getD m .idle).isListening := by
  induction ks generalizing subs with
  | nil => rfl
  | cons k ks ih =>
    have : deliverTo evs (k :: ks) subs = deliverTo evs ks (updAt (·.deliver evs) k subs) := rfl
    rw [this, ih, isListening_getD_updAt_deliver]

theorem getD_deliverTo (evs : List (Change ι μ)) (ks : List Nat) (hnd : ks.Nodup) (subs : List (Sub ι μ))
    (j : Nat) :
    (deliverTo evs ks subs).getD j .idle
      = if j ∈ ks then (subs.getD j .idle).deliver evs else subs.getD j .idle := by
  induction ks generalizing subs with
  | nil => simp [deliverTo]
  | cons k ks ih =>
    have hk : k ∉ ks := (List.nodup_cons.mp hnd).1
    have : deliverTo evs (k :: ks) subs = deliverTo evs ks (updAt (·.deliver evs) k subs) := rfl
    rw [this, ih (List.nodup_cons.mp hnd).2]
    by_cases hjk : j = k
    · subst hjk
      simp only [hk, if_false, List.mem_cons, true_or, if_true]
      exact getD_updAt_deliver subs evs j
    · have hne : (updAt (·.deliver evs) k subs).getD j .idle = subs.getD j .idle :=
        getD_updAt_ne (fun x : Sub ι μ => x.deliver evs) Sub.idle hjk subs
      simp only [List.mem_cons, hjk, false_or, hne]

theorem mem_liveOf (dead ls : List Nat) (k : Nat) : k ∈ liveOf dead ls ↔ k ∈ ls ∧ k ∉ dead := by
  simp [liveOf]

theorem nodup_liveOf (dead : List Nat) {ls : List Nat} (h : ls.Nodup) : (liveOf dead ls).Nodup :=
  List.Nodup.sublist List.filter_sublist h

/-- the invariant of the bus's bookkeeping: `b.listeners` lists nobody twice, lists only subscribers that have
registered, and lists EVERY registered subscriber whose context is live; a copy in flight lists nobody twice -/
structure GInv (s : GSys ι μ) : Prop where
  nodup : s.listeners.Nodup
  listening : ∀ k ∈ s.listeners, (s.subs.getD k .idle).isListening = true
  registered : ∀ k, (s.subs.getD k .idle).isListening = true → k ∉ s.dead → k ∈ s.listeners
  flight : ∀ c ks gc, s.flight = some (c, ks, gc) → ks.Nodup

theorem isListening_getD_updAt (f : Sub ι μ → Sub ι μ) (hf : ∀ sub, (f sub).isListening = sub.isListening)
    (subs : List (Sub ι μ)) (k m : Nat) :
    ((updAt f k subs).getD m .idle).isListening = (subs.getD m .idle).isListening := by
  by_cases h : m = k
  · subst h
    by_cases hlen : m < subs.length
    · rw [getD_updAt_self _ _ _ hlen, hf]
    · rw [updAt_oob _ _ (Nat.le_of_not_lt hlen)]
  · rw [getD_updAt_ne _ _ h]

variable [DecidableEq ι]

omit [DecidableEq ι] in
theorem GInv_init (items : List (ι × μ)) (n : Nat) : GInv (GSys.init items n) := by
  refine ⟨by simp [GSys.init], by simp [GSys.init], ?_, by simp [GSys.init]⟩
  intro k h
  simp only [GSys.init] at h
  by_cases hk : k < n
  · simp [List.getD, hk, Sub.isListening] at h
  · simp [List.getD, hk, Sub.isListening] at h

/-- every step of the code's bus (`inPlace = false`) keeps the invariant -/
theorem gsysStep_inv (preds : List (Option (Pred ι μ))) (s : GSys ι μ) (step : GStep ι μ) (hinv : GInv s) :
    GInv (gsysStep false preds s step) := by
  cases step with
  | commit op =>
    simp only [gsysStep]
    split
    · exact hinv
    · exact ⟨hinv.nodup, hinv.listening, hinv.registered, hinv.flight⟩
  | sendStart =>
    simp only [gsysStep]
    split
    · refine ⟨hinv.nodup, hinv.listening, hinv.registered, ?_⟩
      intro c' ks gc h
      simp only at h
      split at h
      · exact absurd h (by simp)
      · simp only [Option.some.injEq, Prod.mk.injEq] at h
        rw [← h.2.1]; exact hinv.nodup
    · exact hinv
  | sendNext =>
    simp only [gsysStep]
    split
    · rename_i c k ks gc hf
      have hnd : (k :: ks).Nodup := hinv.flight c (k :: ks) gc hf
      have hl : ∀ m, ((if decide (k ∈ s.dead) = true then s.subs else updAt (·.deliver [c]) k s.subs).getD m .idle).isListening
          = (s.subs.getD m .idle).isListening := by
        intro m
        split
        · rfl
        · exact isListening_getD_updAt_deliver _ _ _ _
      split
      · refine ⟨hinv.nodup, ?_, ?_, by intro c' ks' gc' h; simp at h⟩
        · intro m hm; simp only; rw [hl]; exact hinv.listening m hm
        · intro m hm hd; simp only at hm hd ⊢; rw [hl] at hm; exact hinv.registered m hm hd
      · refine ⟨hinv.nodup, ?_, ?_, ?_⟩
        · intro m hm; simp only; rw [hl]; exact hinv.listening m hm
        · intro m hm hd; simp only at hm hd ⊢; rw [hl] at hm; exact hinv.registered m hm hd
        · intro c' ks' gc' h
          simp only [Option.some.injEq, Prod.mk.injEq] at h
          rw [← h.2.1]; exact (List.nodup_cons.mp hnd).2
    · exact ⟨hinv.nodup, hinv.listening, hinv.registered, by intro c' ks' gc' h; simp at h⟩
    · exact hinv
  | collect =>
    simp only [gsysStep]
    split
    · refine ⟨nodup_liveOf _ hinv.nodup, ?_, ?_, hinv.flight⟩
      · intro k hk
        simp only [Bool.false_eq_true, if_false] at hk
        exact hinv.listening k ((mem_liveOf _ _ _).mp hk).1
      · intro k hk hd
        simp only [Bool.false_eq_true, if_false]
        exact (mem_liveOf _ _ _).mpr ⟨hinv.registered k hk hd, hd⟩
    · exact hinv
  | deleteNow i =>
    simp only [gsysStep]
    split
    · exact hinv
    · split
      · exact ⟨hinv.nodup, hinv.listening, hinv.registered, hinv.flight⟩
      · rename_i c hc
        refine ⟨nodup_liveOf _ hinv.nodup, ?_, ?_, hinv.flight⟩
        · intro k hk
          simp only at hk ⊢
          rw [isListening_getD_deliverTo]
          exact hinv.listening k ((mem_liveOf _ _ _).mp hk).1
        · intro k hk hd
          simp only at hk hd ⊢
          rw [isListening_getD_deliverTo] at hk
          exact (mem_liveOf _ _ _).mpr ⟨hinv.registered k hk hd, hd⟩
  | snapshot j =>
    simp only [gsysStep]
    refine ⟨hinv.nodup, ?_, ?_, hinv.flight⟩
    · intro k hk; simp only
      rw [isListening_getD_updAt _ (by intro sub; cases sub <;> rfl)]; exact hinv.listening k hk
    · intro k hk hd; simp only at hk hd ⊢
      rw [isListening_getD_updAt _ (by intro sub; cases sub <;> rfl)] at hk; exact hinv.registered k hk hd
  | listen j =>
    simp only [gsysStep]
    split
    · rename_i seed hs
      have hjl : j < s.subs.length := by
        by_cases h : j < s.subs.length
        · exact h
        · rw [getD_oob _ _ (Nat.le_of_not_lt h)] at hs; exact absurd hs (by simp)
      have hnl : (s.subs.getD j .idle).isListening = false := by rw [hs]; rfl
      have hjn : j ∉ s.listeners := by
        intro h
        have := hinv.listening j h
        rw [hnl] at this
        exact Bool.noConfusion this
      have hget : ∀ m, ((updAt (fun _ => Sub.listening seed []) j s.subs).getD m .idle).isListening
          = (if m = j then true else (s.subs.getD m .idle).isListening) := by
        intro m
        by_cases h : m = j
        · subst h; rw [getD_updAt_self _ _ _ hjl]; simp [Sub.isListening]
        · rw [getD_updAt_ne _ _ h]; simp [h]
      refine ⟨?_, ?_, ?_, hinv.flight⟩
      · simp only
        rw [List.nodup_append]
        refine ⟨hinv.nodup, by simp, ?_⟩
        intro a ha b hb
        simp only [List.mem_singleton] at hb
        subst hb
        intro hab; subst hab; exact hjn ha
      · intro k hk
        simp only at hk ⊢
        rw [hget]
        by_cases h : k = j
        · simp [h]
        · simp only [h, if_false]
          rcases List.mem_append.mp hk with h1 | h2
          · exact hinv.listening k h1
          · simp only [List.mem_singleton] at h2; exact absurd h2 h
      · intro k hk hd
        simp only at hk hd ⊢
        rw [hget] at hk
        by_cases h : k = j
        · simp [h]
        · simp only [h, if_false] at hk
          exact List.mem_append_left _ (hinv.registered k hk hd)
    · exact hinv
  | cancel j =>
    simp only [gsysStep]
    split
    · exact hinv
    · refine ⟨hinv.nodup, hinv.listening, ?_, hinv.flight⟩
      intro k hk hd
      simp only [List.mem_cons, not_or] at hd
      exact hinv.registered k hk hd.2

theorem deliver_nil (sub : Sub ι μ) : sub.deliver [] = sub := by
  cases sub <;> simp [Sub.deliver]

theorem dead_mono (preds : List (Option (Pred ι μ))) (s : GSys ι μ) (step : GStep ι μ) {j : Nat}
    (h : j ∉ (gsysStep false preds s step).dead) : j ∉ s.dead := by
  intro hj
  apply h
  cases step with
  | commit op => simp only [gsysStep]; split <;> exact hj
  | sendStart => simp only [gsysStep]; split <;> exact hj
  | sendNext => simp only [gsysStep]; split <;> (try split) <;> exact hj
  | collect => simp only [gsysStep]; split <;> exact hj
  | deleteNow i => simp only [gsysStep]; split <;> (try split) <;> exact hj
  | snapshot k => exact hj
  | listen k => simp only [gsysStep]; split <;> exact hj
  | cancel k => simp only [gsysStep]; split <;> simp [hj]

/-- One step of the system is, for a subscriber `j` whose context is live, at most one step of the
one-subscriber system with `j`'s predicate. -/
theorem gsysStep_proj (preds : List (Option (Pred ι μ))) (s : GSys ι μ) (step : GStep ι μ) (j : Nat)
    (hinv : GInv s) (hj : j ∉ s.dead) :
    ∃ steps' : List (Step ι μ),
      (gsysStep false preds s step).proj j = sysRun true (preds.getD j none) (s.proj j) steps' := by
  cases step with
  | commit op =>
    by_cases hany : s.subs.any Sub.isSnapping = true
    · exact ⟨[], by simp [gsysStep, hany, sysRun]⟩
    · have hjs : (s.subs.getD j .idle).isSnapping = false := by
        cases h : (s.subs.getD j .idle).isSnapping with
        | false => rfl
        | true => exact absurd (any_snapping_of_getD _ j h) hany
      have hany' : s.subs.any Sub.isSnapping = false := by simpa using hany
      refine ⟨[.commit op], ?_⟩
      simp only [gsysStep, hany', Bool.false_eq_true, if_false, sysRun, List.foldl_cons,
        List.foldl_nil, sysStep, GSys.proj, GSys.pendFor, hjs, List.append_assoc, Bool.and_false]
  | sendStart =>
    cases hf : s.flight with
    | some cf => exact ⟨[], by simp [gsysStep, hf, sysRun]⟩
    | none =>
      cases hg : s.gcDue with
      | true => exact ⟨[], by simp [gsysStep, hf, hg, sysRun]⟩
      | false =>
        cases hp : s.pend with
        | nil => exact ⟨[], by simp [gsysStep, hf, hg, hp, sysRun]⟩
        | cons c rest =>
          by_cases hmem : j ∈ s.listeners
          · refine ⟨[], ?_⟩
            have hne : s.listeners.isEmpty = false := by
              cases hl : s.listeners with
              | nil => rw [hl] at hmem; simp at hmem
              | cons a as => rfl
            simp [gsysStep, hf, hg, hp, sysRun, GSys.proj, GSys.pendFor, hne, hmem]
          · refine ⟨[.publish], ?_⟩
            have hnl : (s.subs.getD j .idle).isListening = false := by
              cases h : (s.subs.getD j .idle).isListening with
              | false => rfl
              | true => exact absurd (hinv.registered j h hj) hmem
            have hd := deliver_not_listening _ [c] hnl
            by_cases he : s.listeners.isEmpty = true
            · simp only [gsysStep, hf, hg, hp, sysRun, List.foldl_cons, List.foldl_nil, sysStep, GSys.proj,
                GSys.pendFor, he, if_true, List.nil_append, hd]
            · simp only [gsysStep, hf, hg, hp, sysRun, List.foldl_cons, List.foldl_nil, sysStep, GSys.proj,
                GSys.pendFor, he, Bool.false_eq_true, if_false, hmem, List.nil_append, hd]
  | sendNext =>
    cases hf : s.flight with
    | none => exact ⟨[], by simp [gsysStep, hf, sysRun]⟩
    | some cf =>
      obtain ⟨c, l, gc⟩ := cf
      cases l with
      | nil => exact ⟨[], by simp [gsysStep, hf, sysRun, GSys.proj, GSys.pendFor]⟩
      | cons k ks =>
        have hnd : (k :: ks).Nodup := hinv.flight c (k :: ks) gc hf
        have hk : k ∉ ks := (List.nodup_cons.mp hnd).1
        by_cases hjk : j = k
        · subst hjk
          have hdj : decide (j ∈ s.dead) = false := by simpa using hj
          refine ⟨[.publish], ?_⟩
          by_cases he : ks.isEmpty = true
          · simp [gsysStep, hf, sysRun, sysStep, GSys.proj, GSys.pendFor, he, hdj, hk]
            simpa [List.getD_eq_getElem?_getD] using getD_updAt_deliver s.subs [c] j
          · have he' : ks.isEmpty = false := by simpa using he
            simp [gsysStep, hf, sysRun, sysStep, GSys.proj, GSys.pendFor, he', hdj, hk]
            simpa [List.getD_eq_getElem?_getD] using getD_updAt_deliver s.subs [c] j
        · refine ⟨[], ?_⟩
          have hsub : (if decide (k ∈ s.dead) = true then s.subs else updAt (·.deliver [c]) k s.subs).getD j .idle
              = s.subs.getD j .idle := by
            split
            · rfl
            · exact getD_updAt_ne (fun x : Sub ι μ => x.deliver [c]) Sub.idle hjk s.subs
          by_cases he : ks.isEmpty = true
          · have hks : ks = [] := by simpa using he
            subst hks
            simp only [gsysStep, hf, sysRun, List.foldl_nil, GSys.proj, GSys.pendFor, List.isEmpty_nil, if_true,
              hsub, List.mem_cons, hjk, List.not_mem_nil, or_false, if_false]
          · have he' : ks.isEmpty = false := by simpa using he
            simp only [gsysStep, hf, sysRun, List.foldl_nil, GSys.proj, GSys.pendFor, he', Bool.false_eq_true,
              if_false, hsub, List.mem_cons, hjk, false_or]
  | collect =>
    refine ⟨[], ?_⟩
    simp only [gsysStep, sysRun, List.foldl_nil]
    split <;> rfl
  | deleteNow i =>
    by_cases hdis : (!s.pend.isEmpty || s.flight.isSome || s.gcDue || s.subs.any Sub.isSnapping) = true
    · exact ⟨[], by simp only [gsysStep, hdis, if_true, sysRun, List.foldl_nil]⟩
    · have hdis' : (!s.pend.isEmpty || s.flight.isSome || s.gcDue || s.subs.any Sub.isSnapping) = false := by
        simpa using hdis
      have hpe : (!s.pend.isEmpty) = false := by
        cases h : (!s.pend.isEmpty) <;> simp_all
      have hfl : s.flight.isSome = false := by
        cases h : s.flight.isSome <;> simp_all
      have hany : s.subs.any Sub.isSnapping = false := by
        cases h : s.subs.any Sub.isSnapping <;> simp_all
      have hgc : s.gcDue = false := by
        cases h : s.gcDue <;> simp_all
      have hfn : s.flight = none := by
        cases hf : s.flight with
        | none => rfl
        | some x => rw [hf] at hfl; simp at hfl
      have hjs : (s.subs.getD j .idle).isSnapping = false := by
        cases h : (s.subs.getD j .idle).isSnapping with
        | false => rfl
        | true => rw [any_snapping_of_getD _ j h] at hany; exact absurd hany (by simp)
      have hpn : s.pend = [] := by
        cases hp : s.pend with
        | nil => rfl
        | cons a as => rw [hp] at hpe; simp at hpe
      refine ⟨[.deleteNow i], ?_⟩
      simp only [gsysStep, hgc, hany, Option.isSome_none, Bool.false_eq_true, if_false, sysRun, List.foldl_cons,
        List.foldl_nil, sysStep,
        GSys.proj, GSys.pendFor, hfn, hpn, List.append_nil, List.isEmpty_nil, Bool.not_true, hjs,
        Bool.and_false, Bool.or_false]
      cases hr : (stepOp s.t s.items (Op.delete i)).2 with
      | none => simp only [Option.toList_none, deliver_nil, hfn, hpn, List.append_nil]
      | some c =>
        simp only [Option.toList_some, hfn, hpn, List.append_nil]
        rw [getD_deliverTo [c] _ (nodup_liveOf _ hinv.nodup)]
        by_cases hlive : j ∈ liveOf s.dead s.listeners
        · simp only [hlive, if_true]
        · have hjl : j ∉ s.listeners := fun h => hlive ((mem_liveOf _ _ _).mpr ⟨h, hj⟩)
          have hnl : (s.subs.getD j .idle).isListening = false := by
            cases h : (s.subs.getD j .idle).isListening with
            | false => rfl
            | true => exact absurd (hinv.registered j h hj) hjl
          simp only [hlive, if_false, deliver_not_listening _ [c] hnl]
  | snapshot k =>
    by_cases hk : j = k
    · subst hk
      by_cases hlen : j < s.subs.length
      · refine ⟨[.snapshot], ?_⟩
        simp only [gsysStep, sysRun, List.foldl_cons, List.foldl_nil, sysStep, GSys.proj, GSys.pendFor,
          getD_updAt_self _ _ _ hlen]
        cases s.subs.getD j .idle <;> rfl
      · exact ⟨[], by simp only [gsysStep, updAt_oob _ _ (Nat.le_of_not_lt hlen), sysRun, List.foldl_nil]⟩
    · exact ⟨[], by simp only [gsysStep, sysRun, List.foldl_nil, GSys.proj, GSys.pendFor, getD_updAt_ne _ _ hk]⟩
  | listen k =>
    by_cases hk : j = k
    · subst hk
      cases hs : s.subs.getD j .idle with
      | idle => exact ⟨[], by simp only [gsysStep, hs, sysRun, List.foldl_nil]⟩
      | listening seed recv => exact ⟨[], by simp only [gsysStep, hs, sysRun, List.foldl_nil]⟩
      | snapping seed =>
        have hjl : j < s.subs.length := by
          by_cases h : j < s.subs.length
          · exact h
          · rw [getD_oob _ _ (Nat.le_of_not_lt h)] at hs; exact absurd hs (by simp)
        refine ⟨[.listen], ?_⟩
        simp only [gsysStep, hs, sysRun, List.foldl_cons, List.foldl_nil, sysStep, GSys.proj, GSys.pendFor,
          getD_updAt_self _ _ _ hjl]
    · refine ⟨[], ?_⟩
      simp only [gsysStep, sysRun, List.foldl_nil]
      split
      · simp only [GSys.proj, GSys.pendFor, getD_updAt_ne _ _ hk]
      · rfl
  | cancel k =>
    refine ⟨[], ?_⟩
    simp only [gsysStep, sysRun, List.foldl_nil]
    split <;> rfl

theorem gsysRun_inv (preds : List (Option (Pred ι μ))) (s : GSys ι μ) (sched : List (GStep ι μ))
    (hinv : GInv s) : GInv (gsysRun false preds s sched) := by
  induction sched generalizing s with
  | nil => exact hinv
  | cons st sched ih => exact ih _ (gsysStep_inv preds s st hinv)

theorem dead_mono_run (preds : List (Option (Pred ι μ))) (s : GSys ι μ) (sched : List (GStep ι μ)) {j : Nat}
    (h : j ∉ (gsysRun false preds s sched).dead) : j ∉ s.dead := by
  induction sched generalizing s with
  | nil => exact h
  | cons st sched ih => exact dead_mono preds s st (ih (gsysStep false preds s st) h)

theorem gsysRun_proj (preds : List (Option (Pred ι μ))) (s : GSys ι μ) (sched : List (GStep ι μ)) (j : Nat)
    (hinv : GInv s) (hj : j ∉ (gsysRun false preds s sched).dead) :
    ∃ sched' : List (Step ι μ),
      (gsysRun false preds s sched).proj j = sysRun true (preds.getD j none) (s.proj j) sched' := by
  induction sched generalizing s with
  | nil => exact ⟨[], rfl⟩
  | cons st sched ih =>
    have hj1 : j ∉ (gsysStep false preds s st).dead := dead_mono_run preds _ sched hj
    obtain ⟨a, ha⟩ := gsysStep_proj preds s st j hinv (dead_mono preds s st hj1)
    obtain ⟨b, hb⟩ := ih (gsysStep false preds s st) (gsysStep_inv preds s st hinv) hj
    refine ⟨a ++ b, ?_⟩
    have : gsysRun false preds s (st :: sched) = gsysRun false preds (gsysStep false preds s st) sched := rfl
    rw [this, hb, ha]
    simp [sysRun, List.foldl_append]

end ScVerif.C08
