import ScVerif.C08.Drv
/-! The driver's `sortById` (Pull's `sort.Slice(currentValues, id <)`) only permutes: the seed order
hypothesis of `C08_pull_matches_list` is met by the order the code uses. -/
namespace ScVerif.C08

theorem insertById_perm (x : String × String) (l : List (String × String)) :
    (insertById x l).Perm (x :: l) := by
  induction l with
  | nil => exact List.Perm.refl _
  | cons y ys ih =>
    unfold insertById
    by_cases h : x.1 < y.1
    · simp [h]
    · simp only [h, if_false]
      exact (List.Perm.cons y ih).trans (List.Perm.swap x y ys)

theorem sortById_perm (l : List (String × String)) : (sortById l).Perm l := by
  induction l with
  | nil => exact List.Perm.refl _
  | cons x xs ih =>
    unfold sortById
    simp only [List.foldr_cons]
    exact (insertById_perm x _).trans (List.Perm.cons x ih)

end ScVerif.C08
