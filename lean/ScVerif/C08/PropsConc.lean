import ScVerif.C08.Props
import ScVerif.C08.ReentrantLemmas
import ScVerif.C08.SubscribeLemmas
/-!
# C08 — property theorems, part 2: re-entrant deletes and subscribing under a running writer

* `Collection.Delete` reads optimistically, runs caller code without the lock and re-checks under the
  lock (up to five attempts).  `include` decides from `OldValue` whether the subscriber has the item,
  so the REMOVE must carry the value that was actually removed — for every interference.
* `Collection.onUpdate` computes the seed (evaluating the include predicate) and registers the
  listener under ONE read lock.  With writers running concurrently — committing under the write
  lock, publishing after releasing it, in commit order — the subscriber's fold is the filtered
  collection at every quiescent point of EVERY schedule, and lags by the unpublished events otherwise.

Only property theorems and their non-vacuity examples live in this file.
-/
namespace ScVerif.C08
open ScVerif.C09

variable {ι μ : Type} [DecidableEq ι] [DecidableEq μ]

/-- `Delete` under interference: for every id, every contents, every precondition `guard` (the outcome of
`WithExpectedCheck` / `WithExpectedValue` on the value read, per attempt) and EVERY interference `intf` (the
writes that land, attempt by attempt, between Delete's read and its write lock — its own check callback
writing to the collection, or other writers), everything published is a well-formed history from the contents at
the start and folds to the final contents; and if Delete ends by publishing a REMOVE of `i`, that event's
`old` is exactly the value stored when it was removed (not the value first read). -/
theorem C08_delete_retry_removes_current (t : Nat) (items : List (ι × μ)) (hn : NodupKeys items)
    (i : ι) (intf : List (List (Op ι μ))) (guard : Nat → μ → Bool) :
    let r := stepAct t items (.deleteRetry i intf guard)
    NodupKeys r.1 ∧ WFHist (viewOf items) r.2 ∧ fold r.2 (viewOf items) = viewOf r.1 ∧
    (∀ pre c, r.2 = pre ++ [c] → c.kind = .remove → c.old = fold pre (viewOf items) c.id) := by
  have h := stepAct_spec t hn (Act.deleteRetry i intf guard)
  refine ⟨h.1, h.2.1, h.2.2, ?_⟩
  intro pre c hpc hk
  have hw := h.2.1
  rw [hpc, WFHist_append] at hw
  have hc := hw.2.1
  simp only [WFChange, hk] at hc
  exact hc.2.1

/-- `Add`/`Update` under interference (the code after the `fix:`): for every id, value, option pair
(create-if-absent, expect-absent), representation of the empty message and EVERY sequence of writes landing
between Update's read and its write lock (its own check callback or interceptor writing to the
collection, or other writers): everything published is a well-formed history from the contents at the
start to the final contents — in particular the write's own event is an ADD exactly when nothing is stored
when it commits, and otherwise an UPDATE whose `old` is the stored value — so `include` judges it right. -/
theorem C08_update_retry_event_current (t : Nat) (items : List (ι × μ)) (hn : NodupKeys items)
    (i : ι) (v : μ) (create expectAbsent : Bool) (intf : List (Op ι μ)) (empty : μ) :
    let r := stepAct t items (.writeRetry i v create expectAbsent intf empty)
    NodupKeys r.1 ∧ WFHist (viewOf items) r.2 ∧ fold r.2 (viewOf items) = viewOf r.1 :=
  stepAct_spec t hn (Act.writeRetry i v create expectAbsent intf empty)

/-- The defect the `fix:` commit repaired, on the model of the code before it (`writeRetryLegacy`): an
upsert of an absent id whose callback creates the id holding exactly the empty message goes through
(`proto.Equal(created, stored)`), and announced itself as an ADD without old value although the item
existed: not a well-formed history — and with a predicate matching the empty message but not the new
value `include` drops that ADD, so the subscriber keeps an item `List(WithInclude)` no longer has. -/
theorem C08_update_retry_legacy_fails :
    ∃ (items : List (Nat × Nat)) (i v e : Nat) (intf : List (Op Nat Nat)) (p : Pred Nat Nat),
      NodupKeys items ∧
      ¬ WFHist (viewOf items) (writeRetryLegacy e 0 items i v true false intf).2 ∧
      fold ((writeRetryLegacy e 0 items i v true false intf).2.filterMap (includeChange (some p)))
          (filterView (some p) (viewOf items)) i
        ≠ filterView (some p) (viewOf (writeRetryLegacy e 0 items i v true false intf).1) i := by
  refine ⟨[], 1, 7, 0, [.add 1 0], fun _ m => m == some 0, ?_, ?_, ?_⟩
  · unfold NodupKeys; decide
  · intro h
    have h2 := h.2.1
    simp [writeRetryLegacy, getForUpdate, runOps, stepOp, mkChange, WFChange, apply, View.set, viewOf, setKey,
      eraseKey] at h2
  · decide

/-- `Pull(WithInclude p, WithReadMask m)` against `List` over histories that contain re-entrant deletes:
for every predicate, projection, contents and history of plain writes and interfered deletes, the seed
followed by the include-filtered, masked events is a well-formed history from the empty view and folds
to the projection of `List(WithInclude p)` after the writes. -/
theorem C08_pull_matches_list_reentrant (p : Option (Pred ι μ)) (proj : μ → μ) (items : List (ι × μ))
    (hn : NodupKeys items) (order : List (ι × μ)) (hperm : order.Perm (itemSlice p items))
    (t t' : Nat) (as : List (Act ι μ)) :
    let r := runActs t items as
    let stream := (seedFrom t' order).map (maskChange proj) ++ r.2.filterMap (pullEvent p proj)
    WFHist View.empty stream ∧
    fold stream View.empty = projView proj (viewOf (itemSlice p r.1)) ∧
    viewOf (itemSlice p r.1) = filterView p (viewOf r.1) := by
  have hseed := C08_seed_is_filtered_list p items hn order hperm t'
  have hops := runActs_spec t hn as
  have hinc := include_hist p (viewOf items) (runActs t items as).2 hops.2.1
  have hlist := viewOf_itemSlice p (runActs t items as).1 hops.1
  have hwf : WFHist View.empty (seedFrom t' order ++ (runActs t items as).2.filterMap (includeChange p)) := by
    rw [WFHist_append, hseed.2.2]; exact ⟨hseed.2.1, hinc.1⟩
  have hfold : fold (seedFrom t' order ++ (runActs t items as).2.filterMap (includeChange p)) View.empty
      = viewOf (itemSlice p (runActs t items as).1) := by
    rw [fold_append, hseed.2.2, hinc.2, hops.2.2, hlist]
  have hm := mask_hist proj View.empty _ hwf
  have he : projView proj (View.empty : View ι μ) = View.empty := by funext i; rfl
  rw [he] at hm
  simp only [filterMap_pullEvent, ← List.map_append]
  exact ⟨hm.1, by rw [hm.2, hfold], hlist⟩

/-- The full pipeline (include ▸ mask ▸ equivalence ▸ lossy machine ▸ forwarder ▸ consumer, every
interleaving) over histories with re-entrant deletes: at quiescence the subscriber's view is, id by id,
`E`-equivalent to the projection of `List(WithInclude p)` after the writes. -/
theorem C08_pull_full_pipeline_list_reentrant (p : Option (Pred ι μ)) (proj : μ → μ)
    (E : Option μ → Option μ → Bool) (hrefl : ∀ a, E a a = true)
    (htrans : ∀ a b c, E a b = true → E b c = true → E a c = true)
    (items : List (ι × μ)) (hn : NodupKeys items) (t : Nat) (as : List (Act ι μ))
    (ms : List (PMove (Change ι μ))) (hms : pinputs ms = (runActs t items as).2) :
    let r := runActs t items as
    let c := prun (pullStep p proj (some E)) PCfg.init ms
    let base := projView proj (viewOf (itemSlice p items))
    c.inHand = none → c.st.pending = [] →
      ∀ i, E (fold c.delivered base i) (projView proj (viewOf (itemSlice p r.1)) i) = true := by
  intro r c base hh hpend i
  have hops := runActs_spec t hn as
  have h := (C08_pull_full_pipeline p proj E hrefl htrans (viewOf items) ms
    (by rw [hms]; exact hops.2.1)).2 hh hpend i
  rw [hms, hops.2.2, ← viewOf_itemSlice p _ hops.1, ← viewOf_itemSlice p items hn] at h
  exact h

/-- Subscribing while writers run (the code as it is: seed and `Listen` under one read lock).  For every
predicate, initial contents and EVERY schedule of the steps commit / publish / deleteNow of any number of
writers — commits under the write lock in any order, publications after the lock in commit order (C03's
`ordered` hypothesis; one writer thread satisfies it by construction) — and snapshot / listen of the
subscriber:
* while the subscriber holds the lock its seed IS the filtered list of the current contents;
* once it listens there is a published view `T` from which the pending events lead, well formed, to the
  current contents, and a number `k` of pending events committed before its snapshot, such that its fold
  (seed + include-filtered received events) is, id by id, the filter of the snapshot `fold (pend.take k) T`
  or the filter of `T` — exactly `filterView p T` once those `k` stale events are out;
* so at every quiescent point (`pend = []`) the seed — in ANY order — followed by the filtered events
  folds from the empty view to `List(WithInclude p)` of the current contents.
This includes the schedules in which the subscriber snapshots between commits and their publications and
is then sent events its seed already contains; `include` may meanwhile forward ADDs/REMOVEs that make
its view differ from both views at that id, and the last stale event of the id repairs it (`Near_step`). -/
theorem C08_subscribe_atomic (p : Option (Pred ι μ)) (items : List (ι × μ)) (hn : NodupKeys items)
    (sched : List (Step ι μ)) :
    let s := sysRun true p (Sys.init items) sched
    match s.sub with
    | .idle => True
    | .snapping seed => seed = itemSlice p s.items
    | .listening seed recv =>
      (∃ (T : View ι μ) (k : Nat), k ≤ s.pend.length ∧ WFHist T s.pend ∧
        fold s.pend T = viewOf s.items ∧
        (∀ i, subView p seed recv i = filterView p (fold (s.pend.take k) T) i ∨
              subView p seed recv i = filterView p T i) ∧
        (k = 0 → subView p seed recv = filterView p T)) ∧
      (s.pend = [] → ∀ (order : List (ι × μ)) (t : Nat), order.Perm seed →
        fold (seedFrom t order ++ recv.filterMap (includeChange p)) View.empty
          = viewOf (itemSlice p s.items) ∧
        viewOf (itemSlice p s.items) = filterView p (viewOf s.items)) := by
  have h := sysRun_inv p (Sys.init items) sched (SubInv_init p items hn)
  generalize sysRun true p (Sys.init items) sched = s at h
  obtain ⟨hn', T, hwf, hfold, hsub⟩ := h
  rcases s with ⟨its, pend, sub, t⟩
  cases sub with
  | idle => trivial
  | snapping seed => exact hsub
  | listening seed recv =>
    obtain ⟨hns, k, hk, hnear⟩ := hsub
    simp only at hn' hwf hfold hk hnear
    refine ⟨⟨T, k, hk, hwf, hfold, hnear, ?_⟩, ?_⟩
    · intro hk0
      subst hk0
      exact Near_self (by simpa using hnear)
    · intro hp order t' hperm
      simp only at hp
      subst hp
      have hk0 : k = 0 := by simpa using hk
      subst hk0
      have hT : T = viewOf its := hfold
      subst hT
      have hv : subView p seed recv = filterView p (viewOf its) := Near_self (by simpa using hnear)
      have hlist := viewOf_itemSlice p its hn'
      refine ⟨?_, hlist⟩
      -- the seed in any order folds to `viewOf seed`
      have hsv : fold (seedFrom t' order) View.empty = viewOf seed := by
        have hno : NodupKeys order := by
          unfold NodupKeys at *
          exact ((hperm.map Prod.fst).nodup_iff).mpr hns
        have hsf := seed_fold t' order (View.empty : View ι μ) hno (fun _ _ => rfl)
        funext i
        rw [hsf.2 i, ← viewOf_perm hns hperm]
        simp only [viewOf, View.empty]
        cases order.lookup i <;> rfl
      rw [fold_append, hsv, hlist]
      exact hv

/-- The lock is what makes it true: in the hypothetical code that releases the read lock before the
predicate runs and before `Listen` (`locked = false`: the writer may commit between `snapshot` and
`listen`), a schedule exists after which the subscriber listens, nothing is pending, and its fold
differs from `List(WithInclude p)` for ever — the write is in neither the seed nor the stream. -/
theorem C08_subscribe_needs_lock :
    ∃ (items : List (Nat × Nat)) (sched : List (Step Nat Nat)) (seed : List (Nat × Nat))
      (recv : List (Change Nat Nat)),
      NodupKeys items ∧
      (sysRun false (none : Option (Pred Nat Nat)) (Sys.init items) sched).sub = .listening seed recv ∧
      (sysRun false (none : Option (Pred Nat Nat)) (Sys.init items) sched).pend = [] ∧
      subView (none : Option (Pred Nat Nat)) seed recv 1
        ≠ viewOf (itemSlice none (sysRun false (none : Option (Pred Nat Nat)) (Sys.init items) sched).items) 1 := by
  refine ⟨[(1, 10)], [.snapshot, .commit (.update 1 20), .publish, .listen], [(1, 10)], [], ?_, rfl, rfl, ?_⟩
  · unfold NodupKeys; decide
  · decide

/-! ### non-vacuity -/

section examples

/-- predicate: value 20 only (and TRUE on absent values) -/
private def p20 : Pred Nat Nat := fun _ v => v.isNone || v == some 20

/-- a Delete whose check callback updates the item first (10 → 20): with the predicate "value 20" the
subscriber is sent ADD 20 (the nested update makes the item match) and then REMOVE with old = 20, the
value actually removed — had the REMOVE carried the value first read (10, not matching) `include` would
have swallowed it. -/
example :
    ((stepAct 0 [(1, 10)] (.deleteRetry 1 [[.update 1 20]] (fun _ _ => true))).2.filterMap
        (includeChange (some p20))).map (fun c => (c.kind, c.old, c.new))
      = [(.add, none, some 20), (.remove, some 20, none)] := by decide

/-- five interfering writes exhaust Delete's attempts: five UPDATEs are published, no REMOVE, the item stays -/
example :
    ((stepAct 0 [(1, 10)] (.deleteRetry 1 (List.replicate 5 [.update 1 20]) (fun _ _ => true))).2.map (·.kind),
     (stepAct 0 [(1, 10)] (.deleteRetry 1 (List.replicate 5 [.update 1 20]) (fun _ _ => true))).1)
      = ([.update, .update, .update, .update, .update], [(1, 20)]) := by decide

/-- `Delete(WithExpectedValue 10)` whose check callback first updates the item to 20: the precondition is
judged on the value READ (10: accepted), the re-check under the lock sees another item, and the second
attempt reads 20, which the precondition rejects: an UPDATE was published, nothing was deleted -/
example :
    ((stepAct 0 [(1, 10)] (.deleteRetry 1 [[.update 1 20]] (fun _ o => o == 10))).2.map (·.kind),
     (stepAct 0 [(1, 10)] (.deleteRetry 1 [[.update 1 20]] (fun _ o => o == 10))).1)
      = ([.update], [(1, 20)]) := by decide

/-- the fixed code on the witness of `C08_update_retry_legacy_fails`: ADD of the empty message by the
callback, then UPDATE from it — with the predicate "is the empty message" the subscriber is sent ADD, REMOVE -/
example :
    ((stepAct 0 ([] : List (Nat × Nat)) (.writeRetry 1 7 true false [.add 1 0] 0)).2.filterMap
        (includeChange (some (fun _ m => m == some 0)))).map (fun c => (c.kind, c.old, c.new))
      = [(.add, none, some 0), (.remove, some 0, none)] := by decide

/-- a callback writing a DIFFERENT value makes the outer update abort: only the callback's event -/
example :
    (stepAct 0 [(1, 10)] (.writeRetry 1 7 false false [.update 1 20] 0)).2.map (fun c => (c.kind, c.old, c.new))
      = [(.update, some 10, some 20)] := by decide

/-- a schedule of `C08_subscribe_atomic` in which the subscriber snapshots BETWEEN a commit and its
publication: the seed already holds 20, the late UPDATE 10→20 arrives as well (stale), and the fold is
still the filtered collection.  While it held the lock a second commit was attempted and blocked. -/
example :
    let s := sysRun true (some p20) (Sys.init [(1, 10)])
      [.commit (.update 1 20), .snapshot, .commit (.update 1 30), .listen, .publish]
    (match s.sub with
     | .listening seed recv => (seed, recv.map (fun c => (c.kind, c.old, c.new)), subView (some p20) seed recv 1)
     | _ => ([], [], none)) = ([(1, 20)], [(.update, some 10, some 20)], some 20) ∧ s.items = [(1, 20)] := by
  decide

/-- two writers' commits pending when the subscriber snapshots (contents 30, not matching "value 20"):
the stale UPDATE 10→20 reaches it as an ADD of 20 — for a moment its view matches neither the snapshot
nor the published view at that id — and the second stale event (20→30, REMOVE) repairs it -/
example :
    let run := fun (n : Nat) => sysRun true (some p20) (Sys.init [(1, 10)])
      ([Step.commit (.update 1 20), .commit (.update 1 30), .snapshot, .listen] ++ List.replicate n Step.publish)
    let view := fun (n : Nat) => match (run n).sub with
      | .listening seed recv => subView (some p20) seed recv 1
      | _ => none
    (view 0, view 1, view 2, (run 2).pend.length) = (none, some 20, none, 0) := by
  decide

end examples

end ScVerif.C08
