import ScVerif.C08.Props
import ScVerif.C08.ReentrantLemmas
import ScVerif.C08.SubscribeLemmas
/-!
# C08 — property theorems, part 2: re-entrant deletes and subscribing under a running writer

* `Collection.Delete` reads optimistically, runs caller code without the lock and re-checks under the
  lock (up to five attempts).  `include` decides from `OldValue` whether the subscriber has the item,
  so the REMOVE must carry the value that was actually removed — for every interference.
* `Collection.onUpdate` computes the seed (evaluating the include predicate) and registers the
  listener under ONE read lock.  With a writer running concurrently — committing under the write
  lock, publishing after releasing it — the subscriber's fold is the filtered collection at every
  quiescent point of EVERY schedule, and lags by exactly the one unpublished event otherwise.

Only property theorems and their non-vacuity examples live in this file.
-/
namespace ScVerif.C08
open ScVerif.C09

variable {ι μ : Type} [DecidableEq ι]

/-- `Delete` under interference: for every id, every contents and EVERY interference `intf` (the writes
that land, attempt by attempt, between Delete's read and its write lock — its own check callback writing
to the collection, or other writers), everything published is a well-formed history from the contents at
the start and folds to the final contents; and if Delete ends by publishing a REMOVE of `i`, that event's
`old` is exactly the value stored when it was removed (not the value first read). -/
theorem C08_delete_retry_removes_current (t : Nat) (items : List (ι × μ)) (hn : NodupKeys items)
    (i : ι) (intf : List (List (Op ι μ))) :
    let r := stepAct t items (.deleteRetry i intf)
    NodupKeys r.1 ∧ WFHist (viewOf items) r.2 ∧ fold r.2 (viewOf items) = viewOf r.1 ∧
    (∀ pre c, r.2 = pre ++ [c] → c.kind = .remove → c.old = fold pre (viewOf items) c.id) := by
  have h := stepAct_spec t hn (Act.deleteRetry i intf)
  refine ⟨h.1, h.2.1, h.2.2, ?_⟩
  intro pre c hpc hk
  have hw := h.2.1
  rw [hpc, WFHist_append] at hw
  have hc := hw.2.1
  simp only [WFChange, hk] at hc
  exact hc.2.1

/-- `Pull(WithInclude p, WithReadMask m)` against `List` over histories that contain re-entrant deletes:
for every predicate, projection, contents and history of plain writes and interfered deletes, the seed
followed by the include-filtered, masked events is a well-formed history from the empty view and folds
to the projection of `List(WithInclude p)` after the writes. -/
theorem C08_pull_matches_list_reentrant (p : Option (Pred ι μ)) (proj : μ → μ) (items : List (ι × μ))
    (hn : NodupKeys items) (order : List (ι × μ)) (hperm : order.Perm (itemSlice p items))
    (t t' : Nat) (as : List (Act ι μ)) :
    let r := runActs t items as
    let stream := (seedFrom t' order).map (maskChange proj) ++ r.2.filterMap (pullEvent p proj)
    WFHist View.empty stream ∧
    fold stream View.empty = projView proj (viewOf (itemSlice p r.1)) ∧
    viewOf (itemSlice p r.1) = filterView p (viewOf r.1) := by
  have hseed := C08_seed_is_filtered_list p items hn order hperm t'
  have hops := runActs_spec t hn as
  have hinc := include_hist p (viewOf items) (runActs t items as).2 hops.2.1
  have hlist := viewOf_itemSlice p (runActs t items as).1 hops.1
  have hwf : WFHist View.empty (seedFrom t' order ++ (runActs t items as).2.filterMap (includeChange p)) := by
    rw [WFHist_append, hseed.2.2]; exact ⟨hseed.2.1, hinc.1⟩
  have hfold : fold (seedFrom t' order ++ (runActs t items as).2.filterMap (includeChange p)) View.empty
      = viewOf (itemSlice p (runActs t items as).1) := by
    rw [fold_append, hseed.2.2, hinc.2, hops.2.2, hlist]
  have hm := mask_hist proj View.empty _ hwf
  have he : projView proj (View.empty : View ι μ) = View.empty := by funext i; rfl
  rw [he] at hm
  simp only [filterMap_pullEvent, ← List.map_append]
  exact ⟨hm.1, by rw [hm.2, hfold], hlist⟩

/-- The full pipeline (include ▸ mask ▸ equivalence ▸ lossy machine ▸ forwarder ▸ consumer, every
interleaving) over histories with re-entrant deletes: at quiescence the subscriber's view is, id by id,
`E`-equivalent to the projection of `List(WithInclude p)` after the writes. -/
theorem C08_pull_full_pipeline_list_reentrant (p : Option (Pred ι μ)) (proj : μ → μ)
    (E : Option μ → Option μ → Bool) (hrefl : ∀ a, E a a = true)
    (htrans : ∀ a b c, E a b = true → E b c = true → E a c = true)
    (items : List (ι × μ)) (hn : NodupKeys items) (t : Nat) (as : List (Act ι μ))
    (ms : List (PMove (Change ι μ))) (hms : pinputs ms = (runActs t items as).2) :
    let r := runActs t items as
    let c := prun (pullStep p proj (some E)) PCfg.init ms
    let base := projView proj (viewOf (itemSlice p items))
    c.inHand = none → c.st.pending = [] →
      ∀ i, E (fold c.delivered base i) (projView proj (viewOf (itemSlice p r.1)) i) = true := by
  intro r c base hh hpend i
  have hops := runActs_spec t hn as
  have h := (C08_pull_full_pipeline p proj E hrefl htrans (viewOf items) ms
    (by rw [hms]; exact hops.2.1)).2 hh hpend i
  rw [hms, hops.2.2, ← viewOf_itemSlice p _ hops.1, ← viewOf_itemSlice p items hn] at h
  exact h

/-- Subscribing while a writer runs (the code as it is: seed and `Listen` under one read lock).  For
every predicate, initial contents and EVERY schedule of the steps commit / publish / deleteNow of the
writer thread and snapshot / listen of the subscriber:
* while the subscriber holds the lock its seed IS the filtered list of the current contents;
* once it listens, the fold of its seed and the include-filtered events it received is the filtered
  collection of a view `V` that is the current contents when nothing is pending, and otherwise lags by
  exactly the pending (committed, unpublished) event: `apply c V = contents`;
* so at every quiescent point (`pend = none`) the seed — in ANY order — followed by the filtered events
  folds from the empty view to `List(WithInclude p)` of the current contents.
This includes the schedules in which the subscriber snapshots between a commit and its publication and
is then sent an event its seed already contains (`include_stale`). -/
theorem C08_subscribe_atomic (p : Option (Pred ι μ)) (items : List (ι × μ)) (hn : NodupKeys items)
    (sched : List (Step ι μ)) :
    let s := sysRun true p (Sys.init items) sched
    match s.sub with
    | .idle => True
    | .snapping seed => seed = itemSlice p s.items
    | .listening seed recv =>
      (∃ V, subView p seed recv = filterView p V ∧
        match s.pend with
        | none => V = viewOf s.items
        | some c => apply c V = viewOf s.items) ∧
      (s.pend = none → ∀ (order : List (ι × μ)) (t : Nat), order.Perm seed →
        fold (seedFrom t order ++ recv.filterMap (includeChange p)) View.empty
          = viewOf (itemSlice p s.items) ∧
        viewOf (itemSlice p s.items) = filterView p (viewOf s.items)) := by
  have h := sysRun_inv p (Sys.init items) sched (SubInv_init p items hn)
  generalize sysRun true p (Sys.init items) sched = s at h
  obtain ⟨hn', hG, hsub⟩ := h
  rcases s with ⟨its, pend, sub, t⟩
  cases sub with
  | idle => trivial
  | snapping seed => exact hsub
  | listening seed recv =>
    obtain ⟨hns, V, hv, hV⟩ := hsub
    simp only at hV hn' hv
    refine ⟨⟨V, hv, ?_⟩, ?_⟩
    · cases pend with
      | none => exact hV
      | some c => exact hV.1
    · intro hp order t' hperm
      simp only at hp
      subst hp
      simp only at hV
      subst hV
      have hlist := viewOf_itemSlice p its hn'
      refine ⟨?_, hlist⟩
      -- the seed in any order folds to `viewOf seed`
      have hsv : fold (seedFrom t' order) View.empty = viewOf seed := by
        have hno : NodupKeys order := by
          unfold NodupKeys at *
          exact ((hperm.map Prod.fst).nodup_iff).mpr hns
        have hsf := seed_fold t' order (View.empty : View ι μ) hno (fun _ _ => rfl)
        funext i
        rw [hsf.2 i, ← viewOf_perm hns hperm]
        simp only [viewOf, View.empty]
        cases order.lookup i <;> rfl
      rw [fold_append, hsv, hlist]
      exact hv

/-- The lock is what makes it true: in the hypothetical code that releases the read lock before the
predicate runs and before `Listen` (`locked = false`: the writer may commit between `snapshot` and
`listen`), a schedule exists after which the subscriber listens, nothing is pending, and its fold
differs from `List(WithInclude p)` for ever — the write is in neither the seed nor the stream. -/
theorem C08_subscribe_needs_lock :
    ∃ (items : List (Nat × Nat)) (sched : List (Step Nat Nat)) (seed : List (Nat × Nat))
      (recv : List (Change Nat Nat)),
      NodupKeys items ∧
      (sysRun false (none : Option (Pred Nat Nat)) (Sys.init items) sched).sub = .listening seed recv ∧
      (sysRun false (none : Option (Pred Nat Nat)) (Sys.init items) sched).pend = none ∧
      subView (none : Option (Pred Nat Nat)) seed recv 1
        ≠ viewOf (itemSlice none (sysRun false (none : Option (Pred Nat Nat)) (Sys.init items) sched).items) 1 := by
  refine ⟨[(1, 10)], [.snapshot, .commit (.update 1 20), .publish, .listen], [(1, 10)], [], ?_, rfl, rfl, ?_⟩
  · unfold NodupKeys; decide
  · decide

/-! ### non-vacuity -/

section examples

/-- predicate: value 20 only (and TRUE on absent values) -/
private def p20 : Pred Nat Nat := fun _ v => v.isNone || v == some 20

/-- a Delete whose check callback updates the item first (10 → 20): with the predicate "value 20" the
subscriber is sent ADD 20 (the nested update makes the item match) and then REMOVE with old = 20, the
value actually removed — had the REMOVE carried the value first read (10, not matching) `include` would
have swallowed it. -/
example :
    ((stepAct 0 [(1, 10)] (.deleteRetry 1 [[.update 1 20]])).2.filterMap
        (includeChange (some p20))).map (fun c => (c.kind, c.old, c.new))
      = [(.add, none, some 20), (.remove, some 20, none)] := by decide

/-- five interfering writes exhaust Delete's attempts: five UPDATEs are published, no REMOVE, the item stays -/
example :
    ((stepAct 0 [(1, 10)] (.deleteRetry 1 (List.replicate 5 [.update 1 20]))).2.map (·.kind),
     (stepAct 0 [(1, 10)] (.deleteRetry 1 (List.replicate 5 [.update 1 20]))).1)
      = ([.update, .update, .update, .update, .update], [(1, 20)]) := by decide

/-- a schedule of `C08_subscribe_atomic` in which the subscriber snapshots BETWEEN a commit and its
publication: the seed already holds 20, the late UPDATE 10→20 arrives as well (stale), and the fold is
still the filtered collection.  While it held the lock a second commit was attempted and blocked. -/
example :
    let s := sysRun true (some p20) (Sys.init [(1, 10)])
      [.commit (.update 1 20), .snapshot, .commit (.update 1 30), .listen, .publish]
    (match s.sub with
     | .listening seed recv => (seed, recv.map (fun c => (c.kind, c.old, c.new)), subView (some p20) seed recv 1)
     | _ => ([], [], none)) = ([(1, 20)], [(.update, some 10, some 20)], some 20) ∧ s.items = [(1, 20)] := by
  decide

end examples

end ScVerif.C08
