import ScVerif.C09.Merge
/-
C08 — model of include-filtered `List`/`Pull` of a `resource.Collection`.

* `includeChange`   `(*CollectionChange).include` (pkg/resource/change.go), as coded after the two `fix:`
                    commits (the `!newInclude` inversion; absent values are never included)
* `exclude`         `ReadRequest.Exclude` (pkg/resource/opt.go)
* `itemSlice/list/seed/pull`   `Collection.itemSlice`, `List`, the seed loop and the forwarding loop of
                    `Collection.Pull` (pkg/resource/collection.go): include → (read-mask filter, not
                    modelled: no mask) → (equivalence, not modelled: none configured)
* `deleteLoop/Act/stepAct/runActs`   `Collection.Delete`'s optimistic read / callbacks without the lock /
                    re-check under the lock / retry loop, under arbitrary interference
* `Op/stepOp`       the writes `Add`, `Update`, `Update(WithCreateIfAbsent)`, `Delete` at the level of which
                    event they publish (failing writes publish nothing)

The collection's `byId` map is a list of (id, value) pairs with distinct ids (`NodupKeys`).
-/
namespace ScVerif.C08
open ScVerif.C09

variable {ι μ : Type}

/-- A `FilterFunc`: id and (possibly absent) message to bool. -/
abbrev Pred (ι μ : Type) := ι → Option μ → Bool

/-- `c.include(includeFunc)`; `none` stands for `ok == false` (do not forward). -/
def includeChange (p : Option (Pred ι μ)) (c : Change ι μ) : Option (Change ι μ) :=
  match p with
  | none => some c
  | some f =>
    let oldInclude := c.old.isSome && f c.id c.old
    let newInclude := c.new.isSome && f c.id c.new
    if oldInclude = newInclude then
      -- the only time we want to skip sending the update is if both the old and new values are excluded
      if newInclude then some c else none
    else if newInclude then
      -- treat this like an Add (LastSeedValue deliberately not copied)
      some { id := c.id, kind := .add, time := c.time, old := none, new := c.new,
             seed := c.seed, lastSeed := false }
    else
      -- treat this like a remove
      some { id := c.id, kind := .remove, time := c.time, old := c.old, new := none,
             seed := false, lastSeed := false }

/-- `rr.Exclude(id, m)` for a stored (present) message. -/
def exclude (p : Option (Pred ι μ)) (i : ι) (v : μ) : Bool :=
  match p with
  | none => false
  | some f => !f i (some v)

/-- `itemSlice(readConfig)`: the stored items that are not excluded (map order abstracted: the list's). -/
def itemSlice (p : Option (Pred ι μ)) (items : List (ι × μ)) : List (ι × μ) :=
  items.filter (fun iv => !exclude p iv.1 iv.2)

/-- The seed events of `Pull`: one ADD per listed item, SeedValue set, LastSeedValue on the last. -/
def seedFrom (time : Nat) : List (ι × μ) → List (Change ι μ)
  | [] => []
  | [iv] => [{ id := iv.1, kind := .add, time := time, old := none, new := some iv.2, seed := true, lastSeed := true }]
  | iv :: rest => { id := iv.1, kind := .add, time := time, old := none, new := some iv.2, seed := true, lastSeed := false }
                    :: seedFrom time rest

def seed (p : Option (Pred ι μ)) (items : List (ι × μ)) : List (Change ι μ) :=
  seedFrom 0 (itemSlice p items)

/-- What a `Pull(WithInclude p)` subscriber is sent: the seed, then every published event through `include`. -/
def pull (p : Option (Pred ι μ)) (items : List (ι × μ)) (events : List (Change ι μ)) : List (Change ι μ) :=
  seed p items ++ events.filterMap (includeChange p)

/-- `(*CollectionChange).filter(responseFilter)`: the read mask projects old and new value; everything
else is kept.  `proj` is the projection `ResponseFilter.FilterClone` performs on a message (identity
without a mask).  In `Pull` it is applied to seeds directly and to events AFTER `include`, so the
predicate always sees the stored, unmasked values. -/
def maskChange (proj : μ → μ) (c : Change ι μ) : Change ι μ :=
  { c with old := c.old.map proj, new := c.new.map proj }

/-- What a `Pull(WithInclude p, WithReadMask m)` subscriber is sent for one published event. -/
def pullEvent (p : Option (Pred ι μ)) (proj : μ → μ) (c : Change ι μ) : Option (Change ι μ) :=
  (includeChange p c).map (maskChange proj)

/-- One turn of the forwarding loop of `Collection.Pull` on a published (or merged) event:
include ▸ read mask ▸ `c.equivalence.Compare(change.OldValue, change.NewValue)` (on the masked values;
`none` = no equivalence configured).  `none` = `continue`. -/
def pullStep (p : Option (Pred ι μ)) (proj : μ → μ) (E : Option (Option μ → Option μ → Bool))
    (c : Change ι μ) : Option (Change ι μ) :=
  match pullEvent p proj c with
  | none => none
  | some d =>
    match E with
    | some e => if e d.old d.new then none else some d
    | none => some d

/-- The read-masked view: every value projected. -/
def projView (proj : μ → μ) (s : View ι μ) : View ι μ := fun i => (s i).map proj

variable [DecidableEq ι]

/-- The view of stored items: `byId[i]`. -/
def viewOf (items : List (ι × μ)) : View ι μ := fun i => items.lookup i

/-- The filtered collection (Spec): present and satisfying the predicate. -/
def filterView (p : Option (Pred ι μ)) (s : View ι μ) : View ι μ :=
  fun i => match s i with
    | some v => if exclude p i v then none else some v
    | none => none

def NodupKeys (items : List (ι × μ)) : Prop := (items.map Prod.fst).Nodup

/-- Write operations on a collection. -/
inductive Op (ι μ : Type) where
  | add (i : ι) (v : μ)        -- Add: WithExpectAbsent + WithCreateIfAbsent
  | update (i : ι) (v : μ)     -- Update (no create): NotFound when absent
  | upsert (i : ι) (v : μ)     -- Update(WithCreateIfAbsent)
  | delete (i : ι)             -- Delete: NotFound when absent

def eraseKey (i : ι) (items : List (ι × μ)) : List (ι × μ) := items.filter (fun jv => jv.1 ≠ i)

def setKey (i : ι) (v : μ) (items : List (ι × μ)) : List (ι × μ) := (i, v) :: eraseKey i items

def mkChange (i : ι) (k : Kind) (t : Nat) (o n : Option μ) : Change ι μ :=
  { id := i, kind := k, time := t, old := o, new := n, seed := false, lastSeed := false }

/-- One write at time `t`: new contents and the published event, if the write succeeds. -/
def stepOp (t : Nat) (items : List (ι × μ)) : Op ι μ → List (ι × μ) × Option (Change ι μ)
  | .add i v =>
    match items.lookup i with
    | some _ => (items, none)                                   -- ExpectAbsentPreconditionFailed
    | none => (setKey i v items, some (mkChange i .add t none (some v)))
  | .update i v =>
    match items.lookup i with
    | some o => (setKey i v items, some (mkChange i .update t (some o) (some v)))
    | none => (items, none)                                     -- NotFound
  | .upsert i v =>
    match items.lookup i with
    | some o => (setKey i v items, some (mkChange i .update t (some o) (some v)))
    | none => (setKey i v items, some (mkChange i .add t none (some v)))
  | .delete i =>
    match items.lookup i with
    | some o => (eraseKey i items, some (mkChange i .remove t (some o) none))
    | none => (items, none)                                     -- NotFound

/-- Run a write history; returns the final contents and the published events in order. -/
def runOps (t : Nat) (items : List (ι × μ)) : List (Op ι μ) → List (ι × μ) × List (Change ι μ)
  | [] => (items, [])
  | op :: ops =>
    let r := stepOp t items op
    let r' := runOps (t + 1) r.1 ops
    (r'.1, r.2.toList ++ r'.2)

/-! ### `Collection.Delete`: optimistic read, callbacks without the lock, re-check under the lock, retry

```go
c.mu.RLock(); oldVal, exists := c.byId[id]; c.mu.RUnlock()
for attempt := 0; attempt < 5; attempt++ {
    if !exists { return NotFound }
    expectedCheck(oldVal.body) …            // caller code, no lock held: may write to the collection itself
    c.mu.Lock()
    oldVal2, exists2 := c.byId[id]
    if oldVal2 != oldVal || exists2 != exists { c.mu.Unlock(); oldVal, exists = oldVal2, exists2; continue }
    delete(c.byId, id); c.bus.Send(REMOVE{OldValue: oldVal.body}); c.mu.Unlock(); return
}
return Unavailable
```
`intf` lists, attempt by attempt, the writes that land between the read and the lock (the check
callback writing to the collection, or other writers).  `oldVal2 != oldVal` compares `*item`
pointers; every successful write stores a fresh `*item` (or deletes it), so the pointer of id `i`
changed iff a successful write to `i` was published in between: `touched`. -/

def touched (i : ι) (evs : List (Change ι μ)) : Bool := evs.any (fun c => decide (c.id = i))

/-- `deleteLoop i guard attemptsLeft read t items intf`: the loop of `Delete` with `read` = the value of
`i` as last read.  `guard n o` = "with `n+1` attempts left, the preconditions accept the read value `o`":
`expectedCheck(oldVal.body)` returned no error and `oldVal.body` equals `WithExpectedValue` (when given);
both are evaluated on the value READ, after the callback ran.  Returns the final contents and every
event published meanwhile, in order. -/
def deleteLoop (i : ι) (guard : Nat → μ → Bool) : Nat → Option μ → Nat → List (ι × μ) → List (List (Op ι μ)) →
    List (ι × μ) × List (Change ι μ)
  | 0, _, _, items, _ => (items, [])                       -- Unavailable: "concurrent writes"
  | n + 1, read, t, items, intf =>
    match read with
    | none => (items, [])                                  -- NotFound (or nil, nil with WithAllowMissing)
    | some o =>
      let r := runOps t items (intf.headD [])              -- callbacks / other writers, no lock held
      if !guard n o then (r.1, r.2)                        -- precondition failed: return, nothing deleted
      else if touched i r.2 then                           -- under the lock: somebody changed the item
        let r' := deleteLoop i guard n (r.1.lookup i) (t + r.2.length) r.1 intf.tail
        (r'.1, r.2 ++ r'.2)
      else                                                 -- actually do the delete; event built HERE
        (eraseKey i r.1, r.2 ++ [mkChange i .remove (t + r.2.length) (some o) none])

/-! ### `Collection.Update` when the item is written between its read and its write lock

`GetAndUpdate`: `get()` under the read lock (an absent item reads as the provisional empty message
`created` when `WithCreateIfAbsent`), the change function — caller code: `WithExpectedCheck`, interceptors —
runs with no lock held, then under the write lock `get()` again and `proto.Equal(old, oldAgain)` decides
between `Aborted` and saving.  The comparison is BY VALUE, so the write goes through when the item was
written meanwhile to an equal value — in particular when it was absent at the first read and has been
created meanwhile holding exactly the empty message.  The event must then be an UPDATE from that stored
value, not an ADD (the code after `fix:`; `writeRetryLegacy` keeps the behaviour before it). -/

/-- what `get()` returns: `none` = the call fails here (ExpectAbsentPreconditionFailed / NotFound) -/
def getForUpdate (empty : μ) (create expectAbsent : Bool) (stored : Option μ) : Option μ :=
  match stored with
  | some o => if expectAbsent then none else some o
  | none => if create then some empty else none

/-- `Update(i, v, …)` with `intf` = the writes that land between its read and its write lock. -/
def writeRetry [DecidableEq μ] (empty : μ) (t : Nat) (items : List (ι × μ)) (i : ι) (v : μ)
    (create expectAbsent : Bool) (intf : List (Op ι μ)) : List (ι × μ) × List (Change ι μ) :=
  match getForUpdate empty create expectAbsent (items.lookup i) with
  | none => (items, [])
  | some rv =>
    let r := runOps t items intf                      -- the change function: caller code, no lock held
    match getForUpdate empty create expectAbsent (r.1.lookup i) with
    | none => (r.1, r.2)
    | some av =>
      if rv ≠ av then (r.1, r.2)                      -- Aborted: "concurrent update detected"
      else
        let ev := match r.1.lookup i with             -- what is stored when the write lock is held
          | none => mkChange i .add (t + r.2.length) none (some v)
          | some _ => mkChange i .update (t + r.2.length) (some rv) (some v)
        (setKey i v r.1, r.2 ++ [ev])

/-- before the `fix:` commit: an item absent at the FIRST read was announced as ADD (no old value)
whatever is stored at commit time. -/
def writeRetryLegacy [DecidableEq μ] (empty : μ) (t : Nat) (items : List (ι × μ)) (i : ι) (v : μ)
    (create expectAbsent : Bool) (intf : List (Op ι μ)) : List (ι × μ) × List (Change ι μ) :=
  match getForUpdate empty create expectAbsent (items.lookup i) with
  | none => (items, [])
  | some rv =>
    let r := runOps t items intf
    match getForUpdate empty create expectAbsent (r.1.lookup i) with
    | none => (r.1, r.2)
    | some av =>
      if rv ≠ av then (r.1, r.2)
      else
        let ev := match items.lookup i, r.1.lookup i with
          | some _, some _ => mkChange i .update (t + r.2.length) (some rv) (some v)
          | _, _ => mkChange i .add (t + r.2.length) none (some v)
        (setKey i v r.1, r.2 ++ [ev])

/-- A write as the harness drives it: a plain write, a `Delete` with its options — preconditions
(`guard`) and a check callback (or concurrent writers) writing to the collection between the attempts —
or an `Add`/`Update` whose change function (or concurrent writers) writes to the collection. -/
inductive Act (ι μ : Type) where
  | op (o : Op ι μ)
  | deleteRetry (i : ι) (intf : List (List (Op ι μ))) (guard : Nat → μ → Bool)
  | writeRetry (i : ι) (v : μ) (create expectAbsent : Bool) (intf : List (Op ι μ)) (empty : μ)

variable [DecidableEq μ]

def stepAct (t : Nat) (items : List (ι × μ)) : Act ι μ → List (ι × μ) × List (Change ι μ)
  | .op o => let r := stepOp t items o; (r.1, r.2.toList)
  | .deleteRetry i intf guard => deleteLoop i guard 5 (items.lookup i) t items intf
  | .writeRetry i v create expectAbsent intf empty => writeRetry empty t items i v create expectAbsent intf

def runActs (t : Nat) (items : List (ι × μ)) : List (Act ι μ) → List (ι × μ) × List (Change ι μ)
  | [] => (items, [])
  | a :: as =>
    let r := stepAct t items a
    let r' := runActs (t + 1 + r.2.length) r.1 as
    (r'.1, r.2 ++ r'.2)

end ScVerif.C08
