import ScVerif.C08.PropsConc
import ScVerif.C08.Booking
import ScVerif.C08.GenId
import ScVerif.C18.TimeLemmas
/-!
# C08 — property theorems, part 3: the booking server's `booking_intersects` filter

`ModelServer.ListBookings` / `PullBookings` pass `WithInclude(booked period intersects the request's)`
(`bookingInclude`) to `Collection.List` / `Pull`.  Instantiating the general theorems: the stream folds to
`ListBookings`, and `ListBookings` is exactly the bookings sharing an instant with the request period.
Only property theorems and non-vacuity examples live in this file.
-/
namespace ScVerif.C08
open ScVerif.C09
open ScVerif.C18 (Period periodsIntersect)

variable {ι μ : Type} [DecidableEq ι] [DecidableEq μ]

/-- `PullBookings(booking_intersects = q, read_mask)` against `ListBookings` with the same request, for
every request period (or none), every way `booked` is read off a booking, every projection, contents and
history of writes (re-entrant deletes included): the seed followed by the delivered events is a
well-formed history that folds to the projection of `ListBookings`; and `ListBookings` holds a stored
booking iff `bookingListed` — no request period: every booking; otherwise exactly those whose booked
period intersects the request's (a booking without a booked period never does). -/
theorem C08_booking_pull_matches_list (booked : μ → Option Period) (q : Option Period) (proj : μ → μ)
    (items : List (ι × μ)) (hn : NodupKeys items) (order : List (ι × μ))
    (hperm : order.Perm (itemSlice (bookingInclude booked q) items)) (t t' : Nat) (as : List (Act ι μ)) :
    let p : Option (Pred ι μ) := bookingInclude booked q
    let r := runActs t items as
    let stream := (seedFrom t' order).map (maskChange proj) ++ r.2.filterMap (pullEvent p proj)
    WFHist View.empty stream ∧
    fold stream View.empty = projView proj (viewOf (itemSlice p r.1)) ∧
    (∀ i, viewOf (itemSlice p r.1) i =
      match viewOf r.1 i with
      | some b => if bookingListed booked q b then some b else none
      | none => none) := by
  have h := C08_pull_matches_list_reentrant (bookingInclude booked q) proj items hn order hperm t t' as
  refine ⟨h.1, h.2.1, ?_⟩
  intro i
  rw [h.2.2]
  simp only [filterView]
  cases viewOf (runActs t items as).1 i with
  | none => rfl
  | some b =>
    cases q with
    | none => simp [bookingInclude, exclude, bookingListed]
    | some qp =>
      simp only [bookingInclude, exclude, bookingListed]
      by_cases hx : periodsIntersect (booked b) (some qp) = true
      · simp [hx]
      · simp [hx]

/-- What "listed" means for proper periods (normalised bounds, start < end): the booked period and the
request period share an instant; a booking without a booked period is listed only when the request has
no period. -/
theorem C08_booking_listed_iff_share_instant (booked : μ → Option Period) (b : μ) (qp : Period)
    (hq : qp.Proper) :
    (∀ bp, booked b = some bp → bp.Proper →
      (bookingListed booked (some qp) b = true ↔ ∃ x : Int, bp.Mem x ∧ qp.Mem x)) ∧
    (booked b = none → bookingListed booked (some qp) b = false) ∧
    bookingListed booked none b = true := by
  refine ⟨?_, ?_, rfl⟩
  · intro bp hb hp
    simp only [bookingListed, hb]
    have h1 := ScVerif.C18.lower_lt_upper bp qp hp.1 hq.2.1
    have h2 := ScVerif.C18.lower_lt_upper qp bp hq.1 hp.2.1
    simp only [periodsIntersect, Bool.and_eq_true, decide_eq_true_eq]
    rw [h1, h2]
    exact (ScVerif.C18.exists_mem_iff bp.lo bp.hi qp.lo qp.hi hp.2.2 hq.2.2).symm
  · intro hb
    simp [bookingListed, hb, periodsIntersect]

/-- The whole request: `PullBookings(booking_intersects, read_mask, updates_only)` against `ListBookings` with
the same request, for every request period (or none), read-mask projection, BOTH values of `updates_only`,
every way `booked` is read off a booking, contents and history of writes (re-entrant deletes included).
The stream (`bookingPullStream`: the masked seed - none with `updates_only` - then every published change
through include and mask) is a well-formed edit history of the client's base line (`bookingBase`: empty, or
with `updates_only` the `ListBookings` answer taken at subscribe time) and folds to `ListBookings` after the
writes.  Well-formed means: an ADD only for a booking the client does not hold, an UPDATE / REMOVE only for
one it holds, carrying as old value exactly the value it holds - so a booking moved out of the period
arrives as a REMOVE, one moved in as an ADD, also for a subscriber that got no seed. -/
theorem C08_booking_request_matches_list (booked : μ → Option Period) (req : BookingReq μ)
    (items : List (ι × μ)) (hn : NodupKeys items) (order : List (ι × μ))
    (hperm : order.Perm (itemSlice (bookingInclude booked req.intersects) items)) (t t' : Nat)
    (as : List (Act ι μ)) :
    let p : Option (Pred ι μ) := bookingInclude booked req.intersects
    let r := runActs t items as
    let stream := bookingPullStream booked req t' order r.2
    let base := bookingBase booked req items
    WFHist base stream ∧
    fold stream base = projView req.proj (viewOf (itemSlice p r.1)) := by
  obtain ⟨q, proj, uo⟩ := req
  cases uo with
  | false =>
    have h := C08_pull_matches_list_reentrant (bookingInclude booked q) proj items hn order hperm t t' as
    simpa [bookingPullStream, bookingBase] using ⟨h.1, h.2.1⟩
  | true =>
    have hops := runActs_spec t hn as
    have hp := pullEvent_hist (bookingInclude booked q) proj (viewOf items) _ hops.2.1
    have h0 := viewOf_itemSlice (bookingInclude booked q) items hn
    have h1 := viewOf_itemSlice (bookingInclude booked q) (runActs t items as).1 hops.1
    simp only [bookingPullStream, bookingBase, if_true, List.nil_append]
    rw [h0, h1, ← hops.2.2]
    exact hp

/-- `PeriodsIntersect` treats its arguments alike for ALL periods - missing, unbounded, empty (`[4,4)`) or
inverted (`[6,3)`) ones included: whichever of (booked period, request period) a handler passes first, the
include predicates of `ListBookings` and `PullBookings` are the same function. -/
theorem C08_booking_argument_order_irrelevant (a b : Option Period) :
    periodsIntersect a b = periodsIntersect b a := by
  cases a <;> cases b <;> simp [periodsIntersect, Bool.and_comm]

omit [DecidableEq μ] in
/-- "Listed" for ANY two periods with normalised timestamps, proper or not: the booked period starts before
the request period ends and the request period starts before the booked period ends (an absent bound
satisfies its comparison).  In particular a zero-length booking `[t,t)` is listed exactly when `t` lies
strictly inside the request period - `pkg/time` compares the four bounds pairwise and never asks whether
either period holds an instant - and `ListBookings` and `PullBookings` agree on it
(`C08_booking_request_matches_list`). -/
theorem C08_booking_listed_any_period (booked : μ → Option Period) (b : μ) (bp qp : Period)
    (hb : booked b = some bp)
    (hbn : ScVerif.C18.optNormal bp.start ∧ ScVerif.C18.optNormal bp.stop)
    (hqn : ScVerif.C18.optNormal qp.start ∧ ScVerif.C18.optNormal qp.stop) :
    bookingListed booked (some qp) b = true ↔
      (ScVerif.C18.bLt bp.lo qp.hi ∧ ScVerif.C18.bLt qp.lo bp.hi) := by
  simp only [bookingListed, hb]
  have h1 := ScVerif.C18.lower_lt_upper bp qp hbn.1 hqn.2
  have h2 := ScVerif.C18.lower_lt_upper qp bp hqn.1 hbn.2
  simp only [periodsIntersect, Bool.and_eq_true, decide_eq_true_eq]
  rw [h1, h2]

/-! ### writes of the booking server that are not plain updates

`CreateBooking` stores a booking under a GENERATED id (`ScVerif/C08/GenId.lean`); `CheckInBooking` /
`CheckOutBooking` update a booking under an update mask that leaves the booked period alone. -/

/-- A booking created without an id (`CreateBooking` → `Add` with `WithGenIDIfAbsent`): for every rng output
(`cands`), validity test, id interceptor, contents, way the id callback builds the message and EVERY
interference between the call's first read and its write lock: whatever is published is a well-formed
history from the contents at the start to the final contents (so all `Pull` theorems hold over histories
with such creations); the generated id is the canonical form of a valid candidate and was NOT a key when
it was chosen; and with no interference the call publishes exactly one ADD of that id, stores it, and
leaves every other item as it was - a generated id never replaces, updates or removes an existing item. -/
theorem C08_generated_id_add (empty : μ) (t : Nat) (items : List (ι × μ)) (hn : NodupKeys items)
    (canon : ι → ι) (valid : ι → Bool) (cands : List ι) (v : ι → μ) (intf : List (Op ι μ)) :
    let r := addGen empty t items canon valid cands v intf
    (NodupKeys r.1 ∧ WFHist (viewOf items) r.2 ∧ fold r.2 (viewOf items) = viewOf r.1) ∧
    (∀ i, genUniqueId canon valid (fun i => (items.lookup i).isSome) cands = some i →
      viewOf items i = none ∧ (∃ c, c ∈ cands ∧ valid c = true ∧ i = canon c) ∧
      (intf = [] → r.2 = [mkChange i .add t none (some (v i))] ∧
        viewOf r.1 = (viewOf items).set i (some (v i)))) ∧
    (genUniqueId canon valid (fun i => (items.lookup i).isSome) cands = none → r = (items, [])) := by
  refine ⟨?_, ?_, ?_⟩
  · simp only [addGen]
    split
    · exact ⟨hn, trivial, rfl⟩
    · rename_i i _
      exact stepAct_spec t hn (Act.writeRetry i (v i) true true intf empty)
  · intro i hi
    have hs := genUniqueId_spec canon valid _ cands i hi
    have hnone : items.lookup i = none := by
      cases h : items.lookup i with
      | none => rfl
      | some x => simp [h] at hs
    refine ⟨hnone, hs.2, ?_⟩
    intro hintf
    subst hintf
    simp only [addGen, hi, writeRetry, getForUpdate, hnone, runOps]
    simp [viewOf_setKey]
  · intro hnone
    simp only [addGen, hnone]

/-- The generated booking at the subscriber: through `PullBookings`' include and read mask the ADD of a
booking created without an id is delivered - as an ADD - exactly when the booking is listed by the request;
it is never turned into anything else. -/
theorem C08_generated_booking_event (booked : μ → Option Period) (q : Option Period) (proj : μ → μ)
    (i : ι) (t : Nat) (b : μ) :
    pullEvent (bookingInclude booked q) proj (mkChange i .add t none (some b)) =
      if bookingListed booked q b then some (mkChange i .add t none (some (proj b))) else none := by
  cases q with
  | none => simp [bookingInclude, pullEvent, includeChange, bookingListed, maskChange, mkChange]
  | some qp =>
    by_cases h : periodsIntersect (booked b) (some qp) = true
    · simp [bookingInclude, pullEvent, includeChange, bookingListed, maskChange, mkChange, h]
    · simp [bookingInclude, pullEvent, includeChange, bookingListed, maskChange, mkChange, h]

/-- A write that leaves the booked period alone (`CheckInBooking` / `CheckOutBooking`: an Update under the
update mask `check_in.start_time` / `check_in.end_time`) never changes membership: for every request, the
UPDATE of a listed booking is delivered as that UPDATE (masked), the UPDATE of an unlisted booking is not
delivered - it is never reported as ADD or REMOVE. -/
theorem C08_booking_checkin_keeps_membership (booked : μ → Option Period) (q : Option Period) (proj : μ → μ)
    (i : ι) (t : Nat) (b b' : μ) (hsame : booked b' = booked b) :
    pullEvent (bookingInclude booked q) proj (mkChange i .update t (some b) (some b')) =
      if bookingListed booked q b then some (mkChange i .update t (some (proj b)) (some (proj b'))) else none := by
  cases q with
  | none => simp [bookingInclude, pullEvent, includeChange, bookingListed, maskChange, mkChange]
  | some qp =>
    by_cases h : periodsIntersect (booked b) (some qp) = true
    · simp [bookingInclude, pullEvent, includeChange, bookingListed, maskChange, mkChange, h, hsame]
    · simp [bookingInclude, pullEvent, includeChange, bookingListed, maskChange, mkChange, h, hsame]

/-! ### non-vacuity -/

/-- [2,4) and [3,5) intersect, [2,4) and [4,6) do not (the doc comment of `PeriodsIntersect`) -/
example :
    (bookingListed (μ := Option Period) id (some ⟨some ⟨3, 0⟩, some ⟨5, 0⟩⟩) (some ⟨some ⟨2, 0⟩, some ⟨4, 0⟩⟩),
     bookingListed (μ := Option Period) id (some ⟨some ⟨4, 0⟩, some ⟨6, 0⟩⟩) (some ⟨some ⟨2, 0⟩, some ⟨4, 0⟩⟩),
     bookingListed (μ := Option Period) id (some ⟨none, none⟩) none) = (true, false, false) := by decide

section examples
private def per (a b : Int) : Option Period := some ⟨some ⟨a, 0⟩, some ⟨b, 0⟩⟩
private def reqUO : BookingReq (Option Period) := ⟨some ⟨some ⟨3, 0⟩, some ⟨6, 0⟩⟩, id, true⟩

/-- updates_only + booking_intersects `[3,6)`: booking 1 moves out of the period (REMOVE carrying the value
the client holds), booking 2 moves in (ADD), booking 3 stays outside (nothing) -/
example :
    ((bookingPullStream (ι := Nat) id reqUO 0 []
        (runActs 0 [(1, per 4 5), (2, per 7 9), (3, per 0 1)]
          [.op (.upsert 1 (per 7 9)), .op (.upsert 2 (per 5 8)), .op (.upsert 3 (per 1 2))]).2).map
      (fun c => (c.id, c.kind, c.old, c.new)))
      = [(1, .remove, some (per 4 5), none), (2, .add, none, some (per 5 8))] := by
  decide

/-- a zero-length booking `[4,4)` strictly inside the request period `[3,6)` is listed, one on its border
(`[3,3)`, `[6,6)`) is not; an inverted `[5,4)` is, `[7,2)` is not -/
example :
    ([per 4 4, per 3 3, per 6 6, per 5 4, per 7 2].map
      (bookingListed (μ := Option Period) id (some ⟨some ⟨3, 0⟩, some ⟨6, 0⟩⟩))) = [true, false, false, true, false] := by
  decide
end examples

/-- non-vacuity: the rng repeats itself (every candidate of the first two draws is `7`, taken): the third
candidate is chosen; with all candidates taken the call is aborted and nothing changes -/
example :
    genUniqueId id (fun c => c ≠ 0) (fun i => (([(7, 1)] : List (Nat × Nat)).lookup i).isSome) [0, 7, 7, 9]
      = some 9 := by decide

example :
    (addGen 0 5 [(7, 1)] id (fun c => c ≠ 0) [0, 7, 7, 9] (fun i => 100 + i) []).2.map
        (fun c => (c.id, c.old, c.new)) = [(9, none, some 109)] := by decide

example :
    ((addGen 0 5 [(7, 1)] id (fun c => c ≠ 0) [0, 7, 7] (fun i => 100 + i) []).1,
     (addGen 0 5 [(7, 1)] id (fun c => c ≠ 0) [0, 7, 7] (fun i => 100 + i) []).2.length)
      = ([(7, 1)], 0) := by decide


end ScVerif.C08
