import ScVerif.C08.PropsConc
import ScVerif.C08.Booking
import ScVerif.C18.TimeLemmas
/-!
# C08 — property theorems, part 3: the booking server's `booking_intersects` filter

`ModelServer.ListBookings` / `PullBookings` pass `WithInclude(booked period intersects the request's)`
(`bookingInclude`) to `Collection.List` / `Pull`.  Instantiating the general theorems: the stream folds to
`ListBookings`, and `ListBookings` is exactly the bookings sharing an instant with the request period.
Only property theorems and non-vacuity examples live in this file.
-/
namespace ScVerif.C08
open ScVerif.C09
open ScVerif.C18 (Period periodsIntersect)

variable {ι μ : Type} [DecidableEq ι] [DecidableEq μ]

/-- `PullBookings(booking_intersects = q, read_mask)` against `ListBookings` with the same request, for
every request period (or none), every way `booked` is read off a booking, every projection, contents and
history of writes (re-entrant deletes included): the seed followed by the delivered events is a
well-formed history that folds to the projection of `ListBookings`; and `ListBookings` holds a stored
booking iff `bookingListed` — no request period: every booking; otherwise exactly those whose booked
period intersects the request's (a booking without a booked period never does). -/
theorem C08_booking_pull_matches_list (booked : μ → Option Period) (q : Option Period) (proj : μ → μ)
    (items : List (ι × μ)) (hn : NodupKeys items) (order : List (ι × μ))
    (hperm : order.Perm (itemSlice (bookingInclude booked q) items)) (t t' : Nat) (as : List (Act ι μ)) :
    let p : Option (Pred ι μ) := bookingInclude booked q
    let r := runActs t items as
    let stream := (seedFrom t' order).map (maskChange proj) ++ r.2.filterMap (pullEvent p proj)
    WFHist View.empty stream ∧
    fold stream View.empty = projView proj (viewOf (itemSlice p r.1)) ∧
    (∀ i, viewOf (itemSlice p r.1) i =
      match viewOf r.1 i with
      | some b => if bookingListed booked q b then some b else none
      | none => none) := by
  have h := C08_pull_matches_list_reentrant (bookingInclude booked q) proj items hn order hperm t t' as
  refine ⟨h.1, h.2.1, ?_⟩
  intro i
  rw [h.2.2]
  simp only [filterView]
  cases viewOf (runActs t items as).1 i with
  | none => rfl
  | some b =>
    cases q with
    | none => simp [bookingInclude, exclude, bookingListed]
    | some qp =>
      simp only [bookingInclude, exclude, bookingListed]
      by_cases hx : periodsIntersect (booked b) (some qp) = true
      · simp [hx]
      · simp [hx]

/-- What "listed" means for proper periods (normalised bounds, start < end): the booked period and the
request period share an instant; a booking without a booked period is listed only when the request has
no period. -/
theorem C08_booking_listed_iff_share_instant (booked : μ → Option Period) (b : μ) (qp : Period)
    (hq : qp.Proper) :
    (∀ bp, booked b = some bp → bp.Proper →
      (bookingListed booked (some qp) b = true ↔ ∃ x : Int, bp.Mem x ∧ qp.Mem x)) ∧
    (booked b = none → bookingListed booked (some qp) b = false) ∧
    bookingListed booked none b = true := by
  refine ⟨?_, ?_, rfl⟩
  · intro bp hb hp
    simp only [bookingListed, hb]
    have h1 := ScVerif.C18.lower_lt_upper bp qp hp.1 hq.2.1
    have h2 := ScVerif.C18.lower_lt_upper qp bp hq.1 hp.2.1
    simp only [periodsIntersect, Bool.and_eq_true, decide_eq_true_eq]
    rw [h1, h2]
    exact (ScVerif.C18.exists_mem_iff bp.lo bp.hi qp.lo qp.hi hp.2.2 hq.2.2).symm
  · intro hb
    simp [bookingListed, hb, periodsIntersect]

/-! ### non-vacuity -/

/-- [2,4) and [3,5) intersect, [2,4) and [4,6) do not (the doc comment of `PeriodsIntersect`) -/
example :
    (bookingListed (μ := Option Period) id (some ⟨some ⟨3, 0⟩, some ⟨5, 0⟩⟩) (some ⟨some ⟨2, 0⟩, some ⟨4, 0⟩⟩),
     bookingListed (μ := Option Period) id (some ⟨some ⟨4, 0⟩, some ⟨6, 0⟩⟩) (some ⟨some ⟨2, 0⟩, some ⟨4, 0⟩⟩),
     bookingListed (μ := Option Period) id (some ⟨none, none⟩) none) = (true, false, false) := by decide

end ScVerif.C08
