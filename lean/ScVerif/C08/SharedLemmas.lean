import ScVerif.C08.Shared
/-! Lemmas about the fan-out model (`ScVerif/C08/Shared.lean`). -/
namespace ScVerif.C08
open ScVerif.C09

variable {ι μ : Type}

/-- a subscriber's output after the events `cs` have been published: its own forwarding loop on them -/
def advance (E : Option (Option μ → Option μ → Bool)) (cs : List (Change ι μ))
    (so : SubOpts ι μ × List (Change ι μ)) : SubOpts ι μ × List (Change ι μ) :=
  (so.1, so.2 ++ cs.filterMap (pullStep so.1.pred so.1.proj E))

theorem deliver_eq_map (E : Option (Option μ → Option μ → Bool)) (l : List (SubOpts ι μ × List (Change ι μ)))
    (c : Change ι μ) : deliver E l c = l.map (advance E [c]) := by
  induction l with
  | nil => rfl
  | cons so l ih =>
    obtain ⟨s, out⟩ := so
    simp only [deliver, turnShared, List.map_cons, ih, advance, List.filterMap_cons, List.filterMap_nil]
    cases pullStep s.pred s.proj E c <;> rfl

theorem advance_nil (E : Option (Option μ → Option μ → Bool)) (so : SubOpts ι μ × List (Change ι μ)) :
    advance E [] so = so := by
  simp [advance]

theorem advance_cons (E : Option (Option μ → Option μ → Bool)) (c : Change ι μ) (cs : List (Change ι μ))
    (so : SubOpts ι μ × List (Change ι μ)) :
    advance E cs (advance E [c] so) = advance E (c :: cs) so := by
  simp only [advance, List.filterMap_cons, List.filterMap_nil]
  cases pullStep so.1.pred so.1.proj E c <;> simp

/-- The run decomposes: the subscribers already there each advance by their own loop over everything
published; the joiners are a run of their own. -/
theorem busRun_split (E : Option (Option μ → Option μ → Bool)) (steps : List (BusStep ι μ))
    (l : List (SubOpts ι μ × List (Change ι μ))) :
    busRun E l steps = l.map (advance E (published steps)) ++ busRun E [] steps := by
  induction steps generalizing l with
  | nil =>
    have h : (advance E ([] : List (Change ι μ)) : SubOpts ι μ × List (Change ι μ) → _) = id := by
      funext so; exact advance_nil E so
    simp [busRun, published, h]
  | cons st steps ih =>
    cases st with
    | publish c =>
      have h1 : busRun E l (.publish c :: steps) = busRun E (deliver E l c) steps := rfl
      have h2 : busRun E ([] : List (SubOpts ι μ × List (Change ι μ))) (.publish c :: steps) = busRun E [] steps := rfl
      rw [h1, h2, ih (deliver E l c), deliver_eq_map, List.map_map]
      congr 1
      apply List.map_congr_left
      intro so _
      exact advance_cons E c (published steps) so
    | join s =>
      have h1 : busRun E l (.join s :: steps) = busRun E (l ++ [(s, [])]) steps := rfl
      have h2 : busRun E ([] : List (SubOpts ι μ × List (Change ι μ))) (.join s :: steps) = busRun E [(s, [])] steps := rfl
      rw [h1, h2, ih (l ++ [(s, [])]), ih [(s, [])]]
      simp [published, List.append_assoc]

theorem busRun_append (E : Option (Option μ → Option μ → Bool)) (l : List (SubOpts ι μ × List (Change ι μ)))
    (a b : List (BusStep ι μ)) : busRun E l (a ++ b) = busRun E (busRun E l a) b := by
  simp [busRun, List.foldl_append]

/-- the number of subscribers = the number already there + the number of `join`s -/
def joins : List (BusStep ι μ) → Nat
  | [] => 0
  | .publish _ :: rest => joins rest
  | .join _ :: rest => joins rest + 1

theorem busRun_length (E : Option (Option μ → Option μ → Bool)) (steps : List (BusStep ι μ))
    (l : List (SubOpts ι μ × List (Change ι μ))) : (busRun E l steps).length = l.length + joins steps := by
  induction steps generalizing l with
  | nil => rfl
  | cons st steps ih =>
    cases st with
    | publish c =>
      have h1 : busRun E l (.publish c :: steps) = busRun E (deliver E l c) steps := rfl
      rw [h1, ih, deliver_eq_map]; simp [joins]
    | join s =>
      have h1 : busRun E l (.join s :: steps) = busRun E (l ++ [(s, [])]) steps := rfl
      rw [h1, ih]; simp [joins]; omega

end ScVerif.C08
