import ScVerif.C08.PipeBus
import ScVerif.C08.SubscribeManyLemmas
/-! Every subscriber's pipeline on a shared bus is a run of the single pipeline over the published events. -/
namespace ScVerif.C08
open ScVerif.C09

variable {ι μ : Type} [DecidableEq ι]

theorem deliverP_eq_map (E : Option (Option μ → Option μ → Bool)) (l : List (SubOpts ι μ × PCfg ι μ))
    (c : Change ι μ) :
    deliverP E l c = l.map (fun sc => (sc.1, pstep (sc.1.turn E) sc.2 (.recv c))) := by
  induction l with
  | nil => rfl
  | cons sc l ih => obtain ⟨s, cfg⟩ := sc; simp [deliverP, ih]

theorem getElem?_updAt {α : Type} (f : α → α) (j k : Nat) (l : List α) :
    (updAt f j l)[k]? = if j = k then l[k]?.map f else l[k]? := by
  induction l generalizing j k with
  | nil => cases j <;> simp [updAt]
  | cons x xs ih =>
    cases j with
    | zero => cases k <;> simp [updAt]
    | succ j =>
      cases k with
      | zero => simp [updAt]
      | succ k => simp [updAt, ih]

/-- the subscriber at position `k` of the listener slice: its pipeline after `steps` is the single pipeline run
over some interleaving `ms` whose inputs are exactly the events published meanwhile -/
theorem pbusRun_at (E : Option (Option μ → Option μ → Bool)) (steps : List (PBusStep ι μ))
    (st : List (SubOpts ι μ × PCfg ι μ)) (k : Nat) (s : SubOpts ι μ) (cfg : PCfg ι μ)
    (hk : st[k]? = some (s, cfg)) :
    ∃ ms : List (PMove (Change ι μ)), pinputs ms = publishedP steps ∧
      (pbusRun E st steps)[k]? = some (s, prun (s.turn E) cfg ms) := by
  induction steps generalizing st cfg with
  | nil => exact ⟨[], rfl, hk⟩
  | cons step steps ih =>
    have hrun : pbusRun E st (step :: steps) = pbusRun E (pbusStep E st step) steps := rfl
    cases step with
    | publish c =>
      have hk' : (pbusStep E st (.publish c))[k]? = some (s, pstep (s.turn E) cfg (.recv c)) := by
        simp [pbusStep, deliverP_eq_map, hk]
      obtain ⟨ms, hin, hres⟩ := ih _ _ hk'
      exact ⟨.recv c :: ms, by simp [pinputs, publishedP, hin], by rw [hrun, hres]; rfl⟩
    | join s' =>
      have hlt : k < st.length := by
        rcases Nat.lt_or_ge k st.length with h | h
        · exact h
        · rw [List.getElem?_eq_none h] at hk; cases hk
      have hk' : (pbusStep E st (.join s'))[k]? = some (s, cfg) := by
        simp [pbusStep, List.getElem?_append_left hlt, hk]
      obtain ⟨ms, hin, hres⟩ := ih _ _ hk'
      exact ⟨ms, by simp [publishedP, hin], by rw [hrun, hres]⟩
    | move j m =>
      cases m with
      | recv e =>
        obtain ⟨ms, hin, hres⟩ := ih st cfg hk
        exact ⟨ms, by simp [publishedP, hin], by rw [hrun]; exact hres⟩
      | take =>
        by_cases hj : j = k
        · have hk' : (pbusStep E st (.move j .take))[k]? = some (s, pstep (s.turn E) cfg .take) := by
            simp [pbusStep, getElem?_updAt, hj, hk]
          obtain ⟨ms, hin, hres⟩ := ih _ _ hk'
          exact ⟨.take :: ms, by simp [pinputs, publishedP, hin], by rw [hrun, hres]; rfl⟩
        · have hk' : (pbusStep E st (.move j .take))[k]? = some (s, cfg) := by
            simp [pbusStep, getElem?_updAt, hj, hk]
          obtain ⟨ms, hin, hres⟩ := ih _ _ hk'
          exact ⟨ms, by simp [publishedP, hin], by rw [hrun, hres]⟩
      | deliver =>
        by_cases hj : j = k
        · have hk' : (pbusStep E st (.move j .deliver))[k]? = some (s, pstep (s.turn E) cfg .deliver) := by
            simp [pbusStep, getElem?_updAt, hj, hk]
          obtain ⟨ms, hin, hres⟩ := ih _ _ hk'
          exact ⟨.deliver :: ms, by simp [pinputs, publishedP, hin], by rw [hrun, hres]; rfl⟩
        · have hk' : (pbusStep E st (.move j .deliver))[k]? = some (s, cfg) := by
            simp [pbusStep, getElem?_updAt, hj, hk]
          obtain ⟨ms, hin, hres⟩ := ih _ _ hk'
          exact ⟨ms, by simp [publishedP, hin], by rw [hrun, hres]⟩

theorem pbusRun_append (E : Option (Option μ → Option μ → Bool)) (l : List (SubOpts ι μ × PCfg ι μ))
    (a b : List (PBusStep ι μ)) : pbusRun E l (a ++ b) = pbusRun E (pbusRun E l a) b := by
  simp [pbusRun, List.foldl_append]

theorem pbusRun_length (E : Option (Option μ → Option μ → Bool)) (steps : List (PBusStep ι μ))
    (l : List (SubOpts ι μ × PCfg ι μ)) : (pbusRun E l steps).length = l.length + joinsP steps := by
  induction steps generalizing l with
  | nil => rfl
  | cons st steps ih =>
    have h1 : pbusRun E l (st :: steps) = pbusRun E (pbusStep E l st) steps := rfl
    rw [h1, ih]
    cases st with
    | publish c => simp [pbusStep, deliverP_eq_map, joinsP]
    | join s => simp [pbusStep, joinsP]; omega
    | move j m => cases m <;> simp [pbusStep, joinsP, length_updAt]

/-- a subscriber that joins after `pre`: position `joinsP pre`, pipeline = single pipeline over what is published
after it joined -/
theorem pbusRun_joined (E : Option (Option μ → Option μ → Bool)) (pre post : List (PBusStep ι μ))
    (s : SubOpts ι μ) :
    ∃ ms : List (PMove (Change ι μ)), pinputs ms = publishedP post ∧
      (pbusRun E [] (pre ++ .join s :: post))[joinsP pre]? = some (s, prun (s.turn E) PCfg.init ms) := by
  have hlen : (pbusRun E ([] : List (SubOpts ι μ × PCfg ι μ)) pre).length = joinsP pre := by
    rw [pbusRun_length]; simp
  have h1 : pbusRun E (pbusRun E [] pre) (.join s :: post)
      = pbusRun E (pbusRun E [] pre ++ [(s, PCfg.init)]) post := rfl
  rw [pbusRun_append, h1]
  apply pbusRun_at
  rw [List.getElem?_append_right (by omega)]
  simp [hlen]

end ScVerif.C08
