import ScVerif.C08.ReentrantLemmas
import ScVerif.C08.Props
/-!
C08 — lemmas for a subscription that happens INSIDE a write (between the write's read and its write lock,
after whatever interfered): the published history of `writeRetry` splits at that point, and a subscriber
seeded from any contents and sent any well-formed history from it folds to the filtered final contents.
-/
namespace ScVerif.C08
open ScVerif.C09

variable {ι μ : Type} [DecidableEq ι]

/-- A `Pull(WithInclude p, WithReadMask m)` subscriber seeded from `items` and sent the include-filtered,
masked form of ANY well-formed history from `items`. -/
theorem pull_from (p : Option (Pred ι μ)) (proj : μ → μ) (items : List (ι × μ)) (hn : NodupKeys items)
    (order : List (ι × μ)) (hperm : order.Perm (itemSlice p items)) (t' : Nat)
    (cs : List (Change ι μ)) (hw : WFHist (viewOf items) cs) :
    WFHist View.empty ((seedFrom t' order).map (maskChange proj) ++ cs.filterMap (pullEvent p proj)) ∧
    fold ((seedFrom t' order).map (maskChange proj) ++ cs.filterMap (pullEvent p proj)) View.empty
      = projView proj (filterView p (fold cs (viewOf items))) := by
  have hseed := C08_seed_is_filtered_list p items hn order hperm t'
  have hinc := include_hist p (viewOf items) cs hw
  have hwf : WFHist View.empty (seedFrom t' order ++ cs.filterMap (includeChange p)) := by
    rw [WFHist_append, hseed.2.2]; exact ⟨hseed.2.1, hinc.1⟩
  have hfold : fold (seedFrom t' order ++ cs.filterMap (includeChange p)) View.empty
      = filterView p (fold cs (viewOf items)) := by
    rw [fold_append, hseed.2.2, hinc.2]
  have hm := mask_hist proj View.empty _ hwf
  have he : projView proj (View.empty : View ι μ) = View.empty := by funext i; rfl
  rw [he] at hm
  simp only [filterMap_pullEvent, ← List.map_append]
  exact ⟨hm.1, by rw [hm.2, hfold]⟩

/-- When the write's first read succeeds (its change function runs), what it publishes is what the
interference published followed by at most its own event. -/
theorem writeRetry_split [DecidableEq μ] (empty : μ) (t : Nat) (items : List (ι × μ)) (i : ι) (v : μ)
    (create expectAbsent : Bool) (intf : List (Op ι μ))
    (h1 : (getForUpdate empty create expectAbsent (items.lookup i)).isSome = true) :
    (writeRetry empty t items i v create expectAbsent intf).2
      = (runOps t items intf).2 ++
        (writeRetry empty t items i v create expectAbsent intf).2.drop (runOps t items intf).2.length := by
  obtain ⟨rv, hrv⟩ := Option.isSome_iff_exists.mp h1
  unfold writeRetry
  simp only [hrv]
  cases h2 : getForUpdate empty create expectAbsent ((runOps t items intf).1.lookup i) with
  | none => simp
  | some av =>
    simp only
    by_cases hne : rv = av
    · simp [hne]
    · simp [hne]

/-- a write publishes at most one event of its own -/
theorem writeRetry_length [DecidableEq μ] (empty : μ) (t : Nat) (items : List (ι × μ)) (i : ι) (v : μ)
    (create expectAbsent : Bool) (intf : List (Op ι μ)) :
    (writeRetry empty t items i v create expectAbsent intf).2.length ≤ (runOps t items intf).2.length + 1 := by
  unfold writeRetry
  cases h1 : getForUpdate empty create expectAbsent (items.lookup i) with
  | none => simp
  | some rv =>
    simp only
    cases h2 : getForUpdate empty create expectAbsent ((runOps t items intf).1.lookup i) with
    | none => simp
    | some av =>
      simp only
      by_cases hne : rv = av
      · simp [hne]
      · simp [hne]

end ScVerif.C08
