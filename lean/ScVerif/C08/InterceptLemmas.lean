import ScVerif.C08.Intercept
import ScVerif.C08.ReentrantLemmas
/-! Ids of published events and of stored keys: only ids the writes mention (helpers). -/
namespace ScVerif.C08
open ScVerif.C09

variable {ι μ : Type}

theorem Op.canon_id (f : ι → ι) (o : Op ι μ) : (o.canon f).id = f o.id := by
  cases o <;> rfl

theorem Act.canon_idsAll (f : ι → ι) (a : Act ι μ) : (a.canon f).idsAll (Canonical f) := by
  cases a with
  | op o => exact ⟨o.id, Op.canon_id f o⟩
  | deleteRetry i intf guard =>
    refine ⟨⟨i, rfl⟩, ?_⟩
    intro ops hops op hop
    obtain ⟨ops0, _, rfl⟩ := List.mem_map.mp hops
    obtain ⟨op0, _, rfl⟩ := List.mem_map.mp hop
    exact ⟨op0.id, Op.canon_id f op0⟩
  | writeRetry i v c e intf empty =>
    refine ⟨⟨i, rfl⟩, ?_⟩
    intro op hop
    obtain ⟨op0, _, rfl⟩ := List.mem_map.mp hop
    exact ⟨op0.id, Op.canon_id f op0⟩

variable [DecidableEq ι]

theorem keys_eraseKey (P : ι → Prop) (i : ι) {items : List (ι × μ)} (h : ∀ iv ∈ items, P iv.1) :
    ∀ iv ∈ eraseKey i items, P iv.1 := by
  intro iv hiv
  exact h iv (List.mem_filter.mp hiv).1

theorem keys_setKey (P : ι → Prop) (i : ι) (v : μ) (hi : P i) {items : List (ι × μ)}
    (h : ∀ iv ∈ items, P iv.1) : ∀ iv ∈ setKey i v items, P iv.1 := by
  intro iv hiv
  simp only [setKey, List.mem_cons] at hiv
  cases hiv with
  | inl h1 => rw [h1]; exact hi
  | inr h2 => exact keys_eraseKey P i h iv h2

/-- a write publishes under the id it was given, and stores under no other new key -/
theorem stepOp_ids (P : ι → Prop) (t : Nat) {items : List (ι × μ)} (op : Op ι μ) (hop : P op.id)
    (hk : ∀ iv ∈ items, P iv.1) :
    (∀ c, (stepOp t items op).2 = some c → P c.id) ∧ ∀ iv ∈ (stepOp t items op).1, P iv.1 := by
  cases op with
  | add i v =>
    simp only [stepOp]
    cases items.lookup i with
    | some o => exact ⟨by intro c h; simp at h, hk⟩
    | none => exact ⟨by intro c h; simp only [Option.some.injEq] at h; rw [← h]; exact hop, keys_setKey P i v hop hk⟩
  | update i v =>
    simp only [stepOp]
    cases items.lookup i with
    | some o => exact ⟨by intro c h; simp only [Option.some.injEq] at h; rw [← h]; exact hop, keys_setKey P i v hop hk⟩
    | none => exact ⟨by intro c h; simp at h, hk⟩
  | upsert i v =>
    simp only [stepOp]
    cases items.lookup i with
    | some o => exact ⟨by intro c h; simp only [Option.some.injEq] at h; rw [← h]; exact hop, keys_setKey P i v hop hk⟩
    | none => exact ⟨by intro c h; simp only [Option.some.injEq] at h; rw [← h]; exact hop, keys_setKey P i v hop hk⟩
  | delete i =>
    simp only [stepOp]
    cases items.lookup i with
    | some o => exact ⟨by intro c h; simp only [Option.some.injEq] at h; rw [← h]; exact hop, keys_eraseKey P i hk⟩
    | none => exact ⟨by intro c h; simp at h, hk⟩

theorem runOps_ids (P : ι → Prop) (t : Nat) {items : List (ι × μ)} (ops : List (Op ι μ))
    (hops : ∀ op ∈ ops, P op.id) (hk : ∀ iv ∈ items, P iv.1) :
    (∀ c ∈ (runOps t items ops).2, P c.id) ∧ ∀ iv ∈ (runOps t items ops).1, P iv.1 := by
  induction ops generalizing t items with
  | nil => exact ⟨by intro c h; simp [runOps] at h, hk⟩
  | cons op ops ih =>
    have hs := stepOp_ids P t op (hops op (List.mem_cons_self ..)) hk
    have hr := ih (t + 1) (items := (stepOp t items op).1)
      (fun o ho => hops o (List.mem_cons_of_mem _ ho)) hs.2
    simp only [runOps]
    refine ⟨?_, hr.2⟩
    intro c hc
    rcases List.mem_append.mp hc with h1 | h2
    · cases hev : (stepOp t items op).2 with
      | none => rw [hev] at h1; simp at h1
      | some d =>
        rw [hev] at h1
        simp only [Option.toList_some, List.mem_singleton] at h1
        rw [h1]; exact hs.1 d hev
    · exact hr.1 c h2

theorem deleteLoop_ids (P : ι → Prop) (i : ι) (hi : P i) (guard : Nat → μ → Bool) (n : Nat) (read : Option μ)
    (t : Nat) {items : List (ι × μ)} (intf : List (List (Op ι μ)))
    (hintf : ∀ ops ∈ intf, ∀ op ∈ ops, P op.id) (hk : ∀ iv ∈ items, P iv.1) :
    (∀ c ∈ (deleteLoop i guard n read t items intf).2, P c.id) ∧
    ∀ iv ∈ (deleteLoop i guard n read t items intf).1, P iv.1 := by
  induction n generalizing read t items intf with
  | zero => exact ⟨by intro c h; simp [deleteLoop] at h, hk⟩
  | succ n ih =>
    cases read with
    | none => exact ⟨by intro c h; simp [deleteLoop] at h, hk⟩
    | some o =>
      have hhead : ∀ op ∈ intf.headD [], P op.id := by
        cases intf with
        | nil => intro op h; simp at h
        | cons a as => exact hintf a (List.mem_cons_self ..)
      have htail : ∀ ops ∈ intf.tail, ∀ op ∈ ops, P op.id :=
        fun ops h => hintf ops (List.mem_of_mem_tail h)
      have hr := runOps_ids P t (intf.headD []) hhead hk
      simp only [deleteLoop]
      cases hg : guard n o with
      | false => simpa using hr
      | true =>
        simp only [Bool.not_true, Bool.false_eq_true, if_false]
        cases ht : touched i (runOps t items (intf.headD [])).2 with
        | true =>
          simp only [if_true]
          have h' := ih (read := (runOps t items (intf.headD [])).1.lookup i)
            (t := t + (runOps t items (intf.headD [])).2.length) intf.tail htail hr.2
          refine ⟨?_, h'.2⟩
          intro c hc
          rcases List.mem_append.mp hc with h1 | h2
          · exact hr.1 c h1
          · exact h'.1 c h2
        | false =>
          simp only [Bool.false_eq_true, if_false]
          refine ⟨?_, keys_eraseKey P i hr.2⟩
          intro c hc
          rcases List.mem_append.mp hc with h1 | h2
          · exact hr.1 c h1
          · simp only [List.mem_singleton] at h2
            rw [h2]; exact hi

theorem writeRetry_ids [DecidableEq μ] (P : ι → Prop) (empty : μ) (t : Nat) {items : List (ι × μ)} (i : ι)
    (hi : P i) (v : μ) (create expectAbsent : Bool) (intf : List (Op ι μ)) (hintf : ∀ op ∈ intf, P op.id)
    (hk : ∀ iv ∈ items, P iv.1) :
    (∀ c ∈ (writeRetry empty t items i v create expectAbsent intf).2, P c.id) ∧
    ∀ iv ∈ (writeRetry empty t items i v create expectAbsent intf).1, P iv.1 := by
  have hr := runOps_ids P t intf hintf hk
  unfold writeRetry
  cases getForUpdate empty create expectAbsent (items.lookup i) with
  | none => exact ⟨by intro c h; simp at h, hk⟩
  | some rv =>
    simp only
    cases getForUpdate empty create expectAbsent ((runOps t items intf).1.lookup i) with
    | none => exact hr
    | some av =>
      simp only
      by_cases hne : rv = av
      · simp only [hne, ne_eq, not_true_eq_false, if_false]
        refine ⟨?_, keys_setKey P i v hi hr.2⟩
        intro c hc
        rcases List.mem_append.mp hc with h1 | h2
        · exact hr.1 c h1
        · simp only [List.mem_singleton] at h2
          rw [h2]
          cases (runOps t items intf).1.lookup i <;> exact hi
      · simp only [ne_eq, hne, not_false_eq_true, if_true]
        exact hr

variable [DecidableEq μ]

theorem stepAct_ids (P : ι → Prop) (t : Nat) {items : List (ι × μ)} (a : Act ι μ) (ha : a.idsAll P)
    (hk : ∀ iv ∈ items, P iv.1) :
    (∀ c ∈ (stepAct t items a).2, P c.id) ∧ ∀ iv ∈ (stepAct t items a).1, P iv.1 := by
  cases a with
  | op o =>
    have hs := stepOp_ids P t o ha hk
    simp only [stepAct]
    refine ⟨?_, hs.2⟩
    intro c hc
    cases hev : (stepOp t items o).2 with
    | none => rw [hev] at hc; simp at hc
    | some d =>
      rw [hev] at hc
      simp only [Option.toList_some, List.mem_singleton] at hc
      rw [hc]; exact hs.1 d hev
  | deleteRetry i intf guard => exact deleteLoop_ids P i ha.1 guard 5 _ t intf ha.2 hk
  | writeRetry i v create expectAbsent intf empty =>
    exact writeRetry_ids P empty t i ha.1 v create expectAbsent intf ha.2 hk

theorem runActs_ids (P : ι → Prop) (t : Nat) {items : List (ι × μ)} (as : List (Act ι μ))
    (has : ∀ a ∈ as, a.idsAll P) (hk : ∀ iv ∈ items, P iv.1) :
    (∀ c ∈ (runActs t items as).2, P c.id) ∧ ∀ iv ∈ (runActs t items as).1, P iv.1 := by
  induction as generalizing t items with
  | nil => exact ⟨by intro c h; simp [runActs] at h, hk⟩
  | cons a as ih =>
    have hs := stepAct_ids P t a (has a (List.mem_cons_self ..)) hk
    have hr := ih (t + 1 + (stepAct t items a).2.length) (items := (stepAct t items a).1)
      (fun b hb => has b (List.mem_cons_of_mem _ hb)) hs.2
    simp only [runActs]
    refine ⟨?_, hr.2⟩
    intro c hc
    rcases List.mem_append.mp hc with h1 | h2
    · exact hs.1 c h1
    · exact hr.1 c h2

omit [DecidableEq μ] in
/-- no item is stored under an id that no key has -/
theorem lookup_none_of_keys (P : ι → Prop) {items : List (ι × μ)} (hk : ∀ iv ∈ items, P iv.1) (i : ι)
    (hi : ¬ P i) : items.lookup i = none := by
  induction items with
  | nil => rfl
  | cons x xs ih =>
    have hx : ¬ (i = x.1) := fun h => hi (h ▸ hk x (List.mem_cons_self ..))
    obtain ⟨k, v⟩ := x
    simp only [List.lookup]
    have : (i == k) = false := by simpa using hx
    rw [this]
    exact ih (fun iv h => hk iv (List.mem_cons_of_mem _ h))

end ScVerif.C08
