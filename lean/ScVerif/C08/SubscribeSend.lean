import ScVerif.C08.SubscribeMany
/-!
C08 — the many-subscriber system with `minibus.Bus.Send` taken apart.

`Bus.Send` (internal/minibus/bus.go) first copies the listener slice under the bus's own mutex and then
hands the event to the listeners of that copy one after the other; `Update` calls it after it has
released the collection's lock.  So between the copy and a delivery — and between two deliveries —
other threads move: another writer commits, a subscriber takes its seed, a subscriber registers (it is
not in the copy: this event will not reach it).

* `sendStart`   the oldest pending commit's `Send` copies the listener slice: the event is now *in flight*,
                together with the indices of the subscribers listening at this moment (`listeningIdx`)
* `sendNext`    the event is handed to the next listener of the copy
* the other steps are those of `ScVerif/C08/SubscribeMany.lean`; `deleteNow` (which publishes under the
  write lock) needs, besides nothing pending, nothing in flight; one `Send` is in flight at a time and they
  start in commit order (C03's `ordered` hypothesis, as before)
-/
namespace ScVerif.C08
open ScVerif.C09

variable {ι μ : Type}

def Sub.isListening : Sub ι μ → Bool
  | .listening _ _ => true
  | _ => false

/-- the copy of the listener slice: the subscribers registered right now, in subscription order of their slots -/
def listeningIdx (subs : List (Sub ι μ)) : List Nat :=
  (List.range subs.length).filter (fun k => (subs.getD k .idle).isListening)

structure FSys (ι μ : Type) where
  items : List (ι × μ)
  pend : List (Change ι μ)
  flight : Option (Change ι μ × List Nat)   -- the `Send` in progress: its event, the listeners of its copy still to serve
  subs : List (Sub ι μ)
  t : Nat

inductive FStep (ι μ : Type) where
  | commit (op : Op ι μ)
  | sendStart
  | sendNext
  | deleteNow (i : ι)
  | snapshot (j : Nat)
  | listen (j : Nat)

variable [DecidableEq ι]

def fsysStep (locked : Bool) (preds : List (Option (Pred ι μ))) (s : FSys ι μ) : FStep ι μ → FSys ι μ
  | .commit op =>
    if locked && s.subs.any Sub.isSnapping then s
    else
      let r := stepOp s.t s.items op
      { s with items := r.1, pend := s.pend ++ r.2.toList, t := s.t + 1 }
  | .sendStart =>
    match s.flight, s.pend with
    | none, c :: rest =>
      let ls := listeningIdx s.subs
      { s with pend := rest, flight := if ls.isEmpty then none else some (c, ls) }
    | _, _ => s
  | .sendNext =>
    match s.flight with
    | some (c, k :: ks) =>
      { s with flight := if ks.isEmpty then none else some (c, ks),
               subs := updAt (·.deliver [c]) k s.subs }
    | some (_, []) => { s with flight := none }
    | none => s
  | .deleteNow i =>
    if !s.pend.isEmpty || s.flight.isSome || (locked && s.subs.any Sub.isSnapping) then s
    else
      let r := stepOp s.t s.items (.delete i)
      { s with items := r.1, subs := s.subs.map (·.deliver r.2.toList), t := s.t + 1 }
  | .snapshot j =>
    { s with subs := updAt (fun sub => match sub with
        | .idle => .snapping (itemSlice (preds.getD j none) s.items)
        | other => other) j s.subs }
  | .listen j =>
    { s with subs := updAt (fun sub => match sub with
        | .snapping seed => .listening seed []
        | other => other) j s.subs }

def fsysRun (locked : Bool) (preds : List (Option (Pred ι μ))) (s : FSys ι μ) (sched : List (FStep ι μ)) :
    FSys ι μ :=
  sched.foldl (fsysStep locked preds) s

def FSys.init (items : List (ι × μ)) (n : Nat) : FSys ι μ := ⟨items, [], none, List.replicate n .idle, 0⟩

/-- what is still on its way to subscriber `j`: the event in flight if `j` is in its copy and has not been
served, then the pending commits -/
def FSys.pendFor (s : FSys ι μ) (j : Nat) : List (Change ι μ) :=
  (match s.flight with
   | some (c, ks) => if j ∈ ks then [c] else []
   | none => []) ++ s.pend

/-- the system as subscriber `j` sees it -/
def FSys.proj (s : FSys ι μ) (j : Nat) : Sys ι μ := ⟨s.items, s.pendFor j, s.subs.getD j .idle, s.t⟩

end ScVerif.C08
