import ScVerif.C08.Subscribe
/-!
C08 — the concurrent subscribe model (`ScVerif/C08/Subscribe.lean`) with ANY NUMBER of subscribers.

Every `Pull` takes `c.mu.RLock()` for its seed and its `Listen` (`Collection.onUpdate`); a read lock can be
held by several subscribers at once, and a writer's `commit` / `deleteNow` (write lock) is disabled while
ANY of them holds it.  Subscriber `j` filters with its own predicate `preds[j]`; a `publish` hands the
event to every subscriber that is listening at that moment.  (`sync.RWMutex` additionally keeps new
readers out while a writer waits: that only removes schedules.)
-/
namespace ScVerif.C08
open ScVerif.C09

variable {ι μ : Type}

structure MSys (ι μ : Type) where
  items : List (ι × μ)
  pend : List (Change ι μ)
  subs : List (Sub ι μ)
  t : Nat

inductive MStep (ι μ : Type) where
  | commit (op : Op ι μ)
  | publish
  | deleteNow (i : ι)
  | snapshot (j : Nat)      -- subscriber `j`: RLock + itemSlice
  | listen (j : Nat)        -- subscriber `j`: bus.Listen + RUnlock

/-- `f` applied to the element at position `k` (nothing happens when there is none) -/
def updAt {α : Type} (f : α → α) : Nat → List α → List α
  | _, [] => []
  | 0, x :: xs => f x :: xs
  | n + 1, x :: xs => x :: updAt f n xs

variable [DecidableEq ι]

def msysStep (locked : Bool) (preds : List (Option (Pred ι μ))) (s : MSys ι μ) : MStep ι μ → MSys ι μ
  | .commit op =>
    if locked && s.subs.any Sub.isSnapping then s
    else
      let r := stepOp s.t s.items op
      { s with items := r.1, pend := s.pend ++ r.2.toList, t := s.t + 1 }
  | .publish =>
    match s.pend with
    | [] => s
    | c :: rest => { s with pend := rest, subs := s.subs.map (·.deliver [c]) }
  | .deleteNow i =>
    if !s.pend.isEmpty || (locked && s.subs.any Sub.isSnapping) then s
    else
      let r := stepOp s.t s.items (.delete i)
      { s with items := r.1, subs := s.subs.map (·.deliver r.2.toList), t := s.t + 1 }
  | .snapshot j =>
    { s with subs := updAt (fun sub => match sub with
        | .idle => .snapping (itemSlice (preds.getD j none) s.items)
        | other => other) j s.subs }
  | .listen j =>
    { s with subs := updAt (fun sub => match sub with
        | .snapping seed => .listening seed []
        | other => other) j s.subs }

def msysRun (locked : Bool) (preds : List (Option (Pred ι μ))) (s : MSys ι μ) (sched : List (MStep ι μ)) :
    MSys ι μ :=
  sched.foldl (msysStep locked preds) s

/-- `n` subscribers, none of which has called `Pull` yet -/
def MSys.init (items : List (ι × μ)) (n : Nat) : MSys ι μ := ⟨items, [], List.replicate n .idle, 0⟩

/-- the system as subscriber `j` sees it -/
def MSys.proj (s : MSys ι μ) (j : Nat) : Sys ι μ := ⟨s.items, s.pend, s.subs.getD j .idle, s.t⟩

end ScVerif.C08
