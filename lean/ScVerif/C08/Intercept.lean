import ScVerif.C08.Include
/-!
C08 — a collection with an id interceptor (`resource.WithIDInterceptor(f)`, e.g. `strings.ToLower` for a
case-insensitive collection).

`Collection.Update` (hence `Add`) and `Collection.Delete` (pkg/resource/collection.go) start with
```go
if c.idInterceptor != nil { id = c.idInterceptor(id) }
```
and from then on use that ONE id: for the map accesses and for the `CollectionChange` they publish.  A
write as the caller spells it is therefore the write of `Include.lean` on the canonical id: `Op.canon`,
`Act.canon` (the writes a callback issues go through the same methods and are canonicalised the same way).
`include` evaluates the predicate on the id of the published change, and a subscriber folds by that id: the
property needs the published id to be the id the item is stored (and seeded, and listed) under.

`stepOpRawDelete` is NOT the code: a `Delete` that uses the canonical id for the map and the caller's spelling
for the event (what `C08_intercept_raw_delete_fails` shows to be wrong).
-/
namespace ScVerif.C08
open ScVerif.C09

variable {ι μ : Type}

def Op.id : Op ι μ → ι
  | .add i _ => i
  | .update i _ => i
  | .upsert i _ => i
  | .delete i => i

/-- the write after `id = c.idInterceptor(id)` -/
def Op.canon (f : ι → ι) : Op ι μ → Op ι μ
  | .add i v => .add (f i) v
  | .update i v => .update (f i) v
  | .upsert i v => .upsert (f i) v
  | .delete i => .delete (f i)

def Act.canon (f : ι → ι) : Act ι μ → Act ι μ
  | .op o => .op (o.canon f)
  | .deleteRetry i intf guard => .deleteRetry (f i) (intf.map (·.map (Op.canon f))) guard
  | .writeRetry i v create expectAbsent intf empty =>
    .writeRetry (f i) v create expectAbsent (intf.map (Op.canon f)) empty

/-- every id a write mentions satisfies `P` -/
def Act.idsAll (P : ι → Prop) : Act ι μ → Prop
  | .op o => P o.id
  | .deleteRetry i intf _ => P i ∧ ∀ ops ∈ intf, ∀ op ∈ ops, P op.id
  | .writeRetry i _ _ _ intf _ => P i ∧ ∀ op ∈ intf, P op.id

/-- "is a canonical id": in the range of the interceptor -/
def Canonical (f : ι → ι) (i : ι) : Prop := ∃ j, i = f j

variable [DecidableEq ι]

/-- NOT the code: `Delete(i)` removing the item stored under `f i` but announcing the REMOVE under the
caller's spelling `i`. -/
def stepOpRawDelete (f : ι → ι) (t : Nat) (items : List (ι × μ)) (i : ι) :
    List (ι × μ) × Option (Change ι μ) :=
  match items.lookup (f i) with
  | some o => (eraseKey (f i) items, some (mkChange i .remove t (some o) none))
  | none => (items, none)

end ScVerif.C08
