import ScVerif.C08.IncludeLemmas
/-! Lemmas about the `Delete` retry loop and write histories with re-entrant deletes (helpers). -/
namespace ScVerif.C08
open ScVerif.C09

variable {ι μ : Type} [DecidableEq ι]

theorem not_touched_ne {i : ι} {evs : List (Change ι μ)} (h : touched i evs = false) :
    ∀ c ∈ evs, c.id ≠ i := by
  intro c hc hci
  have : touched i evs = true := by
    simp only [touched, List.any_eq_true, decide_eq_true_eq]
    exact ⟨c, hc, hci⟩
  rw [h] at this
  exact Bool.noConfusion this

/-- The retry loop, for every number of attempts left, every interference and every contents, as long
as `read` is what is stored when the attempt starts (true at the first read and after every re-read
under the lock): keys stay distinct, everything published is a well-formed history from the contents
at the start and folds to the final contents.  In particular the REMOVE carries as `old` exactly the
value stored when it was removed (`WFChange` of a REMOVE: `old = s id`). -/
theorem deleteLoop_spec (i : ι) (guard : Nat → μ → Bool) (n : Nat) (read : Option μ) (t : Nat)
    {items : List (ι × μ)}
    (hn : NodupKeys items) (intf : List (List (Op ι μ))) (hread : read = items.lookup i) :
    NodupKeys (deleteLoop i guard n read t items intf).1 ∧
    WFHist (viewOf items) (deleteLoop i guard n read t items intf).2 ∧
    fold (deleteLoop i guard n read t items intf).2 (viewOf items)
      = viewOf (deleteLoop i guard n read t items intf).1 := by
  induction n generalizing read t items intf with
  | zero => exact ⟨hn, trivial, rfl⟩
  | succ n ih =>
    cases read with
    | none => exact ⟨hn, trivial, rfl⟩
    | some o =>
      have hr := runOps_spec t hn (intf.headD [])
      simp only [deleteLoop]
      cases hg : guard n o with
      | false => simpa using hr
      | true =>
      simp only [Bool.not_true, Bool.false_eq_true, if_false]
      cases ht : touched i (runOps t items (intf.headD [])).2 with
      | true =>
        simp only [if_true]
        have h' := ih (read := (runOps t items (intf.headD [])).1.lookup i)
          (t := t + (runOps t items (intf.headD [])).2.length) hr.1 intf.tail rfl
        refine ⟨h'.1, ?_, ?_⟩
        · rw [WFHist_append, hr.2.2]; exact ⟨hr.2.1, h'.2.1⟩
        · rw [fold_append, hr.2.2]; exact h'.2.2
      | false =>
        simp only [Bool.false_eq_true, if_false]
        have hsame : viewOf (runOps t items (intf.headD [])).1 i = some o := by
          rw [← hr.2.2, fold_other _ _ _ (not_touched_ne ht)]
          exact hread.symm
        refine ⟨NodupKeys_eraseKey i hr.1, ?_, ?_⟩
        · rw [WFHist_append, hr.2.2]
          refine ⟨hr.2.1, ?_, trivial⟩
          simp only [WFChange, mkChange]
          exact ⟨by rw [hsame]; rfl, hsame.symm, trivial⟩
        · rw [fold_append, hr.2.2]
          simp [fold, apply, mkChange, viewOf_eraseKey]

/-- `Update` under interference (code after the `fix:`): whatever lands between its read and its write
lock, what is published is a well-formed history to the final contents: the event is an ADD exactly when
nothing is stored at commit time, and otherwise an UPDATE whose old value is the stored one. -/
theorem writeRetry_spec [DecidableEq μ] (empty : μ) (t : Nat) {items : List (ι × μ)} (hn : NodupKeys items)
    (i : ι) (v : μ) (create expectAbsent : Bool) (intf : List (Op ι μ)) :
    NodupKeys (writeRetry empty t items i v create expectAbsent intf).1 ∧
    WFHist (viewOf items) (writeRetry empty t items i v create expectAbsent intf).2 ∧
    fold (writeRetry empty t items i v create expectAbsent intf).2 (viewOf items)
      = viewOf (writeRetry empty t items i v create expectAbsent intf).1 := by
  unfold writeRetry
  cases h1 : getForUpdate empty create expectAbsent (items.lookup i) with
  | none => exact ⟨hn, trivial, rfl⟩
  | some rv =>
    have hr := runOps_spec t hn intf
    simp only
    cases h2 : getForUpdate empty create expectAbsent ((runOps t items intf).1.lookup i) with
    | none => exact hr
    | some av =>
      simp only
      by_cases hne : rv = av
      · subst hne
        simp only [ne_eq, not_true_eq_false, if_false]
        cases hcur : (runOps t items intf).1.lookup i with
        | none =>
          refine ⟨NodupKeys_setKey i v hr.1, ?_, ?_⟩
          · rw [WFHist_append, hr.2.2]
            refine ⟨hr.2.1, ?_, trivial⟩
            simp [WFChange, mkChange, viewOf, hcur]
          · rw [fold_append, hr.2.2]
            simp [fold, apply, mkChange, viewOf_setKey]
        | some c =>
          have hc : c = rv := by
            rw [hcur] at h2
            simp only [getForUpdate] at h2
            split at h2
            · exact absurd h2 (by simp)
            · exact Option.some.inj h2
          subst hc
          refine ⟨NodupKeys_setKey i v hr.1, ?_, ?_⟩
          · rw [WFHist_append, hr.2.2]
            refine ⟨hr.2.1, ?_, trivial⟩
            simp [WFChange, mkChange, viewOf, hcur]
          · rw [fold_append, hr.2.2]
            simp [fold, apply, mkChange, viewOf_setKey]
      · simp only [ne_eq, hne, not_false_eq_true, if_true]
        exact hr

variable [DecidableEq μ]

theorem stepAct_spec (t : Nat) {items : List (ι × μ)} (hn : NodupKeys items) (a : Act ι μ) :
    NodupKeys (stepAct t items a).1 ∧ WFHist (viewOf items) (stepAct t items a).2 ∧
    fold (stepAct t items a).2 (viewOf items) = viewOf (stepAct t items a).1 := by
  cases a with
  | op o =>
    have hs := stepOp_spec t hn o
    simp only [stepAct]
    cases hev : (stepOp t items o).2 with
    | none =>
      rw [hev] at hs
      simp only [Option.toList_none]
      exact ⟨hs.1, trivial, by rw [hs.2]; rfl⟩
    | some c =>
      rw [hev] at hs
      simp only [Option.toList_some]
      exact ⟨hs.1, ⟨hs.2.1, trivial⟩, by simpa [fold] using hs.2.2⟩
  | deleteRetry i intf guard => exact deleteLoop_spec i guard 5 _ t hn intf rfl
  | writeRetry i v create expectAbsent intf empty => exact writeRetry_spec empty t hn i v create expectAbsent intf

/-- A history of plain writes and re-entrant deletes publishes a well-formed history from the initial
contents to the final contents. -/
theorem runActs_spec (t : Nat) {items : List (ι × μ)} (hn : NodupKeys items) (as : List (Act ι μ)) :
    NodupKeys (runActs t items as).1 ∧ WFHist (viewOf items) (runActs t items as).2 ∧
    fold (runActs t items as).2 (viewOf items) = viewOf (runActs t items as).1 := by
  induction as generalizing t items with
  | nil => exact ⟨hn, trivial, rfl⟩
  | cons a as ih =>
    have hs := stepAct_spec t hn a
    have hr := ih (t + 1 + (stepAct t items a).2.length) hs.1
    simp only [runActs]
    refine ⟨hr.1, ?_, ?_⟩
    · rw [WFHist_append, hs.2.2]; exact ⟨hs.2.1, hr.2.1⟩
    · rw [fold_append, hs.2.2]; exact hr.2.2

end ScVerif.C08
