import ScVerif.C08.SubscribeMany
/-! The many-subscriber system projects, subscriber by subscriber, onto the one-subscriber system. -/
namespace ScVerif.C08
open ScVerif.C09

variable {ι μ : Type}

theorem getD_updAt_ne {α : Type} (f : α → α) (d : α) {j k : Nat} (h : j ≠ k) (l : List α) :
    (updAt f k l).getD j d = l.getD j d := by
  induction l generalizing j k with
  | nil => cases k <;> rfl
  | cons x xs ih =>
    cases k with
    | zero =>
      cases j with
      | zero => exact absurd rfl h
      | succ j => simp [updAt]
    | succ k =>
      cases j with
      | zero => simp [updAt]
      | succ j =>
        simp only [updAt, List.getD_cons_succ]
        exact ih (by omega)

theorem getD_updAt_self {α : Type} (f : α → α) (d : α) {k : Nat} (l : List α) (h : k < l.length) :
    (updAt f k l).getD k d = f (l.getD k d) := by
  induction l generalizing k with
  | nil => simp at h
  | cons x xs ih =>
    cases k with
    | zero => simp [updAt]
    | succ k =>
      simp only [updAt, List.getD_cons_succ]
      exact ih (by simpa using h)

theorem updAt_oob {α : Type} (f : α → α) {k : Nat} (l : List α) (h : l.length ≤ k) : updAt f k l = l := by
  induction l generalizing k with
  | nil => cases k <;> rfl
  | cons x xs ih =>
    cases k with
    | zero => simp at h
    | succ k => simp only [updAt]; rw [ih (by simpa using h)]

theorem length_updAt {α : Type} (f : α → α) (k : Nat) (l : List α) : (updAt f k l).length = l.length := by
  induction l generalizing k with
  | nil => cases k <;> rfl
  | cons x xs ih => cases k <;> simp [updAt, ih]

theorem getD_map_deliver (l : List (Sub ι μ)) (evs : List (Change ι μ)) (j : Nat) :
    (l.map (·.deliver evs)).getD j .idle = (l.getD j .idle).deliver evs := by
  induction l generalizing j with
  | nil => rfl
  | cons x xs ih =>
    cases j with
    | zero => rfl
    | succ j => simpa using ih j

theorem any_snapping_of_getD (l : List (Sub ι μ)) (j : Nat) (h : (l.getD j .idle).isSnapping = true) :
    l.any Sub.isSnapping = true := by
  induction l generalizing j with
  | nil => simp [Sub.isSnapping] at h
  | cons x xs ih =>
    cases j with
    | zero => simp only [List.getD_cons_zero] at h; simp [h]
    | succ j =>
      simp only [List.getD_cons_succ] at h
      simp [ih j h]

variable [DecidableEq ι]

/-- One step of the many-subscriber system is, for subscriber `j`, at most one step of the one-subscriber
system with `j`'s predicate. -/
theorem msysStep_proj (preds : List (Option (Pred ι μ))) (s : MSys ι μ) (step : MStep ι μ) (j : Nat) :
    ∃ steps' : List (Step ι μ),
      (msysStep true preds s step).proj j = sysRun true (preds.getD j none) (s.proj j) steps' := by
  cases step with
  | commit op =>
    by_cases hany : s.subs.any Sub.isSnapping = true
    · exact ⟨[], by simp [msysStep, hany, sysRun]⟩
    · have hj : (s.subs.getD j .idle).isSnapping = false := by
        cases h : (s.subs.getD j .idle).isSnapping with
        | false => rfl
        | true => exact absurd (any_snapping_of_getD _ j h) hany
      have hany' : s.subs.any Sub.isSnapping = false := by simpa using hany
      refine ⟨[.commit op], ?_⟩
      simp only [msysStep, hany', Bool.and_false, Bool.false_eq_true, if_false, sysRun, List.foldl_cons,
        List.foldl_nil, sysStep, MSys.proj, hj]
  | publish =>
    cases hp : s.pend with
    | nil => exact ⟨[], by simp [msysStep, hp, sysRun]⟩
    | cons c rest =>
      refine ⟨[.publish], ?_⟩
      simp only [msysStep, hp, sysRun, List.foldl_cons, List.foldl_nil, sysStep, MSys.proj, getD_map_deliver]
  | deleteNow i =>
    by_cases hdis : (!s.pend.isEmpty || s.subs.any Sub.isSnapping) = true
    · exact ⟨[], by simp only [msysStep, Bool.true_and, hdis, if_true, sysRun, List.foldl_nil]⟩
    · have hdis' : (!s.pend.isEmpty || s.subs.any Sub.isSnapping) = false := by simpa using hdis
      have hpe : (!s.pend.isEmpty) = false := by
        cases h : (!s.pend.isEmpty) <;> simp_all
      have hany : s.subs.any Sub.isSnapping = false := by
        cases h : s.subs.any Sub.isSnapping <;> simp_all
      have hj : (s.subs.getD j .idle).isSnapping = false := by
        cases h : (s.subs.getD j .idle).isSnapping with
        | false => rfl
        | true => rw [any_snapping_of_getD _ j h] at hany; exact absurd hany (by simp)
      refine ⟨[.deleteNow i], ?_⟩
      simp only [msysStep, Bool.true_and, hany, hpe, Bool.or_false, Bool.false_eq_true, if_false, sysRun,
        List.foldl_cons, List.foldl_nil, sysStep, MSys.proj, hj, getD_map_deliver]
  | snapshot k =>
    by_cases hk : j = k
    · subst hk
      by_cases hlen : j < s.subs.length
      · refine ⟨[.snapshot], ?_⟩
        simp only [msysStep, sysRun, List.foldl_cons, List.foldl_nil, sysStep, MSys.proj,
          getD_updAt_self _ _ _ hlen]
        cases s.subs.getD j .idle <;> rfl
      · exact ⟨[], by simp only [msysStep, updAt_oob _ _ (Nat.le_of_not_lt hlen), sysRun, List.foldl_nil]⟩
    · exact ⟨[], by simp only [msysStep, sysRun, List.foldl_nil, MSys.proj, getD_updAt_ne _ _ hk]⟩
  | listen k =>
    by_cases hk : j = k
    · subst hk
      by_cases hlen : j < s.subs.length
      · refine ⟨[.listen], ?_⟩
        simp only [msysStep, sysRun, List.foldl_cons, List.foldl_nil, sysStep, MSys.proj,
          getD_updAt_self _ _ _ hlen]
        cases s.subs.getD j .idle <;> rfl
      · exact ⟨[], by simp only [msysStep, updAt_oob _ _ (Nat.le_of_not_lt hlen), sysRun, List.foldl_nil]⟩
    · exact ⟨[], by simp only [msysStep, sysRun, List.foldl_nil, MSys.proj, getD_updAt_ne _ _ hk]⟩

/-- Every schedule of the many-subscriber system is, seen from subscriber `j`, a schedule of the
one-subscriber system. -/
theorem msysRun_proj (preds : List (Option (Pred ι μ))) (s : MSys ι μ) (sched : List (MStep ι μ)) (j : Nat) :
    ∃ sched' : List (Step ι μ),
      (msysRun true preds s sched).proj j = sysRun true (preds.getD j none) (s.proj j) sched' := by
  induction sched generalizing s with
  | nil => exact ⟨[], rfl⟩
  | cons st sched ih =>
    obtain ⟨a, ha⟩ := msysStep_proj preds s st j
    obtain ⟨b, hb⟩ := ih (msysStep true preds s st)
    refine ⟨a ++ b, ?_⟩
    have : msysRun true preds s (st :: sched) = msysRun true preds (msysStep true preds s st) sched := rfl
    rw [this, hb, ha]
    simp [sysRun, List.foldl_append]

end ScVerif.C08
